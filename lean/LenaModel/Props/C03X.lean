import LenaModel.Model.C03X
import LenaModel.Lemmas.C03X
import LenaModel.Props.C03
/-! # C03 — property theorems, part 2: exceptions of branches, and the objects after the run

`Model/C03X.lean` transcribes `Split.run` once more with the objects it leaves behind
(`Split.runFull`) and with branches that may raise (`SplitX.run`).  Here: both agree with
`Split.runTrace`; every object ends in a state that depends on that branch and the blocks
alone; an exception cuts the documented schedule and changes nothing before the cut. -/

namespace Lena.C03

variable {σ α ε : Type}

/-! ## 12. the objects after the run -/

theorem passes_noSource (blk : List α) (rest : List (List α)) (act : List (Branch σ α)) :
    ∀ b ∈ (passes (blk :: rest) act).2, b.kind ≠ .source := by
  have hos : (act.map some).filterMap id = act := by
    induction act with
    | nil => rfl
    | cons b r ih => simp [ih]
  obtain ⟨_, m2⟩ := passes_matrix (blk :: rest) (act.map some)
  rw [hos] at m2
  intro b' hb'
  rw [m2] at hb'
  simp only [List.mem_filterMap, List.mem_map, id] at hb'
  obtain ⟨o, ⟨o', ⟨b, _, rfl⟩, rfl⟩, ho⟩ := hb'
  obtain ⟨b0, h0, _, hk, _, hns⟩ := life_some (blk :: rest) _ _ ho
  cases h0
  rw [hk]
  exact hns (by simp)

/-- the extended transcription yields the same event trace as `Split.runTrace` -/
theorem runFull_trace (s : Split σ α) (hv : s.Valid) (flow : List α) :
    (s.runFull flow).1 = s.runTrace flow := by
  rw [loop_refines_spec s hv]
  unfold Split.runFull Split.runSpec
  obtain ⟨o1, o2, _, o4, o5⟩ := outerLoopG_eq_passesG (ε := Empty) s.copyBuf s.bufsize hv stepFull
    (flow.length + 1) flow s.branches [] [] true (by omega)
  obtain ⟨p1, p2, p3⟩ := passesG_stepFull (blocks s.bufsize flow) s.branches []
  simp only
  rw [o1, o2, p1, p2, o5 p3, List.nil_append, Bool.true_and]
  congr 1
  refine (finalPassG_finalFull _ _ ?_).1
  cases hbl : blocks s.bufsize flow with
  | nil => exact Or.inl rfl
  | cons blk rest => exact Or.inr (passes_noSource blk rest s.branches)

theorem finalFull_id (fwe : Bool) (b : Branch σ α) : (finalFull fwe b).2.1.id = b.id := by
  unfold finalFull
  cases b.kind <;> simp only
  · split <;> rfl
  · split <;> rfl

/-- AFTER THE RUN `self._seqs` holds every branch — kept or dropped — in the state its own life
over the blocks left it in: no branch influences the state of another one.  (This is what a
second `run` of the same `Split`, or the next block of an enclosing `Split` that runs this one as
a plain Sequence, starts from.) -/
theorem runFull_seqs (s : Split σ α) (hv : s.Valid) (hnd : (s.branches.map (·.id)).Nodup)
    (flow : List α) :
    (s.runFull flow).2 = s.branches.map (fun b => objAfter b (blocks s.bufsize flow)) := by
  unfold Split.runFull
  obtain ⟨_, o2, o3, o4, o5⟩ := outerLoopG_eq_passesG (ε := Empty) s.copyBuf s.bufsize hv stepFull
    (flow.length + 1) flow s.branches [] [] true (by omega)
  obtain ⟨_, p2, p3⟩ := passesG_stepFull (blocks s.bufsize flow) s.branches []
  have hfwe := o5 p3
  rw [Bool.true_and] at hfwe
  have hfin := (finalPassG_finalFull (blocks s.bufsize flow).isEmpty
    (passesG (ε := Empty) stepFull (blocks s.bufsize flow) s.branches []).act (by
      rw [p2]
      cases hbl : blocks s.bufsize flow with
      | nil => exact Or.inl rfl
      | cons blk rest => exact Or.inr (passes_noSource blk rest s.branches))).2.1
  simp only [hfwe, o2, o3, hfin]
  have hperm := passesG_perm (fun c => (finalFull (blocks s.bufsize flow).isEmpty c).2.1)
    (blocks s.bufsize flow) s.branches []
  rw [List.nil_append] at hperm
  unfold seqsAfter
  apply List.map_congr_left
  intro b hb
  have hid : ∀ c : Branch σ α, (objAfter c (blocks s.bufsize flow)).id = c.id :=
    fun c => objAfterG_id _ (finalFull_id _) _ c
  have hnd' : ((s.branches.map (fun b => objAfter b (blocks s.bufsize flow))).map (·.id)).Nodup := by
    rw [List.map_map]
    have : ((fun x => x.id) ∘ fun b => objAfter b (blocks s.bufsize flow)) = (fun x : Branch σ α => x.id) := by
      funext c; exact hid c
    rw [this]; exact hnd
  have e1 := findObj_perm b.id hperm.symm hnd'
  have e2 := findObj_map _ hid s.branches hnd b hb
  unfold objAfter at e1 e2 ⊢
  rw [← e1, e2]
  rfl

/-- `split.run(flow)` of the object-level model is `Split.run`, and leaves the objects of
`runFull_seqs` -/
theorem runObj_eq (s : Split σ α) (hv : s.Valid) (flow : List α) :
    (s.runObj flow).1 = s.run flow := by
  unfold Split.runObj Split.run
  split
  · rfl
  · simp [runFull_trace s hv]

/-! ## 13. a branch raises an exception other than LenaStopFill -/

theorem fillBufX_cons (i : Nat) (ops : OpsX σ α ε) (s s' : σ) (x : α) (xs : List α) (r : FillRes ε)
    (h : ops.fill s x = (s', r)) :
    fillBufX i ops s (x :: xs) = match r with
      | .stop => ([.fill i x true], s', .stop)
      | .raised e => ([.fill i x false], s', .raised e)
      | .ok => (.fill i x false :: (fillBufX i ops s' xs).1, (fillBufX i ops s' xs).2) := by
  cases r <;> simp [fillBufX, h]

/-- the fill loop with exceptions against the fill loop of the same methods with the
exceptions forgotten: identical until a foreign exception, which cuts it -/
theorem fillBufX_forget (i : Nat) (ops : OpsX σ α ε) :
    ∀ (s : σ) (xs : List α),
      match (fillBufX i ops s xs).2.2 with
      | .ok => (fillBufX i ops s xs).1 = (fillBuf i ops.forget s xs).1 ∧
          (fillBufX i ops s xs).2.1 = (fillBuf i ops.forget s xs).2.1 ∧ (fillBuf i ops.forget s xs).2.2 = false
      | .stop => (fillBufX i ops s xs).1 = (fillBuf i ops.forget s xs).1 ∧
          (fillBufX i ops s xs).2.1 = (fillBuf i ops.forget s xs).2.1 ∧ (fillBuf i ops.forget s xs).2.2 = true
      | .raised _ => (fillBufX i ops s xs).1 <+: (fillBuf i ops.forget s xs).1 := by
  intro s xs
  induction xs generalizing s with
  | nil => simp [fillBufX, fillBuf]
  | cons x xs ih =>
    obtain ⟨s', r, hf⟩ : ∃ s' r, ops.fill s x = (s', r) := ⟨_, _, rfl⟩
    rw [fillBufX_cons i ops s s' x xs r hf]
    cases r with
    | stop =>
      have hf' : ops.forget.fill s x = (s', true) := by simp [OpsX.forget, hf]
      rw [fillBuf_cons_stop i _ s s' x xs hf']
      simp
    | raised e =>
      have hf' : ops.forget.fill s x = (s', false) := by simp [OpsX.forget, hf]
      rw [fillBuf_cons_ok i _ s s' x xs hf']
      simp only
      exact List.prefix_cons_inj _ |>.mpr (List.nil_prefix)
    | ok =>
      have hf' : ops.forget.fill s x = (s', false) := by simp [OpsX.forget, hf]
      rw [fillBuf_cons_ok i _ s s' x xs hf']
      have := ih s'
      simp only
      cases hr : (fillBufX i ops s' xs).2.2 with
      | ok => rw [hr] at this; simp only at this ⊢; simp [this.1, this.2.1, this.2.2]
      | stop => rw [hr] at this; simp only at this ⊢; simp [this.1, this.2.1, this.2.2]
      | raised e => rw [hr] at this; simp only at this ⊢; exact (List.prefix_cons_inj _).mpr this

/-- the loop body with exceptions against the loop body with the exceptions forgotten -/
theorem stepX_forget (buf : List α) (b : BranchX σ α ε) :
    match (stepX buf b).2.2 with
    | .stay => (stepX buf b).1 = (stepBranch buf b.forget).1 ∧
        (stepBranch buf b.forget).2 = some (stepX buf b).2.1.forget
    | .drop => (stepX buf b).1 = (stepBranch buf b.forget).1 ∧ (stepBranch buf b.forget).2 = none
    | .abort _ => (stepX buf b).1 <+: (stepBranch buf b.forget).1 := by
  unfold stepX stepBranch
  cases hk : b.kind
  · -- source
    simp only [BranchX.forget, hk, OpsX.forget]
    cases (b.ops.call b.st).2.2 <;> simp [genRes, BranchX.forget, OpsX.forget]
  · -- fill/compute
    simp only [BranchX.forget, hk]
    have hf := fillBufX_forget b.id b.ops b.st buf
    cases hr : (fillBufX b.id b.ops b.st buf).2.2 with
    | ok =>
      rw [hr] at hf
      simp only at hf ⊢
      simp [hf.1, hf.2.1, hf.2.2, BranchX.forget]
    | stop =>
      rw [hr] at hf
      simp only at hf ⊢
      simp only [hf.2.2, ↓reduceIte, hf.1, hf.2.1]
      cases (b.ops.compute (fillBuf b.id b.ops.forget b.st buf).2.1).2.2 <;>
        simp [genRes, OpsX.forget]
    | raised e =>
      rw [hr] at hf
      simp only at hf ⊢
      split
      · exact hf.trans (List.prefix_append _ _)
      · exact hf
  · -- fill/request
    simp only [BranchX.forget, hk]
    have hf := fillBufX_forget b.id b.ops b.st buf
    cases hr : (fillBufX b.id b.ops b.st buf).2.2 with
    | ok =>
      rw [hr] at hf
      simp only at hf ⊢
      simp only [hf.2.2, hf.1, hf.2.1]
      cases (b.ops.request (fillBuf b.id b.ops.forget b.st buf).2.1).2.2 <;>
        simp [genRes, OpsX.forget, BranchX.forget]
    | stop =>
      rw [hr] at hf
      simp only at hf ⊢
      simp only [hf.2.2, hf.1, hf.2.1]
      cases (b.ops.request (fillBuf b.id b.ops.forget b.st buf).2.1).2.2 <;>
        simp [genRes, OpsX.forget]
    | raised e =>
      rw [hr] at hf
      simp only at hf ⊢
      exact hf.trans (List.prefix_append _ _)
  · -- sequence
    simp only [BranchX.forget, hk, OpsX.forget]
    cases (b.ops.run b.st buf).2.2 <;> simp [genRes, BranchX.forget, OpsX.forget]

theorem foldG_stepX (buf : List α) (l : List (BranchX σ α ε)) :
    match (foldG (stepX buf) l).exc with
    | none => (foldG (stepX buf) l).events = (foldB (stepBranch buf) (l.map BranchX.forget)).1 ∧
        (foldG (stepX buf) l).act.map BranchX.forget = (foldB (stepBranch buf) (l.map BranchX.forget)).2
    | some _ => (foldG (stepX buf) l).events <+: (foldB (stepBranch buf) (l.map BranchX.forget)).1 := by
  induction l with
  | nil => simp [foldG, foldB]
  | cons b r ih =>
    have hs := stepX_forget buf b
    obtain ⟨ev, b', res, he⟩ : ∃ ev b' res, stepX buf b = (ev, b', res) := ⟨_, _, _, rfl⟩
    rw [he] at hs
    cases res with
    | stay =>
      simp only at hs
      simp only [foldG, he, List.map_cons, foldB, ← hs.1, hs.2]
      cases hx : (foldG (stepX buf) r).exc with
      | none => rw [hx] at ih; simp only at ih ⊢; simp [ih.1, ih.2]
      | some e => rw [hx] at ih; simp only at ih ⊢; exact (List.prefix_append_right_inj _).mpr ih
    | drop =>
      simp only at hs
      simp only [foldG, he, List.map_cons, foldB, ← hs.1, hs.2]
      cases hx : (foldG (stepX buf) r).exc with
      | none => rw [hx] at ih; simp only at ih ⊢; simp [ih.1, ih.2]
      | some e => rw [hx] at ih; simp only at ih ⊢; exact (List.prefix_append_right_inj _).mpr ih
    | abort e =>
      simp only at hs
      simp only [foldG, he, List.map_cons, foldB]
      exact hs.trans (List.prefix_append _ _)

theorem passesG_stepX (bl : List (List α)) :
    ∀ (act dropped : List (BranchX σ α ε)),
      match (passesG stepX bl act dropped).exc with
      | none => (passesG stepX bl act dropped).events = (passes bl (act.map BranchX.forget)).1 ∧
          (passesG stepX bl act dropped).act.map BranchX.forget = (passes bl (act.map BranchX.forget)).2
      | some _ => (passesG stepX bl act dropped).events <+: (passes bl (act.map BranchX.forget)).1 := by
  induction bl with
  | nil => intro act dropped; simp [passesG, passes]
  | cons blk rest ih =>
    intro act dropped
    have hf := foldG_stepX blk act
    simp only [passesG, passes]
    cases hx : (foldG (stepX blk) act).exc with
    | some e =>
      rw [hx] at hf
      simp only at hf ⊢
      exact hf.trans (List.prefix_append _ _)
    | none =>
      rw [hx] at hf
      simp only at hf ⊢
      have := ih (foldG (stepX blk) act).act (dropped ++ (foldG (stepX blk) act).dropped)
      rw [hf.2] at this
      cases hy : (passesG stepX rest (foldG (stepX blk) act).act (dropped ++ (foldG (stepX blk) act).dropped)).exc with
      | none => rw [hy] at this; simp only at this ⊢; simp [hf.1, this.1, this.2]
      | some e =>
        rw [hy] at this
        simp only at this ⊢
        rw [hf.1]
        exact (List.prefix_append_right_inj _).mpr this

theorem finalPassG_finalX (fwe : Bool) (l : List (BranchX σ α ε)) :
    match (finalPassG (finalX fwe) l).2.2 with
    | none => (finalPassG (finalX fwe) l).1 = finalPass fwe (l.map BranchX.forget)
    | some _ => (finalPassG (finalX fwe) l).1 <+: finalPass fwe (l.map BranchX.forget) := by
  induction l with
  | nil => simp [finalPassG, finalPass]
  | cons b r ih =>
    cases hk : b.kind with
    | source =>
      cases fwe with
      | false => simp [finalPassG, finalX, finalPass, hk, BranchX.forget]
      | true =>
        simp only [finalPassG, finalX, hk, ↓reduceIte, List.map_cons, finalPass, BranchX.forget]
        cases hc : (b.ops.call b.st).2.2 with
        | some e => simp [OpsX.forget, List.prefix_append]
        | none =>
          simp only [Option.map_none]
          cases hx : (finalPassG (finalX true) r).2.2 with
          | none => rw [hx] at ih; simp only at ih ⊢; simp [ih, OpsX.forget, BranchX.forget]
          | some e =>
            rw [hx] at ih; simp only at ih ⊢
            simp only [OpsX.forget, List.cons_append]
            exact (List.prefix_cons_inj _).mpr ((List.prefix_append_right_inj _).mpr ih)
    | fillCompute =>
      simp only [finalPassG, finalX, hk, List.map_cons, finalPass, BranchX.forget]
      cases hc : (b.ops.compute b.st).2.2 with
      | some e => simp [OpsX.forget, List.prefix_append]
      | none =>
        simp only [Option.map_none]
        cases hx : (finalPassG (finalX fwe) r).2.2 with
        | none => rw [hx] at ih; simp only at ih ⊢; simp [ih, OpsX.forget, BranchX.forget]
        | some e =>
          rw [hx] at ih; simp only at ih ⊢
          simp only [OpsX.forget, List.cons_append]
          exact (List.prefix_cons_inj _).mpr ((List.prefix_append_right_inj _).mpr ih)
    | fillRequest =>
      cases fwe with
      | false =>
        simp only [finalPassG, finalX, hk, Bool.false_eq_true, ↓reduceIte, List.map_cons, finalPass,
          BranchX.forget, List.nil_append]
        exact ih
      | true =>
        simp only [finalPassG, finalX, hk, ↓reduceIte, List.map_cons, finalPass, BranchX.forget]
        cases hc : (b.ops.request b.st).2.2 with
        | some e => simp [OpsX.forget, List.prefix_append]
        | none =>
          simp only [Option.map_none]
          cases hx : (finalPassG (finalX true) r).2.2 with
          | none => rw [hx] at ih; simp only at ih ⊢; simp [ih, OpsX.forget, BranchX.forget]
          | some e =>
            rw [hx] at ih; simp only at ih ⊢
            simp only [OpsX.forget, List.cons_append]
            exact (List.prefix_cons_inj _).mpr ((List.prefix_append_right_inj _).mpr ih)
    | sequence =>
      cases fwe with
      | false =>
        simp only [finalPassG, finalX, hk, Bool.false_eq_true, ↓reduceIte, List.map_cons, finalPass,
          BranchX.forget, List.nil_append]
        exact ih
      | true =>
        simp only [finalPassG, finalX, hk, ↓reduceIte, List.map_cons, finalPass, BranchX.forget]
        cases hc : (b.ops.run b.st []).2.2 with
        | some e => simp [OpsX.forget, List.prefix_append]
        | none =>
          simp only [Option.map_none]
          cases hx : (finalPassG (finalX true) r).2.2 with
          | none => rw [hx] at ih; simp only at ih ⊢; simp [ih, OpsX.forget, BranchX.forget]
          | some e =>
            rw [hx] at ih; simp only at ih ⊢
            simp only [OpsX.forget, List.cons_append]
            exact (List.prefix_cons_inj _).mpr ((List.prefix_append_right_inj _).mpr ih)

/-- `SplitX` with a proper `bufsize` -/
def SplitX.Valid (s : SplitX σ α ε) : Prop := s.bufsize ≠ some 0 ∧ s.badBufsize = false

/-- WHAT IS THE SCHEDULE WHEN A BRANCH RAISES?  The documented one, cut: the events (invocations
and yielded values) of `Split.run` with raising branches are a prefix of the schedule of the
same branches with the exceptions forgotten; when the run ends normally they are that whole
schedule.  Nothing is reordered, skipped or repeated before the exception, and nothing happens
after it. -/
theorem runX_prefix (s : SplitX σ α ε) (hv : s.Valid) (flow : List α) :
    (s.run flow).trace <+: s.forget.runTrace flow ∧
    ((s.run flow).term = .done → (s.run flow).trace = s.forget.runTrace flow) := by
  obtain ⟨hb, hbad⟩ := hv
  have hvf : s.forget.Valid := hb
  rw [loop_refines_spec s.forget hvf]
  unfold SplitX.run Split.runSpec
  simp only [hbad, Bool.false_eq_true, ↓reduceIte, SplitX.forget]
  obtain ⟨o1, o2, _, o4, o5⟩ := outerLoopG_eq_passesG s.copyBuf s.bufsize hb (stepX (σ := σ) (α := α) (ε := ε))
    (flow.length + 1) flow s.branches [] [] true (by omega)
  have hp := passesG_stepX (blocks s.bufsize flow) s.branches ([] : List (BranchX σ α ε))
  rw [o4]
  cases hx : (passesG stepX (blocks s.bufsize flow) s.branches ([] : List (BranchX σ α ε))).exc with
  | some ie =>
    obtain ⟨i, e⟩ := ie
    rw [hx] at hp
    simp only at hp ⊢
    rw [o1, List.nil_append]
    exact ⟨hp.trans (List.prefix_append _ _), fun h => by cases h⟩
  | none =>
    rw [hx] at hp
    simp only at hp ⊢
    have hfwe := o5 hx
    rw [Bool.true_and] at hfwe
    rw [o1, o2, hfwe, List.nil_append, hp.1]
    have hfin := finalPassG_finalX (blocks s.bufsize flow).isEmpty
      (passesG stepX (blocks s.bufsize flow) s.branches ([] : List (BranchX σ α ε))).act
    rw [hp.2] at hfin
    cases hy : (finalPassG (finalX (blocks s.bufsize flow).isEmpty)
        (passesG stepX (blocks s.bufsize flow) s.branches ([] : List (BranchX σ α ε))).act).2.2 with
    | none =>
      rw [hy] at hfin
      simp only at hfin ⊢
      rw [hfin]
      exact ⟨List.prefix_refl _, fun _ => rfl⟩
    | some fe =>
      rw [hy] at hfin
      simp only at hfin ⊢
      refine ⟨(List.prefix_append_right_inj _).mpr hfin, ?_⟩
      cases fe <;> (intro h; cases h)

/-- a `bufsize` like `2.0` passes `Split.__init__` but `Split.run` raises `ValueError` before it
invokes any branch or yields anything -/
theorem runX_bad_bufsize (s : SplitX σ α ε) (h : s.badBufsize = true) (flow : List α) :
    (s.run flow).trace = [] ∧ (s.run flow).term = .isliceError ∧ (s.run flow).seqs = s.branches := by
  unfold SplitX.run
  simp [h]

/-- a `bufsize` argument accepted by `Split.__init__` gives blocks of at least one value; the
only accepted arguments `itertools.islice` then rejects are floats with an integral value -/
theorem bufArgInit_valid (a : BufArg) (bs : Option Nat) (bad : Bool) (h : bufArgInit a = .ok (bs, bad)) :
    bs ≠ some 0 ∧ (bad = true ↔ ∃ i, a = .floatInt i) := by
  cases a with
  | none => simp [bufArgInit] at h; obtain ⟨rfl, rfl⟩ := h; simp
  | int i =>
    simp only [bufArgInit] at h
    split at h
    · cases h
    · simp only [Except.ok.injEq, Prod.mk.injEq] at h; obtain ⟨rfl, rfl⟩ := h
      refine ⟨?_, by simp⟩
      simp only [ne_eq, Option.some.injEq]; omega
  | floatInt i =>
    simp only [bufArgInit] at h
    split at h
    · cases h
    · simp only [Except.ok.injEq, Prod.mk.injEq] at h; obtain ⟨rfl, rfl⟩ := h
      refine ⟨?_, by simp⟩
      simp only [ne_eq, Option.some.injEq]; omega
  | floatFrac => simp [bufArgInit] at h
  | bool b =>
    cases b with
    | true => simp [bufArgInit] at h; obtain ⟨rfl, rfl⟩ := h; simp
    | false => simp [bufArgInit] at h

/-! ## 14. every branch is given the flow, in order, once -/

theorem received_append (l₁ l₂ : List (Ev α)) : received (l₁ ++ l₂) = received l₁ ++ received l₂ := by
  induction l₁ with
  | nil => rfl
  | cons e r ih => cases e <;> simp [received, ih]

theorem received_outs (i : Nat) (vals : List α) : received (outs i vals) = [] := by
  induction vals with
  | nil => rfl
  | cons v r ih => simpa [outs, received] using ih

/-- the fill loop hands over the values of the buffer in order, up to and including the one
that raised `LenaStopFill`; all of them if none raised -/
theorem received_fillBuf (i : Nat) (ops : Ops σ α) :
    ∀ (s : σ) (xs : List α), received (fillBuf i ops s xs).1 <+: xs ∧
      ((fillBuf i ops s xs).2.2 = false → received (fillBuf i ops s xs).1 = xs) := by
  intro s xs
  induction xs generalizing s with
  | nil => simp [fillBuf, received]
  | cons x xs ih =>
    obtain ⟨s', st, hf⟩ : ∃ s' st, ops.fill s x = (s', st) := ⟨_, _, rfl⟩
    cases st with
    | true =>
      rw [fillBuf_cons_stop i ops s s' x xs hf]
      simp [received]
    | false =>
      rw [fillBuf_cons_ok i ops s s' x xs hf]
      obtain ⟨i1, i2⟩ := ih s'
      exact ⟨by simpa [received] using (List.prefix_cons_inj x).mpr i1, fun h => by simp [received, i2 h]⟩

theorem received_frTrace (i : Nat) (ops : Ops σ α) (bl : List (List α)) :
    ∀ s, received (frTrace i ops s bl) <+: bl.flatten := by
  induction bl with
  | nil => intro s; simp [frTrace, received]
  | cons blk rest ih =>
    intro s
    obtain ⟨f1, f2⟩ := received_fillBuf i ops s blk
    simp only [frTrace, received_append, received, received_outs, List.nil_append, List.flatten_cons]
    by_cases h : (fillBuf i ops s blk).2.2 = true
    · simp only [h, ↓reduceIte, received, List.append_nil]
      exact f1.trans (List.prefix_append _ _)
    · simp only [h, Bool.false_eq_true, ↓reduceIte]
      rw [f2 (by simpa using h), List.append_nil]
      exact (List.prefix_append_right_inj _).mpr (ih _)

theorem received_seqTrace (i : Nat) (ops : Ops σ α) (bl : List (List α)) :
    ∀ s, received (seqTrace i ops s bl) = bl.flatten := by
  induction bl with
  | nil => intro s; rfl
  | cons blk rest ih =>
    intro s
    simp [seqTrace, received, received_append, received_outs, ih]

/-- CONSERVATION: whatever its kind, a branch is given a prefix of the flow — the values in
their order, none twice, none skipped; a plain Sequence gets the whole flow (cut into the
blocks), a fill branch everything up to the value on which it signalled `LenaStopFill`, a
Source nothing -/
theorem branch_receives_prefix (b : Branch σ α) (bl : List (List α)) :
    received (branchTrace b bl) <+: bl.flatten := by
  rw [branchTrace_closedForm]
  unfold closedForm
  cases b.kind with
  | source => simp [received, received_outs]
  | fillCompute =>
    simp only [fcTrace, received_append, received, received_outs, List.append_nil]
    exact (received_fillBuf _ _ _ _).1
  | fillRequest =>
    simp only
    split
    · simp [received, received_outs]
    · exact received_frTrace _ _ _ _
  | sequence =>
    simp only
    split
    · simp [received, received_outs]
    · rw [received_seqTrace]
      exact List.prefix_refl _

theorem sequence_receives_all (b : Branch σ α) (hk : b.kind = .sequence) (bl : List (List α)) :
    received (branchTrace b bl) = bl.flatten := by
  rw [branchTrace_closedForm]
  unfold closedForm
  simp only [hk]
  split
  · rename_i h
    have : bl = [] := by cases bl <;> simp_all
    subst this
    simp [received, received_outs]
  · exact received_seqTrace _ _ _ _

/-- in a `Split.run`: the values branch `b` is given are a prefix of the flow -/
theorem split_branch_receives (s : Split σ α) (hv : s.Valid) (hnd : (s.branches.map (·.id)).Nodup)
    (b : Branch σ α) (hb : b ∈ s.branches) (flow : List α) :
    received (proj b.id (s.runTrace flow)) <+: flow := by
  rw [projection s hv hnd b hb]
  have := branch_receives_prefix b (blocks s.bufsize flow)
  rwa [blocks_flatten s.bufsize hv] at this

/-! ## 15. the output in the words of the property; running a Split twice -/

/-- the yielded values, block by block, inside a block branch by branch, then the final results
branch by branch -/
theorem run_outputs_blockwise (s : Split σ α) (hv : s.Valid) (flow : List α) (hne : s.branches ≠ []) :
    s.run flow =
      (List.range (blocks s.bufsize flow).length).flatMap (fun k =>
        s.branches.flatMap (fun b => outputs (contribution b (blocks s.bufsize flow) k))) ++
      s.branches.flatMap (fun b => outputs (finalContribution b (blocks s.bufsize flow))) := by
  rw [run_outputs_eq_schedule s hv flow hne]
  unfold Split.schedule
  simp only [outputs_append, outputs_flatMap]

/-- RUNNING THE SAME SPLIT AGAIN: the second run is the run of a Split whose branches are the
objects the first run left behind, each of which is determined by its own branch and the blocks
of the first flow -/
theorem run_twice (s : Split σ α) (hv : s.Valid) (hnd : (s.branches.map (·.id)).Nodup)
    (hne : s.branches ≠ []) (f₁ f₂ : List α) :
    runsObj s [f₁, f₂] =
      [s.run f₁,
       ({ s with branches := s.branches.map (fun b => objAfter b (blocks s.bufsize f₁)) } : Split σ α).run f₂] := by
  have he : s.branches.isEmpty = false := by
    cases h : s.branches with
    | nil => exact absurd h hne
    | cons _ _ => rfl
  have h1 : (s.runObj f₁).1 = s.run f₁ := runObj_eq s hv f₁
  have h2 : (s.runObj f₁).2 = { s with branches := s.branches.map (fun b => objAfter b (blocks s.bufsize f₁)) } := by
    unfold Split.runObj
    simp only [he, Bool.false_eq_true, ↓reduceIte, runFull_seqs s hv hnd]
  simp only [runsObj, h1, h2]
  congr 1
  congr 1
  exact runObj_eq ({ s with branches := s.branches.map (fun b => objAfter b (blocks s.bufsize f₁)) } : Split σ α) hv f₂

/-- a Split run as a plain-Sequence branch (`splitRunOps`): each `run(buf)` of the enclosing
Split's loop is `Split.run` of the nested one, on the objects its previous runs left -/
theorem splitRunOps_run (s : Split σ α) (hv : s.Valid) (buf : List α) :
    (splitRunOps.run s buf).1 = s.run buf := runObj_eq s hv buf

/-! ## 16. non-vacuity of the hypotheses used in this file -/

section demoX

/-- `fill` raises `ValueError` on the value 3; `request` raises `KeyError` after its value -/
def boomOps : OpsX (List Nat) Nat String :=
  { call := fun s => ([7], s, none)
    fill := fun s x => if x = 3 then (s, .raised "ValueError") else (s ++ [x], .ok)
    compute := fun s => ([s.sum], s, none)
    request := fun s => ([s.sum], [], some "KeyError")
    run := fun s xs => (xs, s, none) }

def demoSplitX : SplitX (List Nat) Nat String :=
  { branches := [⟨0, .sequence, boomOps, []⟩, ⟨1, .fillCompute, boomOps, []⟩], bufsize := some 2, copyBuf := true }

example : demoSplitX.Valid := by simp [SplitX.Valid, demoSplitX]
-- blocks [1,2] [3,4]: the Sequence yields both blocks, then `fill(3)` of the second branch raises
example : (demoSplitX.run [1, 2, 3, 4]).term = .raised 1 "ValueError" := by decide
example : outputs (demoSplitX.run [1, 2, 3, 4]).trace = [1, 2, 3, 4] := by decide
-- … a proper prefix of the schedule with the exception forgotten (which goes on to `compute()`)
example : outputs (demoSplitX.forget.runTrace [1, 2, 3, 4]) = [1, 2, 3, 4, 7] := by decide
-- the raising object is left in `self._seqs` as its last call left it
example : ((demoSplitX.run [1, 2, 3, 4]).seqs.map (·.st)) = [[], [1, 2]] := by decide
-- a generator that raises after yielding: the value stays yielded
example : (({ branches := [⟨0, .fillRequest, boomOps, []⟩], bufsize := none, copyBuf := false } :
    SplitX (List Nat) Nat String).run [5]).term = .raised 0 "KeyError" := by decide
example : outputs (({ branches := [⟨0, .fillRequest, boomOps, []⟩], bufsize := none, copyBuf := false } :
    SplitX (List Nat) Nat String).run [5]).trace = [5] := by decide

-- the objects after a run of the four-kind Split of `Props/C03.lean`: `runFull_seqs`, `run_twice`
example : ((demoSplit (some 2)).runFull [1, 2, 3]).2.map (·.st) = [[], [], [], [1, 2]] := by decide
example : runsObj (demoSplit (some 2)) [[1, 2, 3], [9]] =
    [[101, 102, 3, 7, 8, 103, 3, 3], [109, 9, 7, 8, 3]] := by decide
example : received (proj 3 ((demoSplit (some 2)).runTrace [1, 2, 3, 4])) = [1, 2, 3] := by decide

end demoX

end Lena.C03
