import LenaModel.Props.C03
/-! # C03 — property theorems, part 7 (seed round L): a Split object that is a copy

*"a Split whose branches share one type offers that type's methods (fill and compute, fill and
request) with the same meaning"* — for EVERY Split object, in particular one obtained by
`copy.deepcopy` from a fresh or partly filled Split (what `SplitIntoBins` does once per bin).
A deep copy is a Split whose branches are in the state the original's branches were in when the
copy was made; from then on its `fill` acts on ITS branches.  In the model the state of a Split
is the list of its branches, so "a copy made after the fills `pre`" is the value
`(splitFillAll brs pre).1`.  The theorems say that driving such an object further means what the
property says: its results are those of the branches filled with the whole history `pre ++ rest`
— whatever was filled into the original after the copy was made (the original's later values
`other` do not occur in the statement).  The correspondence (op `copied` of
`harness/props/c03.py`) compares the real copy and the real original, filled alternately, with
`splitFillAll`/`splitCompute`/`splitFrBlocks` over their own histories. -/

namespace Lena.C03

variable {σ α : Type}

/-! ## 26. resuming a partly filled Split (= driving a copy of it) -/

/-- the common `fill` over a history `xs ++ ys`, ALL states and stop points: if a branch signalled
`LenaStopFill` during `xs` the caller has left there; otherwise the Split in the state reached
after `xs` (the original going on, or a copy of it) is filled with `ys`. -/
theorem splitFillAll_append (xs ys : List α) :
    ∀ (brs : List (Branch σ α)), splitFillAll brs (xs ++ ys) =
      if (splitFillAll brs xs).2 then splitFillAll brs xs
      else splitFillAll (splitFillAll brs xs).1 ys := by
  induction xs with
  | nil => intro brs; simp [splitFillAll]
  | cons x xs ih =>
    intro brs
    obtain ⟨brs', st, h⟩ : ∃ brs' st, splitFill x brs = (brs', st) := ⟨_, _, rfl⟩
    cases st with
    | true => simp [splitFillAll, h]
    | false => simp only [List.cons_append, splitFillAll, h]; exact ih brs'

/-- no stop signal over the whole history iff none before the copy and none after it -/
theorem splitFillAll_append_ok (xs ys : List α) (brs : List (Branch σ α)) :
    (splitFillAll brs (xs ++ ys)).2 = false ↔
      (splitFillAll brs xs).2 = false ∧ (splitFillAll (splitFillAll brs xs).1 ys).2 = false := by
  rw [splitFillAll_append]
  by_cases h : (splitFillAll brs xs).2 = true
  · simp [h]
  · simp [h]

/-- COPY OF A FILL/COMPUTE SPLIT: the Split was filled with `pre`, copied, the copy filled with
`rest` (no branch signals `LenaStopFill`): `compute()` of the copy yields, in branch order, the
`compute()` results of each branch filled with `pre ++ rest` — nothing else (not the values
given to the original afterwards), nothing less (not the results of unfilled branches). -/
theorem copied_fill_compute (brs : List (Branch σ α)) (pre rest : List α)
    (hok : (splitFillAll brs (pre ++ rest)).2 = false) :
    (splitCompute (splitFillAll (splitFillAll brs pre).1 rest).1).1 =
      brs.flatMap (fun b => ((filled b (pre ++ rest)).ops.compute (filled b (pre ++ rest)).st).1) := by
  have h1 := ((splitFillAll_append_ok pre rest brs).mp hok).1
  have e : splitFillAll (splitFillAll brs pre).1 rest = splitFillAll brs (pre ++ rest) := by
    rw [splitFillAll_append]; simp [h1]
  rw [e, (splitFillAll_iff (pre ++ rest) brs).2 hok, splitCompute_fst, List.flatMap_map]

/-- COPY OF A FILL/REQUEST SPLIT: likewise for `request()`. -/
theorem copied_fill_request (brs : List (Branch σ α)) (pre rest : List α)
    (hok : (splitFillAll brs (pre ++ rest)).2 = false) :
    (splitRequest (splitFillAll (splitFillAll brs pre).1 rest).1).1 =
      brs.flatMap (fun b => ((filled b (pre ++ rest)).ops.request (filled b (pre ++ rest)).st).1) := by
  have h1 := ((splitFillAll_append_ok pre rest brs).mp hok).1
  have e : splitFillAll (splitFillAll brs pre).1 rest = splitFillAll brs (pre ++ rest) := by
    rw [splitFillAll_append]; simp [h1]
  rw [e, (splitFillAll_iff (pre ++ rest) brs).2 hok, splitRequest_fst, List.flatMap_map]

/-- a copy asked after a `request()` of the original (block-wise use): the blocks of the history
before the copy, then the copy's own blocks -/
theorem splitFrBlocks_cons_ok (brs : List (Branch σ α)) (blk : List α) (bl : List (List α))
    (hok : (splitFillAll brs blk).2 = false) :
    splitFrBlocks brs (blk :: bl) =
      ((splitRequest (splitFillAll brs blk).1).1 ::
        (splitFrBlocks (splitRequest (splitFillAll brs blk).1).2 bl).1,
       (splitFrBlocks (splitRequest (splitFillAll brs blk).1).2 bl).2) := by
  obtain ⟨brs', st, h⟩ : ∃ brs' st, splitFillAll brs blk = (brs', st) := ⟨_, _, rfl⟩
  rw [h] at hok
  simp only at hok
  subst hok
  simp [splitFrBlocks, h]

-- non-vacuity: `demoFC` = two fill/compute branches (states [] and [5]) that take two values each
example : (splitFillAll demoFC ([1] ++ ([] : List Nat))).2 = false := by decide
-- the copy made after `fill(1)`, never filled again, computes [1, 6]; the original's initial
-- state gives [0, 5] (what the never-filled branches of the copy of seed C03-L compute)
example : (splitCompute (splitFillAll (splitFillAll demoFC [1]).1 []).1).1 = [1, 6] := by decide
example : (splitCompute demoFC).1 = [0, 5] := by decide
example : (splitFillAll demoFR ([1] ++ [2])).2 = false := by decide
example : (splitRequest (splitFillAll (splitFillAll demoFR [1]).1 [2]).1).1 = [3, 3] := by decide
-- a stop signal before the copy: the history ends there
example : (splitFillAll demoFC ([1, 2] ++ [3])).2 = true ∧
    (splitFillAll demoFC ([1, 2] ++ [3])).1.map (·.st) = (splitFillAll demoFC [1, 2]).1.map (·.st) := by decide

end Lena.C03
