import LenaModel.Model.C18
import LenaModel.Model.C18Spec
import LenaModel.Lemmas.C18
/-! # C18 — property theorems: Cache replays exactly the stored flow and never serves a truncated one

All theorems are about the machine of `Model/C18.lean` (`build`, `drive`, `close`, `runOp`, `dropOp`, `exec`),
for every file system, every source, every pipeline whose caches use distinct files (`Distinct`), every way
of putting it together (`Mode`: inside a `Source`, inside a `Sequence`, hoisted by `Cache.alter_sequence`, via
`lena.core.alter_sequence`, a bare element), every demand `k` of the consumer and every history of operations
— no bound on lengths.  `pipeFlow`/`elsFlow` (Model, "Reference semantics") say what a pipeline means.

Sentences of the property:
1. "The first complete run through a Cache yields the flow unaltered and stores it" — `run_yields_flow`,
   `first_run_transparent`, `first_run_stores`, `first_run_does_not_touch_cache_file`;
2. "every later run yields exactly the stored values in the original order without pulling a single value
   from, or running any element of, the upstream — whether the Cache sits inside a Sequence or is hoisted into
   a Source by alter_sequence" — `replay_exact_no_pull`, `first_complete_run_then_replay`, `hoisted_same_chain`,
   and over histories `stored_cache_persists`, `every_later_run_replays`;
3. "recompute=True or drop_cache() restore the first-run behaviour" — `recompute_restores_first_run`,
   `drop_restores_first_run`;
4. "If the first run stops at any point before the flow is exhausted … no later run presents the stored prefix
   as if it were the complete flow" — `interrupted_run_keeps_cache_files`, `cache_complete`,
   `later_run_serves_complete_flow`; beyond the statement: `closed_run_leaves_no_tmp` (the temporary file is
   removed on abort and renamed on exhaustion).

The proofs rest on `Lemmas/C18.lean`: `nextUppers_spec` (one `next` of the generator stack refines the "remaining
flow" of the reference semantics and keeps the invariant `Track` between a temporary file and the flow that
enters its cache) and `drive_spec` (its iteration over the consumer's pulls). -/

namespace Lena.C18

/-! ## Sentence 2a: hoisting -/

/-- **hoisting changes nothing.**  (Content: for `Cache.alter_sequence` (`.hoist`, lemma `buildHoisted_eq`) and the
bare element (`.bare`).  `.source` and `.sequence` are the same expression in the model, and for
`lena.core.alter_sequence` (`.viaMeta`) the statement rests on the transcription `metaAlter`, both branches of which
return the sequence it was given — as meta.py:6-28 does; the `changed` flag computed there is dead code.)
However the pipeline is put together — `Source(src, *els)()`,
`Sequence(*els).run(src())`, the result of `Cache.alter_sequence`, the result of `lena.core.alter_sequence`, a bare
`Cache` — the generators that run are the same, hence so is everything observable. -/
theorem hoisted_same_chain (mode : Mode) (fs : FS) (s : SrcSpec) (els : List ElSpec) (hm : ModeOk mode els) :
    build mode fs s els = build .sequence fs s els :=
  build_eq' mode fs s els hm

example : ModeOk .hoist [.map 1 none, .cache 0 false] := Or.inl (by decide)
example : ModeOk .bare [.cache 0 true] := Or.inr ⟨0, true, rfl⟩

/-- a healthy chain is built from every pipeline with distinct caches -/
theorem chainOk_build (mode : Mode) (fs : FS) (s : SrcSpec) (els : List ElSpec) (hm : ModeOk mode els)
    (hd : Distinct els) : ChainOk fs (build mode fs s els) := by
  rw [build_eq' mode fs s els hm]
  exact chainOk_buildEls fs els 0 _ hd (by simp [dumpIds]) ⟨trivial, by simp [freshSrc, BotOk]⟩

theorem rem_build (mode : Mode) (fs : FS) (s : SrcSpec) (els : List ElSpec) (hm : ModeOk mode els) :
    rem fs (build mode fs s els) = pipeFlow fs s els := by
  rw [build_eq' mode fs s els hm, rem_buildEls, rem_freshSrc]; rfl

/-! ## Sentence 1: a run yields the flow unaltered -/

/-- **a run yields the flow unaltered** (first run or replay, any crash point): a consumer that makes at most
`k` pulls receives exactly the first `k` values of the pipeline's flow — the caches that are filled on the way
alter nothing — and sees the end of the flow (normal or exception) iff it asks for more. -/
theorem run_yields_flow (mode : Mode) (fs : FS) (s : SrcSpec) (els : List ElSpec) (k : Nat)
    (hm : ModeOk mode els) (hd : Distinct els) :
    (runPipe mode fs s els k).outs.map (·.1) = (pipeFlow fs s els).vals.take k ∧
    (runPipe mode fs s els k).end_ = endOf (pipeFlow fs s els) k := by
  have sp := drive_spec k fs _ (chainOk_build mode fs s els hm hd)
  unfold DriveSpec at sp
  rw [rem_build mode fs s els hm] at sp
  obtain ⟨h1, _, _, _, h5, h6, h7⟩ := sp
  refine ⟨h1, ?_⟩
  unfold endOf
  by_cases hk : k ≤ (pipeFlow fs s els).vals.length
  · simp only [hk, if_true]; exact (h5 hk).1
  · simp only [hk, if_false]
    cases he : (pipeFlow fs s els).exc with
    | none => exact (h6 (by omega) he).1
    | some e => exact (h7 e (by omega) he).1

example : ((runPipe .source FS.empty ⟨[1, 2, 3], none⟩ [.map 1 none, .cache 0 false, .map 2 none] 2).outs.map (·.1),
    (runPipe .source FS.empty ⟨[1, 2, 3], none⟩ [.map 1 none, .cache 0 false, .map 2 none] 2).end_)
    = ([112, 212], .stopped) := by decide

/-- the run ends normally exactly when the flow does and the consumer asks for more than it holds -/
theorem run_exhausted_iff (mode : Mode) (fs : FS) (s : SrcSpec) (els : List ElSpec) (k : Nat)
    (hm : ModeOk mode els) (hd : Distinct els) :
    (runPipe mode fs s els k).end_ = .exhausted ↔
      (pipeFlow fs s els).vals.length < k ∧ (pipeFlow fs s els).exc = none := by
  rw [(run_yields_flow mode fs s els k hm hd).2]
  unfold endOf
  by_cases hk : k ≤ (pipeFlow fs s els).vals.length
  · simp [hk]; omega
  · cases he : (pipeFlow fs s els).exc <;> simp [hk]; omega

theorem elsFlow_eraseCaches (fs : FS) : ∀ (els : List ElSpec) (f : Flow), NoFilled fs els →
    elsFlow fs els f = elsFlow fs (eraseCaches els) f
  | [], _, _ => rfl
  | .map a r :: els, f, nf => by
    simp only [elsFlow, eraseCaches]
    exact elsFlow_eraseCaches fs els _ (fun c rc h => nf c rc (by simp [h]))
  | .cache c rc :: els, f, nf => by
    have hx : cacheExists fs c rc = false := nf c rc (by simp)
    simp only [elsFlow, eraseCaches, hx, Bool.false_eq_true, if_false]
    exact elsFlow_eraseCaches fs els _ (fun c' rc' h => nf c' rc' (by simp [h]))

/-- **a first run is transparent**: when no cache of the pipeline is replayed (no files, or `recompute`), the
consumer receives what the pipeline *without its Cache elements* produces — values, order, and end. -/
theorem first_run_transparent (mode : Mode) (fs : FS) (s : SrcSpec) (els : List ElSpec) (k : Nat)
    (hm : ModeOk mode els) (hd : Distinct els) (hnf : NoFilled fs els) :
    (runPipe mode fs s els k).outs.map (·.1) = (pipeFlow fs s (eraseCaches els)).vals.take k ∧
    (runPipe mode fs s els k).end_ = endOf (pipeFlow fs s (eraseCaches els)) k := by
  have h := run_yields_flow mode fs s els k hm hd
  have e : pipeFlow fs s els = pipeFlow fs s (eraseCaches els) := elsFlow_eraseCaches fs els _ hnf
  rw [e] at h
  exact h

example : NoFilled FS.empty [.map 1 none, .cache 0 false, .cache 1 true] := fun c rc _ => by
  cases rc <;> simp [cacheExists, FS.empty]

/-- **while a run is yielding, no cache file is touched**: right after each value the consumer receives,
every cache file (`final`) is what it was before the run (on a first run: absent) -/
theorem first_run_does_not_touch_cache_file (mode : Mode) (fs : FS) (s : SrcSpec) (els : List ElSpec) (k : Nat)
    (hm : ModeOk mode els) (hd : Distinct els) :
    ∀ o, o ∈ (runPipe mode fs s els k).outs → ∀ c, (o.2 c).final = (fs c).final :=
  (drive_spec k fs _ (chainOk_build mode fs s els hm hd)).2.1

/-- the shape of the chain of a pipeline `pre ++ cache c :: post` whose cache `c` is filled by the run -/
theorem build_split (mode : Mode) (fs : FS) (s : SrcSpec) (pre post : List ElSpec) (c : Nat) (rc : Bool)
    (hm : ModeOk mode (pre ++ .cache c rc :: post)) (hx : cacheExists fs c rc = false) :
    build mode fs s (pre ++ .cache c rc :: post) =
      buildEls fs (pre.length + 1) post
        ⟨.dump c .fresh :: (buildEls fs 0 pre ⟨[], freshSrc s⟩).uppers, (buildEls fs 0 pre ⟨[], freshSrc s⟩).bottom⟩ := by
  rw [build_eq' mode fs s _ hm, buildEls_append, buildEls]
  simp [hx]

/-- **a complete first run stores the flow.**  Let cache `c` sit anywhere in a pipeline (`pre` before it,
`post` after it), not be replayed (no file, or `recompute`), and no cache after it be replayed.  If the run
reaches its normal end, then the cache file holds exactly the flow that entered the cache — which ended
normally —, the temporary file is gone, and the consumer received that flow passed through `post`. -/
theorem first_run_stores (mode : Mode) (fs : FS) (s : SrcSpec) (pre post : List ElSpec) (c : Nat) (rc : Bool)
    (k : Nat) (hm : ModeOk mode (pre ++ .cache c rc :: post)) (hd : Distinct (pre ++ .cache c rc :: post))
    (hx : cacheExists fs c rc = false) (hpost : NoFilled fs post)
    (hend : (runPipe mode fs s (pre ++ .cache c rc :: post) k).end_ = .exhausted) :
    (runPipe mode fs s (pre ++ .cache c rc :: post) k).fs c = ⟨some (pipeFlow fs s pre).vals, none⟩ ∧
    (pipeFlow fs s pre).exc = none ∧
    (runPipe mode fs s (pre ++ .cache c rc :: post) k).outs.map (·.1) = (elsFlow fs post (pipeFlow fs s pre)).vals := by
  have hflow : pipeFlow fs s (pre ++ .cache c rc :: post) = elsFlow fs post (pipeFlow fs s pre) := by
    simp [pipeFlow, elsFlow_append, elsFlow, hx]
  obtain ⟨hlen, hexc⟩ := (run_exhausted_iff mode fs s _ k hm hd).mp hend
  have hcn : c ∉ cacheIds post := by
    have := hd
    simp only [Distinct, cacheIds_append, cacheIds, List.nodup_append, List.nodup_cons] at this
    exact this.2.1.1
  have sp := drive_spec k fs _ (chainOk_build mode fs s _ hm hd)
  unfold DriveSpec at sp
  rw [rem_build mode fs s _ hm] at sp
  obtain ⟨h1, _, _, _, _, h6, _⟩ := sp
  obtain ⟨_, hcommit⟩ := h6 hlen hexc
  rw [build_split mode fs s pre post c rc hm hx] at hcommit
  obtain ⟨b1, b2, b3⟩ := buildEls_noFilled fs c (pipeFlow fs s pre).vals post (pre.length + 1)
    ⟨.dump c .fresh :: (buildEls fs 0 pre ⟨[], freshSrc s⟩).uppers, (buildEls fs 0 pre ⟨[], freshSrc s⟩).bottom⟩ hpost hcn
  have hT : (remUs (buildEls fs 0 pre ⟨[], freshSrc s⟩).uppers (remB fs (buildEls fs 0 pre ⟨[], freshSrc s⟩).bottom)).vals
      = (pipeFlow fs s pre).vals := by
    have := rem_buildEls fs pre 0 ⟨[], freshSrc s⟩
    rw [rem_freshSrc] at this
    simpa [rem, pipeFlow] using congrArg Flow.vals this
  refine ⟨?_, ?_, ?_⟩
  · unfold runPipe
    rw [build_split mode fs s pre post c rc hm hx]
    apply hcommit c _ (b2 (by simp [dumpIds]))
    rw [b1]
    apply b3
    unfold Track
    simpa using hT
  · rw [hflow] at hexc
    exact elsFlow_exc_none fs post _ hpost hexc
  · unfold runPipe
    rw [h1, hflow, List.take_of_length_le]
    rw [hflow] at hlen
    omega

example : ((runPipe .source FS.empty ⟨[1, 2], none⟩ [.map 1 none, .cache 0 false, .map 2 none] 3).fs 0,
    (runPipe .source FS.empty ⟨[1, 2], none⟩ [.map 1 none, .cache 0 false, .map 2 none] 3).end_)
    = (⟨some [11, 21], none⟩, .exhausted) := by decide

/-! ## Sentence 2b: a later run replays exactly the stored values and touches nothing upstream -/

/-- **replay.**  Let cache `c` (not `recompute`) sit anywhere in a pipeline and its file hold `xs`.  Then, for
every source, every `pre`, every demand `k` and every way of calling (inside a `Sequence`/`Source`, or hoisted):
* the consumer receives the first `k` values of `xs` passed through `post` — exactly `xs.take k` when the cache
  is the last element — whatever the source and the elements before the cache are;
* no event of the run is a resumption of the source or a step of an element before the cache: nothing is
  pulled from, and no element is run in, the upstream;
* the cache file is left as it is. -/
theorem replay_exact_no_pull (mode : Mode) (fs : FS) (s : SrcSpec) (pre post : List ElSpec) (c : Nat) (k : Nat)
    (xs : List Val) (hm : ModeOk mode (pre ++ .cache c false :: post)) (hd : Distinct (pre ++ .cache c false :: post))
    (hfile : (fs c).final = some xs) :
    (runPipe mode fs s (pre ++ .cache c false :: post) k).outs.map (·.1) = (elsFlow fs post ⟨xs, none⟩).vals.take k ∧
    (∀ ev, ev ∈ (runPipe mode fs s (pre ++ .cache c false :: post) k).evs → EvAfter pre.length ev) ∧
    (runPipe mode fs s (pre ++ .cache c false :: post) k).fs c = fs c := by
  have hx : cacheExists fs c false = true := by simp [cacheExists, hfile]
  have hflow : pipeFlow fs s (pre ++ .cache c false :: post) = elsFlow fs post ⟨xs, none⟩ := by
    simp [pipeFlow, elsFlow_append, elsFlow, hx, storedFlow, hfile]
  have hbuild : build mode fs s (pre ++ .cache c false :: post) =
      buildEls fs (pre.length + 1) post ⟨[], .load c .fresh []⟩ := by
    rw [build_eq' mode fs s _ hm, buildEls_append, buildEls]
    simp [hx]
  refine ⟨?_, ?_, ?_⟩
  · rw [(run_yields_flow mode fs s _ k hm hd).1, hflow]
  · intro ev hev
    unfold runPipe at hev
    rw [hbuild] at hev
    obtain ⟨m1, m2⟩ := buildEls_mapIds fs post (pre.length + 1) ⟨[], .load c .fresh []⟩
    have := drive_load_evs k fs _ (m2 rfl) ev hev
    have hj : ∀ j, j ∈ mapIds (buildEls fs (pre.length + 1) post ⟨[], .load c .fresh []⟩).uppers → pre.length < j := by
      intro j hj
      rcases m1 j hj with h | h
      · simp [mapIds] at h
      · omega
    cases ev with
    | step j i => exact hj j this
    | stepRaise j i => exact hj j this
    | srcYield i => exact this
    | srcRaise i => exact this
    | srcEnd => exact this
  · have sp := drive_spec k fs _ (chainOk_build mode fs s _ hm hd)
    apply sp.2.2.1
    rw [hbuild]
    intro hmem
    rcases dumpIds_buildEls fs c post _ _ hmem with ⟨h, _⟩ | ⟨p1, rc, p2, e, _, _⟩
    · simp [dumpIds] at h
    · have := hd
      simp only [Distinct, cacheIds_append, cacheIds, List.nodup_append, List.nodup_cons, e] at this
      exact this.2.1.1 (by simp)

/-- when the cache is the last element, the replay is the stored list itself -/
theorem replay_last (mode : Mode) (fs : FS) (s : SrcSpec) (pre : List ElSpec) (c : Nat) (k : Nat) (xs : List Val)
    (hm : ModeOk mode (pre ++ [.cache c false])) (hd : Distinct (pre ++ [.cache c false]))
    (hfile : (fs c).final = some xs) :
    (runPipe mode fs s (pre ++ [.cache c false]) k).outs.map (·.1) = xs.take k := by
  simpa [elsFlow] using (replay_exact_no_pull mode fs s pre [] c k xs hm hd hfile).1

example : (runPipe .hoist (FS.empty.set 0 ⟨some [5, 6, 7], none⟩) ⟨[1, 2], some 0⟩ [.map 1 (some 0), .cache 0 false, .map 2 none] 9).outs.map (·.1)
    = [52, 62, 72] := by decide
example : (runPipe .hoist (FS.empty.set 0 ⟨some [5, 6, 7], none⟩) ⟨[1, 2], some 0⟩ [.map 1 (some 0), .cache 0 false, .map 2 none] 9).evs
    = [.step 2 0, .step 2 1, .step 2 2] := by decide

/-- **first complete run, then replay** (sentences 1 and 2 together).  After a run that filled cache `c` and
reached its normal end, *every* later run through a (non-`recompute`) Cache on the same file — any source, any
elements before it, any way of calling, any demand — yields exactly the flow that entered the cache in the
first run (passed through the elements after the cache), in the original order, and no event of it is a
resumption of the source or a step of an element before the cache. -/
theorem first_complete_run_then_replay (mode : Mode) (fs : FS) (s : SrcSpec) (pre post : List ElSpec) (c : Nat)
    (rc : Bool) (k : Nat) (hm : ModeOk mode (pre ++ .cache c rc :: post))
    (hd : Distinct (pre ++ .cache c rc :: post)) (hx : cacheExists fs c rc = false) (hpost : NoFilled fs post)
    (hend : (runPipe mode fs s (pre ++ .cache c rc :: post) k).end_ = .exhausted)
    (mode' : Mode) (s' : SrcSpec) (pre' post' : List ElSpec) (k' : Nat)
    (hm' : ModeOk mode' (pre' ++ .cache c false :: post')) (hd' : Distinct (pre' ++ .cache c false :: post')) :
    (runPipe mode' (runPipe mode fs s (pre ++ .cache c rc :: post) k).fs s' (pre' ++ .cache c false :: post') k').outs.map (·.1)
      = (elsFlow (runPipe mode fs s (pre ++ .cache c rc :: post) k).fs post' ⟨(pipeFlow fs s pre).vals, none⟩).vals.take k' ∧
    (∀ ev, ev ∈ (runPipe mode' (runPipe mode fs s (pre ++ .cache c rc :: post) k).fs s' (pre' ++ .cache c false :: post') k').evs →
      EvAfter pre'.length ev) := by
  have hfile : ((runPipe mode fs s (pre ++ .cache c rc :: post) k).fs c).final = some (pipeFlow fs s pre).vals := by
    rw [(first_run_stores mode fs s pre post c rc k hm hd hx hpost hend).1]
  obtain ⟨h1, h2, _⟩ := replay_exact_no_pull mode' _ s' pre' post' c k' _ hm' hd' hfile
  exact ⟨h1, h2⟩

/-! ## Sentence 3: recompute and drop_cache restore the first-run behaviour -/

/-- **recompute.**  With `recompute=True` the cache is filled as on a first run, whatever its file holds: a
complete run replaces the file by the flow that entered the cache.  (Until then the old file stays:
`first_run_does_not_touch_cache_file`.) -/
theorem recompute_restores_first_run (mode : Mode) (fs : FS) (s : SrcSpec) (pre post : List ElSpec) (c : Nat)
    (k : Nat) (hm : ModeOk mode (pre ++ .cache c true :: post)) (hd : Distinct (pre ++ .cache c true :: post))
    (hpost : NoFilled fs post)
    (hend : (runPipe mode fs s (pre ++ .cache c true :: post) k).end_ = .exhausted) :
    (runPipe mode fs s (pre ++ .cache c true :: post) k).fs c = ⟨some (pipeFlow fs s pre).vals, none⟩ ∧
    (pipeFlow fs s pre).exc = none ∧
    (runPipe mode fs s (pre ++ .cache c true :: post) k).outs.map (·.1) = (elsFlow fs post (pipeFlow fs s pre)).vals :=
  first_run_stores mode fs s pre post c true k hm hd rfl hpost hend

example : (runPipe .sequence (FS.empty.set 0 ⟨some [5, 6, 7], none⟩) ⟨[1, 2], none⟩ [.cache 0 true] 3).fs 0
    = ⟨some [1, 2], none⟩ := by decide

/-- `drop_cache()` removes the cache file and nothing else; it fails (with the `FileNotFoundError` of
`os.remove`) exactly when there is no file, and then changes nothing -/
theorem drop_spec (w : World) (c : Nat) (rc : Bool) :
    ((dropOp w c rc).1.fs c).final = none ∧
    (∀ d, d ≠ c → (dropOp w c rc).1.fs d = w.fs d) ∧
    ((dropOp w c rc).1.fs c).tmp = (w.fs c).tmp ∧
    ((dropOp w c rc).2 = none ↔ (w.fs c).final.isSome) := by
  unfold dropOp FS.removeFinal
  cases h : (w.fs c).final with
  | none => simp [h]
  | some xs => simp; intro d hd; simp [hd]

/-- **drop_cache.**  After `drop_cache()` the cache is filled as on a first run: a complete run stores the flow
that entered the cache. -/
theorem drop_restores_first_run (mode : Mode) (w : World) (s : SrcSpec) (pre post : List ElSpec) (c : Nat)
    (rc rc' : Bool) (k : Nat) (hm : ModeOk mode (pre ++ .cache c rc :: post))
    (hd : Distinct (pre ++ .cache c rc :: post)) (hpost : NoFilled (dropOp w c rc').1.fs post)
    (hend : (runPipe mode (dropOp w c rc').1.fs s (pre ++ .cache c rc :: post) k).end_ = .exhausted) :
    (runPipe mode (dropOp w c rc').1.fs s (pre ++ .cache c rc :: post) k).fs c
      = ⟨some (pipeFlow (dropOp w c rc').1.fs s pre).vals, none⟩ :=
  (first_run_stores mode _ s pre post c rc k hm hd
    (by simp [cacheExists, (drop_spec w c rc').1]) hpost hend).1

example : (dropOp ⟨FS.empty.set 0 ⟨some [1], none⟩, []⟩ 0 false).2 = none ∧
    (dropOp ⟨FS.empty, []⟩ 0 false).2 = some .fileNotFound := by decide

/-! ## Sentence 4: interrupted runs, histories -/

theorem runOp_snd (w : World) (r : RunSpec) : (runOp w r).2 = runPipe r.mode w.fs r.src r.els r.demand := by
  unfold runOp runPipe
  simp only
  split
  · rfl
  · split <;> rfl

/-- whatever happens to the generators after a run (nothing, leak, close), the cache files are those the
consumption left -/
theorem runOp_final (w : World) (r : RunSpec) (c : Nat) :
    ((runOp w r).1.fs c).final = ((runPipe r.mode w.fs r.src r.els r.demand).fs c).final := by
  unfold runOp runPipe
  simp only
  split
  · rfl
  · split
    · rfl
    · simp only [close_final]

/-- a run operation with distinct caches and a defined way of calling -/
def RunSpec.WF (r : RunSpec) : Prop := Distinct r.els ∧ ModeOk r.mode r.els

/-- **an interrupted run stores nothing**: if a run does not reach its normal end — the consumer stops after
`k` values, or the source or any element raises — then, whether its generators are finalised at once
(`close`) or kept alive (`leak`), every cache file is exactly what it was before the run. -/
theorem interrupted_run_keeps_cache_files (w : World) (r : RunSpec) (wf : r.WF)
    (hend : (runOp w r).2.end_ ≠ .exhausted) : ∀ c, ((runOp w r).1.fs c).final = (w.fs c).final := by
  intro c
  rw [runOp_snd] at hend
  rw [runOp_final]
  have sp := drive_spec r.demand w.fs _ (chainOk_build r.mode w.fs r.src r.els wf.2 wf.1)
  unfold DriveSpec at sp
  rw [rem_build r.mode w.fs r.src r.els wf.2] at sp
  obtain ⟨_, _, _, _, h5, h6, h7⟩ := sp
  unfold runPipe at hend ⊢
  by_cases hk : r.demand ≤ (pipeFlow w.fs r.src r.els).vals.length
  · exact (h5 hk).2.2.1 c
  · cases he : (pipeFlow w.fs r.src r.els).exc with
    | none => exact absurd (h6 (by omega) he).1 hend
    | some e => exact (h7 e (by omega) he).2 c

/-- non-vacuity: the consumer stops after 2 of 3 values (closed), the source raises at value 1 (leaked), an
element after the cache raises at value 1 (closed): no cache file appears -/
example :
    let w1 := (runOp World.init ⟨.source, ⟨[1, 2, 3], none⟩, [.cache 0 false], 2, false⟩)
    let w2 := (runOp World.init ⟨.sequence, ⟨[1, 2, 3], some 1⟩, [.cache 0 false], 9, true⟩)
    let w3 := (runOp World.init ⟨.hoist, ⟨[1, 2, 3], none⟩, [.cache 0 false, .map 1 (some 1)], 9, false⟩)
    (w1.2.end_, (w1.1.fs 0).final, w2.2.end_, (w2.1.fs 0).final, w3.2.end_, w3.1.fs 0)
      = (.stopped, none, .raised .srcBoom, none, .raised .elBoom, ⟨none, none⟩) := by decide

/-- **an interrupted recomputation keeps the old complete cache**: with `recompute=True` the new flow goes to the
temporary file; if the run does not reach its normal end the cache file still holds the old complete flow (the
statement allows an implementation to drop it; this one keeps it). -/
theorem interrupted_recompute_keeps_old_cache (w : World) (r : RunSpec) (wf : r.WF) (c : Nat) (xs : List Val)
    (_hc : ElSpec.cache c true ∈ r.els) (hfile : (w.fs c).final = some xs)
    (hend : (runOp w r).2.end_ ≠ .exhausted) : ((runOp w r).1.fs c).final = some xs := by
  rw [interrupted_run_keeps_cache_files w r wf hend c, hfile]

example :
    let w : World := ⟨FS.empty.set 0 ⟨some [5, 6], none⟩, []⟩
    let x := runOp w ⟨.source, ⟨[1, 2, 3], none⟩, [.cache 0 true], 2, false⟩
    (x.2.outs.map (·.1), x.2.end_, x.1.fs 0) = ([1, 2], .stopped, ⟨some [5, 6], none⟩) := by decide

theorem runOp_fs_exhausted (w : World) (r : RunSpec)
    (h : (runPipe r.mode w.fs r.src r.els r.demand).end_ = .exhausted) :
    (runOp w r).1.fs = (runPipe r.mode w.fs r.src r.els r.demand).fs := by
  unfold runPipe at h ⊢
  unfold runOp
  simp only
  split
  · rfl
  · next hne => exact absurd h hne

theorem runOp_fs_closed (w : World) (r : RunSpec) (hleak : r.leak = false)
    (h : (runPipe r.mode w.fs r.src r.els r.demand).end_ ≠ .exhausted) :
    (runOp w r).1.fs = (close (runPipe r.mode w.fs r.src r.els r.demand).fs
      (runPipe r.mode w.fs r.src r.els r.demand).chain).1 := by
  unfold runPipe at h ⊢
  unfold runOp
  simp only [hleak, Bool.false_eq_true, if_false]
  try (split <;> first | rfl | (rename_i he; exact absurd he h))

/-- **remove on abort, rename on exhaustion**: when the generators of a run are finalised (or the run reached
its normal end), no temporary file of that run is left — for every cache, the temporary file is gone, or the
run has not touched the files of that cache at all. -/
theorem closed_run_leaves_no_tmp (w : World) (r : RunSpec) (wf : r.WF) (hleak : r.leak = false) :
    ∀ c, ((runOp w r).1.fs c).tmp = none ∨ (runOp w r).1.fs c = w.fs c := by
  intro c
  have ok := chainOk_build r.mode w.fs r.src r.els wf.2 wf.1
  obtain ⟨_, _, hframe, hids, _, _, _⟩ := drive_spec r.demand w.fs _ ok
  by_cases hend : (runPipe r.mode w.fs r.src r.els r.demand).end_ = .exhausted
  · -- normal end: the temporary files of the filled caches were renamed
    rw [runOp_fs_exhausted w r hend]
    by_cases hmem : c ∈ dumpIds (build r.mode w.fs r.src r.els).uppers
    · left
      rw [build_eq' r.mode w.fs r.src r.els wf.2] at hmem
      rcases dumpIds_buildEls w.fs c r.els 0 _ hmem with ⟨h0, _⟩ | ⟨pre, rc, post, e, hx, hpost⟩
      · simp [dumpIds] at h0
      · have hd := wf.1; have hm := wf.2
        rw [e] at hd hm hend ⊢
        rw [(first_run_stores r.mode w.fs r.src pre post c rc r.demand hm hd hx hpost hend).1]
    · right
      exact hframe c hmem
  · -- interrupted: the generators were closed
    rw [runOp_fs_closed w r hleak hend]
    unfold runPipe
    simp only [close]
    by_cases hmem : c ∈ dumpIds (build r.mode w.fs r.src r.els).uppers
    · cases hk : r.demand with
      | zero =>
        -- no generator was started, nothing is removed
        right
        simp only [drive]
        rw [closeUppers_noActive _ _ (by
          rw [build_eq' r.mode w.fs r.src r.els wf.2]
          exact buildEls_noActive w.fs r.els 0 _ trivial)]
      | succ k =>
        left
        rw [hk] at hids
        exact closeUppers_settled _ _ (drive_settled k w.fs _ ok) (by rw [hids]; exact UsOk.nodup _ ok.1) c
          (by rw [hids]; exact hmem)
    · right
      rw [(closeUppers_spec _ _).2 c (by rw [hids]; exact hmem)]
      exact hframe c hmem

example :
    let w := (runOp World.init ⟨.source, ⟨[1, 2, 3], none⟩, [.cache 0 false, .map 1 (some 1), .cache 1 false], 9, false⟩)
    (w.2.end_, w.1.fs 0, w.1.fs 1) = (.raised .elBoom, ⟨none, none⟩, ⟨none, none⟩) := by decide

/-- what one operation can do to a cache file: leave it, or (a complete run) store a complete flow -/
theorem step_final_cases (w : World) (op : Op) (wf : ∀ r, op = .run r → r.WF) (c : Nat) (xs : List Val)
    (h : ((step w op).fs c).final = some xs) :
    (w.fs c).final = some xs ∨ ∃ r, op = .run r ∧ StoredBy w.fs r c xs := by
  cases op with
  | drop c' rc =>
    left
    simp only [step] at h
    by_cases hc : c = c'
    · subst hc; rw [(drop_spec w c rc).1] at h; simp at h
    · rw [(drop_spec w c' rc).2.1 c hc] at h; exact h
  | finalize =>
    left
    simpa [step, finalizeAll_final] using h
  | run r =>
    have wfr := wf r rfl
    simp only [step] at h
    by_cases hend : (runOp w r).2.end_ = .exhausted
    · -- a complete run
      have hend' : (runPipe r.mode w.fs r.src r.els r.demand).end_ = .exhausted := by
        rw [← runOp_snd]; exact hend
      rw [runOp_final] at h
      by_cases hmem : c ∈ dumpIds (build r.mode w.fs r.src r.els).uppers
      · right
        rw [build_eq' r.mode w.fs r.src r.els wfr.2] at hmem
        rcases dumpIds_buildEls w.fs c r.els 0 _ hmem with ⟨h0, _⟩ | ⟨pre, rc, post, e, hx, hpost⟩
        · simp [dumpIds] at h0
        · refine ⟨r, rfl, pre, rc, post, e, hx, hpost, hend', ?_⟩
          have hd := wfr.1; have hm := wfr.2
          rw [e] at hd hm hend' h
          obtain ⟨s1, s2, _⟩ := first_run_stores r.mode w.fs r.src pre post c rc r.demand hm hd hx hpost hend'
          rw [s1] at h
          simp only [Option.some.injEq] at h
          rw [← h, ← s2]
      · left
        have sp := drive_spec r.demand w.fs _ (chainOk_build r.mode w.fs r.src r.els wfr.2 wfr.1)
        have := sp.2.2.1 c hmem
        unfold runPipe at h
        rw [this] at h
        exact h
    · left
      rw [interrupted_run_keeps_cache_files w r wfr hend c] at h
      exact h

/-- the file of cache `c` holds `xs` because of operation `i` of the history: a complete run that stored `xs` -/
def StoredIn (w0 : World) (ops : List Op) (c : Nat) (xs : List Val) : Prop :=
  ∃ i r, ops[i]? = some (.run r) ∧ StoredBy (exec w0 (ops.take i)).fs r c xs

/-- **`cache_complete`: the invariant over all histories.**  Run any sequence of operations — runs with any
pipeline, any way of calling, any crash point (consumer stopping after `k` values, source or element raising),
generators finalised at once, later (`finalize`) or never; `drop_cache`s — from any world.  Whenever the file
of a cache exists afterwards, it was there initially with the same content, or its content is the complete
flow that entered the cache in a run of the history that reached its normal end. -/
theorem cache_complete : ∀ (ops : List Op) (w0 : World), (∀ r, .run r ∈ ops → r.WF) → ∀ c xs,
    ((exec w0 ops).fs c).final = some xs → (w0.fs c).final = some xs ∨ StoredIn w0 ops c xs
  | [], _, _, _, _, h => Or.inl h
  | op :: ops, w0, wf, c, xs, h => by
    simp only [exec] at h
    rcases cache_complete ops (step w0 op) (fun r hr => wf r (by simp [hr])) c xs h with h1 | ⟨i, r, hi, hs⟩
    · rcases step_final_cases w0 op (fun r hr => wf r (by simp [hr])) c xs h1 with h2 | ⟨r, hr, hs⟩
      · exact Or.inl h2
      · exact Or.inr ⟨0, r, by simp [hr], by simpa [exec] using hs⟩
    · exact Or.inr ⟨i + 1, r, by simpa using hi, by simpa [exec] using hs⟩

/-- **no later run presents a stored prefix as the complete flow.**  Start from no cache files and run any
history (first runs interrupted at any crash point, repeated runs, recompute, drop, late finalisation).  If a
later run replays cache `c` — its file holds `xs` — then `xs` is the complete, normally ended flow that entered
the cache in an earlier run that ran to its end, and the consumer receives exactly `xs` (passed through the
elements after the cache), never a prefix stored by an interrupted run. -/
theorem later_run_serves_complete_flow (ops : List Op) (wf : ∀ r, .run r ∈ ops → r.WF)
    (mode : Mode) (s : SrcSpec) (pre post : List ElSpec) (c : Nat) (k : Nat) (xs : List Val)
    (hm : ModeOk mode (pre ++ .cache c false :: post)) (hd : Distinct (pre ++ .cache c false :: post))
    (hfile : ((exec World.init ops).fs c).final = some xs) :
    StoredIn World.init ops c xs ∧
    (runPipe mode (exec World.init ops).fs s (pre ++ .cache c false :: post) k).outs.map (·.1)
      = (elsFlow (exec World.init ops).fs post ⟨xs, none⟩).vals.take k := by
  refine ⟨?_, (replay_exact_no_pull mode _ s pre post c k xs hm hd hfile).1⟩
  rcases cache_complete ops World.init wf c xs hfile with h | h
  · simp [World.init, FS.empty] at h
  · exact h

/-- non-vacuity: a history with an interrupted first run (consumer stops after 1 of 3 values, generator kept
alive), a complete run on other values, late finalisation, and a replay -/
example :
    let p := [ElSpec.map 1 none, .cache 0 false]
    let ops := [Op.run ⟨.source, ⟨[1, 2, 3], none⟩, p, 1, true⟩, .run ⟨.source, ⟨[4, 5], none⟩, p, 9, false⟩, .finalize]
    ((exec World.init ops).fs 0 = ⟨some [41, 51], none⟩) ∧
    (runPipe .hoist (exec World.init ops).fs ⟨[7], none⟩ p 9).outs.map (·.1) = [41, 51] := by decide

example : RunSpec.WF ⟨.source, ⟨[1, 2, 3], none⟩, [.map 1 none, .cache 0 false, .cache 1 true], 1, true⟩ :=
  ⟨by simp [Distinct, cacheIds], Or.inl (by decide)⟩

/-! ## Sentence 2 over histories: a stored cache persists, every later run replays it -/

/-- the operations that may replace what cache `c` holds: `drop_cache()` of `c`, and a run through a
`recompute=True` Cache on `c` -/
def Op.mayReplace (c : Nat) : Op → Prop
  | .drop c' _ => c' = c
  | .run r => ElSpec.cache c true ∈ r.els
  | .finalize => False

/-- no other operation touches the stored flow: not a replay, not a run that does not contain the cache, not an
interrupted run, not the finalisation of generators kept alive -/
theorem step_keeps_stored (w : World) (op : Op) (wf : ∀ r, op = .run r → r.WF) (c : Nat) (xs : List Val)
    (hno : ¬ op.mayReplace c) (h : (w.fs c).final = some xs) : ((step w op).fs c).final = some xs := by
  cases op with
  | drop c' rc =>
    have hc : c ≠ c' := fun e => hno (by simp [Op.mayReplace, e])
    simp only [step]
    rw [(drop_spec w c' rc).2.1 c hc]; exact h
  | finalize => simpa [step, finalizeAll_final] using h
  | run r =>
    have wfr := wf r rfl
    simp only [step]
    rw [runOp_final]
    have sp := drive_spec r.demand w.fs _ (chainOk_build r.mode w.fs r.src r.els wfr.2 wfr.1)
    unfold runPipe
    rw [sp.2.2.1 c ?_]
    · exact h
    · rw [build_eq' r.mode w.fs r.src r.els wfr.2]
      intro hmem
      rcases dumpIds_buildEls w.fs c r.els 0 _ hmem with ⟨h0, _⟩ | ⟨pre, rc, post, e, hx, _⟩
      · simp [dumpIds] at h0
      · cases rc with
        | false => simp [cacheExists, h] at hx
        | true => exact hno (by simp [Op.mayReplace, e])

/-- **a stored cache persists** through every history without `drop_cache` of it and without a `recompute` run
on it — whatever else happens: replays, runs of other pipelines, interrupted runs at any crash point, generators
finalised late -/
theorem stored_cache_persists : ∀ (ops : List Op) (w : World), (∀ r, .run r ∈ ops → r.WF) → ∀ c xs,
    (∀ op, op ∈ ops → ¬ op.mayReplace c) → (w.fs c).final = some xs → ((exec w ops).fs c).final = some xs
  | [], _, _, _, _, _, h => h
  | op :: ops, w, wf, c, xs, hno, h => by
    simp only [exec]
    exact stored_cache_persists ops (step w op) (fun r hr => wf r (by simp [hr])) c xs
      (fun o ho => hno o (by simp [ho]))
      (step_keeps_stored w op (fun r hr => wf r (by simp [hr])) c xs (hno op (by simp)) h)

/-- **every later run** (sentences 1 and 2 over histories).  After a run that filled cache `c` and reached its
normal end, let any history follow that neither drops `c` nor recomputes it.  Then a run through a Cache on `c` —
any source, any elements before it, any way of calling, any demand — still yields exactly the flow that entered
the cache in that first run (passed through the elements after the cache), and pulls nothing upstream. -/
theorem every_later_run_replays (mode : Mode) (w : World) (s : SrcSpec) (pre post : List ElSpec) (c : Nat) (rc : Bool)
    (k : Nat) (leak : Bool) (hwf : RunSpec.WF ⟨mode, s, pre ++ .cache c rc :: post, k, leak⟩)
    (hx : cacheExists w.fs c rc = false) (hpost : NoFilled w.fs post)
    (hend : (runOp w ⟨mode, s, pre ++ .cache c rc :: post, k, leak⟩).2.end_ = .exhausted)
    (ops : List Op) (wf : ∀ r, .run r ∈ ops → r.WF) (hno : ∀ op, op ∈ ops → ¬ op.mayReplace c)
    (mode' : Mode) (s' : SrcSpec) (pre' post' : List ElSpec) (k' : Nat)
    (hm' : ModeOk mode' (pre' ++ .cache c false :: post')) (hd' : Distinct (pre' ++ .cache c false :: post')) :
    let w' := exec (runOp w ⟨mode, s, pre ++ .cache c rc :: post, k, leak⟩).1 ops
    (runPipe mode' w'.fs s' (pre' ++ .cache c false :: post') k').outs.map (·.1)
      = (elsFlow w'.fs post' ⟨(pipeFlow w.fs s pre).vals, none⟩).vals.take k' ∧
    (∀ ev, ev ∈ (runPipe mode' w'.fs s' (pre' ++ .cache c false :: post') k').evs → EvAfter pre'.length ev) := by
  intro w'
  have hend' : (runPipe mode w.fs s (pre ++ .cache c rc :: post) k).end_ = .exhausted := by
    rw [runOp_snd] at hend; exact hend
  have h0 : (((runOp w ⟨mode, s, pre ++ .cache c rc :: post, k, leak⟩).1).fs c).final = some (pipeFlow w.fs s pre).vals := by
    rw [runOp_final]
    show ((runPipe mode w.fs s (pre ++ .cache c rc :: post) k).fs c).final = _
    rw [(first_run_stores mode w.fs s pre post c rc k hwf.2 hwf.1 hx hpost hend').1]
  have hfile : (w'.fs c).final = some (pipeFlow w.fs s pre).vals :=
    stored_cache_persists ops _ wf c _ hno h0
  obtain ⟨h1, h2, _⟩ := replay_exact_no_pull mode' w'.fs s' pre' post' c k' _ hm' hd' hfile
  exact ⟨h1, h2⟩

/-- non-vacuity: fill, then a replay, an interrupted run of another pipeline kept alive, a late finalisation, a
run that does not contain the cache - and the replay after all that -/
example :
    let p := [ElSpec.map 1 none, .cache 0 false]
    let w1 := (runOp World.init ⟨.source, ⟨[1, 2], none⟩, p, 9, false⟩).1
    let ops := [Op.run ⟨.hoist, ⟨[7], none⟩, p, 9, false⟩, .run ⟨.source, ⟨[4, 5, 6], none⟩, [.cache 1 false, .cache 0 false], 1, true⟩,
                .finalize, .run ⟨.sequence, ⟨[8], some 0⟩, [.cache 1 true], 3, false⟩, .drop 1 false]
    (∀ op, op ∈ ops → ¬ op.mayReplace 0) ∧
    (runPipe .sequence (exec w1 ops).fs ⟨[9, 9, 9], none⟩ p 9).outs.map (·.1) = [11, 21] := by
  refine ⟨?_, by decide⟩
  intro op hop
  simp only [List.mem_cons, List.mem_nil_iff, or_false] at hop
  rcases hop with rfl | rfl | rfl | rfl | rfl <;> simp [Op.mayReplace]

end Lena.C18
