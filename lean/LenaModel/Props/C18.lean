import LenaModel.Lemmas.C18
