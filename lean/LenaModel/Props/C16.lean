import LenaModel.Model.C16
import LenaModel.Model.C16Spec
import LenaModel.Lemmas.C16
import LenaModel.Lemmas.C16Run
import LenaModel.Lemmas.C16Acc
import LenaModel.Lemmas.C16Yor
/-! # C16 — property theorems: `FillRequest` processes the flow in consecutive blocks, however driven

The wrapped element is abstract (`El σ α β`: any state type, any `fill`/`request`/`reset`/`run`);
block size, flow, flags and the history of `fill`/`request` calls are universally quantified. -/

namespace Lena.C16

variable {σ α β : Type}

/-! ### construction -/

/-- *"block size n"*: whatever `FillRequest.__init__` accepts has a block size `≥ 1` equal to the
`bufsize` argument, keeps the flags it was given, has exactly one buffer mode unless
`yield_on_remainder`, resets only an element that has a `reset`, binds `run` to `_run_run` iff the
element has a `run`, and an element without `run` has `fill` and `request`/`compute`. -/
theorem init_bufsize_pos (caps : Caps) (bufsize : Int) (reset : Option Bool) (bi bo yor : Bool) (c : Cfg)
    (h : mkFillRequest caps bufsize reset bi bo yor = .ok c) :
    0 < c.bufsize ∧ (c.bufsize : Int) = bufsize ∧ c.yor = yor ∧ c.bufferInput = bi ∧
    (yor = false → bo = !bi) ∧
    (c.reset = true ↔ reset = some true) ∧ (c.reset = true → caps.reset = true) ∧
    c.runKind = (if caps.run then .runRun else .runFillCompute) ∧
    (caps.run = false → caps.fill = true ∧ (caps.request = true ∨ caps.compute = true)) ∧
    (caps.fill = true → reset ≠ none) := by
  unfold mkFillRequest at h
  by_cases h1 : (!caps.reset && reset == some true) = true
  · simp [h1] at h
  rw [if_neg h1] at h
  by_cases h2 : (!yor && (bi.toNat + bo.toNat != 1)) = true
  · simp [h2] at h
  rw [if_neg h2] at h
  by_cases h3 : (caps.fill && reset.isNone) = true
  · simp [h3] at h
  rw [if_neg h3] at h
  by_cases h4 : (!caps.fill && !caps.run) = true
  · simp [h4] at h
  rw [if_neg h4] at h
  by_cases h5 : (!caps.request && !caps.compute && !caps.run) = true
  · simp [h5] at h
  rw [if_neg h5] at h
  by_cases h6 : bufsize < 1
  · simp [h6] at h
  rw [if_neg h6] at h
  cases h
  simp only
  refine ⟨by omega, by omega, trivial, trivial, ?_, by simp, ?_, ?_, ?_, ?_⟩
  · intro hy; subst hy
    revert h2; cases bi <;> cases bo <;> simp
  · revert h1; cases caps.reset <;> simp
  · first | trivial | rfl
  · revert h4 h5; cases caps.run <;> cases caps.fill <;> cases caps.request <;> cases caps.compute <;> simp
  · revert h3; cases caps.fill <;> cases reset <;> simp

/-- a fill/compute element, `bufsize=3`, `reset=True`, `buffer_input=True` is accepted -/
example : mkFillRequest ⟨false, true, false, true, true⟩ 3 (some true) true false false =
    .ok { bufsize := 3, reset := true, bufferInput := true, yor := false, runKind := .runFillCompute,
          hasFill := true, hasRequest := true, hasReset := true, reqIsCompute := true } := rfl

/-- the documented contract of the constructor, both directions: the arguments are accepted iff
`reset=True` comes with a `reset` method, exactly one buffer mode is chosen (or
`yield_on_remainder`), `reset` is explicit for an element with `fill`, the element has `run` or
(`fill` and (`request` or `compute`)), and `bufsize ≥ 1`. -/
theorem init_accepts_iff (caps : Caps) (bufsize : Int) (reset : Option Bool) (bi bo yor : Bool) :
    (∃ c, mkFillRequest caps bufsize reset bi bo yor = .ok c) ↔
      ((reset = some true → caps.reset = true) ∧ (yor = false → bo = !bi) ∧
       (caps.fill = true → reset ≠ none) ∧
       (caps.run = true ∨ (caps.fill = true ∧ (caps.request = true ∨ caps.compute = true))) ∧
       1 ≤ bufsize) := by
  constructor
  · rintro ⟨c, h⟩
    have hh := init_bufsize_pos caps bufsize reset bi bo yor c h
    obtain ⟨p1, p2, p3, p4, p5, p6, p7, p8, p9, p10⟩ := hh
    refine ⟨fun hr => p7 (p6.2 hr), p5, p10, ?_, by omega⟩
    by_cases hr : caps.run = true
    · exact Or.inl hr
    · exact Or.inr (p9 (by simpa using hr))
  · rintro ⟨q1, q2, q3, q4, q5⟩
    unfold mkFillRequest
    have h1 : ¬ (!caps.reset && reset == some true) = true := by
      revert q1; cases caps.reset <;> cases reset <;> simp
    have h2 : ¬ (!yor && (bi.toNat + bo.toNat != 1)) = true := by
      revert q2; cases yor <;> cases bi <;> cases bo <;> simp
    have h3 : ¬ (caps.fill && reset.isNone) = true := by
      revert q3; cases caps.fill <;> cases reset <;> simp
    have h4 : ¬ (!caps.fill && !caps.run) = true := by
      revert q4; cases caps.run <;> cases caps.fill <;> simp
    have h5 : ¬ (!caps.request && !caps.compute && !caps.run) = true := by
      revert q4; cases caps.run <;> cases caps.fill <;> cases caps.request <;> cases caps.compute <;> simp
    have h6 : ¬ bufsize < 1 := by omega
    rw [if_neg h1, if_neg h2, if_neg h3, if_neg h4, if_neg h5, if_neg h6]
    exact ⟨_, rfl⟩

/-- the same with the Boolean `initContract` that the driver evaluates and the harness compares with the Python
transcription of the docstring -/
theorem init_accepts_iff_contract (caps : Caps) (bufsize : Int) (reset : Option Bool) (bi bo yor : Bool) :
    (∃ c, mkFillRequest caps bufsize reset bi bo yor = .ok c) ↔ initContract caps bufsize reset bi bo yor = true := by
  rw [init_accepts_iff]
  unfold initContract
  cases caps.run <;> cases caps.fill <;> cases caps.request <;> cases caps.compute <;> cases caps.reset <;>
    cases reset with
    | none => cases yor <;> cases bi <;> cases bo <;> simp
    | some r => cases r <;> cases yor <;> cases bi <;> cases bo <;> simp

/-! ### `run` -/

/-- **`run` yields block by block** exactly what the element yields for each consecutive block of
`n` values (the element being reset between blocks iff `reset`), for the final partial block iff
`yield_on_remainder` — for every wrapped element, block size `≥ 1`, flags and flow, and for each of
the four loops `run` can be bound to. -/
theorem run_blocks (e : El σ α β) (c : Cfg) (hN : 0 < c.bufsize) (s : σ) (xs : List α) :
    (runFR e c s xs).1 =
      specBlocks (blockOf e c) e.reset c.bufsize c.reset c.yor s (chunks c.bufsize xs) := by
  unfold runFR blockOf
  cases hk : c.runKind with
  | runFillCompute => exact runFillCompute_spec e _ _ _ hN _ xs s (Nat.le_refl _)
  | runRun =>
    simp only
    by_cases hy : c.yor = true
    · rw [if_pos hy, hy]; exact runRunYor_spec e _ _ hN _ xs s (Nat.le_refl _)
    · have hy' : c.yor = false := by simpa using hy
      rw [if_neg hy, hy']
      by_cases hb : c.bufferInput = true
      · rw [if_pos hb]; exact runRunBI_spec e _ _ hN _ xs s (Nat.le_refl _)
      · rw [if_neg hb]; exact runRunBO_spec e _ _ hN _ xs s (Nat.le_refl _)

/-- `specBlocks` on the blocks of a flow, when `reset` always returns the same fresh state -/
theorem specBlocks_fresh (block : σ → List α → List β × σ) (reset : σ → σ) (N : Nat) (yor : Bool) (s0 : σ)
    (hreset : ∀ s, reset s = s0) (hN : 0 < N) : ∀ (k : Nat) (xs : List α), xs.length ≤ k →
    specBlocks block reset N true yor s0 (chunks N xs) =
      (chunks N xs).flatMap (fun b => if b.length = N ∨ yor = true then (block s0 b).1 else [])
  | 0, xs, h => by
    have : xs = [] := List.length_eq_zero_iff.mp (by omega)
    subst this; simp [chunks_nil, specBlocks]
  | k + 1, xs, h => by
    by_cases hx : xs = []
    · subst hx; simp [chunks_nil, specBlocks]
    · have hpos : 0 < xs.length := List.length_pos_iff.mpr hx
      rw [chunks_cons N hN xs hx, specBlocks, List.flatMap_cons]
      by_cases hlen : (xs.take N).length = N
      · simp only [hlen, if_true, true_or, hreset]
        rw [specBlocks_fresh block reset N yor s0 hreset hN k (xs.drop N) (by simp; omega)]
      · have hd : xs.drop N = [] := by
          apply List.drop_eq_nil_of_le
          simp only [List.length_take] at hlen; omega
        simp only [hlen, if_false, false_or, hd, chunks_nil, List.flatMap_nil, List.append_nil]

/-- **`run` with `reset` on**, for an element whose `reset` restores a fixed fresh state: the
concatenation, over the consecutive blocks, of what the *fresh* element yields for that block alone —
every full block, and the final partial block iff `yield_on_remainder`. -/
theorem run_blocks_fresh (e : El σ α β) (c : Cfg) (hN : 0 < c.bufsize) (hr : c.reset = true) (s0 : σ)
    (hreset : ∀ s, e.reset s = s0) (xs : List α) :
    (runFR e c s0 xs).1 =
      (chunks c.bufsize xs).flatMap
        (fun b => if b.length = c.bufsize ∨ c.yor = true then (blockOf e c s0 b).1 else []) := by
  rw [run_blocks e c hN, hr]
  exact specBlocks_fresh _ _ _ _ s0 hreset hN _ xs (Nat.le_refl _)

/-- non-vacuity: a run element behind `buffer_output`, block size 3, reset on; a fill/request element
with `yield_on_remainder`, no reset; the recording element's `reset` restores `[]` -/
example : (runFR lstEl ⟨3, true, false, false, .runRun, false, false, true, false⟩ [] [0, 1, 2, 3, 4, 5, 6]).1
    = [[0, 1, 2], [3, 4, 5]] := by decide +kernel
example : (runFR lstEl ⟨3, false, false, true, .runFillCompute, true, true, true, false⟩ [] [0, 1, 2, 3, 4, 5, 6]).1
    = [[0, 1, 2], [0, 1, 2, 3, 4, 5], [0, 1, 2, 3, 4, 5, 6]] := by decide +kernel
example : ∀ s : List Nat, (lstEl : El (List Nat) Nat (List Nat)).reset s = [] := fun _ => rfl

/-- **`run` yields nothing for an empty flow** (any configuration, any element state) -/
theorem run_empty (e : El σ α β) (c : Cfg) (s : σ) : (runFR e c s []).1 = [] := by
  unfold runFR
  cases c.runKind with
  | runFillCompute => simp only; rw [runFillCompute]; simp
  | runRun =>
    simp only
    split
    · rw [runRunYor]
    · split
      · rw [runRunBI]; split
        · rfl
        · rename_i h0; rw [dif_pos (by simp; omega)]
      · rw [runRunBO]; split
        · rfl
        · rename_i h0; rw [dif_pos (by simp; omega)]

/-- `run_blocks` for whatever `FillRequest.__init__` accepts (no hypothesis on the block size left to the reader).
For `bufsize = 0` — rejected by `__init__` — the model's loops stop where Python's would spin; `run_empty` below is
stated for every `Cfg` and says nothing about the code for such a configuration. -/
theorem run_blocks_init (caps : Caps) (bufsize : Int) (reset : Option Bool) (bi bo yor : Bool) (c : Cfg)
    (h : mkFillRequest caps bufsize reset bi bo yor = .ok c) (e : El σ α β) (s : σ) (xs : List α) :
    (runFR e c s xs).1 = specBlocks (blockOf e c) e.reset c.bufsize c.reset c.yor s (chunks c.bufsize xs) :=
  run_blocks e c (init_bufsize_pos caps bufsize reset bi bo yor c h).1 s xs

/-! ### `fill` / `request` under an arbitrary schedule -/

/-- the element's `run` on a block is "fill every value, then request" — the consistency an element
that has both `run` and `fill`/`request` needs for `run` and `request()` to be comparable at all -/
def RunConsistent (e : El σ α β) : Prop := ∀ s b, e.run s b = blockFill e s b

/-- any history of `fill`/`request` calls on a fresh adapter, closed by `request()`, yields in total
what `_run_fill_compute` yields on the filled values (`yield_on_remainder` off) -/
theorem schedule_runFillCompute (e : El σ α β) (N : Nat) (rst bi : Bool) (hN : 0 < N) (el : σ) (ops : List (Op α)) :
    (runOps e N rst bi false (ops ++ [.request]) (St.init el)).1.flatten =
      (runFillCompute e N rst false el (fills ops)).1 := by
  have hinit : Normal N (St.init el : St σ α β) := init_normal N hN el
  have h := (schedule_specN e N rst bi hN ops (St.init el) (normal_inv bi hinit)).1
  rw [request_normal e N rst bi _ hinit] at h
  simp only [List.nil_append] at h
  rw [runOps_append]
  simp only [runOps, List.flatten_append, List.flatten_cons, List.flatten_nil, List.append_nil]
  rw [h]
  have hb := specN_blocks e N rst bi hN (fills ops) el 0 hN
  rw [show (St.init el : St σ α β) = { el := el, nCount := 0, bufIn := [], bufOut := [] } from rfl, hb,
    runFillCompute_blocks e N rst hN _ (fills ops) el (Nat.le_refl _)]

/-- `run` of an adapter whose element is run-consistent is `_run_fill_compute`, whichever loop it is
bound to (outputs) -/
theorem runFR_eq_runFillCompute (e : El σ α β) (c : Cfg) (hN : 0 < c.bufsize)
    (hrun : c.runKind = .runRun → RunConsistent e) (s : σ) (xs : List α) :
    (runFR e c s xs).1 = (runFillCompute e c.bufsize c.reset c.yor s xs).1 := by
  rw [run_blocks e c hN, runFillCompute_spec e _ _ _ hN _ xs s (Nat.le_refl _)]
  unfold blockOf
  cases hk : c.runKind with
  | runFillCompute => rfl
  | runRun =>
    have : blockRun e = blockFill e := by
      funext s b; exact hrun hk s b
    simp only [this]

/-- **Schedule independence.**  The same values delivered through `fill()`, with `request()` called
at arbitrary points (any history `ops`) and once at the end: the concatenated `request()` results
equal those of `run` on the whole flow — every element, block size, buffer mode, `reset` flag,
`yield_on_remainder` off.  (For an adapter whose `run` is `_run_run` the element's own `run` must be
consistent with its `fill`/`request`; for `_run_fill_compute` there is no hypothesis.) -/
theorem schedule_independent (e : El σ α β) (c : Cfg) (hN : 0 < c.bufsize) (hy : c.yor = false)
    (hrun : c.runKind = .runRun → RunConsistent e) (el : σ) (ops : List (Op α)) :
    (runOps e c.bufsize c.reset c.bufferInput c.yor (ops ++ [.request]) (St.init el)).1.flatten =
      (runFR e c el (fills ops)).1 := by
  rw [runFR_eq_runFillCompute e c hN hrun, hy]
  exact schedule_runFillCompute e _ _ _ hN el ops

/-- the clause without the hypothesis on elements that have both `run` and `fill`/`request` -/
def schedule_independent_full : Prop :=
  ∀ (e : El (List Nat) Nat (List Nat)) (c : Cfg) (el : List Nat) (ops : List (Op Nat)), 0 < c.bufsize → c.yor = false →
    (runOps e c.bufsize c.reset c.bufferInput c.yor (ops ++ [.request]) (St.init el)).1.flatten = (runFR e c el (fills ops)).1

/-- **It is false, and has to be**: `run` of such an adapter calls the element's `run`, the other path its `fill` and
`request` — two unrelated pieces of code of an arbitrary element.  Witness: the recording element with a `run` that
yields nothing.  Hence the hypothesis `RunConsistent` in `schedule_independent` (no hypothesis for fill/compute and
fill/request elements, whose `run` is `_run_fill_compute`). -/
theorem not_schedule_independent_full : ¬ schedule_independent_full := by
  intro h
  have := h { lstEl with run := fun s _ => ([], s) }
    ⟨1, false, true, false, .runRun, true, true, true, false⟩ [] [.fill 0] (by decide) rfl
  revert this
  decide +kernel

/-- non-vacuity: requests after 1, 4 and 6 of the fills `0..6`, block size 3, reset on, buffer_input -/
example : (runOps lstEl 3 true true false
      ([.fill 0, .request, .fill 1, .fill 2, .fill 3, .request, .fill 4, .fill 5, .request, .fill 6] ++ [.request])
      (St.init [])).1 = [[], [[0, 1, 2]], [[3, 4, 5]], []] := by decide
example : (runFillCompute lstEl 3 true false [] [0, 1, 2, 3, 4, 5, 6]).1 = [[0, 1, 2], [3, 4, 5]] := by
  decide +kernel

theorem lstEl_foldl (b s : List α) : b.foldl (lstEl : El (List α) α (List α)).fill s = s ++ b := by
  induction b generalizing s with
  | nil => simp
  | cons x r ih => rw [List.foldl_cons, ih]; simp [lstEl]

/-- the recording element is run-consistent (the hypothesis of `schedule_independent` is satisfiable) -/
theorem lstEl_runConsistent : RunConsistent (lstEl : El (List α) α (List α)) := fun s b => by
  show ([s ++ b], s ++ b) = ([b.foldl lstEl.fill s], b.foldl lstEl.fill s)
  rw [lstEl_foldl]



/-- a history that ends with `request()` needs no further closing request: `request()` directly
after `request()` yields nothing (`yield_on_remainder` off) -/
theorem request_idempotent (e : El σ α β) (N : Nat) (rst bi : Bool) (hN : 0 < N) (s : St σ α β) (h : FRInv N bi s) :
    (requestR e N rst bi false (requestR e N rst bi false s).2) = ([], (requestR e N rst bi false s).2) :=
  request_normal e N rst bi _ (request_yields_normal e N rst bi false hN s h).1

/-- the hypothesis of `request_idempotent` is satisfiable: a fresh adapter satisfies the invariant, and so does every
reachable state (`runOps_inv`) -/
example : FRInv 3 true (St.init ([] : List Nat) : St (List Nat) Nat (List Nat)) :=
  normal_inv true (init_normal 3 (by decide) [])

/-! ### Split around a `FillRequest` branch -/

/-- the calls Split makes per block, for a list of blocks -/
theorem blockOps_normal (e : El σ α β) (N : Nat) (rst bi yor : Bool) (hN : 0 < N) :
    ∀ (bs : List (List α)) (s : St σ α β), Normal N s →
      Normal N (runOps e N rst bi yor (bs.flatMap (fun b => b.map Op.fill ++ [.request])) s).2
  | [], s, h => by simpa [runOps] using h
  | b :: bs, s, h => by
    rw [List.flatMap_cons, runOps_append]
    apply blockOps_normal e N rst bi yor hN bs
    rw [runOps_append]
    simp only [runOps]
    exact (request_yields_normal e N rst bi yor hN _
      (runOps_inv e N rst bi yor hN _ s (normal_inv bi h))).1

theorem fills_blockOps (bs : List (List α)) :
    fills (bs.flatMap (fun b => b.map Op.fill ++ [Op.request])) = bs.flatten := by
  induction bs with
  | nil => rfl
  | cons b bs ih => rw [List.flatMap_cons, fills_append, fills_append, fills_map_fill, ih]; simp [fills]

theorem splitBlocks_flatten (m : Option Nat) (hm : m ≠ some 0) (xs : List α) : (splitBlocks m xs).flatten = xs := by
  cases m with
  | none =>
    cases xs with
    | nil => rfl
    | cons x r => simp [splitBlocks]
  | some k =>
    have hk : 0 < k := by
      rcases Nat.eq_zero_or_pos k with h | h
      · subst h; exact absurd rfl hm
      · exact h
    exact chunks_flatten k hk _ xs (Nat.le_refl _)

theorem fills_splitOps (m : Option Nat) (hm : m ≠ some 0) (xs : List α) : fills (splitOps m xs) = xs := by
  unfold splitOps
  cases xs with
  | nil => rfl
  | cons x r =>
    simp only [List.isEmpty_cons, Bool.false_eq_true, if_false]
    rw [fills_blockOps, splitBlocks_flatten m hm]

/-- after the calls Split makes, the adapter is in the state a `request()` leaves -/
theorem splitOps_normal (e : El σ α β) (N : Nat) (rst bi yor : Bool) (hN : 0 < N) (m : Option Nat) (el : σ)
    (xs : List α) : Normal N (runOps e N rst bi yor (splitOps m xs) (St.init el)).2 := by
  unfold splitOps
  split
  · simp only [runOps]
    exact (request_yields_normal e N rst bi yor hN _ (normal_inv bi (init_normal N hN el))).1
  · exact blockOps_normal e N rst bi yor hN _ _ (init_normal N hN el)

/-- **As Split does.**  `Split([FillRequest(el, bufsize=n, …)], bufsize=m).run(flow)` yields what
`FillRequest.run(flow)` yields, for every Split block size `m ≥ 1` or `None` — dividing `n` or not —
(`yield_on_remainder` off; hypothesis on `run` as in `schedule_independent`). -/
theorem split_equals_run (e : El σ α β) (c : Cfg) (hN : 0 < c.bufsize) (hy : c.yor = false)
    (hrun : c.runKind = .runRun → RunConsistent e) (m : Option Nat) (hm : m ≠ some 0) (el : σ) (xs : List α) :
    splitFR e c.bufsize c.reset c.bufferInput c.yor m el xs = (runFR e c el xs).1 := by
  have h := schedule_independent e c hN hy hrun el (splitOps m xs)
  rw [fills_splitOps m hm] at h
  rw [← h, runOps_append]
  unfold splitFR
  simp only [runOps, List.flatten_append, List.flatten_cons, List.flatten_nil, List.append_nil]
  have hn := splitOps_normal e c.bufsize c.reset c.bufferInput c.yor hN m el xs
  rw [hy] at hn ⊢
  rw [request_normal e _ _ _ _ hn, List.append_nil]




/-- `schedule_independent` and `split_equals_run` for whatever `FillRequest.__init__` accepts with
`yield_on_remainder=False` -/
theorem schedule_independent_init (caps : Caps) (bufsize : Int) (reset : Option Bool) (bi bo : Bool) (c : Cfg)
    (h : mkFillRequest caps bufsize reset bi bo false = .ok c) (e : El σ α β)
    (hrun : c.runKind = .runRun → RunConsistent e) (el : σ) (ops : List (Op α)) (m : Option Nat) (hm : m ≠ some 0)
    (xs : List α) :
    (runOps e c.bufsize c.reset c.bufferInput c.yor (ops ++ [.request]) (St.init el)).1.flatten =
        (runFR e c el (fills ops)).1 ∧
    splitFR e c.bufsize c.reset c.bufferInput c.yor m el xs = (runFR e c el xs).1 := by
  obtain ⟨hN, _, hy, _⟩ := init_bufsize_pos caps bufsize reset bi bo false c h
  exact ⟨schedule_independent e c hN hy hrun el ops, split_equals_run e c hN hy hrun m hm el xs⟩

/-- `Split(bufsize=2)` around `FillRequest(bufsize=3)` — the case that lost values before the fix —
and a Split block larger than two adapter blocks (`buffer_output`: the case that used to hang) -/
example : splitFR lstEl 3 true true false (some 2) [] [0, 1, 2, 3, 4, 5, 6] = [[0, 1, 2], [3, 4, 5]] := by
  decide +kernel
example : splitFR lstEl 3 true false false (some 7) [] [0, 1, 2, 3, 4, 5, 6] = [[0, 1, 2], [3, 4, 5]] := by
  decide +kernel

/-! ### `yield_on_remainder` under an arbitrary schedule -/

theorem schedule_yor_aux (e : El σ α β) (N : Nat) (rst bi : Bool) (hN : 0 < N) :
    ∀ (ops : List (Op α)) (cur : List α) (el : σ),
    (runOps e N rst bi true (ops ++ [.request]) (cur.foldl (fillR e N rst bi) (zeroSt el))).1.flatten =
      (emitAll e rst el ((segments ops cur).flatMap (chunks N))).1
  | [], cur, el => by
    simp only [List.nil_append, runOps, segments, List.flatMap_cons, List.flatMap_nil, List.append_nil,
      List.flatten_cons, List.flatten_nil]
    rw [segment_yor e N rst bi hN]
  | .fill x :: r, cur, el => by
    have ih := schedule_yor_aux e N rst bi hN r (cur ++ [x]) el
    rw [List.foldl_append] at ih
    simpa [runOps, segments] using ih
  | .request :: r, cur, el => by
    have ih := schedule_yor_aux e N rst bi hN r [] (emitAll e rst el (chunks N cur)).2
    simp only [List.cons_append, runOps, segments, List.flatMap_cons, List.flatten_cons]
    rw [segment_yor e N rst bi hN, emitAll_append]
    simp only [List.foldl_nil] at ih
    rw [ih]

/-- **With `yield_on_remainder`** the adapter under any history of `fill`/`request` calls (closed by
a request) yields, segment by segment, what the element yields for the consecutive blocks of `n`
values of each segment between two requests — the last block of a segment possibly short, nothing
for an empty segment; the element is reset after every block iff `reset`. -/
theorem schedule_yor (e : El σ α β) (N : Nat) (rst bi : Bool) (hN : 0 < N) (el : σ) (ops : List (Op α)) :
    (runOps e N rst bi true (ops ++ [.request]) (St.init el)).1.flatten =
      (emitAll e rst el ((segments ops []).flatMap (chunks N))).1 :=
  schedule_yor_aux e N rst bi hN ops [] el

example : segments [.fill 0, .fill 1, .fill 2, .fill 3, .request, .request, .fill (4 : Nat)] [] =
    [[0, 1, 2, 3], [], [4]] := by decide
example : (runOps lstEl 3 true false true ([.fill 0, .fill 1, .fill 2, .fill 3, .request, .request, .fill 4] ++ [.request])
    (St.init [])).1 = [[[0, 1, 2], [3]], [], [[4]]] := by decide

/-! ### every value is accounted for exactly once -/

/-- **Accounting.**  After any history of `fill`/`request` calls on a fresh adapter (any flags, also
`yield_on_remainder`; no closing request needed) the filled values, in order, are cut into
consecutive pieces: the emitted blocks `bs`, the values `pend` pending in the element, and the
values in `_buffer_in` — so every value is in exactly one of them.  Every emitted block is
non-empty and has at most `n` values (exactly `n` with `yield_on_remainder` off); what was yielded
so far plus `_buffer_out` is exactly what the element yields when it is filled with each block in
turn and requested (reset in between iff `reset`); the element is in the state these blocks leave,
filled with the pending values; and `_n_count` counts the pending values. -/
theorem accounted_once (e : El σ α β) (N : Nat) (rst bi yor : Bool) (hN : 0 < N) (el0 : σ) (ops : List (Op α)) :
    ∃ (bs : List (List α)) (pend : List α),
      fills ops = bs.flatten ++ pend ++ (runOps e N rst bi yor ops (St.init el0)).2.bufIn ∧
      (∀ b ∈ bs, b ≠ [] ∧ b.length ≤ N ∧ (yor = false → b.length = N)) ∧
      pend.length = (runOps e N rst bi yor ops (St.init el0)).2.nCount ∧
      (runOps e N rst bi yor ops (St.init el0)).1.flatten ++ (runOps e N rst bi yor ops (St.init el0)).2.bufOut
        = (emitAll e rst el0 bs).1 ∧
      (runOps e N rst bi yor ops (St.init el0)).2.el = pend.foldl e.fill (emitAll e rst el0 bs).2 := by
  have h0 : Acc e N rst yor el0 [] [] (St.init el0 : St σ α β) :=
    ⟨[], [], [], rfl, rfl, by simp, rfl, rfl, rfl⟩
  have h := runOps_acc e N rst bi yor el0 hN ops (St.init el0) [] []
    (normal_inv bi (init_normal N hN el0)) h0
  obtain ⟨bs, pend, v0, hv, h1, h2, h3, h4, h5⟩ := h
  refine ⟨bs, pend, ?_, h2, h3, ?_, h5⟩
  · rw [List.nil_append] at hv; rw [hv, h1]
  · rw [List.nil_append] at h4; exact h4

theorem emitAll_lstEl (bs : List (List α)) (hne : ∀ b ∈ bs, b ≠ []) :
    emitAll (lstEl : El (List α) α (List α)) true [] bs = (bs, []) := by
  induction bs with
  | nil => rfl
  | cons b r ih =>
    have := ih (fun b hb => hne b (List.mem_cons_of_mem _ hb))
    simp only [emitAll, lstEl_foldl, if_true]
    show ([[] ++ b] ++ (emitAll lstEl true [] r).1, (emitAll lstEl true [] r).2) = _
    rw [this]; simp

/-- **Accounting, observed.**  With the recording element and `reset` on, the blocks yielded so far,
the blocks in `_buffer_out`, the values in the element and the values in `_buffer_in`, concatenated,
are exactly the values filled — each once, in order; and every yielded block has between 1 and `n`
values (exactly `n` with `yield_on_remainder` off). -/
theorem accounted_once_recorded (N : Nat) (bi yor : Bool) (hN : 0 < N) (ops : List (Op α)) :
    let r := runOps (lstEl : El (List α) α (List α)) N true bi yor ops (St.init [])
    (r.1.flatten ++ r.2.bufOut).flatten ++ r.2.el ++ r.2.bufIn = fills ops ∧
    (∀ b ∈ r.1.flatten ++ r.2.bufOut, b ≠ [] ∧ b.length ≤ N ∧ (yor = false → b.length = N)) ∧
    r.2.el.length = r.2.nCount := by
  obtain ⟨bs, pend, h1, h2, h3, h4, h5⟩ := accounted_once (lstEl : El (List α) α (List α)) N true bi yor hN [] ops
  rw [emitAll_lstEl bs (fun b hb => (h2 b hb).1)] at h4 h5
  simp only [lstEl_foldl, List.nil_append] at h4 h5
  simp only
  rw [h4, h5, h1]
  exact ⟨rfl, h2, h3⟩

example : (runOps lstEl 3 true false true [.fill 0, .fill 1, .fill 2, .fill 3, .request, .fill 4] (St.init [])).1
    = [[[0, 1, 2], [3]]] := by decide

/-! ### buffers -/

/-- **The clause as the property words it**, read literally: after *every* call — wherever `request()` is called — at
most one block of values (`_buffer_in`) or of results (`_buffer_out`; the recording element yields one result per block)
is buffered. -/
def buffers_one_block_full : Prop :=
  ∀ (N : Nat) (bi : Bool) (ops : List (Op Nat)), 0 < N →
    ((runOps (lstEl : El (List Nat) Nat (List Nat)) N true bi false ops (St.init [])).2.bufIn.length ≤ N ∧
     (runOps (lstEl : El (List Nat) Nat (List Nat)) N true bi false ops (St.init [])).2.bufOut.length ≤ 1)

/-- **It is false** — of the model and of the code (judgement: the buffers hold whatever is filled between two
`request()` calls; the property's own quantifier includes Split block sizes larger than the adapter's): ten fills at
block size 3 leave 7 values in `_buffer_in` (`buffer_input`) / the results of 3 blocks in `_buffer_out`
(`buffer_output`).  What holds is `buffers_bounded_partial` (right after `request()`: nothing buffered) and
`buffers_bounded_between_partial` (between requests: exactly the values filled since, in whole blocks; at most one block
when at most `n` values are filled between two requests). -/
theorem not_buffers_one_block_full : ¬ buffers_one_block_full := by
  intro h
  have := (h 3 true ((List.range 10).map Op.fill) (by decide)).1
  revert this
  decide

example : (runOps (lstEl : El (List Nat) Nat (List Nat)) 3 true true false ((List.range 10).map Op.fill) (St.init [])).2.bufIn
    = [3, 4, 5, 6, 7, 8, 9] := by decide
example : (runOps (lstEl : El (List Nat) Nat (List Nat)) 3 true false false ((List.range 10).map Op.fill) (St.init [])).2.bufOut
    = [[0, 1, 2], [3, 4, 5], [6, 7, 8]] := by decide

/-- **After `request()` returns** — at any point of any history — both buffers are empty and fewer
than `n` values are pending in the element (none with `yield_on_remainder`). -/
theorem buffers_bounded_partial (e : El σ α β) (N : Nat) (rst bi yor : Bool) (hN : 0 < N) (el0 : σ) (ops : List (Op α)) :
    let s := (runOps e N rst bi yor (ops ++ [.request]) (St.init el0)).2
    s.nCount < N ∧ s.bufIn = [] ∧ s.bufOut = [] ∧ (yor = true → s.nCount = 0) := by
  simp only [runOps_append, runOps]
  have hinv := runOps_inv e N rst bi yor hN ops (St.init el0) (normal_inv bi (init_normal N hN el0))
  obtain ⟨⟨h1, h2, h3⟩, h4⟩ := request_yields_normal e N rst bi yor hN _ hinv
  exact ⟨h1, h2, h3, h4⟩

/-- the counters after a sequence of fills from a state satisfying the invariant -/
theorem fills_count (e : El σ α β) (N : Nat) (rst bi : Bool) (hN : 0 < N) (k : Nat)
    (hk : ∀ t, (e.req t).1.length = k) : ∀ (xs : List α) (s : St σ α β) (q : Nat), FRInv N bi s →
    s.bufOut.length = k * q →
    ∃ q', (xs.foldl (fillR e N rst bi) s).bufOut.length = k * q' ∧
      (xs.foldl (fillR e N rst bi) s).nCount + (xs.foldl (fillR e N rst bi) s).bufIn.length + N * q'
        = s.nCount + s.bufIn.length + N * q + xs.length ∧
      (xs.foldl (fillR e N rst bi) s).bufIn.length ≤ s.bufIn.length + xs.length ∧
      (0 < xs.length → 0 < (xs.foldl (fillR e N rst bi) s).nCount)
  | [], s, q, _, hq => ⟨q, hq, by simp, by simp, by simp⟩
  | x :: r, s, q, hinv, hq => by
    obtain ⟨i1, i2, i3, i4⟩ := hinv
    have hinv' := fill_inv e N rst bi hN s x ⟨i1, i2, i3, i4⟩
    rw [List.foldl_cons]
    have step : ∃ q1, (fillR e N rst bi s x).bufOut.length = k * q1 ∧
        (fillR e N rst bi s x).nCount + (fillR e N rst bi s x).bufIn.length + N * q1
          = s.nCount + s.bufIn.length + N * q + 1 ∧
        (fillR e N rst bi s x).bufIn.length ≤ s.bufIn.length + 1 ∧ 0 < (fillR e N rst bi s x).nCount := by
      unfold fillR
      by_cases hn : s.nCount = N
      · cases bi with
        | true => exact ⟨q, by simpa [hn] using hq, by simp [hn]; omega, by simp [hn], by simp [hn]; omega⟩
        | false =>
          refine ⟨q + 1, ?_, ?_, ?_, ?_⟩
          · simp [hn, emit, hq, hk, Nat.mul_add]
          · simp [hn, emit, i3 rfl, Nat.mul_add]; omega
          · simp [hn, emit]
          · simp [hn]
      · exact ⟨q, by simpa [hn] using hq, by simp [hn]; omega, by simp [hn], by simp [hn]⟩
    obtain ⟨q1, s1, s2, s3, s4⟩ := step
    obtain ⟨q', r1, r2, r3, r4⟩ := fills_count e N rst bi hN k hk r (fillR e N rst bi s x) q1 hinv' s1
    refine ⟨q', r1, by simp only [List.length_cons]; omega, by simp only [List.length_cons]; omega, fun _ => ?_⟩
    by_cases hr : 0 < r.length
    · exact r4 hr
    · have : r = [] := List.length_eq_zero_iff.mp (by omega)
      subst this; simpa using s4

/-- **Between two `request()` calls.**  From the state a `request()` leaves (or a fresh adapter),
after any number `L` of `fill` calls: `_n_count ≤ n`; only the buffer of the chosen mode is used;
`_buffer_in` holds fewer values than were filled since; and, for an element that yields `k` results
per request, `_buffer_out` holds the results of `q` whole blocks where
`_n_count + len(_buffer_in) + n·q` = pending + filled values — nothing is lost or duplicated, and
`q ≤ (pending + L) / n`.  In particular, when at most one block (`L ≤ n`) is filled between
requests, as Split does with a block size `≤ n`, at most one block of results (`≤ k`) and fewer
than `n` values are buffered. -/
theorem buffers_bounded_between_partial (e : El σ α β) (N : Nat) (rst bi : Bool) (hN : 0 < N) (k : Nat)
    (hk : ∀ t, (e.req t).1.length = k) (s : St σ α β) (hs : Normal N s) (xs : List α) :
    let s' := xs.foldl (fillR e N rst bi) s
    s'.nCount ≤ N ∧ (bi = true → s'.bufOut = []) ∧ (bi = false → s'.bufIn = []) ∧
    s'.bufIn.length ≤ xs.length ∧
    (∃ q, s'.bufOut.length = k * q ∧ s'.nCount + s'.bufIn.length + N * q = s.nCount + xs.length ∧
      (xs.length ≤ N → q ≤ 1 ∧ s'.bufIn.length < N)) := by
  have hinv : FRInv N bi s := normal_inv bi hs
  have hfold : ∀ (l : List α) (t : St σ α β), FRInv N bi t → FRInv N bi (l.foldl (fillR e N rst bi) t) := by
    intro l
    induction l with
    | nil => intro t h; simpa using h
    | cons x r ih => intro t h; rw [List.foldl_cons]; exact ih _ (fill_inv e N rst bi hN t x h)
  obtain ⟨j1, j2, j3, _⟩ := hfold xs s hinv
  obtain ⟨h1, h2, h3⟩ := hs
  obtain ⟨q', r1, r2, r3, _⟩ := fills_count e N rst bi hN k hk xs s 0 hinv (by simp [h3])
  simp only [h2, List.length_nil, Nat.mul_zero, Nat.add_zero, Nat.zero_add] at r2 r3
  refine ⟨j1, j2, j3, r3, q', r1, r2, fun hL => ?_⟩
  have hq : N * q' < N * 2 := by omega
  have : q' < 2 := Nat.lt_of_mul_lt_mul_left hq
  refine ⟨by omega, ?_⟩
  rcases Nat.eq_zero_or_pos q' with h0 | h0
  · subst h0
    by_cases hb : (xs.foldl (fillR e N rst bi) s).bufIn = []
    · rw [hb]; exact hN
    · have := (hfold xs s hinv).2.2.2 hb
      simp only [Nat.mul_zero, Nat.add_zero] at r2
      omega
  · have : q' = 1 := by omega
    subst this
    omega

example : Normal 3 (St.init ([] : List Nat) : St (List Nat) Nat (List Nat)) := init_normal 3 (by decide) []
example : ∀ t : List Nat, ((lstEl : El (List Nat) Nat (List Nat)).req t).1.length = 1 := fun _ => rfl
example : ([0, 1, 2, 3, 4, 5, 6].foldl (fillR lstEl 3 true false) (St.init [])).bufOut = [[0, 1, 2], [3, 4, 5]] := by
  decide
example : ([0, 1, 2, 3, 4, 5, 6].foldl (fillR lstEl 3 true true) (St.init [])).bufIn = [3, 4, 5, 6] := by decide

/-! ### the invariants as the driver evaluates them -/

theorem normalB_iff (N : Nat) (s : St σ α β) : normalB N s = true ↔ Normal N s := by
  simp [normalB, Normal, and_assoc]

theorem frInvB_iff (N : Nat) (bi : Bool) (s : St σ α β) : frInvB N bi s = true ↔ FRInv N bi s := by
  unfold frInvB FRInv
  cases bi <;> simp [and_assoc] <;> intros <;> (try exact Decidable.or_iff_not_imp_left)

/-- **The invariant holds along every history** (as `invOps`, evaluated by the driver on every generated history):
every state satisfies `FRInv`, every state right after a `request()` is `Normal`, with nothing pending under
`yield_on_remainder`. -/
theorem invOps_holds (e : El σ α β) (N : Nat) (rst bi yor : Bool) (hN : 0 < N) : ∀ (ops : List (Op α)) (s : St σ α β),
    FRInv N bi s → invOps e N rst bi yor ops s = true
  | [], s, h => by simpa [invOps] using (frInvB_iff N bi s).2 h
  | .fill x :: r, s, h => by
    simp only [invOps, Bool.and_eq_true]
    exact ⟨(frInvB_iff N bi s).2 h, invOps_holds e N rst bi yor hN r _ (fill_inv e N rst bi hN s x h)⟩
  | .request :: r, s, h => by
    obtain ⟨hn, hy⟩ := request_yields_normal e N rst bi yor hN s h
    simp only [invOps, Bool.and_eq_true]
    refine ⟨⟨⟨(frInvB_iff N bi s).2 h, (normalB_iff N _).2 hn⟩, ?_⟩,
      invOps_holds e N rst bi yor hN r _ (normal_inv bi hn)⟩
    cases yor with
    | false => rfl
    | true => simpa using hy rfl

/-! ### what the correspondence check observes -/

/-- the per-call trace compared with the real code lists, for every `request`, exactly what
`runOps` collects — so the theorems above speak about what was validated against /repo -/
theorem traceOps_requests (e : El σ α β) (N : Nat) (rst bi yor : Bool) : ∀ (ops : List (Op α)) (s : St σ α β),
    (traceOps e N rst bi yor ops s).filterMap (·.1) = (runOps e N rst bi yor ops s).1
  | [], _ => rfl
  | .fill x :: r, s => by simp [traceOps, runOps, traceOps_requests e N rst bi yor r]
  | .request :: r, s => by simp [traceOps, runOps, traceOps_requests e N rst bi yor r]

theorem traceOps_append (e : El σ α β) (N : Nat) (rst bi yor : Bool) : ∀ (a b : List (Op α)) (s : St σ α β),
    traceOps e N rst bi yor (a ++ b) s =
      traceOps e N rst bi yor a s ++ traceOps e N rst bi yor b (runOps e N rst bi yor a s).2
  | [], _, _ => rfl
  | .fill x :: r, b, s => by simp [traceOps, runOps, traceOps_append e N rst bi yor r b]
  | .request :: r, b, s => by simp [traceOps, runOps, traceOps_append e N rst bi yor r b]

/-- … and the entry the trace gets for a call holds `(_n_count, len(_buffer_in), len(_buffer_out))`
of the state `runOps` reaches with that call, after any history -/
theorem traceOps_sizes (e : El σ α β) (N : Nat) (rst bi yor : Bool) (ops : List (Op α)) (o : Op α) (s : St σ α β) :
    ∃ out, traceOps e N rst bi yor (ops ++ [o]) s =
      traceOps e N rst bi yor ops s ++
        [(out, (runOps e N rst bi yor (ops ++ [o]) s).2.nCount,
          (runOps e N rst bi yor (ops ++ [o]) s).2.bufIn.length,
          (runOps e N rst bi yor (ops ++ [o]) s).2.bufOut.length)] := by
  rw [traceOps_append, runOps_append]
  cases o with
  | fill x => exact ⟨none, by simp [traceOps, runOps]⟩
  | request => exact ⟨some (requestR e N rst bi yor (runOps e N rst bi yor ops s).2).1, by simp [traceOps, runOps]⟩

/-! ### `FillRequestSeq` -/

/-- a block through `FillRequestSeq(*before, el, *after)`: the element is filled with what the
preceding elements make of the block's values, and the following sequence transforms what it yields -/
theorem seq_block {α' β' : Type} (pre : α' → List α) (post : List β → List β') (e : El σ α β) (s : σ)
    (b : List α') :
    blockFill (seqEl pre post e) s b = (post (blockFill e s (b.flatMap pre)).1, (blockFill e s (b.flatMap pre)).2) := by
  have hf : ∀ (l : List α') (t : σ), l.foldl (seqEl pre post e).fill t = (l.flatMap pre).foldl e.fill t := by
    intro l
    induction l with
    | nil => intro t; rfl
    | cons x r ih => intro t; rw [List.foldl_cons, ih, List.flatMap_cons, List.foldl_append]; rfl
  simp only [blockFill, hf]
  rfl

/-- `FillRequestSeq.run` (it is `FillRequest(self, …)._run_fill_compute`), block by block -/
theorem seq_run_blocks {α' β' : Type} (pre : α' → List α) (post : List β → List β') (e : El σ α β)
    (N : Nat) (hN : 0 < N) (rst yor : Bool) (s : σ) (xs : List α') :
    (runFillCompute (seqEl pre post e) N rst yor s xs).1 =
      specBlocks (fun s b => (post (blockFill e s (b.flatMap pre)).1, (blockFill e s (b.flatMap pre)).2))
        e.reset N rst yor s (chunks N xs) := by
  rw [runFillCompute_spec _ _ _ _ hN _ xs s (Nat.le_refl _)]
  have : blockFill (seqEl pre post e) = fun s b => (post (blockFill e s (b.flatMap pre)).1, (blockFill e s (b.flatMap pre)).2) := by
    funext s b; exact seq_block pre post e s b
  rw [this]; rfl

end Lena.C16
