import LenaModel.Model.C16S
import LenaModel.Lemmas.C16
import LenaModel.Props.C16
/-! # C16 — `run` yields block by block: *when* the results appear

`run_blocks` (Props/C16.lean) says WHAT `FillRequest.run` yields.  The statement also says *"yields block by
block"* and the title *"processes the flow in consecutive blocks"*: the results of a block are yielded when that
block has been read — not after the whole flow.  A `run` that reads everything first (or keeps the results of all
blocks in a list) satisfies `run_blocks` and is useless on a long flow.  The theorems here are about the event
transcriptions of the four loops (`Model/C16S.lean`), for every wrapped element, block size `≥ 1`, flag
combination and flow:

* `run_events_blockwise` — the events are: block after block, the values of the block are read, then what the
  element yields for it is yielded;
* `run_events_outs`, `run_events_reads` — the event stream carries exactly the results of `runFR` and reads every
  value of the flow exactly once, in order;
* `run_streams` — the results of block `j` are yielded when exactly `(j+1)·n` values have been read (a final
  partial block: when the flow is exhausted);
* `allThenYield_same_results`, `not_streams_allThenYield` — reading the whole flow first gives the same results
  and violates `run_streams`: the clause is not a consequence of `run_blocks`. -/

namespace Lena.C16
variable {σ α β : Type}

/-! ### event lists -/

theorem readsOf_append (a b : List (Ev α β)) : readsOf (a ++ b) = readsOf a ++ readsOf b := by
  induction a with
  | nil => rfl
  | cons x r ih => cases x <;> simp [readsOf, ih]

theorem outsOf_append (a b : List (Ev α β)) : outsOf (a ++ b) = outsOf a ++ outsOf b := by
  induction a with
  | nil => rfl
  | cons x r ih => cases x <;> simp [outsOf, ih]

theorem readsOf_reads (b : List α) : readsOf (b.map (Ev.read : α → Ev α β)) = b := by
  induction b with
  | nil => rfl
  | cons x r ih => simp [readsOf, ih]

theorem readsOf_outs (rs : List β) : readsOf (rs.map (Ev.out : β → Ev α β)) = [] := by
  induction rs with
  | nil => rfl
  | cons x r ih => simp [readsOf, ih]

theorem outsOf_reads (b : List α) : outsOf (b.map (Ev.read : α → Ev α β)) = [] := by
  induction b with
  | nil => rfl
  | cons x r ih => simp [outsOf, ih]

theorem outsOf_outs (rs : List β) : outsOf (rs.map (Ev.out : β → Ev α β)) = rs := by
  induction rs with
  | nil => rfl
  | cons x r ih => simp [outsOf, ih]

theorem readsOf_evBlock (b : List α) (rs : List β) : readsOf (evBlock b rs) = b := by
  simp [evBlock, readsOf_append, readsOf_reads, readsOf_outs]

theorem outsOf_evBlock (b : List α) (rs : List β) : outsOf (evBlock b rs) = rs := by
  simp [evBlock, outsOf_append, outsOf_reads, outsOf_outs]

theorem tagsFrom_reads (k : Nat) (b : List α) (r : List (Ev α β)) :
    tagsFrom k (b.map Ev.read ++ r) = tagsFrom (k + b.length) r := by
  induction b generalizing k with
  | nil => rfl
  | cons x t ih =>
    simp only [List.map_cons, List.cons_append, tagsFrom, List.length_cons]
    rw [ih]; congr 1; omega

theorem tagsFrom_outs (k : Nat) (rs : List β) (r : List (Ev α β)) :
    tagsFrom k (rs.map Ev.out ++ r) = List.replicate rs.length k ++ tagsFrom k r := by
  induction rs with
  | nil => rfl
  | cons x t ih => simp [tagsFrom, ih, List.replicate_succ]

theorem tagsFrom_evBlock (k : Nat) (b : List α) (rs : List β) (r : List (Ev α β)) :
    tagsFrom k (evBlock b rs ++ r) = List.replicate rs.length (k + b.length) ++ tagsFrom (k + b.length) r := by
  rw [evBlock, List.append_assoc, tagsFrom_reads, tagsFrom_outs]

/-! ### the four loops against the event specification -/

section
variable (e : El σ α β) (N : Nat) (rst yor : Bool)

theorem runFillComputeEv_spec (hN : 0 < N) : ∀ (k : Nat) (xs : List α) (s : σ), xs.length ≤ k →
    runFillComputeEv e N rst yor s xs = specEv (blockFill e) e.reset N rst yor s (chunks N xs)
  | 0, xs, s, h => by
    have : xs = [] := List.length_eq_zero_iff.mp (by omega)
    subst this
    rw [runFillComputeEv, chunks_nil]; simp [specEv]
  | k + 1, xs, s, h => by
    rw [runFillComputeEv]
    have hN0 : ¬ N = 0 := by omega
    simp only [hN0, dite_false]
    by_cases hx : xs = []
    · subst hx; simp [chunks_nil, specEv]
    · simp only [hx, dite_false]
      have hpos : 0 < xs.length := List.length_pos_iff.mpr hx
      rw [chunks_cons N hN xs hx, specEv]
      by_cases hlen : (xs.take N).length = N
      · have hmod : ¬ (xs.take N).length % N ≠ 0 := by simp [hlen]
        simp only [hlen, if_true, blockFill]
        rw [runFillComputeEv_spec hN k (xs.drop N) _ (by simp; omega)]
        simp
      · have hlt : (xs.take N).length < N := by simp only [List.length_take] at hlen ⊢; omega
        have hmod : (xs.take N).length % N ≠ 0 := by
          rw [Nat.mod_eq_of_lt hlt]; simp only [List.length_take] at hlen ⊢; omega
        simp only [hmod, ne_eq, not_false_eq_true, if_true, hlen, if_false, blockFill]

theorem runRunYorEv_spec (hN : 0 < N) : ∀ (k : Nat) (xs : List α) (s : σ), xs.length ≤ k →
    runRunYorEv e N rst s xs = specEv (blockRun e) e.reset N rst true s (chunks N xs)
  | 0, xs, s, h => by
    have : xs = [] := List.length_eq_zero_iff.mp (by omega)
    subst this
    rw [runRunYorEv, chunks_nil]; simp [specEv]
  | k + 1, [], s, h => by
    rw [runRunYorEv, chunks_nil]; simp [specEv]
  | k + 1, x :: rest, s, h => by
    rw [runRunYorEv, chunks_cons N hN (x :: rest) (by simp), specEv]
    have htake : (x :: rest).take N = x :: rest.take (N - 1) := by
      obtain ⟨m, rfl⟩ : ∃ m, N = m + 1 := ⟨N - 1, by omega⟩
      simp
    have hdrop : (x :: rest).drop N = rest.drop (N - 1) := by
      obtain ⟨m, rfl⟩ : ∃ m, N = m + 1 := ⟨N - 1, by omega⟩
      simp
    rw [htake, hdrop]
    simp only [List.length_cons] at h
    have ih := runRunYorEv_spec hN k (rest.drop (N - 1))
      (if rst then e.reset (e.run s (x :: rest.take (N - 1))).2 else (e.run s (x :: rest.take (N - 1))).2)
      (by simp; omega)
    simp only [ih, blockRun]
    by_cases hlen : (x :: rest.take (N - 1)).length = N
    · simp only [hlen, if_true]
    · -- a short block is the last one
      have hd : rest.drop (N - 1) = [] := by
        apply List.drop_eq_nil_of_le
        simp only [List.length_cons, List.length_take] at hlen
        omega
      simp only [hlen, if_false, if_true, hd, chunks_nil, specEv, List.append_nil]

theorem runRunBIEv_spec (hN : 0 < N) : ∀ (k : Nat) (xs : List α) (s : σ), xs.length ≤ k →
    runRunBIEv e N rst s xs = specEv (blockRun e) e.reset N rst false s (chunks N xs)
  | 0, xs, s, h => by
    have : xs = [] := List.length_eq_zero_iff.mp (by omega)
    subst this
    have hN0 : ¬ N = 0 := by omega
    rw [runRunBIEv, chunks_nil]; simp [specEv, hN0, hN, evBlock]
  | k + 1, xs, s, h => by
    rw [runRunBIEv]
    have hN0 : ¬ N = 0 := by omega
    simp only [hN0, dite_false]
    by_cases hx : xs = []
    · subst hx; simp [chunks_nil, specEv, hN, evBlock]
    · have hpos : 0 < xs.length := List.length_pos_iff.mpr hx
      rw [chunks_cons N hN xs hx, specEv]
      by_cases hlen : (xs.take N).length < N
      · have hne : ¬ (xs.take N).length = N := by omega
        rw [dif_pos hlen, if_neg hne]; simp
      · have heq : (xs.take N).length = N := by simp only [List.length_take] at hlen ⊢; omega
        rw [dif_neg hlen, if_pos heq]
        simp only [blockRun]
        rw [runRunBIEv_spec hN k (xs.drop N) _ (by simp; omega)]

theorem runRunBOEv_spec (hN : 0 < N) : ∀ (k : Nat) (xs : List α) (s : σ), xs.length ≤ k →
    runRunBOEv e N rst s xs = specEv (blockRun e) e.reset N rst false s (chunks N xs)
  | 0, xs, s, h => by
    have : xs = [] := List.length_eq_zero_iff.mp (by omega)
    subst this
    have hN0 : ¬ N = 0 := by omega
    rw [runRunBOEv, chunks_nil]; simp [specEv, hN0, hN, evBlock]
  | k + 1, xs, s, h => by
    rw [runRunBOEv]
    have hN0 : ¬ N = 0 := by omega
    simp only [hN0, dite_false]
    by_cases hx : xs = []
    · subst hx; simp [chunks_nil, specEv, hN, evBlock]
    · have hpos : 0 < xs.length := List.length_pos_iff.mpr hx
      rw [chunks_cons N hN xs hx, specEv]
      by_cases hlen : (xs.take N).length < N
      · have hne : ¬ (xs.take N).length = N := by omega
        rw [dif_pos hlen, if_neg hne]; simp
      · have heq : (xs.take N).length = N := by simp only [List.length_take] at hlen ⊢; omega
        rw [dif_neg hlen, if_pos heq]
        simp only [blockRun]
        rw [runRunBOEv_spec hN k (xs.drop N) _ (by simp; omega)]

end

/-- **`run` works block by block**: for every wrapped element, block size `≥ 1`, flag combination and flow, and
for each of the four loops `run` can be bound to, the observable events are — block after block — the values of the
block being read, then what the element yields for the block being yielded (for the final partial block iff
`yield_on_remainder`; its values are read in any case). -/
theorem run_events_blockwise (e : El σ α β) (c : Cfg) (hN : 0 < c.bufsize) (s : σ) (xs : List α) :
    runFREv e c s xs = specEv (blockOf e c) e.reset c.bufsize c.reset c.yor s (chunks c.bufsize xs) := by
  unfold runFREv blockOf
  cases hk : c.runKind with
  | runFillCompute => exact runFillComputeEv_spec e _ _ _ hN _ xs s (Nat.le_refl _)
  | runRun =>
    simp only
    by_cases hy : c.yor = true
    · rw [if_pos hy, hy]; exact runRunYorEv_spec e _ _ hN _ xs s (Nat.le_refl _)
    · have hy' : c.yor = false := by simpa using hy
      rw [if_neg hy, hy']
      by_cases hb : c.bufferInput = true
      · rw [if_pos hb]; exact runRunBIEv_spec e _ _ hN _ xs s (Nat.le_refl _)
      · rw [if_neg hb]; exact runRunBOEv_spec e _ _ hN _ xs s (Nat.le_refl _)

/-! ### the event stream carries the results of `runFR` and the values of the flow -/

theorem outsOf_specEv (block : σ → List α → List β × σ) (reset : σ → σ) (N : Nat) (rst yor : Bool) :
    ∀ (bs : List (List α)) (s : σ), outsOf (specEv block reset N rst yor s bs) = specBlocks block reset N rst yor s bs
  | [], s => by simp [specEv, specBlocks, outsOf]
  | b :: bs, s => by
    rw [specEv, specBlocks]
    by_cases hlen : b.length = N
    · simp only [hlen, if_true]
      rw [outsOf_append, outsOf_evBlock, outsOf_specEv block reset N rst yor bs]
    · simp only [hlen, if_false]
      rw [outsOf_evBlock]

/-- the results in the event stream are the results of `run` (`runFR`, the function `run_blocks` is about) -/
theorem run_events_outs (e : El σ α β) (c : Cfg) (hN : 0 < c.bufsize) (s : σ) (xs : List α) :
    outsOf (runFREv e c s xs) = (runFR e c s xs).1 := by
  rw [run_events_blockwise e c hN, outsOf_specEv, run_blocks e c hN]

theorem readsOf_specEv_chunks (block : σ → List α → List β × σ) (reset : σ → σ) (N : Nat) (rst yor : Bool)
    (hN : 0 < N) : ∀ (k : Nat) (xs : List α) (s : σ), xs.length ≤ k →
    readsOf (specEv block reset N rst yor s (chunks N xs)) = xs
  | 0, xs, s, h => by
    have : xs = [] := List.length_eq_zero_iff.mp (by omega)
    subst this; simp [chunks_nil, specEv, readsOf]
  | k + 1, xs, s, h => by
    by_cases hx : xs = []
    · subst hx; simp [chunks_nil, specEv, readsOf]
    · have hpos : 0 < xs.length := List.length_pos_iff.mpr hx
      rw [chunks_cons N hN xs hx, specEv]
      by_cases hlen : (xs.take N).length = N
      · simp only [hlen, if_true]
        rw [readsOf_append, readsOf_evBlock,
          readsOf_specEv_chunks block reset N rst yor hN k (xs.drop N) _ (by simp; omega)]
        exact List.take_append_drop N xs
      · simp only [hlen, if_false]
        rw [readsOf_evBlock]
        apply List.take_of_length_le
        simp only [List.length_take] at hlen; omega

/-- every value of the flow is read exactly once, in order (also those of a final partial block that yields
nothing) -/
theorem run_events_reads (e : El σ α β) (c : Cfg) (hN : 0 < c.bufsize) (s : σ) (xs : List α) :
    readsOf (runFREv e c s xs) = xs := by
  rw [run_events_blockwise e c hN]
  exact readsOf_specEv_chunks _ _ _ _ _ hN _ xs s (Nat.le_refl _)

/-! ### when the results appear -/

theorem tagsFrom_specEv (block : σ → List α → List β × σ) (reset : σ → σ) (N : Nat) (rst yor : Bool) :
    ∀ (bs : List (List α)) (j : Nat) (s : σ),
      tagsFrom (j * N) (specEv block reset N rst yor s bs) = specTags block reset N rst yor j s bs
  | [], j, s => by simp [specEv, specTags, tagsFrom]
  | b :: bs, j, s => by
    rw [specEv, specTags]
    by_cases hlen : b.length = N
    · simp only [hlen, if_true]
      rw [tagsFrom_evBlock, hlen]
      have hj : j * N + N = (j + 1) * N := by rw [Nat.succ_mul]
      rw [hj, tagsFrom_specEv block reset N rst yor bs (j + 1)]
    · simp only [hlen, if_false]
      have := tagsFrom_evBlock (j * N) b (if yor then (block s b).1 else []) ([] : List (Ev α β))
      rw [List.append_nil] at this
      rw [this]
      cases yor <;> simp [tagsFrom]

/-- **the results of a block are yielded when the block has been read**: for every wrapped element, block size
`≥ 1`, flag combination and flow, the results of the `j`-th block (`j = 0, 1, …`) appear when exactly `(j+1)·n`
values have been taken from the flow, those of a final partial block (with `yield_on_remainder`) when the flow is
exhausted.  (For a Run element under `yield_on_remainder` this is the latest moment: the element may yield while it
still reads its block.) -/
theorem run_streams (e : El σ α β) (c : Cfg) (hN : 0 < c.bufsize) (s : σ) (xs : List α) :
    tags (runFREv e c s xs) =
      specTags (blockOf e c) e.reset c.bufsize c.reset c.yor 0 s (chunks c.bufsize xs) := by
  rw [run_events_blockwise e c hN, tags]
  have := tagsFrom_specEv (blockOf e c) e.reset c.bufsize c.reset c.yor (chunks c.bufsize xs) 0 s
  simpa using this

/-- bufsize 3, a recording fill/request element reset after every block, 7 values: two results, yielded after 3
and after 6 values; with `yield_on_remainder` a third one when the flow is exhausted -/
example : tags (runFREv lstEl ⟨3, true, true, false, .runFillCompute, true, true, true, false⟩ [] [0, 1, 2, 3, 4, 5, 6])
    = [3, 6] := by decide +kernel
example : tags (runFREv lstEl ⟨3, true, false, true, .runFillCompute, true, true, true, false⟩ [] [0, 1, 2, 3, 4, 5, 6])
    = [3, 6, 7] := by decide +kernel
example : runFREv lstEl ⟨2, true, false, false, .runRun, false, false, true, false⟩ [] [0, 1, 2, 3, 4]
    = [.read 0, .read 1, .out [0, 1], .read 2, .read 3, .out [2, 3], .read 4] := by decide +kernel

/-- reading the whole flow first yields the same results … -/
theorem allThenYield_same_results (e : El σ α β) (c : Cfg) (s : σ) (xs : List α) :
    outsOf (runAllThenYield e c s xs) = (runFR e c s xs).1 ∧ readsOf (runAllThenYield e c s xs) = xs := by
  simp [runAllThenYield, outsOf_evBlock, readsOf_evBlock]

/-- the clause at full strength for an arbitrary event function that claims to be `run` -/
def StreamsBlockwise (run : El (List Nat) Nat (List Nat) → Cfg → List Nat → List Nat → List (Ev Nat (List Nat))) : Prop :=
  ∀ (c : Cfg), 0 < c.bufsize → ∀ (s xs : List Nat),
    tags (run lstEl c s xs) = specTags (blockOf lstEl c) lstEl.reset c.bufsize c.reset c.yor 0 s (chunks c.bufsize xs)

/-- … and is not block by block: `run_streams` is not a consequence of `run_blocks` -/
theorem not_streams_allThenYield : ¬ StreamsBlockwise runAllThenYield := by
  intro h
  have := h ⟨3, true, true, false, .runFillCompute, true, true, true, false⟩ (by decide) [] [0, 1, 2, 3, 4, 5, 6]
  revert this
  decide +kernel

/-- the transcribed `run` has the property (instance of `run_streams`) -/
theorem streams_runFREv : StreamsBlockwise runFREv := fun c hN s xs => run_streams lstEl c hN s xs

end Lena.C16
