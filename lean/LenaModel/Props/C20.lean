import LenaModel.Model.C20
import LenaModel.Lemmas.C20
/-! # C20 — property theorems, for all facts

The statements below are about the interpreter of `Model/C20.lean` and hold for **every** `Facts`
(every tree the translator can be run on); `Props/C20Instance.lean` instantiates them with the
facts of the current working tree, which the kernel re-checks on every run.

Reading of the property: an *entry point* is a fresh interpreter executing
`import lena.X; from lena.X import *` (`importEntry`); afterwards a program may call any function
of any fully imported module, in any order, any number of times (`Reach`); a call executes every
global load and attribute chain of the function body (`callFn`).  "No code path can fail by
referring to a name that is not defined" is `Safe`: every callable function runs to its end,
i.e. without `NameError` / `AttributeError` on a lena module / `ImportError` for a lena name. -/

/-! ## which clause of the statement is formalised where

| clause | here |
|---|---|
| 1a "every name a subpackage advertises in `__all__` exists, so star imports work" | `exported_of_resolvesAll`, `exported_envs`; instance `all_exported` (`__all__` must be a literal list: `allDynamic = false` is part of the conclusion, a computed `__all__` makes the check fail) |
| 1b "every public element behaves the same with only its own subpackage imported" | **not proved** as stated: `behaves_same_full` (definition); what the model says: `behaves_same_partial` (no name failure in either interpreter) and `handlers_order_independent` / `handlers_order_independent_envs` (every function takes the same handlers for undefined-name failures — `try: … lena.structures.x … except AttributeError`, `hasattr(lena, "x")`, `getattr(lena, "x", None)` — in both interpreters; instance `current_handlers_order_independent`); evidence beyond that: behaviour cases, import-time handlers and module state observed in the fresh interpreters |
| 2a "no code path can fail by referring to a name that is not defined" | `resolver_sound`, `resolver_sound_envs`, converse `resolver_alarm_is_real`; instance `current_tree_safe`. Global names, import-bound locals, module aliases, closure cells, attributes of lena modules; ordinary locals: `no_unbound_local_full` (definition, NOT proved and no obligation: the reads CPython cannot prove bound are facts, listed in the evidence; `locals_audited_partial` is an auxiliary lemma about that list) |
| 2b "invalid arguments and missing keys are reported with the documented LenaException subclasses" | **not proved** as stated: `invalid_arguments_reported_full` (definition); proved over the facts: `exceptions_of_ok` (every `raise` statement names a documented exception) |
| anchor "all Lena exceptions derive from LenaException" | `exceptions_of_ok`; instance `lena_exceptions_derive` |
| anchor "`lena.<pkg>` exists only after somebody imported it" | `module_value_is_imported`, `sys_modules_grow`, `loaded_within_closure` |
| quantifier "all import orders 'only subpackage X'", every environment | `current_tree_safe` over `Gen.current.entries` × `Gen.current.envs` | -/

namespace Lena.C20

/-! ## what a program can do after the import -/

/-- `f` is a function of the fully initialised module `m` -/
def Callable (F : Facts) (σ : State) (m : ModId) (f : Func) : Prop :=
  σ.statusOf m = .done ∧ ∃ M, F.modOf m = some M ∧ f ∈ M.funcs

/-- states reachable from `σ₀` by calls of callable functions that return -/
inductive Reach (F : Facts) (σ₀ : State) : State → Prop where
  | refl : Reach F σ₀ σ₀
  | call {σ σ' : State} {m : ModId} {f : Func} :
      Reach F σ₀ σ → Callable F σ m f → callFn F m f σ = .ok σ' → Reach F σ₀ σ'

/-- no callable function can fail by referring to an undefined name -/
def Safe (F : Facts) (σ : State) : Prop :=
  ∀ m f, Callable F σ m f → ∃ σ', callFn F m f σ = .ok σ'

/-! ## LEGB: when a load resolves (sentence "every global name they load, checked against
module scope and builtins") -/

/-- a name resolves iff it is an import-bound local of the function, a global of the module, or
a builtin -/
theorem lookupScope_isSome_iff (F : Facts) (σ : State) (sc : Scope) (loc : Ns) (n : Name) :
    (lookupScope F σ sc loc n).isSome =
      ((sc.fn.isSome && (lookup n loc).isSome) || (σ.get F sc.mod n).isSome || F.isBuiltin n) := by
  unfold lookupScope
  cases hfn : sc.fn.isSome <;> simp
  · cases σ.get F sc.mod n <;> simp
    cases F.isBuiltin n <;> simp
  · cases lookup n loc <;> simp
    cases σ.get F sc.mod n <;> simp
    cases F.isBuiltin n <;> simp

/-- a `load` goes on iff the name resolves (LEGB); otherwise a `NameError` naming module, function
and name starts to unwind (to a handler of this code that catches `NameError`, else it is the
result, see `uncaught_is_failure`); it never changes the state -/
theorem load_resolves_iff (F : Facts) (imp : Imp) (sc : Scope)
    (n : Name) (rest : List Ev) (saved : List (State × Ns)) (loc : Ns) (σ : State) :
    execEvs F imp sc (.load n :: rest) .run saved loc σ =
      if (sc.fn.isSome && (lookup n loc).isSome) || (σ.get F sc.mod n).isSome || F.isBuiltin n
      then execEvs F imp sc rest .run saved loc σ
      else execEvs F imp sc rest (.raising (.err (.nameError sc.mod sc.fn n)) 0 0) saved loc σ := by
  rw [← lookupScope_isSome_iff]
  simp only [execEvs]
  cases lookupScope F σ sc loc n <;> simp

def emptyFacts : Facts := ⟨[], [], 3, [], 16, 2, 0, [0], [], none, [], []⟩

example : execEvs emptyFacts (fun _ s => .ok (s, none)) ⟨0, none⟩ [.load 7] .run [] [] State.init
    = .error (.nameError 0 none 7) := rfl

/-- the idiom `try: unicode  except NameError: …` is not a failure: the handler catches it -/
example : (match execEvs emptyFacts (fun _ s => .ok (s, none)) ⟨0, none⟩
      [.tryBegin, .load 7, .bind 5, .tryExcept 2, .bind 6, .tryEnd] .run [] [] State.init with
    | .ok out => decide (out.σ.get emptyFacts 0 6 = some .obj) && decide (out.σ.get emptyFacts 0 5 = none)
    | .error _ => false) = true := by decide

/-- … but a handler for another exception does not (`mask` 4 = `AttributeError` only) -/
example : execEvs emptyFacts (fun _ s => .ok (s, none)) ⟨0, none⟩
      [.tryBegin, .load 7, .tryExcept 4, .bind 6, .tryEnd] .run [] [] State.init
    = .error (.nameError 0 none 7) := rfl

/-- the attribute chain `v.a.b…` resolves in `σ`: every attribute read on a lena module is
bound in that module's namespace; what is not a lena module is opaque -/
inductive ChainOk (F : Facts) (σ : State) : Val → List Name → Prop where
  | nil (v : Val) : ChainOk F σ v []
  | obj (ch : List Name) : ChainOk F σ .obj ch
  | step {p : ModId} {a : Name} {v : Val} {r : List Name} :
      σ.get F p a = some v → ChainOk F σ v r → ChainOk F σ (.mod p) (a :: r)

/-- `walk` finds no missing attribute iff the chain resolves -/
theorem walk_none_iff (F : Facts) (σ : State) (v : Val) (ch : List Name) :
    walk F σ v ch = none ↔ ChainOk F σ v ch := by
  induction ch generalizing v with
  | nil => cases v <;> simp [walk, ChainOk.nil]
  | cons a r ih =>
    cases v with
    | obj => simp [walk, ChainOk.obj]
    | mod p =>
      simp only [walk]
      cases hg : σ.get F p a with
      | none =>
        simp only [reduceCtorEq, false_iff]
        intro h
        cases h with
        | step h1 _ => rw [hg] at h1; cases h1
      | some v' =>
        simp only []
        rw [ih]
        constructor
        · intro h; exact ChainOk.step hg h
        · intro h
          cases h with
          | step h1 h2 => rw [hg] at h1; cases h1; exact h2

/-- an attribute chain goes on iff its root resolves (LEGB) and the chain resolves; otherwise a
`NameError` for the root or an `AttributeError` naming the lena module and the attribute starts
to unwind -/
theorem attr_resolves_iff (F : Facts) (imp : Imp) (sc : Scope)
    (root : Name) (ch : List Name) (rest : List Ev) (saved : List (State × Ns)) (loc : Ns) (σ : State) :
    (execEvs F imp sc (.attr root ch :: rest) .run saved loc σ = execEvs F imp sc rest .run saved loc σ ∧
        ∃ v, lookupScope F σ sc loc root = some v ∧ ChainOk F σ v ch) ∨
    (execEvs F imp sc (.attr root ch :: rest) .run saved loc σ
        = execEvs F imp sc rest (.raising (.err (.nameError sc.mod sc.fn root)) 0 0) saved loc σ ∧
      lookupScope F σ sc loc root = none) ∨
    ∃ p a, execEvs F imp sc (.attr root ch :: rest) .run saved loc σ
        = execEvs F imp sc rest (.raising (.err (.attrError sc.mod sc.fn root p a)) 0 0) saved loc σ ∧
        ∃ v, lookupScope F σ sc loc root = some v ∧ ¬ ChainOk F σ v ch := by
  simp only [execEvs]
  cases hl : lookupScope F σ sc loc root with
  | none => right; left; exact ⟨rfl, rfl⟩
  | some v =>
    dsimp only
    cases hw : walk F σ v ch with
    | none => left; exact ⟨rfl, v, rfl, (walk_none_iff F σ v ch).1 hw⟩
    | some pa =>
      right; right
      refine ⟨pa.1, pa.2, rfl, v, rfl, ?_⟩
      intro h
      rw [(walk_none_iff F σ v ch).2 h] at hw
      cases hw

/-- an exception that no handler of the code catches is the result: a would-be failure that
reaches the end of the code *is* the failure (and the `ImportError` of an absent third-party
module goes on to the importer / ends the call) -/
theorem uncaught_is_failure (F : Facts) (imp : Imp) (sc : Scope) (e : Err) (x d r : Nat)
    (saved : List (State × Ns)) (loc : Ns) (σ : State) :
    execEvs F imp sc [] (.raising (.err e) d r) saved loc σ = .error e ∧
    execEvs F imp sc [] (.raising (.ext x) d r) saved loc σ = .ok ⟨σ, loc, some x⟩ := by
  simp only [execEvs, and_self]

/-! ## a call without import statements leaves the interpreter state alone -/

/-- events that can change the global state when they occur in a function body -/
def Ev.isImport : Ev → Bool
  | .ensure _ | .fromName _ _ _ | .star _ | .gbind _ | .gunbind _ => true
  | _ => false

theorem evTargets_of_not_import (F : Facts) (e : Ev) (h : Ev.isImport e = false) : evTargets F e = [] := by
  cases e <;> simp_all [Ev.isImport, evTargets]

/-- code of a function frame that never asks the import machinery for anything: the global state
is an invariant -/
theorem pure_stepInv (F : Facts) (m : ModId) (q : Name) (imp : Imp) (σ₀ : State) :
    StepInv F ⟨m, some q⟩ imp (fun _ => False) False (fun σ _ => σ = σ₀) where
  bind := by intro σ loc n v h _; simpa [bindIn] using h
  unbindL := fun _ _ _ h => h
  unbindG := by intro σ loc n h; simp at h
  gset := fun _ _ _ _ hg => hg.elim
  imp := fun _ _ _ _ _ hc => hc.elim

/-- a function whose body contains no import statement returns in the state it was called in
(loads and attribute reads have no effect; its import-bound locals die with the frame) -/
theorem call_without_import_keeps_state (F : Facts) (m : ModId) (f : Func) (σ σ' : State)
    (hp : ∀ e ∈ f.evs, Ev.isImport e = false) (h : callFn F m f σ = .ok σ') : σ' = σ := by
  unfold callFn at h
  split at h
  · cases h
  · rename_i out heq
    cases h
    refine execEvs_step (pure_stepInv F m f.name _ σ) (impLoads_importMod F _) _ _ _ _ _ _ ?_ rfl (by simp) heq
    intro e he
    refine ⟨fun t ht => ?_, fun hw => ?_⟩
    · rw [evTargets_of_not_import F e (hp e he)] at ht
      cases ht
    · have := hp e he
      cases e <;> simp_all [Ev.isImport, Ev.writesGlobals]

/-! ## soundness of the resolver -/

theorem seenIn_iff (seen : List State) (σ : State) : seenIn seen σ = true ↔ σ ∈ seen := by
  simp [seenIn, List.any_eq_true]

/-- the list the check iterates over contains everything a program can call -/
theorem mem_callables (F : Facts) (σ : State) (m : ModId) (f : Func) (h : Callable F σ m f) :
    (m, f) ∈ callables F σ := by
  obtain ⟨hst, M, hM, hf⟩ := h
  unfold callables
  rw [List.mem_flatMap]
  refine ⟨(m, M), (mem_zipIdx _ _ _ _).2 ⟨m, by omega, hM⟩, ?_⟩
  simp only [hst]
  exact List.mem_map.2 ⟨f, hf, rfl⟩

/-- every call of `fs` from `σ` returns, into a state of `S` -/
def ClosedFor (F : Facts) (σ : State) (fs : List (ModId × Func)) (S : List State) : Prop :=
  ∀ mf ∈ fs, ∃ σ', callFn F mf.1 mf.2 σ = .ok σ' ∧ σ' ∈ S

theorem callAll_spec (F : Facts) (σ : State) :
    ∀ (fs : List (ModId × Func)) (acc acc' : List State), callAll F σ fs acc = .ok acc' →
      (∃ new, acc' = acc ++ new) ∧ ClosedFor F σ fs acc' := by
  intro fs
  induction fs with
  | nil =>
    intro acc acc' h
    simp only [callAll, Except.ok.injEq] at h
    subst h
    exact ⟨⟨[], by simp⟩, by intro mf hmf; cases hmf⟩
  | cons mf r ih =>
    intro acc acc' h
    obtain ⟨m, f⟩ := mf
    simp only [callAll] at h
    split at h
    · cases h
    · rename_i σ' hc
      simp only [State.force_eq] at h
      obtain ⟨⟨new, hnew⟩, hcl⟩ := ih _ _ h
      have hsub : ∀ s, s ∈ (if seenIn acc σ' = true then acc else acc ++ [σ']) → s ∈ acc' := by
        intro s hs; rw [hnew]; exact List.mem_append_left _ hs
      refine ⟨?_, ?_⟩
      · by_cases hs : seenIn acc σ' = true
        · simp only [hs, ite_true] at hnew; exact ⟨new, hnew⟩
        · simp only [hs] at hnew
          exact ⟨[σ'] ++ new, by rw [hnew]; simp⟩
      · intro mf hmf
        rcases List.mem_cons.1 hmf with rfl | hmf
        · refine ⟨σ', hc, hsub σ' ?_⟩
          by_cases hs : seenIn acc σ' = true
          · simp only [hs, ite_true]; exact (seenIn_iff _ _).1 hs
          · simp only [hs]; simp
        · exact hcl mf hmf

/-- a failure reported by `callAll` is a failing call of one of the functions, in `σ` -/
theorem callAll_error (F : Facts) (σ : State) :
    ∀ (fs : List (ModId × Func)) (acc : List State) (w : Failure), callAll F σ fs acc = .error w →
      w.state = σ ∧ (w.mod, w.func) ∈ fs ∧ callFn F w.mod w.func σ = .error w.err := by
  intro fs
  induction fs with
  | nil => intro acc w h; simp [callAll] at h
  | cons mf r ih =>
    intro acc w h
    obtain ⟨m, f⟩ := mf
    simp only [callAll] at h
    split at h
    · rename_i e he
      cases h
      exact ⟨rfl, List.mem_cons_self .., he⟩
    · simp only [State.force_eq] at h
      obtain ⟨h1, h2, h3⟩ := ih _ _ h
      exact ⟨h1, List.mem_cons_of_mem _ h2, h3⟩

/-- the states `callAll` adds are reached by a call from `σ` -/
theorem callAll_new_reached (F : Facts) (σ : State) :
    ∀ (fs : List (ModId × Func)) (acc acc' : List State), callAll F σ fs acc = .ok acc' →
      ∀ s ∈ acc', s ∈ acc ∨ ∃ mf ∈ fs, callFn F mf.1 mf.2 σ = .ok s := by
  intro fs
  induction fs with
  | nil =>
    intro acc acc' h s hs
    simp only [callAll, Except.ok.injEq] at h
    subst h
    exact Or.inl hs
  | cons mf r ih =>
    intro acc acc' h s hs
    obtain ⟨m, f⟩ := mf
    simp only [callAll] at h
    split at h
    · cases h
    · rename_i σ' hc
      simp only [State.force_eq] at h
      rcases ih _ _ h s hs with h1 | ⟨mf, hmf, h2⟩
      · by_cases hsn : seenIn acc σ' = true
        · simp only [hsn, ite_true] at h1; exact Or.inl h1
        · simp only [hsn] at h1
          rcases List.mem_append.1 h1 with h1 | h1
          · exact Or.inl h1
          · simp only [List.mem_singleton] at h1
            subst h1
            exact Or.inr ⟨(m, f), List.mem_cons_self .., hc⟩
      · exact Or.inr ⟨mf, List.mem_cons_of_mem _ hmf, h2⟩

/-- invariant of the exploration: states still to be looked at are known, and every known
state that is not waiting is closed under calls -/
def ExploreInv (F : Facts) (work seen : List State) : Prop :=
  (∀ s ∈ work, s ∈ seen) ∧ ∀ s ∈ seen, s ∈ work ∨ ClosedFor F s (callables F s) seen

theorem ClosedFor.mono {F : Facts} {σ : State} {fs : List (ModId × Func)} {S T : List State}
    (h : ClosedFor F σ fs S) (hst : ∀ s ∈ S, s ∈ T) : ClosedFor F σ fs T := by
  intro mf hmf
  obtain ⟨σ', h1, h2⟩ := h mf hmf
  exact ⟨σ', h1, hst _ h2⟩

theorem explore_spec (F : Facts) :
    ∀ (k : Nat) (work seen final : List State), ExploreInv F work seen →
      explore F k work seen = .closed final →
      (∀ s ∈ seen, s ∈ final) ∧ ∀ s ∈ final, ClosedFor F s (callables F s) final := by
  intro k
  induction k with
  | zero =>
    intro work seen final hinv h
    cases work with
    | nil =>
      simp only [explore, Explored.closed.injEq] at h
      subst h
      refine ⟨fun s hs => hs, fun s hs => ?_⟩
      rcases hinv.2 s hs with hw | hc
      · cases hw
      · exact hc
    | cons σ work => simp [explore] at h
  | succ k ih =>
    intro work seen final hinv h
    cases work with
    | nil =>
      simp only [explore, Explored.closed.injEq] at h
      subst h
      refine ⟨fun s hs => hs, fun s hs => ?_⟩
      rcases hinv.2 s hs with hw | hc
      · cases hw
      · exact hc
    | cons σ work =>
      simp only [explore] at h
      split at h
      · cases h
      · rename_i seen' hca
        obtain ⟨⟨new, hnew⟩, hcl⟩ := callAll_spec F σ _ _ _ hca
        have hdrop : seen'.drop seen.length = new := by rw [hnew]; simp
        rw [hdrop] at h
        have hsub : ∀ s ∈ seen, s ∈ seen' := by
          intro s hs; rw [hnew]; exact List.mem_append_left _ hs
        have hinv' : ExploreInv F (work ++ new) seen' := by
          refine ⟨?_, ?_⟩
          · intro s hs
            rcases List.mem_append.1 hs with hs | hs
            · exact hsub s (hinv.1 s (List.mem_cons_of_mem _ hs))
            · rw [hnew]; exact List.mem_append_right _ hs
          · intro s hs
            rw [hnew] at hs
            rcases List.mem_append.1 hs with hs | hs
            · rcases hinv.2 s hs with hw | hc
              · rcases List.mem_cons.1 hw with rfl | hw
                · right; exact hcl
                · left; exact List.mem_append_left _ hw
              · right; exact hc.mono hsub
            · left; exact List.mem_append_right _ hs
        obtain ⟨h1, h2⟩ := ih _ _ _ hinv' h
        exact ⟨fun s hs => h1 s (hsub s hs), h2⟩

/-- what the check establishes for one entry point -/
theorem resolvesEntry_spec (F : Facts) (e : ModId) (h : resolvesEntry F e = true) :
    ∃ σ₀ final, importEntry F e = .ok (σ₀, none) ∧ exportedB F e σ₀ = true ∧ σ₀ ∈ final ∧
      ∀ s ∈ final, ClosedFor F s (callables F s) final := by
  unfold resolvesEntry at h
  split at h
  · cases h
  · cases h
  · rename_i σ₀ hi
    simp only [State.force_eq, Bool.and_eq_true] at h
    obtain ⟨hexp, hcl⟩ := h
    obtain ⟨final, hfin⟩ : ∃ final, explore F exploreBound [σ₀] [σ₀] = .closed final := by
      cases hx : explore F exploreBound [σ₀] [σ₀] with
      | closed seen => exact ⟨seen, rfl⟩
      | failed w => rw [hx] at hcl; cases hcl
      | bound => rw [hx] at hcl; cases hcl
    have hinv : ExploreInv F [σ₀] [σ₀] := ⟨fun s hs => hs, fun s hs => Or.inl hs⟩
    obtain ⟨h1, h2⟩ := explore_spec F _ _ _ _ hinv hfin
    exact ⟨σ₀, final, hi, hexp, h1 σ₀ (by simp), h2⟩

/-- **Soundness of the resolver** (for all facts).  If the check passes, then for every entry
point the import `import lena.X; from lena.X import *` succeeds in a fresh interpreter, and after
it *no sequence of calls* of functions of imported modules can reach an unresolved global name,
a missing attribute of a lena module or a failing lena import: every state reachable by calls
is safe. -/
theorem resolver_sound (F : Facts) (h : resolvesAll F = true) (e : ModId) (he : e ∈ F.entries) :
    ∃ σ₀, importEntry F e = .ok (σ₀, none) ∧ ∀ σ, Reach F σ₀ σ → Safe F σ := by
  unfold resolvesAll at h
  simp only [Bool.and_eq_true, List.all_eq_true] at h
  obtain ⟨σ₀, final, hi, _, h0, hcl⟩ := resolvesEntry_spec F e (h.2 e he)
  refine ⟨σ₀, hi, ?_⟩
  have hreach : ∀ σ, Reach F σ₀ σ → σ ∈ final := by
    intro σ hr
    induction hr with
    | refl => exact h0
    | call _ hc hcall ih =>
      obtain ⟨σ'', h1, h2⟩ := hcl _ ih _ (mem_callables F _ _ _ hc)
      rw [hcall] at h1
      cases h1
      exact h2
  intro σ hr m f hc
  obtain ⟨σ', h1, _⟩ := hcl σ (hreach σ hr) _ (mem_callables F σ m f hc)
  exact ⟨σ', h1⟩

/-! ## an alarm of the resolver is a real failing run of the interpreter -/

/-- everything the check calls is something a program can call -/
theorem callable_of_mem_callables (F : Facts) (σ : State) (m : ModId) (f : Func)
    (h : (m, f) ∈ callables F σ) : Callable F σ m f := by
  unfold callables at h
  rw [List.mem_flatMap] at h
  obtain ⟨⟨i, M⟩, hiM, hmem⟩ := h
  obtain ⟨j, hj, hM⟩ := (mem_zipIdx _ _ _ _).1 hiM
  have hij : i = j := by omega
  subst hij
  simp only at hmem
  split at hmem
  · rename_i hst
    obtain ⟨f', hf', heq⟩ := List.mem_map.1 hmem
    cases heq
    exact ⟨hst, M, hM, hf'⟩
  · cases hmem

/-- a failure found by the exploration is a failing call of a callable function in a state
that a sequence of calls reaches from `σ₀` -/
theorem explore_failed_real (F : Facts) (σ₀ : State) :
    ∀ (k : Nat) (work seen : List State) (w : Failure),
      (∀ s ∈ seen, Reach F σ₀ s) → (∀ s ∈ work, s ∈ seen) → explore F k work seen = .failed w →
      Reach F σ₀ w.state ∧ Callable F w.state w.mod w.func ∧
        callFn F w.mod w.func w.state = .error w.err := by
  intro k
  induction k with
  | zero =>
    intro work seen w _ _ h
    cases work <;> simp [explore] at h
  | succ k ih =>
    intro work seen w hseen hwork h
    cases work with
    | nil => simp [explore] at h
    | cons σ work =>
      simp only [explore] at h
      have hσ : Reach F σ₀ σ := hseen σ (hwork σ (List.mem_cons_self ..))
      split at h
      · rename_i w' hca
        cases h
        obtain ⟨h1, h2, h3⟩ := callAll_error F σ _ _ _ hca
        rw [h1]
        exact ⟨hσ, callable_of_mem_callables F σ _ _ h2, h3⟩
      · rename_i seen' hca
        obtain ⟨⟨new, hnew⟩, _⟩ := callAll_spec F σ _ _ _ hca
        have hdrop : seen'.drop seen.length = new := by rw [hnew]; simp
        rw [hdrop] at h
        have hseen' : ∀ s ∈ seen', Reach F σ₀ s := by
          intro s hs
          rcases callAll_new_reached F σ _ _ _ hca s hs with h1 | ⟨mf, hmf, h2⟩
          · exact hseen s h1
          · exact Reach.call hσ (callable_of_mem_callables F σ _ _ hmf) h2
        refine ih _ _ w hseen' ?_ h
        intro s hs
        rw [hnew]
        rcases List.mem_append.1 hs with hs | hs
        · exact List.mem_append_left _ (hwork s (List.mem_cons_of_mem _ hs))
        · exact List.mem_append_right _ hs

/-- **Every alarm is real** (for all facts).  If the check rejects an entry point, then in the
interpreter the import of the entry fails, or an advertised name is missing after it, or some
sequence of calls reaches a state in which a callable function fails with the reported error —
or there are more reachable states than `exploreBound`.  The resolver never rejects a tree for a
reason that is not a failing run of the interpreter. -/
theorem resolver_alarm_is_real (F : Facts) (e : ModId) (h : resolvesEntry F e = false) :
    (∃ err, importEntry F e = .error err) ∨
    (∃ σ x, importEntry F e = .ok (σ, some x)) ∨
    ∃ σ₀, importEntry F e = .ok (σ₀, none) ∧
      (exportedB F e σ₀ = false ∨ explore F exploreBound [σ₀] [σ₀] = .bound ∨
       ∃ w : Failure, Reach F σ₀ w.state ∧ Callable F w.state w.mod w.func ∧
         callFn F w.mod w.func w.state = .error w.err) := by
  unfold resolvesEntry at h
  split at h
  · rename_i err he
    exact Or.inl ⟨err, he⟩
  · rename_i σ x he
    exact Or.inr (Or.inl ⟨σ, x, he⟩)
  · rename_i σ₀ hi
    right; right
    refine ⟨σ₀, hi, ?_⟩
    simp only [State.force_eq, Bool.and_eq_false_iff] at h
    rcases h with h | h
    · exact Or.inl h
    · right
      cases hx : explore F exploreBound [σ₀] [σ₀] with
      | closed seen => rw [hx] at h; cases h
      | bound => exact Or.inl rfl
      | failed w =>
        right
        exact ⟨w, explore_failed_real F σ₀ _ _ _ w (by intro s hs; simp at hs; subst hs; exact Reach.refl)
          (fun s hs => hs) hx⟩

/-- the import of every entry point succeeds when the check passes (first sentence of the
property: star imports work) -/
theorem import_ok_of_resolvesAll (F : Facts) (h : resolvesAll F = true) (e : ModId) (he : e ∈ F.entries) :
    ∃ σ₀, importEntry F e = .ok (σ₀, none) :=
  let ⟨σ₀, h0, _⟩ := resolver_sound F h e he
  ⟨σ₀, h0⟩

/-- **Advertised names exist** (for all facts).  If the check passes, then after the entry's
`import lena.X; from lena.X import *` every name of `lena.X.__all__` is an attribute of the
package and is bound in the importer's namespace. -/
theorem exported_of_resolvesAll (F : Facts) (h : resolvesAll F = true) (e : ModId) (he : e ∈ F.entries)
    (E : Module) (hE : F.modOf e = some E) (p : ModId) (hp : Ev.star p ∈ E.evs)
    (P : Module) (hP : F.modOf p = some P) (names : List Name) (hall : P.all = some names) :
    ∃ σ₀, importEntry F e = .ok (σ₀, none) ∧ P.allDynamic = false ∧
      ∀ n ∈ names, (σ₀.get F p n).isSome = true := by
  unfold resolvesAll at h
  simp only [Bool.and_eq_true, List.all_eq_true] at h
  obtain ⟨σ₀, final, hi, hexp, _, _⟩ := resolvesEntry_spec F e (h.2 e he)
  refine ⟨σ₀, hi, ?_⟩
  unfold exportedB at hexp
  simp only [hE, List.all_eq_true] at hexp
  have := hexp _ hp
  simp only [hP, hall, Option.getD_some, List.all_eq_true, Bool.and_eq_true, Bool.not_eq_true'] at this
  exact ⟨this.1, fun n hn => this.2 n hn⟩

/-! ## the interpreter state: `sys.modules` only grows, module values are imported modules

(`Lemmas/C20.lean`: `State.get_set_same`, `State.get_set_other` — the two numbers of the state are
an array of namespaces; `importMod_stable`, `sys_modules_grow`, `loaded_after_import`.) -/

/-- the invariant `AttrInv` holds in every state a program can reach -/
theorem reach_attrInv (F : Facts) (e : ModId) (σ₀ σ : State) (exc : Option Nat)
    (h0 : importEntry F e = .ok (σ₀, exc)) (hr : Reach F σ₀ σ) : AttrInv F σ := by
  induction hr with
  | refl => exact importEntry_inv F e _ exc h0
  | call _ _ hcall ih => exact callFn_inv F _ _ _ _ ih hcall

/-- **A name bound to a lena module is bound to an imported module** (for all facts, all entry
points, all call sequences): in every state a program can reach, if some module namespace binds
a name to the lena module `c` — in particular if the package `lena` has the attribute `flow` —
then `c` is in `sys.modules`, i.e. somebody has imported it.  This is the rule "`lena.X` exists
on the package `lena` only after `lena.X` has been imported by someone" of the design. -/
theorem module_value_is_imported (F : Facts) (e : ModId) (σ₀ σ : State) (exc : Option Nat)
    (h0 : importEntry F e = .ok (σ₀, exc)) (hr : Reach F σ₀ σ) (p : ModId) (n : Name) (c : ModId)
    (hg : σ.get F p n = some (.mod c)) : σ.statusOf c ≠ .absent :=
  reach_attrInv F e σ₀ σ exc h0 hr p n c hg

/-- the contrapositive, as the property uses it: while `lena.flow` has not been imported, no
namespace — in particular not the package `lena` — binds any name to it, so the chain
`lena.flow.…` is an `AttributeError` -/
theorem not_imported_not_bound (F : Facts) (e : ModId) (σ₀ σ : State) (exc : Option Nat)
    (h0 : importEntry F e = .ok (σ₀, exc)) (hr : Reach F σ₀ σ) (c : ModId) (hc : σ.statusOf c = .absent)
    (p : ModId) (n : Name) : σ.get F p n ≠ some (.mod c) :=
  fun hg => module_value_is_imported F e σ₀ σ exc h0 hr p n c hg hc

/-! ## the import closure (`import closure of an entry sub-package, fixpoint with fuel`) -/

/-- **What an entry point loads lies in its static import closure** (for all facts).  If the
fixpoint iteration produced a closed set containing the entry (`closuresOk`, checked by the
kernel for the current tree), then after `import lena.X; from lena.X import *` every module in
`sys.modules` is a member of `importClosure F e` — in whatever order the interpreter resolved
the circular imports.  (That the closure is not too big — `lena.flow` is *absent* after
`import lena.context` — is what the correspondence run compares with the real `sys.modules`.) -/
theorem loaded_within_closure (F : Facts) (h : closuresOk F = true) (e : ModId) (he : e ∈ F.entries)
    (σ : State) (exc : Option Nat) (hi : importEntry F e = .ok (σ, exc)) (c : ModId)
    (hc : σ.statusOf c ≠ .absent) :
    memSet (importClosure F e) c = true := by
  unfold closuresOk at h
  rw [List.all_eq_true] at h
  have := h e he
  simp only [forceNat_eq, Bool.and_eq_true] at this
  exact importMod_within this.2 _ e _ _ exc this.1 (within_init _) hi c hc

/-! ## the environment: optional third-party modules may be absent

`Facts.absent` is a parameter of the interpreter (`Ev.ext`), so every theorem above holds in every
environment; `resolvesAllEnvs` runs the check in every environment of `Facts.envs`. -/

theorem withEnv_entries (F : Facts) (env : Nat) : (F.withEnv env).entries = F.entries := rfl

/-- **Soundness over the environments** (for all facts).  If the check passes in every
environment of `F.envs`, then whichever of those sets of third-party modules cannot be imported:
every entry point's `import lena.X; from lena.X import *` succeeds (no `ImportError` escapes,
from lena or from an absent optional dependency), and afterwards no sequence of calls can reach
an unresolved global name or a missing attribute of a lena module. -/
theorem resolver_sound_envs (F : Facts) (h : resolvesAllEnvs F = true) (env : Nat) (henv : env ∈ F.envs)
    (e : ModId) (he : e ∈ F.entries) :
    ∃ σ₀, importEntry (F.withEnv env) e = .ok (σ₀, none) ∧
      ∀ σ, Reach (F.withEnv env) σ₀ σ → Safe (F.withEnv env) σ := by
  unfold resolvesAllEnvs at h
  rw [List.all_eq_true] at h
  exact resolver_sound (F.withEnv env) (h env henv) e he

/-- **Advertised names exist in every environment** (for all facts) -/
theorem exported_envs (F : Facts) (h : resolvesAllEnvs F = true) (env : Nat) (henv : env ∈ F.envs)
    (e : ModId) (he : e ∈ F.entries)
    (E : Module) (hE : F.modOf e = some E) (p : ModId) (hp : Ev.star p ∈ E.evs)
    (P : Module) (hP : F.modOf p = some P) (names : List Name) (hall : P.all = some names) :
    ∃ σ₀, importEntry (F.withEnv env) e = .ok (σ₀, none) ∧ P.allDynamic = false ∧
      ∀ n ∈ names, (σ₀.get (F.withEnv env) p n).isSome = true := by
  unfold resolvesAllEnvs at h
  rw [List.all_eq_true] at h
  exact exported_of_resolvesAll (F.withEnv env) (h env henv) e he E hE p hp P hP names hall

/-- **Every alarm is real, in its environment** (for all facts): if the check over the
environments fails, there is an environment of `F.envs` in which the layout check fails or an
entry point is rejected — and `resolver_alarm_is_real` says what a rejected entry point means. -/
theorem resolver_alarm_envs (F : Facts) (h : resolvesAllEnvs F = false) :
    ∃ env ∈ F.envs, (F.withEnv env).layoutOk = false ∨
      ∃ e ∈ F.entries, resolvesEntry (F.withEnv env) e = false := by
  unfold resolvesAllEnvs at h
  rw [List.all_eq_false] at h
  obtain ⟨env, henv, hr⟩ := h
  refine ⟨env, henv, ?_⟩
  unfold resolvesAll at hr
  simp only [Bool.not_eq_true, Bool.and_eq_false_iff, List.all_eq_false] at hr
  rcases hr with hr | ⟨e, he, hr⟩
  · exact Or.inl hr
  · exact Or.inr ⟨e, he, by simpa using hr⟩

/-- the import of a third-party module: nothing happens if the environment has it, an
`ImportError` starts to unwind if it has not -/
theorem ext_step (F : Facts) (imp : Imp) (sc : Scope) (x : Nat) (rest : List Ev)
    (saved : List (State × Ns)) (loc : Ns) (σ : State) :
    execEvs F imp sc (.ext x :: rest) .run saved loc σ =
      if F.isAbsent x then execEvs F imp sc rest (.raising (.ext x) 0 0) saved loc σ
      else execEvs F imp sc rest .run saved loc σ := by
  simp only [execEvs]

/-- the handler of the innermost enclosing `try` catches the exception if its mask covers the
exception's kind (else the search goes on behind its `tryEnd`); the handler of a `try` whose body
ran to its end is skipped up to its `tryEnd` -/
theorem try_handler_catches (F : Facts) (imp : Imp) (sc : Scope) (x : Exc) (mask r : Nat) (rest : List Ev)
    (saved : List (State × Ns)) (loc : Ns) (σ : State) :
    execEvs F imp sc (.tryExcept mask :: rest) (.raising x 0 r) saved loc σ =
      (if Nat.land mask x.kind != 0 then execEvs F imp sc rest .run saved loc σ
       else execEvs F imp sc rest (.raising x 1 r) saved loc σ) ∧
    execEvs F imp sc (.tryExcept mask :: rest) .run saved loc σ = execEvs F imp sc rest (.skipping 0 0) saved loc σ ∧
    execEvs F imp sc (.tryEnd :: rest) (.skipping 0 r) saved loc σ = execEvs F imp sc rest .run saved loc σ := by
  simp only [execEvs, and_self]

/-- while an exception unwinds, nothing is bound and nothing is imported: an event that is not a
marker is skipped -/
theorem raising_skips (F : Facts) (imp : Imp) (sc : Scope) (x : Exc) (d r : Nat) (ev : Ev) (rest : List Ev)
    (saved : List (State × Ns)) (loc : Ns) (σ : State)
    (h : ev ≠ .tryBegin ∧ (∀ mask, ev ≠ .tryExcept mask) ∧ ev ≠ .tryEnd ∧ ev ≠ .enter ∧ ev ≠ .leave) :
    execEvs F imp sc (ev :: rest) (.raising x d r) saved loc σ
      = execEvs F imp sc rest (.raising x d r) saved loc σ := by
  cases ev <;> simp_all [execEvs]

/-- importing a module that is fully imported changes nothing -/
theorem import_done_noop (F : Facts) (k : Nat) (m : ModId) (M : Module) (σ : State)
    (hM : F.modOf m = some M) (hd : σ.statusOf m = .done) : importMod F (k + 1) m σ = .ok (σ, none) := by
  simp only [importMod, hM, hd]

/-- a call never removes a module from the set of modules that have been imported -/
theorem call_keeps_imported (F : Facts) (m : ModId) (f : Func) (σ σ' : State) (c : ModId)
    (hc : σ.statusOf c ≠ .absent) (h : callFn F m f σ = .ok σ') : σ'.statusOf c ≠ .absent :=
  callFn_stable (stable_loaded F c) m f σ σ' hc h

/-- `global n; n = …` in a function body binds the module's global: afterwards `n` resolves in
that module (when `n` has a column in the layout, which `layoutOk` checks) -/
theorem gbind_binds (F : Facts) (imp : Imp) (sc : Scope) (n : Name) (rest : List Ev)
    (saved : List (State × Ns)) (loc : Ns) (σ : State) (hn : n < F.nNames) (hb : 1 < 2 ^ F.slotBits) :
    execEvs F imp sc (.gbind n :: rest) .run saved loc σ
      = execEvs F imp sc rest .run saved loc (σ.set F sc.mod n (some .obj)) ∧
    (σ.set F sc.mod n (some .obj)).get F sc.mod n = some .obj := by
  refine ⟨by simp only [execEvs], ?_⟩
  exact State.get_set_same F σ sc.mod n (some .obj) hn (by simpa [encodeVal] using hb)

/-- a module `0` whose code is `try: import <third-party 0>; a = …  except ImportError: b = …`
(names `5`, `6`), then `c = …` (name `7`) -/
def exampleTry : Facts :=
  ⟨[⟨0, none, 4, none, false, [.tryBegin, .ext 0, .bind 5, .tryExcept 1, .bind 6, .tryEnd, .bind 7], []⟩],
    [], 3, [], 16, 2, 0, [0, 1], [], none, [], []⟩

/-- with the third-party module present the `try` path binds `5` and the handler is skipped; with
it absent the handler binds `6`; `7` is bound either way and the import succeeds -/
example :
    ((match importMod exampleTry 3 0 State.init with
      | .ok (σ, none) => decide (σ.get exampleTry 0 5 = some .obj) && decide (σ.get exampleTry 0 6 = none) &&
          decide (σ.get exampleTry 0 7 = some .obj) && decide (σ.statusOf 0 = .done)
      | _ => false) &&
     (match importMod (exampleTry.withEnv 1) 3 0 State.init with
      | .ok (σ, none) => decide (σ.get exampleTry 0 5 = none) && decide (σ.get exampleTry 0 6 = some .obj) &&
          decide (σ.get exampleTry 0 7 = some .obj) && decide (σ.statusOf 0 = .done)
      | _ => false)) = true := by
  decide

/-- without the handler the `ImportError` escapes: the module is removed from `sys.modules`
(`failed`) and the importer sees the exception -/
example :
    (match importMod (⟨[⟨0, none, 4, none, false, [.ext 0, .bind 5], []⟩], [], 3, [], 16, 2, 1, [1], [], none, [], []⟩ : Facts) 3 0 State.init with
     | .ok (σ, some 0) => decide (σ.statusOf 0 = .failed)
     | _ => false) = true := by
  decide

/-! ## `else:` of a `try`; handlers that run (clause 1b as far as names go) -/

/-- the `else:` part of a `try` statement: reached after the handler ran, it is skipped (up to
`tryEnd`); reached while the handler is being skipped — the body ran to its end — it runs; and
while an exception unwinds it is passed over like any other event, so that a failure *inside* the
`else:` part is not caught by the handler of its own `try` (it has left `tryExcept` behind) -/
theorem try_else_step (F : Facts) (imp : Imp) (sc : Scope) (x : Exc) (d r : Nat) (rest : List Ev)
    (saved : List (State × Ns)) (loc : Ns) (σ : State) :
    execEvs F imp sc (.tryElse :: rest) .run saved loc σ = execEvs F imp sc rest (.skipping 0 0) saved loc σ ∧
    execEvs F imp sc (.tryElse :: rest) (.skipping 0 r) saved loc σ = execEvs F imp sc rest .run saved loc σ ∧
    execEvs F imp sc (.tryElse :: rest) (.skipping (d + 1) r) saved loc σ
      = execEvs F imp sc rest (.skipping (d + 1) r) saved loc σ ∧
    execEvs F imp sc (.tryElse :: rest) (.raising x d r) saved loc σ
      = execEvs F imp sc rest (.raising x d r) saved loc σ := by
  simp only [execEvs, and_self]

/-- `try: a = …  except <NameError …>: b = …  else: <load 7>` (names `5`, `6`): the body runs to
its end, the handler is skipped, the `else:` part runs — and its `NameError` is the result,
although the handler catches `NameError` -/
example : execEvs emptyFacts (fun _ s => .ok (s, none)) ⟨0, none⟩
      [.tryBegin, .bind 5, .tryExcept 6, .bind 6, .tryElse, .load 7, .tryEnd] .run [] [] State.init
    = .error (.nameError 0 none 7) := rfl

/-- the same statement whose *body* fails: the handler runs, the `else:` part does not (its load of
the undefined name `8` is never executed), the code after the statement does -/
example : (match execEvs emptyFacts (fun _ s => .ok (s, none)) ⟨0, none⟩
      [.tryBegin, .load 7, .tryExcept 6, .bind 6, .tryElse, .load 8, .tryEnd, .bind 5] .run [] [] State.init with
    | .ok out => decide (out.σ.get emptyFacts 0 6 = some .obj) && decide (out.σ.get emptyFacts 0 5 = some .obj)
    | .error _ => false) = true := by decide

/-- **The traced call is the call**: `callCaught` is computed by an interpreter that returns what
`callFn` returns — the trace of caught failures is an additional output, not another semantics -/
theorem callFn_eq_traced (F : Facts) (m : ModId) (f : Func) (σ : State) :
    callFn F m f σ =
      match (execEvsT F (importMod F F.depth) ⟨m, some f.name⟩ f.evs .run [] [] σ []).1 with
      | .error e => .error e
      | .ok out => .ok out.σ := by
  rw [execEvsT_fst]
  rfl

/-- a handler that catches a would-be failure records it, unless it repairs it by importing
(bit 3 of the mask); the `ImportError` of an absent third-party module is not recorded (that is
the environment, not the import order) -/
theorem traceCatch_spec (mask : Nat) (e : Err) (x : Nat) (tr : List Err) :
    traceCatch mask (.err e) tr = (if Nat.land mask 8 != 0 then tr else tr ++ [e]) ∧
    traceCatch mask (.ext x) tr = tr := by
  simp only [traceCatch, and_self]

/-- **Handlers are import-order independent** (for all facts).  If `orderIndependent F` holds,
then for every entry point `own` (a fresh interpreter that imported only `lena.X`) and the entry
point `whole` that imports the whole framework: every function that can be called after
`import lena.X` — and every such function is defined in a module that the whole framework has
imported, too — catches, when it is called, exactly the same undefined-name failures
(`NameError`, `AttributeError` on a lena module, `ImportError` for a lena name) in the one
interpreter as in the other.  So no `try … except AttributeError`, `hasattr(lena, "x")` or
`getattr(lena, "x", default)` in the function takes the handler with only its own sub-package
imported and the body after the whole framework has been imported (or the other way round). -/
theorem handlers_order_independent (F : Facts) (h : orderIndependent F = true)
    (whole : ModId) (hw : wholeEntry F = some whole) (σw : State) (hiw : importEntry F whole = .ok (σw, none))
    (own : ModId) (ho : own ∈ F.entries) (σo : State) (hio : importEntry F own = .ok (σo, none))
    (m : ModId) (f : Func) (hc : Callable F σo m f) (hcw : σw.statusOf m = .done) :
    callCaught F m f σo = callCaught F m f σw := by
  unfold orderIndependent at h
  simp only [hw, hiw, State.force_eq, List.all_eq_true] at h
  have h1 := h own ho
  unfold orderIndependentEntry orderIndependentStates at h1
  simp only [hio, State.force_eq, List.all_eq_true] at h1
  have h2 := h1 (m, f) (mem_callables F σo m f hc)
  simp only [hcw, Bool.or_eq_true, Bool.not_eq_true'] at h2
  rcases h2 with h2 | h2
  · rw [callCaught_nil F m f σo h2, callCaught_nil F m f σw h2]
  · exact (errsBeq_iff _ _).1 h2

/-- … in every environment of `F.envs` -/
theorem handlers_order_independent_envs (F : Facts) (h : orderIndependentEnvs F = true) (env : Nat)
    (henv : env ∈ F.envs)
    (whole : ModId) (hw : wholeEntry F = some whole) (σw : State)
    (hiw : importEntry (F.withEnv env) whole = .ok (σw, none))
    (own : ModId) (ho : own ∈ F.entries) (σo : State) (hio : importEntry (F.withEnv env) own = .ok (σo, none))
    (m : ModId) (f : Func) (hc : Callable (F.withEnv env) σo m f) (hcw : σw.statusOf m = .done) :
    callCaught (F.withEnv env) m f σo = callCaught (F.withEnv env) m f σw := by
  unfold orderIndependentEnvs at h
  rw [List.all_eq_true] at h
  exact handlers_order_independent (F.withEnv env) (h env henv) whole hw σw hiw own ho σo hio m f hc hcw

/-- a package `0` (attribute name `4`) with the sub-packages `1` (attribute name `5`; its function
`9` asks `hasattr(lena, <6>)`, i.e. reads `lena.<6>` guarded) and `2` (attribute name `6`); entry
points `3` = `import lena.<5>` and `4` = `import lena.<5>, lena.<6>` (the whole framework) -/
def exampleOrder (mask : Nat) : Facts :=
  ⟨[⟨0, none, 4, none, false, [], []⟩,
    ⟨1, some 0, 5, none, false, [.ensure 0, .bindMod 7 0],
      [⟨9, 1, [.tryBegin, .attr 7 [6], .tryExcept mask, .tryEnd]⟩]⟩,
    ⟨2, some 0, 6, none, false, [.ensure 0], []⟩,
    ⟨3, none, 10, none, false, [.ensure 0, .ensure 1], []⟩,
    ⟨4, none, 11, none, false, [.ensure 0, .ensure 1, .ensure 2], []⟩],
   [3, 4], 3, [], 16, 3, 0, [0], [], none, [], []⟩

/-- non-vacuity, both ways: the function resolves in both interpreters (`resolvesAll`), but it
catches an `AttributeError` on `lena` with only its own sub-package imported and nothing after
the whole framework has been imported: `orderIndependent` is false.  With the lazy-import mask
(bit 3) the same function is accepted, and so is a function without such a question. -/
example :
    (resolvesAll (exampleOrder 4) && !orderIndependent (exampleOrder 4) &&
     orderIndependent (exampleOrder 12) &&
     (match importEntry (exampleOrder 4) 3, importEntry (exampleOrder 4) 4 with
      | .ok (σo, none), .ok (σw, none) =>
        decide (callCaught (exampleOrder 4) 1 ⟨9, 1, [.tryBegin, .attr 7 [6], .tryExcept 4, .tryEnd]⟩ σo
                  = [.attrError 1 (some 9) 7 0 6]) &&
        decide (callCaught (exampleOrder 4) 1 ⟨9, 1, [.tryBegin, .attr 7 [6], .tryExcept 4, .tryEnd]⟩ σw = [])
      | _, _ => false)) = true := by
  decide

/-! ## exceptions: "reported with the documented LenaException subclasses", "all Lena exceptions
derive from LenaException" (what can be stated over the facts) -/

/-- class `i` has class `r` among its ancestors, through classes of the tree (specification;
`derivesB` is the executable check) -/
inductive Derives (F : Facts) : Nat → Nat → Prop where
  | refl (i : Nat) : Derives F i i
  | step {i j r : Nat} {C : ClassFact} : F.classes[i]? = some C → ClassRef.cls j ∈ C.bases →
      Derives F j r → Derives F i r

theorem derivesB_sound (F : Facts) : ∀ (k i r : Nat), derivesB F k i r = true → Derives F i r := by
  intro k
  induction k with
  | zero =>
    intro i r h
    simp only [derivesB] at h
    have := Nat.eq_of_beq_eq_true h
    subst this; exact Derives.refl i
  | succ k ih =>
    intro i r h
    simp only [derivesB, Bool.or_eq_true] at h
    rcases h with h | h
    · have := Nat.eq_of_beq_eq_true h
      subst this; exact Derives.refl i
    · split at h
      · rename_i C hC
        rw [List.any_eq_true] at h
        obtain ⟨b, hb, hd⟩ := h
        cases b with
        | cls j => exact Derives.step hC hb (ih j r hd)
        | builtin n => simp at hd
        | unknown => simp at hd
      · cases h

/-- what a `raise` statement that names a class may name: a class of the tree that derives from
`LenaException`; or a builtin — but a builtin that a documented lena exception wraps
(`TypeError` ↔ `LenaTypeError`, …) only where Python's attribute protocol demands it -/
def RaiseOk (F : Facts) (r : RaiseFact) : Prop :=
  match r.what with
  | .cls i => ∃ root, F.excRoot = some root ∧ Derives F i root
  | .builtin b => r.protocol = true ∨ b ∉ counterparts F
  | .unknown => True

/-- **All lena exceptions derive from LenaException; `raise` statements name documented
exceptions** (for all facts): if `exceptionsOk` holds, then there is a class `LenaException`,
every class of `lena/core/exceptions.py` has it among its ancestors, and every `raise` statement
of the tree that names a class satisfies `RaiseOk`. -/
theorem exceptions_of_ok (F : Facts) (h : exceptionsOk F = true) :
    ∃ root, F.excRoot = some root ∧
      (∀ i C, F.classes[i]? = some C → C.isLenaExc = true → Derives F i root) ∧
      ∀ r ∈ F.raises, RaiseOk F r := by
  unfold exceptionsOk at h
  rw [Bool.and_eq_true] at h
  obtain ⟨h1, h2⟩ := h
  cases hr : F.excRoot with
  | none => rw [hr] at h1; cases h1
  | some root =>
    rw [hr] at h1
    refine ⟨root, rfl, ?_, ?_⟩
    · intro i C hC hexc
      rw [List.all_eq_true] at h1
      have := h1 (i, C) ((mem_zipIdx _ _ _ _).2 ⟨i, by omega, hC⟩)
      simp only [hexc, Bool.not_true, Bool.false_or] at this
      exact derivesB_sound F _ i root this
    · intro r hrm
      rw [List.all_eq_true] at h2
      have := h2 r hrm
      unfold raiseOkB at this
      unfold RaiseOk
      cases hw : r.what with
      | cls i =>
        rw [hw, hr] at this
        exact ⟨root, hr, derivesB_sound F _ i root this⟩
      | builtin b =>
        rw [hw] at this
        simp only [Bool.or_eq_true, Bool.not_eq_true'] at this
        rcases this with hp | hc
        · exact Or.inl hp
        · right
          intro hmem
          have : (counterparts F).any (Nat.beq b) = true :=
            List.any_eq_true.2 ⟨b, hmem, by simp⟩
          rw [this] at hc
          cases hc
      | unknown => trivial

/-- a tree with `class LenaException(Exception)`, `class LenaKeyError(LenaException, KeyError)`,
a `raise LenaKeyError`, and a `raise KeyError` inside `__getattr__`-like protocol code: accepted;
the same `raise KeyError` elsewhere, or `class LenaKeyError(KeyError)`: rejected -/
example :
    let cls : List ClassFact := [⟨0, 10, 1, [.builtin 20], true⟩, ⟨0, 11, 2, [.cls 0, .builtin 21], true⟩]
    (exceptionsOk ⟨[], [], 3, [], 16, 2, 0, [0], cls, some 0, [⟨0, 12, 5, .cls 1, false⟩, ⟨0, 13, 6, .builtin 21, true⟩], []⟩ &&
     !exceptionsOk ⟨[], [], 3, [], 16, 2, 0, [0], cls, some 0, [⟨0, 13, 6, .builtin 21, false⟩], []⟩ &&
     !exceptionsOk ⟨[], [], 3, [], 16, 2, 0, [0], [⟨0, 10, 1, [.builtin 20], true⟩, ⟨0, 11, 2, [.builtin 21], true⟩],
        some 0, [], []⟩) = true := by
  decide

/-- **Possibly-unbound locals are audited ones** (for all facts): if `localsOk` holds, every read
of a local that CPython's definite-assignment analysis cannot prove bound is one of the audited
reads.  This is the `_partial` of `no_unbound_local_full`. -/
theorem locals_audited_partial (F : Facts) (h : localsOk F = true) :
    ∀ u ∈ F.maybeUnbound, u.audited = true := by
  unfold localsOk at h
  rw [List.all_eq_true] at h
  exact h

/-! ## clause 2a for locals: reads of locals that are certainly unbound

"never with NameError": `UnboundLocalError` is a `NameError`.  The facts list every read of a local
that is unbound on every path reaching it (after `except … as`, after `del`, before any binding). -/

/-- **No function fails with an `UnboundLocalError` that the facts know** (for all fact lists): when
`deadLoadsOk` holds, no function of any module has a certainly-unbound read, and the list of
`NameError`s they stand for is empty — and conversely. -/
theorem dead_loads_ok_iff (D : List DeadLoad) :
    deadLoadsOk D = true ↔ ∀ m fn, deadLoadsOf D m fn = [] := by
  constructor
  · intro h m fn
    cases D with
    | nil => rfl
    | cons d t => simp [deadLoadsOk] at h
  · intro h
    cases D with
    | nil => rfl
    | cons d t =>
      have := h d.mod d.fn
      simp [deadLoadsOf, List.filter] at this

/-- a certainly-unbound read is a `NameError` of its function: every listed read is reported, and
every reported `NameError` comes from a listed read of that function -/
theorem local_name_errors_exact (D : List DeadLoad) (m : ModId) (fn var : Name) :
    Err.nameError m (some fn) var ∈ localNameErrors D ↔ ∃ d ∈ deadLoadsOf D m fn, d.var = var := by
  simp only [localNameErrors, deadLoadsOf, List.mem_map, List.mem_filter, Bool.and_eq_true, beq_iff_eq,
    Err.nameError.injEq, Option.some.injEq]
  constructor
  · rintro ⟨d, hd, h1, h2, h3⟩
    exact ⟨d, ⟨hd, h1, h2⟩, h3⟩
  · rintro ⟨d, ⟨hd, h1, h2⟩, h3⟩
    exact ⟨d, hd, h1, h2, h3⟩

/-- when `deadLoadsOk` holds no `NameError` comes from a local -/
theorem no_local_name_error (D : List DeadLoad) (h : deadLoadsOk D = true) (e : Err) :
    e ∉ localNameErrors D := by
  cases D with
  | nil => simp [localNameErrors]
  | cons d t => simp [deadLoadsOk] at h

/-- non-vacuity: the handler name read after its `except … as` clause (module 3, function 7, variable 9)
is found, attributed to its function only, and makes `deadLoadsOk` false -/
example :
    let D : List DeadLoad := [⟨3, 7, 9, 132, 0⟩, ⟨3, 8, 10, 140, 1⟩]
    (deadLoadsOk D = false) ∧ (deadLoadsOk [] = true) ∧ deadLoadsOf D 3 7 = [⟨3, 7, 9, 132, 0⟩] ∧
    deadLoadsOf D 3 6 = [] ∧ Err.nameError 3 (some 7) 9 ∈ localNameErrors D := by
  decide

/-! ## clauses that the facts cannot express: full statements, kept as `_full`

The interpreter of this file has no notion of the *behaviour* of an element (what a call returns
or raises for given arguments).  The two clauses below are therefore stated over an abstract
observation function and are **not proved**; the only evidence for them is dynamic: the
behaviour cases of `harness/props/c20.py` (every public name exercised on a fixed palette of
argument tuples and flows in fresh interpreters, only its own sub-package imported vs the whole
framework imported, in every environment), whose reach is reported in the evidence
(`behaviour_function_coverage`). -/

/-- clause 1b, full: "every public element behaves the same in a fresh interpreter that has
imported only its own subpackage as it does after the whole framework has been imported".
`observe loaded element input` stands for the observable outcome (value or exception class) of
exercising `element` on `input` in an interpreter whose imported sub-packages are `loaded`.
NOT PROVED (no behaviour model); tested by the behaviour cases. -/
def behaves_same_full {Outcome Input : Type} (subpackages : List ModId) (publicNames : ModId → List Name)
    (observe : List ModId → ModId → Name → Input → Outcome) : Prop :=
  ∀ pkg ∈ subpackages, ∀ n ∈ publicNames pkg, ∀ x : Input,
    observe [pkg] pkg n x = observe subpackages pkg n x

/-- what the model does say about clause 1b (`_partial`): with only its own sub-package imported
and with the whole framework imported alike, no call can end in one of the undefined-name
failures — the two interpreters cannot differ *by* a `NameError` / `AttributeError` on a lena
module / lena `ImportError`. -/
theorem behaves_same_partial (F : Facts) (h : resolvesAllEnvs F = true) (env : Nat) (henv : env ∈ F.envs)
    (own whole : ModId) (ho : own ∈ F.entries) (hw : whole ∈ F.entries) :
    (∃ σ₀, importEntry (F.withEnv env) own = .ok (σ₀, none) ∧
        ∀ σ, Reach (F.withEnv env) σ₀ σ → Safe (F.withEnv env) σ) ∧
    (∃ σ₀, importEntry (F.withEnv env) whole = .ok (σ₀, none) ∧
        ∀ σ, Reach (F.withEnv env) σ₀ σ → Safe (F.withEnv env) σ) :=
  ⟨resolver_sound_envs F h env henv own ho, resolver_sound_envs F h env henv whole hw⟩

/-- clause 2b (positive half), full: "invalid arguments and missing keys are reported with the
documented LenaException subclasses".  `raisedBy element input` is the class of the exception a
call raises, if any; `isInvalid` says that the input is an invalid argument / has a missing key;
`derivesFromLenaException` is about the runtime class.  NOT PROVED (no behaviour model): what is
proved is `exceptions_of_ok` — every `raise` statement names a documented exception — which does
not cover exceptions raised by Python itself (`TypeError` for a wrong number of arguments,
`KeyError` from a dict lookup), nor says which inputs are "invalid". -/
def invalid_arguments_reported_full {Input ExcClass : Type} (elements : List Name)
    (isInvalid : Name → Input → Prop) (raisedBy : Name → Input → Option ExcClass)
    (derivesFromLenaException : ExcClass → Prop) : Prop :=
  ∀ el ∈ elements, ∀ x : Input, isInvalid el x → ∃ c, raisedBy el x = some c ∧ derivesFromLenaException c

/-- clause 2a for ordinary locals, full: no read of a local variable can find it unbound
(`UnboundLocalError` is a `NameError`).  `unboundReadPossible` stands for the existence of a run
of the function that reads `var` before binding it.  NOT PROVED: the interpreter follows only
the locals bound by imports, module aliases and closure cells; for the others the facts list the
reads CPython itself cannot prove bound, and `locals_audited_partial` says they are audited. -/
def no_unbound_local_full (unboundReadPossible : ModId → Name → Name → Prop) : Prop :=
  ∀ m fn var, ¬ unboundReadPossible m fn var

/-- an alias of a module is followed: `flow_mod = lena.flow; flow_mod.get_data_and_context` is an
`AttributeError` on a lena module (package `0`, submodule `1` with attribute name `5`, the alias
is the name `8`, `6` exists in the submodule and `7` does not) -/
example :
    let F : Facts := ⟨[⟨0, none, 4, none, false, [], []⟩,
        ⟨1, some 0, 5, none, false, [.ensure 0, .bind 6], []⟩], [], 3, [], 16, 2, 0, [0], [], none, [], []⟩
    (match importMod F 3 1 State.init with
     | .ok (σ, _) =>
       (match execEvs F (importMod F 3) ⟨1, some 9⟩ [.bindMod 10 0, .alias 8 10 [5], .attr 8 [6]] .run [] [] σ with
        | .ok _ => true | .error _ => false) &&
       (match execEvs F (importMod F 3) ⟨1, some 9⟩ [.bindMod 10 0, .alias 8 10 [5], .attr 8 [7]] .run [] [] σ with
        | .error (.attrError 1 (some 9) 8 1 7) => true | _ => false)
     | .error _ => false) = true := by
  decide

/-- a package `0` with a submodule `1` whose attribute name is `5` -/
def exampleFacts : Facts :=
  ⟨[⟨0, none, 4, none, false, [], []⟩, ⟨1, some 0, 5, none, false, [.ensure 0, .bind 6], []⟩], [], 3, [], 16, 2, 0, [0],
    [], none, [], []⟩

/-- before the import the package has no such attribute; after it the attribute is the module,
and package and module are in `sys.modules` -/
example :
    (decide (State.init.get exampleFacts 0 5 = none) &&
     (match importMod exampleFacts 3 1 State.init with
      | .ok (σ, _) => decide (σ.get exampleFacts 0 5 = some (.mod 1)) && decide (σ.statusOf 1 = .done) &&
          decide (σ.statusOf 0 = .done) && decide (σ.get exampleFacts 1 6 = some .obj)
      | .error _ => false)) = true := by
  decide

end Lena.C20
