import LenaModel.Model.C06Compute
import LenaModel.Props.C06At
/-! # C06, adversary round — sentence (5) for the element along histories that contain `compute()`

"Hence the sum of all bins plus n_out_of_range ALWAYS equals the total filled weight, … for the
Histogram element alike."  The element's histogram is observed through `compute()`; a history of one
element object is any sequence of `fill`, `reset()` and `compute()` (`Model/C06Compute.lean`).

* `run3_state_eq_run` — `compute()` never changes the state: the final state of a history is the final
  state of the same history without its `compute()` calls;
* `run3_of_run` — a history without `compute()` is `HistEl2.run` and yields nothing;
* `histEl2_run3_correct` — for strictly increasing edges, EVERY guess function, any history of proper
  fills, resets and computes: nothing raises, the edges are unchanged, every yielded histogram is
  well-formed over these edges and holds exactly `specYields` (the initial content plus one unit per
  value filled since the last `reset()` — values filled before an earlier `compute()` included), and
  the final state holds `specSum`;
* `compute_after_fills` — the special case without resets: what `compute()` yields after any number of
  fills and earlier computes holds the initial content plus the number of values filled so far. -/
open Lena
namespace Lena.C06
set_option linter.unusedSectionVars false

section Compute
variable {α β κ : Type} [LT α] [LE α] [DecidableLT α] [DecidableLE α] [DecidableEq α]

section State
variable [Add β] [Zero β]

/-- `compute()` only reads: the state after a history is the state after the history without its
`compute()` calls (no hypothesis at all; exceptions included) -/
theorem run3_state_eq_run (empty : κ) (one : β) :
    ∀ (ops : List (ElOp3 α κ)) (e : HistEl2 α β κ),
      (HistEl2.run3 empty one e ops).map (·.1) = HistEl2.run empty one e (stripComputes ops)
  | [], e => rfl
  | .fill g c ctx :: rest, e => by
    cases h1 : HistEl2.fill empty one g e c ctx with
    | error err => simp [HistEl2.run3, HistEl2.run, stripComputes, h1, bind, Except.bind, Except.map]
    | ok e' =>
      have ih := run3_state_eq_run empty one rest e'
      simp only [HistEl2.run3, HistEl2.run, stripComputes, h1, bind, Except.bind]
      exact ih
  | .reset :: rest, e => by
    cases h1 : HistEl2.reset empty e with
    | error err => simp [HistEl2.run3, HistEl2.run, stripComputes, h1, bind, Except.bind, Except.map]
    | ok e' =>
      have ih := run3_state_eq_run empty one rest e'
      simp only [HistEl2.run3, HistEl2.run, stripComputes, h1, bind, Except.bind]
      exact ih
  | .compute :: rest, e => by
    have ih := run3_state_eq_run empty one rest e
    simp only [HistEl2.run3, stripComputes, bind, Except.bind]
    cases h1 : HistEl2.run3 empty one e rest with
    | error err => rw [h1] at ih; simpa [Except.map] using ih
    | ok p => rw [h1] at ih; simpa [Except.map, pure, Except.pure] using ih

/-- a history without `compute()` is the old `HistEl2.run`, and nothing is yielded -/
theorem run3_of_run (empty : κ) (one : β) :
    ∀ (ops : List (ElOp α κ)) (e : HistEl2 α β κ),
      HistEl2.run3 empty one e (ops.map ElOp.to3) = (HistEl2.run empty one e ops).map (fun e' => (e', []))
  | [], e => rfl
  | .fill g c ctx :: rest, e => by
    cases h1 : HistEl2.fill empty one g e c ctx with
    | error err => simp [HistEl2.run3, HistEl2.run, ElOp.to3, h1, bind, Except.bind, Except.map]
    | ok e' =>
      have ih := run3_of_run empty one rest e'
      simp only [List.map, ElOp.to3, HistEl2.run3, HistEl2.run, h1, bind, Except.bind]
      exact ih
  | .reset :: rest, e => by
    cases h1 : HistEl2.reset empty e with
    | error err => simp [HistEl2.run3, HistEl2.run, ElOp.to3, h1, bind, Except.bind, Except.map]
    | ok e' =>
      have ih := run3_of_run empty one rest e'
      simp only [List.map, ElOp.to3, HistEl2.run3, HistEl2.run, h1, bind, Except.bind]
      exact ih

end State

variable [Std.IsLinearOrder α] [Std.LawfulOrderLT α] [Lean.Grind.AddCommMonoid β]

/-- **Sentence (5) for a re-used element whose histogram is observed by `compute()`, every guess.**
`h₀` is the histogram `reset()` creates (`mkHist` of the element's construction arguments). -/
theorem histEl2_run3_correct (empty : κ) (one : β) {h₀ : Hist α β} (hwf₀ : WF h₀) :
    ∀ (ops : List (ElOp3 α κ)) (e : HistEl2 α β κ),
      mkHist e.cfg.edges e.cfg.startBins e.cfg.initialValue = .ok h₀ →
      WF e.hist → e.hist.edges = h₀.edges → ElOps3Proper h₀.edges ops →
      ∃ e' ys, HistEl2.run3 empty one e ops = .ok (e', ys) ∧ e'.cfg = e.cfg ∧ WF e'.hist ∧
        e'.hist.edges = h₀.edges ∧
        total e'.hist.bins + e'.hist.nOut =
          specSum (total h₀.bins + h₀.nOut) one (total e.hist.bins + e.hist.nOut) (stripComputes ops) ∧
        ys.map (fun y => total y.1.bins + y.1.nOut) =
          specYields (total h₀.bins + h₀.nOut) one (total e.hist.bins + e.hist.nOut) ops ∧
        ∀ y ∈ ys, WF y.1 ∧ y.1.edges = h₀.edges
  | [], e, _, hwf, hed, _ => ⟨e, [], rfl, rfl, hwf, hed, rfl, rfl, by simp⟩
  | .fill g c ctx :: rest, e, hm, hwf, hed, hops => by
    obtain ⟨⟨xs, hp⟩, hrest⟩ := hops
    have h1 := fill_correct g hwf (hed ▸ hp) one
    have hwf1 := fill_wf g c one h1 hwf
    have hc := (fill_conserves g e.hist _ c one h1).2.2
    have he := (fill_conserves g e.hist _ c one h1).1
    obtain ⟨e', ys, hr, hcfg, hwf', hed', hs, hy, hyw⟩ := histEl2_run3_correct empty one hwf₀ rest
      { e with hist := _, curContext := ctx.getD empty } hm hwf1 (he.trans hed) hrest
    refine ⟨e', ys, ?_, hcfg, hwf', hed', ?_, ?_, hyw⟩
    · simp only [HistEl2.run3, HistEl2.fill, h1, bind, Except.bind, pure, Except.pure]
      exact hr
    · rw [hs]; simp only [stripComputes, specSum, hc]
    · rw [hy]; simp only [specYields, hc]
  | .reset :: rest, e, hm, hwf, hed, hops => by
    obtain ⟨e', ys, hr, hcfg, hwf', hed', hs, hy, hyw⟩ :=
      histEl2_run3_correct empty one hwf₀ rest { e with hist := h₀, curContext := empty } hm hwf₀ rfl hops
    refine ⟨e', ys, ?_, hcfg, hwf', hed', ?_, ?_, hyw⟩
    · simp only [HistEl2.run3, HistEl2.reset, hm, bind, Except.bind, pure, Except.pure]
      exact hr
    · rw [hs]; simp only [stripComputes, specSum]
    · rw [hy]; simp only [specYields]
  | .compute :: rest, e, hm, hwf, hed, hops => by
    obtain ⟨e', ys, hr, hcfg, hwf', hed', hs, hy, hyw⟩ :=
      histEl2_run3_correct empty one hwf₀ rest e hm hwf hed hops
    refine ⟨e', (e.hist, e.curContext) :: ys, ?_, hcfg, hwf', hed', ?_, ?_, ?_⟩
    · simp only [HistEl2.run3, HistEl2.compute, hr, bind, Except.bind, pure, Except.pure]
      rfl
    · rw [hs]; simp only [stripComputes]
    · simp only [List.map, specYields, hy]
    · intro y hmem
      rcases List.mem_cons.1 hmem with rfl | hmem
      · exact ⟨hwf, hed⟩
      · exact hyw y hmem

/-- the values a flow of `n` proper values followed by `compute()` amounts to (no resets) -/
def fillsThenCompute (vals : List ((Nat → Nat → Nat → Int) × Coord α × Option κ)) : List (ElOp3 α κ) :=
  vals.map (fun v => ElOp3.fill v.1 v.2.1 v.2.2) ++ [ElOp3.compute]

/-- `n` unit weights added to `s` -/
def addUnits (one : β) : Nat → β → β
  | 0, s => s
  | n + 1, s => addUnits one n (s + one)

theorem specYields_fills_compute (s0 one : β) :
    ∀ (vals : List ((Nat → Nat → Nat → Int) × Coord α × Option κ)) (s : β),
      specYields (κ := κ) s0 one s (fillsThenCompute vals) = [addUnits one vals.length s]
  | [], s => rfl
  | v :: vs, s => by
    have ih := specYields_fills_compute s0 one vs (s + one)
    simpa [fillsThenCompute, specYields, addUnits] using ih

/-- **`compute()` after any flow of proper values**, new element `Histogram(edges)` with empty bins,
every guess: exactly one histogram is yielded and the sum of its bins plus `n_out_of_range` is the
number of values filled -/
theorem compute_after_fills (empty : κ) (one : β) {ed : Edges α} (he : ValidEdges ed)
    (vals : List ((Nat → Nat → Nat → Int) × Coord α × Option κ))
    (hv : ∀ v ∈ vals, ∃ xs, Proper ed v.2.1 xs) :
    ∃ e₀ e' y, HistEl2.new empty ed none none (0 : β) = .ok e₀ ∧
      HistEl2.run3 empty one e₀ (fillsThenCompute vals) = .ok (e', [y]) ∧
      total y.1.bins + y.1.nOut = addUnits one vals.length 0 := by
  have hd := mkHist_valid he (0 : β)
  obtain ⟨hwf, hedges, hn, hb⟩ := mkHist_wf he (0 : β) hd
  have hproper : ElOps3Proper (κ := κ) ed (fillsThenCompute vals) := by
    unfold ElOps3Proper
    induction vals with
    | nil => simp [fillsThenCompute, stripComputes, ElOpsProper]
    | cons v vs ih =>
      have := ih (fun w hw => hv w (List.mem_cons_of_mem _ hw))
      simp only [fillsThenCompute, List.map, List.cons_append, stripComputes, ElOpsProper] at this ⊢
      exact ⟨hv v (by simp), this⟩
  obtain ⟨e', ys, hr, _, _, _, _, hy, _⟩ :=
    histEl2_run3_correct empty one hwf (fillsThenCompute vals)
      { cfg := { edges := ed, initialBins := none, makeBins := none, initialValue := 0 },
        hist := { edges := ed, bins := NArr.full (dimsOf ed.axes) (0 : β), nOut := 0, dim := edgesDim ed },
        curContext := empty }
      (by simpa [ElCfg.startBins] using hd) hwf rfl (by rw [hedges]; exact hproper)
  rw [specYields_fills_compute] at hy
  simp only [total_full_zero, Lean.Grind.AddCommMonoid.add_zero] at hy
  have hnew : HistEl2.new empty ed (none : Option (NArr β)) none (0 : β) =
      .ok { cfg := { edges := ed, initialBins := none, makeBins := none, initialValue := 0 },
            hist := { edges := ed, bins := NArr.full (dimsOf ed.axes) (0 : β), nOut := 0, dim := edgesDim ed },
            curContext := empty } := by
    simp [HistEl2.new, ElCfg.startBins, hd, bind, Except.bind, pure, Except.pure]
  cases ys with
  | nil => simp at hy
  | cons y rest =>
    cases rest with
    | cons z _ => simp at hy
    | nil =>
      refine ⟨_, e', y, hnew, hr, ?_⟩
      simpa using hy

end Compute

/-! ## non-vacuity: concrete instances (tests, not theorems) -/
section Examples

/-- an element over the 3 × 2 mesh `exEdges`: fill (3, 1) with a context, fill (3, 6) (outside), compute, fill (0, -3),
compute, reset, fill (1, 1), compute — with guesses that are never in range -/
def exOps3 : List (ElOp3 Int (Option Int)) :=
  [.fill (fun _ _ _ => 1000) (.tuple [3, 1]) (some (some 7)), .fill (fun _ _ _ => -3) (.tuple [3, 6]) none, .compute,
   .fill (fun _ lo _ => lo) (.tuple [0, -3]) none, .compute, .reset, .fill (fun _ _ hi => hi) (.tuple [1, 1]) none,
   .compute]

def exEl3 : HistEl2 Int Int (Option Int) :=
  { cfg := { edges := exEdges, initialBins := none, makeBins := none, initialValue := 0 },
    hist := exHist, curContext := none }

/-- `specYields` on that history: 2 values before the first `compute()`, 3 before the second (the first
compute took nothing away), 1 after the reset; without the computes `specSum` ends at 1 -/
example : specYields (0 : Int) 1 0 exOps3 = [2, 3, 1] := by decide
example : specSum (0 : Int) 1 0 (stripComputes exOps3) = 1 := by decide

/-- the hypotheses of `histEl2_run3_correct` are satisfiable and its conclusion is the expected one -/
example : ∃ e' ys, HistEl2.run3 (none : Option Int) (1 : Int) exEl3 exOps3 = .ok (e', ys) ∧
    ys.map (fun y => total y.1.bins + y.1.nOut) = [2, 3, 1] ∧ total e'.hist.bins + e'.hist.nOut = 1 := by
  obtain ⟨e', ys, hr, _, _, _, hs, hy, _⟩ :=
    histEl2_run3_correct (none : Option Int) (1 : Int) exHist_wf exOps3 exEl3
      (mkHist_valid exEdges_valid 0) exHist_wf rfl
      (by
        simp only [ElOps3Proper, exOps3, stripComputes, ElOpsProper, and_true]
        exact ⟨⟨_, Proper.nested _ _ rfl⟩, ⟨_, Proper.nested _ _ rfl⟩, ⟨_, Proper.nested _ _ rfl⟩,
          ⟨_, Proper.nested _ _ rfl⟩⟩)
  refine ⟨e', ys, hr, ?_, ?_⟩
  · rw [hy]; decide
  · rw [hs]; decide

/-- `compute_after_fills`: two values, then `compute()` -/
example : ∃ e₀ e' y, HistEl2.new (none : Option Int) exEdges none none (0 : Int) = .ok e₀ ∧
    HistEl2.run3 none 1 e₀ (fillsThenCompute [(fun _ _ _ => 1000, .tuple [3, 1], some (some 7)),
      (fun _ _ _ => -3, .tuple [3, 6], none)]) = .ok (e', [y]) ∧ total y.1.bins + y.1.nOut = 2 :=
  compute_after_fills none (1 : Int) exEdges_valid _ (by
    intro v hv
    simp only [List.mem_cons, List.not_mem_nil, or_false] at hv
    rcases hv with rfl | rfl <;> exact ⟨_, Proper.nested _ _ rfl⟩)

/-- integer weights far beyond 2^53 (adversary candidates 1 and 7: an accumulator that is a float from the start):
`weight_conserved_any` speaks about every commutative monoid of weights; in `Int` nothing is rounded, as in
Python's integers.  Two fills of 2^53 + 1 (one into a cell, one outside) and a fill of 1 -/
example : ∃ h₀ h, mkHist exEdges none (0 : Int) = .ok h₀ ∧
    fillAll h₀ [(fun _ _ _ => 1000, .tuple [3, 1], 9007199254740993), (fun _ _ _ => -7, .tuple [3, 6], 1),
      (fun _ lo _ => lo, .tuple [3, 6], 9007199254740993)] = .ok h ∧
    h.edges = exEdges ∧ total h.bins + h.nOut = 18014398509481987 :=
  weight_conserved_any exEdges_valid _ (by
    intro op hop
    simp only [List.mem_cons, List.not_mem_nil, or_false] at hop
    rcases hop with rfl | rfl | rfl <;> exact ⟨_, Proper.nested _ _ rfl⟩)

end Examples

end Lena.C06
