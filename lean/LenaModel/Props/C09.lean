import LenaModel.Model.C09
import LenaModel.Model.C09Spec
import LenaModel.Props.C06
import LenaModel.Lemmas.C15
/-! # C09 — property theorems (accumulators: documented aggregate; reset equals fresh)

Property C09: "Every framework accumulator yields, for any sequence of filled values, the aggregate it
documents [...] together with the context of the last filled value (extended only by the element's own
documented keys).  After reset() the element is observationally equal to a newly constructed one for every
later sequence of fills and computes."

* `x_compute_spec` theorems: first sentence, per element, for ALL fill sequences (`ctxAfter [] vs` is the
  context of the last filled value, `{}` if nothing was filled).
* `x_reset_fresh` theorems: second sentence, per element, for ALL histories `h1` before the reset and ALL
  histories `h2` after it (instances of the generic `reset_bisimilar`).  "Newly constructed" means the
  documented zero start for `Count`, `Sum`, `DSum` (their `reset` docstrings). -/

namespace Lena.C09
variable {σ ι ο δ : Type}

/-! ## Histories: generic lemmas -/

theorem Machine.run_append (m : Machine σ ι ο) (s : σ) (h1 h2 : List (Op ι)) :
    m.run s (h1 ++ h2) = ((m.run (m.run s h1).1 h2).1, (m.run s h1).2 ++ (m.run (m.run s h1).1 h2).2) := by
  induction h1 generalizing s with
  | nil => simp [Machine.run]
  | cons op ops ih => simp [Machine.run, ih]

/-- simulation: related states show the same observations for every history -/
theorem Machine.run_sim (m m' : Machine σ ι ο) (R : σ → σ → Prop)
    (hstep : ∀ s t op, R s t → (m.step s op).2 = (m'.step t op).2 ∧ R (m.step s op).1 (m'.step t op).1)
    (h : List (Op ι)) : ∀ s t, R s t → (m.run s h).2 = (m'.run t h).2 := by
  induction h with
  | nil => intros; rfl
  | cons op ops ih =>
    intro s t hR
    have := hstep s t op hR
    simp [Machine.run, this.1, ih _ _ this.2]

theorem Machine.run_inv (m : Machine σ ι ο) (Inv : σ → Prop)
    (hstep : ∀ s op, Inv s → Inv (m.step s op).1) (h : List (Op ι)) : ∀ s, Inv s → Inv (m.run s h).1 := by
  induction h with
  | nil => intro s hs; exact hs
  | cons op ops ih => intro s hs; exact ih _ (hstep s op hs)

theorem reset_bisimilar (m m' : Machine σ ι ο) (Inv : σ → Prop) (R : σ → σ → Prop)
    (h0 : Inv m.init) (hinv : ∀ s op, Inv s → Inv (m.step s op).1)
    (hreset : ∀ s, Inv s → R (m.reset s) m'.init)
    (hstep : ∀ s t op, R s t → (m.step s op).2 = (m'.step t op).2 ∧ R (m.step s op).1 (m'.step t op).1)
    (h1 h2 : List (Op ι)) :
    (m.run (m.run m.init (h1 ++ [Op.reset])).1 h2).2 = m'.observe h2 := by
  rw [Machine.run_append]
  simp only [Machine.run, Machine.step, Machine.observe]
  apply Machine.run_sim m m' R hstep
  exact hreset _ (Machine.run_inv m Inv hinv h1 _ h0)

/-! ## The context of the last filled value -/


theorem ctxAfter_nil (c : Ctx) : ctxAfter c ([] : List (Item δ)) = c := rfl

theorem ctxAfter_cons (c : Ctx) (v : Item δ) (vs : List (Item δ)) :
    ctxAfter c (v :: vs) = ctxAfter v.context vs := by
  cases vs with
  | nil => simp [ctxAfter]
  | cons w ws =>
    have h : (w :: ws).getLast? = some ((w :: ws).getLast (by simp)) := List.getLast?_eq_some_getLast _
    simp only [ctxAfter, List.getLast?_cons_cons, h]

theorem fillAll_cons (m : Machine σ ι ο) (s : σ) (v : ι) (vs : List ι) :
    m.fillAll s (v :: vs) = m.fillAll (m.fill s v).1 vs := rfl

/-- `dict.update({k: v})` changes the binding of `k` and nothing else: this is the sense in which the yielded
context is the last filled context "extended only by the element's own keys" (`Count`: its name; `Graph`:
`scale`, `dim`) -/
theorem Ctx.get_set (c : Ctx) (k : String) (v : Leaf) (k' : String) :
    (c.set k v).get k' = if k' = k then v else c.get k' := by
  induction c with
  | nil =>
    by_cases h : k' = k
    · simp [Ctx.set, Ctx.get, h]
    · have h' : ¬ k = k' := fun e => h e.symm
      simp [Ctx.set, Ctx.get, h, h']
  | cons kv rest ih =>
    obtain ⟨k₀, v₀⟩ := kv
    by_cases h0 : k₀ = k
    · subst h0
      by_cases h : k' = k₀
      · subst h; simp [Ctx.set, Ctx.get]
      · have h' : ¬ k₀ = k' := fun e => h e.symm
        simp [Ctx.set, Ctx.get, h, h']
    · by_cases h : k₀ = k'
      · subst h
        have h' : ¬ k₀ = k := h0
        simp [Ctx.set, Ctx.get, h0]
      · simp [Ctx.set, Ctx.get, h0, h, ih]

/-! ### Count -/
theorem count_fillAll (cfg : CountCfg) (s : CountSt) (vs : List (Item δ)) :
    (countM δ cfg).fillAll s vs = ⟨s.count + vs.length, ctxAfter s.ctx vs⟩ := by
  induction vs generalizing s with
  | nil => simp [Machine.fillAll, ctxAfter]
  | cons v vs ih =>
    rw [fillAll_cons, ih, ctxAfter_cons]
    simp [countM, Count.fill]
    omega

theorem count_compute_spec (cfg : CountCfg) (vs : List (Item δ)) :
    ((countM δ cfg).compute ((countM δ cfg).fillAll (countM δ cfg).init vs)).2 =
      .ok [⟨cfg.count0 + vs.length, some ((ctxAfter [] vs).set cfg.name (some (cfg.count0 + vs.length)))⟩] := by
  rw [count_fillAll]
  simp [countM, Count.compute]

/-! ### Sum -/

theorem sum_fillAll (t0 : Int) (s : SumSt) (vs : List (Item Int)) :
    (sumM t0).fillAll s vs = ⟨s.total + dataSum vs, ctxAfter s.ctx vs⟩ := by
  induction vs generalizing s with
  | nil => simp [Machine.fillAll, ctxAfter, dataSum]
  | cons v vs ih =>
    rw [fillAll_cons, ih, ctxAfter_cons]
    simp [sumM, Sum.fill, dataSum]
    omega

theorem sum_compute_spec (t0 : Int) (vs : List (Item Int)) :
    ((sumM t0).compute ((sumM t0).fillAll (sumM t0).init vs)).2 =
      .ok [withCtx (t0 + dataSum vs) (ctxAfter [] vs)] := by
  rw [sum_fillAll]
  simp [sumM, Sum.compute]


/-- instance of `reset_bisimilar` for elements whose `reset` returns one fixed state: the later
observations are those of the machine `m'` that starts in that state -/
theorem reset_fresh_of_const (m m' : Machine σ ι ο) (hf : m'.fill = m.fill) (hc : m'.compute = m.compute)
    (hr : m'.reset = m.reset) (hreset : ∀ s, m.reset s = m'.init) (h1 h2 : List (Op ι)) :
    (m.run (m.run m.init (h1 ++ [Op.reset])).1 h2).2 = m'.observe h2 := by
  apply reset_bisimilar m m' (fun _ => True) Eq trivial (fun _ _ _ => trivial) (fun s _ => hreset s)
  intro s t op hst
  subst hst
  cases op <;> simp [Machine.step, hf, hc, hr]

/-- Count: after `reset()` every later history shows what it shows on `Count(name)` (count 0) -/
theorem count_reset_fresh (cfg : CountCfg) (h1 h2 : List (Op (Item δ))) :
    ((countM δ cfg).run ((countM δ cfg).run (countM δ cfg).init (h1 ++ [Op.reset])).1 h2).2
      = (countM δ { cfg with count0 := 0 }).observe h2 :=
  reset_fresh_of_const (countM δ cfg) (countM δ { cfg with count0 := 0 }) rfl rfl rfl (fun _ => rfl) h1 h2

/-- Sum: after `reset()` every later history shows what it shows on `Sum()` (total 0) -/
theorem sum_reset_fresh (t0 : Int) (h1 h2 : List (Op (Item Int))) :
    ((sumM t0).run ((sumM t0).run (sumM t0).init (h1 ++ [Op.reset])).1 h2).2 = (sumM 0).observe h2 :=
  reset_fresh_of_const (sumM t0) (sumM 0) rfl rfl rfl (fun _ => rfl) h1 h2

example : (sumM 3).observe [.fill ⟨4, some [("a", some 1)]⟩, .compute, .reset, .fill ⟨5, none⟩, .compute]
    = [.filled none, .computed (.ok [⟨7, some [("a", some 1)]⟩]), .wasReset, .filled none, .computed (.ok [⟨5, none⟩])] := by
  rfl

/-! ### StoreFilled -/

theorem store_fillAll (g : Bool) (s : List ι) (vs : List ι) : (storeFilledM ι g).fillAll s vs = s ++ vs := by
  induction vs generalizing s with
  | nil => simp [Machine.fillAll]
  | cons v vs ih => rw [fillAll_cons, ih]; simp [storeFilledM]

/-- StoreFilled yields the filled values themselves: as one group (a copy of the list), or one by one -/
theorem store_compute_spec (g : Bool) (vs : List ι) :
    ((storeFilledM ι g).compute ((storeFilledM ι g).fillAll (storeFilledM ι g).init vs)).2 =
      .ok (if g then [Stored.group vs] else vs.map Stored.one) := by
  rw [store_fillAll]
  simp [storeFilledM]

theorem store_reset_fresh (g : Bool) (h1 h2 : List (Op ι)) :
    ((storeFilledM ι g).run ((storeFilledM ι g).run (storeFilledM ι g).init (h1 ++ [Op.reset])).1 h2).2
      = (storeFilledM ι g).observe h2 :=
  reset_fresh_of_const (storeFilledM ι g) (storeFilledM ι g) rfl rfl rfl (fun _ => rfl) h1 h2

/-! ### VarianceMeanCount: the algebra -/


theorem sqDev_expand (c : Rat) (xs : List Int) :
    sqDev c xs = (isumSq xs : Rat) - 2 * c * (isum xs : Rat) + (xs.length : Rat) * c ^ 2 := by
  induction xs with
  | nil => simp [sqDev, isumSq, isum]; grind
  | cons x xs ih =>
    simp only [sqDev, isumSq, isum, List.map_cons, List.sum_cons, List.length_cons] at *
    rw [ih]
    simp only [Rat.intCast_add, Rat.intCast_pow, Rat.natCast_add]
    grind


theorem natCast_ge_two {k : Nat} (h : 2 ≤ k) : (2 : Rat) ≤ (k : Rat) := by
  have : ((2 : Nat) : Rat) ≤ (k : Rat) := Rat.natCast_le_natCast.mpr h
  simpa using this

theorem vmc_is_sample_variance (xs : List Int) (hn : 2 ≤ xs.length) :
    let n : Rat := xs.length
    let μ : Rat := (isum xs : Rat) / n
    ((isumSq xs : Rat) / n - μ ^ 2) * (n / (n - 1)) = sqDev μ xs / (n - 1) := by
  intro n μ
  have h2 : (2 : Rat) ≤ n := natCast_ge_two hn
  have hn0 : n ≠ 0 := by grind
  have hn1 : n - 1 ≠ 0 := by grind
  rw [sqDev_expand]
  grind

theorem vmc_is_population_variance (xs : List Int) (hn : 1 ≤ xs.length) :
    let n : Rat := xs.length
    let μ : Rat := (isum xs : Rat) / n
    (isumSq xs : Rat) / n - μ ^ 2 = sqDev μ xs / n := by
  intro n μ
  have h1 : (1 : Rat) ≤ n := by
    have : ((1 : Nat) : Rat) ≤ (xs.length : Rat) := Rat.natCast_le_natCast.mpr hn
    simpa using this
  have hn0 : n ≠ 0 := by grind
  rw [sqDev_expand]
  grind

/-! ### Mean -/


theorem ctxAfter_bare (c : Ctx) (vs : List (Item Int)) : ctxAfter c (bare vs) = if vs = [] then c else [] := by
  induction vs generalizing c with
  | nil => rfl
  | cons v vs ih => simp only [bare, List.map_cons] at *; rw [ctxAfter_cons, ih]; simp [Item.context]

theorem dataSum_bare (vs : List (Item Int)) : dataSum (bare vs) = dataSum vs := by
  simp [dataSum, bare, List.map_map, Function.comp_def]

theorem dataSum_cons (v : Item Int) (vs : List (Item Int)) : dataSum (v :: vs) = v.data + dataSum vs := by
  simp [dataSum]

theorem mean_fillAll (cfg : MeanCfg) (s : MeanSt) (vs : List (Item Int)) :
    (meanM cfg).fillAll s vs =
      if cfg.useSeq then ⟨s.sum, (sumM 0).fillAll s.seq (bare vs), s.count + vs.length, ctxAfter s.ctx vs⟩
      else ⟨s.sum + dataSum vs, s.seq, s.count + vs.length, ctxAfter s.ctx vs⟩ := by
  induction vs generalizing s with
  | nil => cases h : cfg.useSeq <;> simp [Machine.fillAll, ctxAfter, dataSum, bare]
  | cons v vs ih =>
    rw [fillAll_cons, ih, ctxAfter_cons]
    cases h : cfg.useSeq
    · simp [meanM, Mean.fill, h, dataSum_cons]; omega
    · simp [meanM, Mean.fill, h, bare, fillAll_cons, sumM]; omega

theorem Ctx.update_nil (c : Ctx) : Ctx.update c [] = c := rfl

/-- Mean yields sum/count of the filled values with the last context (both for `sum_seq=None` and
`sum_seq=Sum()`); with nothing filled it raises `LenaZeroDivisionError`, or yields nothing if
`pass_on_empty` -/
theorem mean_compute_spec (cfg : MeanCfg) (vs : List (Item Int)) :
    ((meanM cfg).compute ((meanM cfg).fillAll (meanM cfg).init vs)).2 =
      if vs = [] then (if cfg.passOnEmpty then .ok [] else .error .zeroDivision)
      else .ok [withCtx ((dataSum vs : Rat) / (vs.length : Rat)) (ctxAfter [] vs)] := by
  rw [mean_fillAll]
  cases vs with
  | nil => cases h : cfg.useSeq <;> simp [meanM, Mean.compute, Machine.fillAll, bare]
  | cons v vs =>
    cases h : cfg.useSeq
    · simp [meanM, Mean.compute, h]
    · simp only [meanM, Mean.compute, h, sum_fillAll, dataSum_bare, ctxAfter_bare]
      simp [Sum.compute, withCtx, Item.context, Ctx.update_nil]

theorem mean_reset_fresh (cfg : MeanCfg) (h1 h2 : List (Op (Item Int))) :
    ((meanM cfg).run ((meanM cfg).run (meanM cfg).init (h1 ++ [Op.reset])).1 h2).2 = (meanM cfg).observe h2 := by
  apply reset_bisimilar (meanM cfg) (meanM cfg)
    (fun s => (cfg.useSeq = true → s.sum = 0) ∧ (cfg.useSeq = false → s.seq = ⟨0, []⟩)) Eq
  · simp [meanM]
  · intro s op hs
    cases op <;> cases h : cfg.useSeq <;> simp_all [Machine.step, meanM, Mean.fill, Mean.reset]
  · intro s hs
    cases h : cfg.useSeq <;> simp_all [meanM, Mean.reset, Sum.reset]
  · intro s t op hst
    subst hst
    exact ⟨rfl, rfl⟩

/-! ### VarianceMeanCount -/


theorem vmc_fillAll (cfg : VmcCfg) (s : VmcSt) (vs : List (Item Int)) :
    (vmcM cfg).fillAll s vs =
      ⟨⟨s.sumSq.total + dataSumSq vs, if vs = [] then s.sumSq.ctx else []⟩,
       ⟨s.sum.total + dataSum vs, if vs = [] then s.sum.ctx else []⟩, s.count + vs.length, ctxAfter s.ctx vs⟩ := by
  induction vs generalizing s with
  | nil => simp [Machine.fillAll, ctxAfter, dataSum, dataSumSq]
  | cons v vs ih =>
    rw [fillAll_cons, ih, ctxAfter_cons]
    simp [vmcM, Vmc.fill, Sum.fill, dataSum_cons, dataSumSq, Item.context]
    refine ⟨?_, ?_, ?_⟩ <;> first | omega | (split <;> rfl) | skip


/-- what `VarianceMeanCount.compute` yields after filling `vs`: errors for an empty sample (unless
`pass_on_empty`) and, corrected, for a single value; otherwise `(Σx²/n − (Σx/n)²) [· n/(n−1)]`, `Σx/n`, `n`
with the last context -/
theorem vmc_compute_spec (cfg : VmcCfg) (vs : List (Item Int)) :
    ((vmcM cfg).compute ((vmcM cfg).fillAll (vmcM cfg).init vs)).2 =
      let n : Rat := (vs.length : Rat)
      let mean : Rat := (dataSum vs : Rat) / n
      let var : Rat := (dataSumSq vs : Rat) / n - mean ^ 2
      if vs.length = 0 then (if cfg.passOnEmpty then .ok [] else .error .zeroDivision)
      else if cfg.corrected then
        (if vs.length = 1 then .error .zeroDivision
         else .ok [withCtx ⟨var * (n / (n - 1)), mean, vs.length⟩ (ctxAfter [] vs)])
      else .ok [withCtx ⟨var, mean, vs.length⟩ (ctxAfter [] vs)] := by
  rw [vmc_fillAll]
  simp only [vmcM, Vmc.compute, Sum.compute]
  cases vs with
  | nil => simp
  | cons v vs =>
    simp [withCtx]

theorem vmc_reset_fresh (cfg : VmcCfg) (h1 h2 : List (Op (Item Int))) :
    ((vmcM cfg).run ((vmcM cfg).run (vmcM cfg).init (h1 ++ [Op.reset])).1 h2).2 = (vmcM cfg).observe h2 :=
  reset_fresh_of_const (vmcM cfg) (vmcM cfg) rfl rfl rfl (fun _ => rfl) h1 h2


/-- corrected, with at least two values: the yielded triple is the sample variance `Σ(x−μ)²/(n−1)`, the mean
`μ = Σx/n` and the count, with the last context -/
theorem vmc_yields_sample_variance (cfg : VmcCfg) (hc : cfg.corrected = true) (vs : List (Item Int))
    (hn : 2 ≤ vs.length) :
    ((vmcM cfg).compute ((vmcM cfg).fillAll (vmcM cfg).init vs)).2 =
      let xs := vs.map (·.data)
      let n : Rat := (vs.length : Rat)
      let μ : Rat := (isum xs : Rat) / n
      .ok [withCtx ⟨sqDev μ xs / (n - 1), μ, vs.length⟩ (ctxAfter [] vs)] := by
  rw [vmc_compute_spec]
  have h0 : vs.length ≠ 0 := by omega
  have h1 : vs.length ≠ 1 := by omega
  have hs : dataSum vs = isum (vs.map (·.data)) := rfl
  have hq : dataSumSq vs = isumSq (vs.map (·.data)) := by simp [dataSumSq, isumSq, List.map_map, Function.comp_def]
  have key := vmc_is_sample_variance (vs.map (·.data)) (by simpa using hn)
  simp only [List.length_map] at key
  simp only [h0, h1, hc, if_true, if_false, hs, hq]
  rw [key]

/-- uncorrected, with at least one value: the population variance `Σ(x−μ)²/n` -/
theorem vmc_yields_population_variance (cfg : VmcCfg) (hc : cfg.corrected = false) (vs : List (Item Int))
    (hn : 1 ≤ vs.length) :
    ((vmcM cfg).compute ((vmcM cfg).fillAll (vmcM cfg).init vs)).2 =
      let xs := vs.map (·.data)
      let n : Rat := (vs.length : Rat)
      let μ : Rat := (isum xs : Rat) / n
      .ok [withCtx ⟨sqDev μ xs / n, μ, vs.length⟩ (ctxAfter [] vs)] := by
  rw [vmc_compute_spec]
  have h0 : vs.length ≠ 0 := by omega
  have hs : dataSum vs = isum (vs.map (·.data)) := rfl
  have hq : dataSumSq vs = isumSq (vs.map (·.data)) := by simp [dataSumSq, isumSq, List.map_map, Function.comp_def]
  have key := vmc_is_population_variance (vs.map (·.data)) (by simpa using hn)
  simp only [List.length_map] at key
  simp only [h0, hc, if_false, hs, hq, Bool.false_eq_true]
  rw [key]

example : ((vmcM ⟨true, false⟩).compute ((vmcM ⟨true, false⟩).fillAll (vmcM ⟨true, false⟩).init
    [⟨1, none⟩, ⟨2, some [("a", some 1)]⟩, ⟨6, none⟩])).2 = .ok [⟨⟨7, 3, 3⟩, none⟩] := by
  rw [vmc_yields_sample_variance _ rfl _ (by decide)]
  simp [sqDev, isum, ctxAfter, withCtx, Item.context]
  constructor <;> grind


/-! ### DSum: decimals and dyadics as exact rationals -/

theorem rat_pow_ne_zero (b : Rat) (hb : b ≠ 0) (n : Nat) : b ^ n ≠ 0 := by
  induction n with
  | zero => simp
  | succ n ih => rw [Rat.pow_succ]; grind


theorem powZ_succ (b : Rat) (hb : b ≠ 0) (e : Int) : powZ b (e + 1) = b * powZ b e := by
  unfold powZ
  by_cases h0 : 0 ≤ e
  · have h1 : 0 ≤ e + 1 := by omega
    have h2 : (e + 1).toNat = e.toNat + 1 := by omega
    simp only [h0, h1, if_true, h2]
    grind
  · by_cases h1 : e = -1
    · subst h1
      simp
      grind
    · have h2 : ¬ 0 ≤ e + 1 := by omega
      have h3 : (-e).toNat = (-(e + 1)).toNat + 1 := by omega
      simp only [h0, h2, if_false, h3]
      have := rat_pow_ne_zero b hb (-(e + 1)).toNat
      grind

theorem powZ_add_nat (b : Rat) (hb : b ≠ 0) (e : Int) (k : Nat) : powZ b (e + k) = b ^ k * powZ b e := by
  induction k with
  | zero => simp
  | succ k ih =>
    have : e + ((k + 1 : Nat) : Int) = (e + k) + 1 := by omega
    rw [this, powZ_succ b hb, ih, Rat.pow_succ]
    grind


theorem powZ_of_le (b : Rat) (hb : b ≠ 0) (e x : Int) (h : e ≤ x) :
    powZ b x = b ^ (x - e).toNat * powZ b e := by
  have : x = e + ((x - e).toNat : Int) := by omega
  conv => lhs; rw [this]
  exact powZ_add_nat b hb e _

/-- `Dec.add` is exact -/
theorem Dec.add_toRat (a b : Dec) : (a.add b).toRat = a.toRat + b.toRat := by
  simp only [Dec.add, Dec.toRat]
  have ha := powZ_of_le 10 (by decide) (min a.exp b.exp) a.exp (by omega)
  have hb := powZ_of_le 10 (by decide) (min a.exp b.exp) b.exp (by omega)
  rw [ha, hb]
  simp only [Rat.intCast_add, Rat.intCast_mul, Rat.intCast_pow]
  simp
  grind


theorem rat_mul_pow (a b : Rat) (n : Nat) : (a * b) ^ n = a ^ n * b ^ n := by
  induction n with
  | zero => simp
  | succ n ih => simp only [Rat.pow_succ, ih]; grind

/-- `Decimal(x)` is exact -/
theorem Dec.ofDy_toRat (x : Dy) : (Dec.ofDy x).toRat = x.toRat := by
  unfold Dec.ofDy Dec.toRat Dy.toRat powZ
  by_cases h : 0 ≤ x.e
  · simp [h, Rat.intCast_mul, Rat.intCast_pow]
  · have h10 : (10 : Rat) = 2 * 5 := by grind
    have h2 := rat_pow_ne_zero 2 (by decide) (-x.e).toNat
    have h5 := rat_pow_ne_zero 5 (by decide) (-x.e).toNat
    simp only [h, if_false, Rat.intCast_mul, Rat.intCast_pow, h10, rat_mul_pow]
    simp
    grind

/-- the precision loop returns the exact sum, whatever the precision it starts from -/
theorem DSum.addLoop_total (total d : Dec) (prec : Nat) : (DSum.addLoop total d prec).1 = total.add d := by
  fun_induction DSum.addLoop total d prec with
  | case1 prec r h => simp [ctxAdd] at h; grind
  | case2 prec h ih => exact ih

/-- ... and ends with a precision that is large enough, and not smaller than before -/
theorem DSum.addLoop_prec (total d : Dec) (prec : Nat) :
    prec ≤ (DSum.addLoop total d prec).2 ∧ (total.add d).fits (DSum.addLoop total d prec).2 = true := by
  fun_induction DSum.addLoop total d prec with
  | case1 prec r h => simp [ctxAdd] at h; grind
  | case2 prec h ih => exact ⟨by omega, ih.2⟩


/-- the loop raises the precision no further than needed: every precision it passed was too small -/
theorem DSum.addLoop_prec_minimal (total d : Dec) (prec : Nat) :
    ∀ p, prec ≤ p → p < (DSum.addLoop total d prec).2 → (total.add d).fits p = false := by
  fun_induction DSum.addLoop total d prec with
  | case1 prec r h => intro p h1 h2; omega
  | case2 prec h ih =>
    intro p h1 h2
    by_cases hp : p = prec
    · subst hp
      simp [ctxAdd] at h
      simpa using h
    · exact ih p (by omega) h2


theorem dsum_fillAll (t0 : Dec) (s : DSumSt) (vs : List (Item Dy)) :
    ((dsumM t0).fillAll s vs).total.toRat = s.total.toRat + dySum vs
    ∧ ((dsumM t0).fillAll s vs).ctx = ctxAfter s.ctx vs
    ∧ s.prec ≤ ((dsumM t0).fillAll s vs).prec := by
  induction vs generalizing s with
  | nil => simp [Machine.fillAll, ctxAfter, dySum, Rat.add_zero]
  | cons v vs ih =>
    rw [fillAll_cons, ctxAfter_cons]
    have := ih ((dsumM t0).fill s v).1
    have hp := (DSum.addLoop_prec s.total (Dec.ofDy v.data) s.prec).1
    simp only [dsumM, DSum.fill, DSum.addLoop_total, Dec.add_toRat, Dec.ofDy_toRat] at this hp ⊢
    refine ⟨?_, this.2.1, by omega⟩
    rw [this.1]
    simp [dySum]
    grind

/-- `dsum_exact`: DSum yields a Decimal whose value is the initial total plus the exact sum of the filled
floats — no rounding error, for every sequence of floats (the precision loop terminates: `DSum.addLoop` is
a total function) — together with the context of the last filled value -/
theorem dsum_exact (t0 : Dec) (vs : List (Item Dy)) :
    ∃ d : Dec, ((dsumM t0).compute ((dsumM t0).fillAll (dsumM t0).init vs)).2 = .ok [withCtx d (ctxAfter [] vs)]
      ∧ d.toRat = t0.toRat + dySum vs := by
  have h := dsum_fillAll t0 (dsumM t0).init vs
  refine ⟨((dsumM t0).fillAll (dsumM t0).init vs).total, ?_, h.1⟩
  simp only [dsumM, DSum.compute] at h ⊢
  rw [h.2.1]

/-- DSum after `reset()`: the total is `Decimal(0)` and the context `{}`; the raised precision stays, but
it never shows (the loop returns the exact sum from any precision), so every later history shows what it
shows on `DSum()` -/
theorem dsum_reset_fresh (t0 : Dec) (h1 h2 : List (Op (Item Dy))) :
    ((dsumM t0).run ((dsumM t0).run (dsumM t0).init (h1 ++ [Op.reset])).1 h2).2 = (dsumM ⟨0, 0⟩).observe h2 := by
  apply reset_bisimilar (dsumM t0) (dsumM ⟨0, 0⟩) (fun _ => True) (fun s t => s.total = t.total ∧ s.ctx = t.ctx)
    trivial (fun _ _ _ => trivial)
  · intro s _
    simp [dsumM, DSum.reset]
  · intro s t op hst
    cases op with
    | fill v => simp [Machine.step, dsumM, DSum.fill, DSum.addLoop_total, hst.1]
    | compute => simp [Machine.step, dsumM, DSum.compute, hst.1, hst.2]
    | reset => simp [Machine.step, dsumM, DSum.reset]

/-- the tiniest float and a huge one: 1105 digits are needed, and the sum is exact -/
example : ((dsumM ⟨0, 0⟩).fillAll (dsumM ⟨0, 0⟩).init [⟨⟨1, -1074⟩, none⟩, ⟨⟨1, 100⟩, some [("a", some 1)]⟩]).prec = 1105 := by
  decide +kernel


section GroupBy
variable {κ ι : Type} [DecidableEq κ]

/-! ### GroupBy -/



theorem groupInsert_keys (s : List (κ × List ι)) (k : κ) (v : ι) :
    (groupInsert s k v).map (·.1) = if k ∈ s.map (·.1) then s.map (·.1) else s.map (·.1) ++ [k] := by
  induction s with
  | nil => simp [groupInsert]
  | cons kg rest ih =>
    obtain ⟨k', g⟩ := kg
    by_cases h : k' = k
    · subst h; simp [groupInsert]
    · have h' : ¬ k = k' := fun e => h e.symm
      simp only [groupInsert, h, if_false, List.map_cons, ih, List.mem_cons, h', false_or]
      split <;> simp

theorem groupInsert_lookup (s : List (κ × List ι)) (k : κ) (v : ι) (k₁ : κ) :
    groupLookup (groupInsert s k v) k₁ = if k₁ = k then groupLookup s k ++ [v] else groupLookup s k₁ := by
  induction s with
  | nil =>
    by_cases h : k₁ = k
    · simp [groupInsert, groupLookup, h]
    · have h' : ¬ k = k₁ := fun e => h e.symm
      simp [groupInsert, groupLookup, h, h']
  | cons kg rest ih =>
    obtain ⟨k', g⟩ := kg
    by_cases h : k' = k
    · subst h
      by_cases h1 : k₁ = k' <;> simp [groupInsert, groupLookup, h1, eq_comm]
    · by_cases h1 : k₁ = k
      · subst h1
        simp [groupInsert, groupLookup, h, ih]
      · by_cases h2 : k' = k₁ <;> simp [groupInsert, groupLookup, h, h1, h2, ih]


theorem groupBy_fillAll_aux (s : List (κ × List ι)) (kvs : List (κ × ι)) :
    ((groupByM κ ι).fillAll s kvs).map (·.1)
        = (kvs.map (·.1)).foldl (fun acc k => if k ∈ acc then acc else acc ++ [k]) (s.map (·.1))
    ∧ ∀ k, groupLookup ((groupByM κ ι).fillAll s kvs) k
        = groupLookup s k ++ (kvs.filter (fun kv => kv.1 = k)).map (·.2) := by
  induction kvs generalizing s with
  | nil => simp [Machine.fillAll]
  | cons kv kvs ih =>
    rw [fillAll_cons]
    have := ih ((groupByM κ ι).fill s kv).1
    simp only [groupByM] at this ⊢
    refine ⟨?_, ?_⟩
    · rw [this.1, groupInsert_keys]; simp
    · intro k
      rw [this.2 k, groupInsert_lookup]
      by_cases h : kv.1 = k
      · subst h; simp
      · have h' : ¬ k = kv.1 := fun e => h e.symm
        simp [h, h']

/-- a state with distinct keys is determined by its keys and its lookups -/
theorem groups_eq_of_nodup (s : List (κ × List ι)) (h : (s.map (·.1)).Nodup) :
    s = (s.map (·.1)).map (fun k => (k, groupLookup s k)) := by
  induction s with
  | nil => rfl
  | cons kg rest ih =>
    obtain ⟨k', g⟩ := kg
    simp only [List.map_cons, List.nodup_cons] at h
    simp only [List.map_cons, groupLookup, if_true, List.map_map]
    congr 1
    conv => lhs; rw [ih h.2]
    simp only [List.map_map]
    apply List.map_congr_left
    intro kg hkg
    have : k' ≠ kg.1 := by
      intro e
      apply h.1
      rw [e]
      exact List.mem_map_of_mem hkg
    simp [Function.comp, this]


theorem firstKeys_fold_nodup (ks acc : List κ) (h : acc.Nodup) :
    (ks.foldl (fun acc k => if k ∈ acc then acc else acc ++ [k]) acc).Nodup := by
  induction ks generalizing acc with
  | nil => exact h
  | cons k ks ih =>
    simp only [List.foldl_cons]
    apply ih
    by_cases hk : k ∈ acc
    · simp [hk, h]
    · simp only [hk, if_false]
      rw [List.nodup_append]
      refine ⟨h, by simp, ?_⟩
      intro a ha b hb
      simp at hb
      subst hb
      intro e
      exact hk (e ▸ ha)

theorem firstKeys_nodup (ks : List κ) : (firstKeys ks).Nodup := firstKeys_fold_nodup ks [] List.nodup_nil

/-- GroupBy yields the filled values themselves: one group per distinct key, in the order in which the keys
first occurred, each group holding exactly the values with that key in the order they were filled -/
theorem groupby_compute_spec (kvs : List (κ × ι)) :
    ((groupByM κ ι).compute ((groupByM κ ι).fillAll (groupByM κ ι).init kvs)).2 =
      .ok ((firstKeys (kvs.map (·.1))).map
            (fun k => Stored.group ((kvs.filter (fun kv => kv.1 = k)).map (·.2)))) := by
  have aux := groupBy_fillAll_aux (ι := ι) [] kvs
  have hk : ((groupByM κ ι).fillAll [] kvs).map (·.1) = firstKeys (kvs.map (·.1)) := by
    rw [aux.1]; rfl
  have hnd := firstKeys_nodup (kvs.map (·.1))
  rw [← hk] at hnd
  have hs := groups_eq_of_nodup _ hnd
  simp only [groupByM] at *
  rw [hs, hk]
  simp only [List.map_map]
  congr 2
  funext k
  simp only [Function.comp, aux.2 k, groupLookup, List.nil_append]

/-- the default `GroupBy()` puts every value into one group: values that all have the same key are yielded
as one group, in fill order -/
theorem groupby_one_key (k : κ) (kvs : List (κ × ι)) (hne : kvs ≠ []) (hk : ∀ kv ∈ kvs, kv.1 = k) :
    ((groupByM κ ι).compute ((groupByM κ ι).fillAll (groupByM κ ι).init kvs)).2
      = .ok [Stored.group (kvs.map (·.2))] := by
  rw [groupby_compute_spec]
  have hkeys : firstKeys (kvs.map (·.1)) = [k] := by
    cases kvs with
    | nil => exact absurd rfl hne
    | cons kv rest =>
      have h0 : kv.1 = k := hk kv (by simp)
      have hrest : ∀ kv' ∈ rest, kv'.1 = k := fun kv' h => hk kv' (by simp [h])
      simp only [firstKeys, List.map_cons, List.foldl_cons, List.not_mem_nil, if_false, List.nil_append, h0]
      clear hk hne h0
      induction rest with
      | nil => rfl
      | cons kv' rest ih =>
        simp only [List.map_cons, List.foldl_cons]
        have : kv'.1 = k := hrest kv' (by simp)
        simp only [this, List.mem_singleton, if_true]
        exact ih (fun kv'' h => hrest kv'' (by simp [h]))
  rw [hkeys]
  simp only [List.map_cons, List.map_nil]
  congr 3
  rw [List.filter_eq_self.mpr]
  intro kv h
  simp [hk kv h]

theorem groupby_reset_fresh (h1 h2 : List (Op (κ × ι))) :
    ((groupByM κ ι).run ((groupByM κ ι).run (groupByM κ ι).init (h1 ++ [Op.reset])).1 h2).2
      = (groupByM κ ι).observe h2 :=
  reset_fresh_of_const (groupByM κ ι) (groupByM κ ι) rfl rfl rfl (fun _ => rfl) h1 h2


end GroupBy

/-! ### Histogram (one dimension) -/

theorem increasing_iff (es : List Int) : increasing es = true ↔ es.Pairwise (· < ·) := by
  induction es with
  | nil => simp [increasing]
  | cons a rest ih =>
    cases rest with
    | nil => simp [increasing]
    | cons b rest' =>
      simp only [increasing, Bool.and_eq_true, decide_eq_true_eq, ih, List.pairwise_cons]
      constructor
      · rintro ⟨hab, hb, hr⟩
        refine ⟨?_, hb, hr⟩
        intro c hc
        rcases List.mem_cons.mp hc with rfl | hc
        · exact hab
        · exact Int.lt_trans hab (hb c hc)
      · rintro ⟨ha, hb, hr⟩
        exact ⟨ha b (by simp), hb, hr⟩

theorem filter_le_nil_of_lt (es : List Int) (x : Int) (h : ∀ e ∈ es, x < e) : es.filter (fun e => e ≤ x) = [] := by
  rw [List.filter_eq_nil_iff]
  intro e he
  have := h e he
  simp; omega

/-- the meaning of the bin index for strictly increasing edges: bin `j` is `edges[j] ≤ x < edges[j+1]` -/
theorem binIndex_spec (es : List Int) (hs : es.Pairwise (· < ·)) (x : Int) (j : Nat) (hj : j + 1 < es.length) :
    binIndex es x = j ↔ es[j] ≤ x ∧ x < es[j + 1] := by
  induction es generalizing j with
  | nil => simp at hj
  | cons a rest ih =>
    rw [List.pairwise_cons] at hs
    by_cases hax : a ≤ x
    · have hb : binIndex (a :: rest) x = binIndex rest x + 1 := by simp [binIndex, hax]
      cases j with
      | zero =>
        simp only [List.getElem_cons_zero, hax, true_and, List.getElem_cons_succ]
        rw [hb]
        cases rest with
        | nil => simp at hj
        | cons b rest' =>
          simp only [List.getElem_cons_zero]
          by_cases hbx : b ≤ x
          · simp [binIndex, hbx]; omega
          · have : (b :: rest').filter (fun e => e ≤ x) = [] := by
              apply filter_le_nil_of_lt
              intro e he
              rcases List.mem_cons.mp he with rfl | he
              · omega
              · have := (List.pairwise_cons.mp hs.2).1 e he; omega
            simp [binIndex, this]; omega
      | succ j' =>
        have := ih hs.2 j' (by simp at hj; omega)
        simp only [List.getElem_cons_succ]
        rw [hb, ← this]
        omega
    · have hnil : (a :: rest).filter (fun e => e ≤ x) = [] := by
        apply filter_le_nil_of_lt
        intro e he
        rcases List.mem_cons.mp he with rfl | he
        · omega
        · have := hs.1 e he; omega
      have hb : binIndex (a :: rest) x = -1 := by simp [binIndex, hnil]
      rw [hb]
      constructor
      · intro h; omega
      · rintro ⟨h1, _⟩
        cases j with
        | zero => simp at h1; omega
        | succ j' =>
          simp only [List.getElem_cons_succ] at h1
          have hj' : j' < rest.length := by simp at hj; omega
          have := hs.1 rest[j'] (List.getElem_mem hj')
          omega



theorem Hist.fill_spec (es : List Int) (h : Hist) (v : Item Int) :
    (Hist.fill es h v.data).bins.length = h.bins.length
    ∧ (∀ j, (Hist.fill es h v.data).bins[j]? = (h.bins[j]?).map (fun c => c + if inBin es j v then 1 else 0))
    ∧ (Hist.fill es h v.data).nOut = h.nOut + if outOfRange es h.bins.length v then 1 else 0 := by
  unfold Hist.fill inBin outOfRange
  by_cases h0 : binIndex es v.data < 0
  · refine ⟨by simp [h0], ?_, by simp [h0]⟩
    intro j
    have : ¬ binIndex es v.data = (j : Int) := by omega
    simp [h0, this]
  · by_cases h1 : (binIndex es v.data).toNat < h.bins.length
    · have hno : ¬ ((h.bins.length : Int) ≤ binIndex es v.data) := by omega
      refine ⟨by simp [h0, h1], ?_, by simp [h0, h1, hno]⟩
      intro j
      simp only [h0, h1, if_false, if_true, List.getElem?_modify]
      by_cases hj : (binIndex es v.data).toNat = j
      · have : binIndex es v.data = (j : Int) := by omega
        simp [this]
      · have : ¬ binIndex es v.data = (j : Int) := by omega
        simp [hj, this]
    · have hno : (h.bins.length : Int) ≤ binIndex es v.data := by omega
      refine ⟨by simp [h0, h1], ?_, by simp [h0, h1, hno]⟩
      intro j
      simp only [h0, h1, if_false]
      by_cases hj : binIndex es v.data = (j : Int)
      · have : h.bins.length ≤ j := by omega
        simp [hj, List.getElem?_eq_none this]
      · simp [hj]


theorem hist_fillAll (cfg : HistCfg) (s0 s : HistSt) (vs : List (Item Int)) :
    ((histogramM cfg s0).fillAll s vs).hist.bins.length = s.hist.bins.length
    ∧ (∀ j, ((histogramM cfg s0).fillAll s vs).hist.bins[j]?
        = (s.hist.bins[j]?).map (fun (c : Int) => c + ((vs.countP (inBin cfg.edges j) : Nat) : Int)))
    ∧ ((histogramM cfg s0).fillAll s vs).hist.nOut
        = s.hist.nOut + ((vs.countP (outOfRange cfg.edges s.hist.bins.length) : Nat) : Int)
    ∧ ((histogramM cfg s0).fillAll s vs).ctx = ctxAfter s.ctx vs := by
  induction vs generalizing s with
  | nil =>
    simp only [Machine.fillAll, List.foldl_nil, List.countP_nil, ctxAfter_nil]
    refine ⟨by simp, ?_, by simp, by simp⟩
    intro j; cases s.hist.bins[j]? <;> simp
  | cons v vs ih =>
    have hstep := Hist.fill_spec cfg.edges s.hist v
    have := ih ((histogramM cfg s0).fill s v).1
    rw [fillAll_cons]
    have e : ((histogramM cfg s0).fill s v).1 = ⟨Hist.fill cfg.edges s.hist v.data, v.context⟩ := rfl
    rw [e] at this ⊢
    obtain ⟨hl, hb, ho, hc⟩ := this
    simp only at hl hb ho hc
    refine ⟨by rw [hl, hstep.1], ?_, ?_, ?_⟩
    · intro j
      rw [hb j, hstep.2.1 j]
      cases s.hist.bins[j]? with
      | none => simp
      | some c =>
        simp only [Option.map_some, List.countP_cons]
        congr 1
        split <;> simp <;> omega
    · rw [ho, hstep.2.2, hstep.1]
      simp only [List.countP_cons]
      split <;> simp <;> omega
    · rw [hc, ctxAfter_cons]


theorem mkHist_ok (es : List Int) (bins : Option (List Int)) (iv : Int) (h : Hist) (hk : mkHist es bins iv = .ok h) :
    h = ⟨bins.getD (List.replicate (es.length - 1) iv), 0⟩ ∧ h.bins.length = es.length - 1
      ∧ es.Pairwise (· < ·) ∧ 2 ≤ es.length := by
  unfold mkHist at hk
  rw [← increasing_iff]
  by_cases h1 : es.length ≤ 1
  · simp [h1] at hk
  · by_cases h2 : increasing es = true
    · cases bins with
      | none =>
        simp [h1, h2] at hk
        subst hk
        simp [h2]; omega
      | some b =>
        by_cases h3 : b.length = es.length - 1
        · simp [h1, h2, h3] at hk
          subst hk
          simp [h2, h3]; omega
        · simp [h1, h2, h3] at hk
    · simp [h1, h2] at hk

theorem Histogram.new_ok (cfg : HistCfg) (s0 : HistSt) (h : Histogram.new cfg = .ok s0) :
    s0 = ⟨⟨cfg.initBins, 0⟩, []⟩ ∧ cfg.initBins.length = cfg.edges.length - 1
      ∧ cfg.edges.Pairwise (· < ·) ∧ 2 ≤ cfg.edges.length := by
  unfold Histogram.new at h
  unfold HistCfg.initBins
  cases hm : cfg.makeBins <;> cases hb : cfg.bins <;> simp only [hm, hb] at h ⊢ <;> simp at h
  all_goals
    split at h <;> simp at h
    rename_i hh hk
    obtain ⟨e1, e2, e3, e4⟩ := mkHist_ok _ _ _ _ hk
    subst h
    subst e1
    simp_all

/-- Histogram yields the filled histogram: bin `j` holds its initial content plus the number of filled values
`x` with `edges[j] ≤ x < edges[j+1]` (`binIndex_spec`), `n_out_of_range` counts the others; the context is
that of the last filled value (always as a pair) -/
theorem hist_compute_spec (cfg : HistCfg) (s0 : HistSt) (h : Histogram.new cfg = .ok s0) (vs : List (Item Int)) :
    ∃ hist : Hist,
      ((histogramM cfg s0).compute ((histogramM cfg s0).fillAll (histogramM cfg s0).init vs)).2
        = .ok [⟨hist, some (ctxAfter [] vs)⟩]
      ∧ hist.bins.length = cfg.edges.length - 1
      ∧ (∀ j, hist.bins[j]?
          = (cfg.initBins[j]?).map (fun (c : Int) => c + ((vs.countP (inBin cfg.edges j) : Nat) : Int)))
      ∧ hist.nOut = ((vs.countP (outOfRange cfg.edges (cfg.edges.length - 1)) : Nat) : Int) := by
  obtain ⟨hs0, hlen, _, _⟩ := Histogram.new_ok cfg s0 h
  have hf := hist_fillAll cfg s0 s0 vs
  refine ⟨((histogramM cfg s0).fillAll s0 vs).hist, ?_, ?_, ?_, ?_⟩
  · have hc : s0.ctx = [] := by rw [hs0]
    show Except.ok [Histogram.compute ((histogramM cfg s0).fillAll s0 vs)] = _
    unfold Histogram.compute
    rw [hf.2.2.2, hc]
  · rw [hf.1, hs0]; exact hlen
  · intro j; rw [hf.2.1 j, hs0]
  · rw [hf.2.2.1, hs0]; simp [hlen]

/-- `reset()` returns exactly the newly constructed element -/
theorem hist_reset_is_init (cfg : HistCfg) (s0 : HistSt) (h : Histogram.new cfg = .ok s0) (s : HistSt) :
    Histogram.reset cfg s = s0 := by
  unfold Histogram.new at h
  unfold Histogram.reset
  cases hm : cfg.makeBins <;> cases hb : cfg.bins <;> simp only [hm, hb] at h ⊢ <;> simp at h
  all_goals
    split at h <;> simp at h
    rename_i hh hk
    subst h
    simp [hk]

theorem hist_reset_fresh (cfg : HistCfg) (s0 : HistSt) (h : Histogram.new cfg = .ok s0)
    (h1 h2 : List (Op (Item Int))) :
    ((histogramM cfg s0).run ((histogramM cfg s0).run (histogramM cfg s0).init (h1 ++ [Op.reset])).1 h2).2
      = (histogramM cfg s0).observe h2 :=
  reset_fresh_of_const (histogramM cfg s0) (histogramM cfg s0) rfl rfl rfl (hist_reset_is_init cfg s0 h) h1 h2


theorem sum_modify_succ (l : List Int) (i : Nat) (h : i < l.length) : (l.modify i (· + 1)).sum = l.sum + 1 := by
  induction l generalizing i with
  | nil => simp at h
  | cons a l ih =>
    cases i with
    | zero => simp [List.modify_cons]; omega
    | succ i => simp [ih i (by simpa using h)]; omega

theorem Hist.fill_conserves (es : List Int) (h : Hist) (x : Int) :
    (Hist.fill es h x).bins.sum + (Hist.fill es h x).nOut = h.bins.sum + h.nOut + 1 := by
  unfold Hist.fill
  by_cases h0 : binIndex es x < 0
  · simp [h0]; omega
  · by_cases h1 : (binIndex es x).toNat < h.bins.length
    · simp [h0, h1, sum_modify_succ _ _ h1]; omega
    · simp [h0, h1]; omega

/-- conservation: every fill is counted exactly once, in a bin or as out of range -/
theorem hist_conservation (cfg : HistCfg) (s0 s : HistSt) (vs : List (Item Int)) :
    ((histogramM cfg s0).fillAll s vs).hist.bins.sum + ((histogramM cfg s0).fillAll s vs).hist.nOut
      = s.hist.bins.sum + s.hist.nOut + vs.length := by
  induction vs generalizing s with
  | nil => simp [Machine.fillAll]
  | cons v vs ih =>
    rw [fillAll_cons, ih]
    have e : ((histogramM cfg s0).fill s v).1 = ⟨Hist.fill cfg.edges s.hist v.data, v.context⟩ := rfl
    rw [e]
    have := Hist.fill_conserves cfg.edges s.hist v.data
    simp only [List.length_cons]
    omega

example : Histogram.new ⟨[0, 1, 3], none, none, 2⟩ = .ok ⟨⟨[2, 2], 0⟩, []⟩ := by rfl


section Vectorize
variable {σ ο δ : Type}

/-! ### Vectorize -/

theorem Vec.fillGo_length (m : Machine σ (Item δ) ο) (ss : List σ) (ds : List δ) :
    (Vec.fillGo m ss ds).1.length = ss.length := by
  induction ss generalizing ds with
  | nil => simp [Vec.fillGo]
  | cons s ss ih =>
    cases ds with
    | nil => simp [Vec.fillGo]
    | cons d ds =>
      simp only [Vec.fillGo]
      split <;> simp [ih]

theorem Vec.computeGo_length (m : Machine σ (Item δ) ο) (ss : List σ) :
    (Vec.computeGo m ss).1.length = ss.length := by
  induction ss with
  | nil => simp [Vec.computeGo]
  | cons s ss ih =>
    simp only [Vec.computeGo]
    split <;> simp [ih]

theorem Vec.fillGo_inv (m : Machine σ (Item δ) ο) (P : σ → Prop) (hP : ∀ s v, P s → P (m.fill s v).1)
    (ss : List σ) (ds : List δ) (h : ∀ x ∈ ss, P x) : ∀ x ∈ (Vec.fillGo m ss ds).1, P x := by
  induction ss generalizing ds with
  | nil => simp [Vec.fillGo]
  | cons s ss ih =>
    cases ds with
    | nil => simpa [Vec.fillGo] using h
    | cons d ds =>
      have hs : P s := h s (by simp)
      have hss : ∀ x ∈ ss, P x := fun x hx => h x (by simp [hx])
      simp only [Vec.fillGo]
      split
      · intro x hx
        rcases List.mem_cons.mp hx with rfl | hx
        · exact hP _ _ hs
        · exact hss x hx
      · intro x hx
        rcases List.mem_cons.mp hx with rfl | hx
        · exact hP _ _ hs
        · exact ih ds hss x hx

theorem Vec.computeGo_inv (m : Machine σ (Item δ) ο) (P : σ → Prop) (hP : ∀ s, P s → P (m.compute s).1)
    (ss : List σ) (h : ∀ x ∈ ss, P x) : ∀ x ∈ (Vec.computeGo m ss).1, P x := by
  induction ss with
  | nil => simp [Vec.computeGo]
  | cons s ss ih =>
    have hs : P s := h s (by simp)
    have hss : ∀ x ∈ ss, P x := fun x hx => h x (by simp [hx])
    simp only [Vec.computeGo]
    split
    · intro x hx
      rcases List.mem_cons.mp hx with rfl | hx
      · exact hP _ hs
      · exact hss x hx
    · intro x hx
      rcases List.mem_cons.mp hx with rfl | hx
      · exact hP _ hs
      · exact ih hss x hx

/-- Vectorize after `reset()`, for an inner accumulator whose `reset` returns its initial state on every state it
can reach (invariant `P`): every later history shows what it shows on a new `Vectorize` -/
theorem vec_reset_fresh (m : Machine σ (Item δ) ο) (P : σ → Prop) (hinit : P m.init)
    (hfill : ∀ s v, P s → P (m.fill s v).1) (hcomp : ∀ s, P s → P (m.compute s).1)
    (hres : ∀ s, P s → m.reset s = m.init) (dim : Nat)
    (h1 h2 : List (Op (Item (List δ)))) :
    ((vectorizeM m dim).run ((vectorizeM m dim).run (vectorizeM m dim).init (h1 ++ [Op.reset])).1 h2).2
      = (vectorizeM m dim).observe h2 := by
  apply reset_bisimilar (vectorizeM m dim) (vectorizeM m dim)
    (fun s => s.inner.length = max dim 1 ∧ ∀ x ∈ s.inner, P x) Eq
  · refine ⟨by simp [vectorizeM], ?_⟩
    intro x hx
    simp only [vectorizeM] at hx
    rw [List.eq_of_mem_replicate hx]
    exact hinit
  · intro s op hs
    cases op with
    | fill v =>
      simp only [Machine.step, vectorizeM, Vec.fill]
      split <;> exact ⟨by simp [Vec.fillGo_length, hs.1], Vec.fillGo_inv m P hfill _ _ hs.2⟩
    | compute =>
      exact ⟨by simp [Machine.step, vectorizeM, Vec.compute, Vec.computeGo_length, hs.1],
        Vec.computeGo_inv m P hcomp _ hs.2⟩
    | reset =>
      refine ⟨by simp [Machine.step, vectorizeM, Vec.reset, hs.1], ?_⟩
      intro x hx
      simp only [Machine.step, vectorizeM, Vec.reset, List.mem_map] at hx
      obtain ⟨y, hy, rfl⟩ := hx
      rw [hres y (hs.2 y hy)]
      exact hinit
  · intro s hs
    simp only [vectorizeM, Vec.reset]
    congr 1
    have key : ∀ l : List σ, (∀ x ∈ l, P x) → l.map m.reset = List.replicate l.length m.init := by
      intro l
      induction l with
      | nil => intro _; rfl
      | cons a l ih =>
        intro hall
        simp only [List.map_cons, List.length_cons, List.replicate_succ]
        rw [hres a (hall a (by simp)), ih (fun x hx => hall x (by simp [hx]))]
    rw [← hs.1]
    exact key _ hs.2
  · intro s t op hst
    subst hst
    exact ⟨rfl, rfl⟩

/-- instances: `Vectorize(Sum(), dim)` and `Vectorize(Mean(...), dim)` -/
theorem vec_sum_reset_fresh (dim : Nat) (h1 h2 : List (Op (Item (List Int)))) :
    ((vectorizeM (sumM 0) dim).run ((vectorizeM (sumM 0) dim).run (vectorizeM (sumM 0) dim).init
      (h1 ++ [Op.reset])).1 h2).2 = (vectorizeM (sumM 0) dim).observe h2 :=
  vec_reset_fresh (sumM 0) (fun _ => True) trivial (fun _ _ _ => trivial) (fun _ _ => trivial)
    (fun _ _ => rfl) dim h1 h2

theorem vec_mean_reset_fresh (cfg : MeanCfg) (dim : Nat) (h1 h2 : List (Op (Item (List Int)))) :
    ((vectorizeM (meanM cfg) dim).run ((vectorizeM (meanM cfg) dim).run (vectorizeM (meanM cfg) dim).init
      (h1 ++ [Op.reset])).1 h2).2 = (vectorizeM (meanM cfg) dim).observe h2 := by
  apply vec_reset_fresh (meanM cfg)
    (fun s => (cfg.useSeq = true → s.sum = 0) ∧ (cfg.useSeq = false → s.seq = ⟨0, []⟩))
  · simp [meanM]
  · intro s v hs
    cases h : cfg.useSeq <;> simp_all [meanM, Mean.fill]
  · intro s hs
    exact hs
  · intro s hs
    cases h : cfg.useSeq <;> simp_all [meanM, Mean.reset, Sum.reset]


theorem Vec.fillGo_ok (m : Machine σ (Item δ) ο) (hne : ∀ s v, (m.fill s v).2 = none) (ss : List σ)
    (ds : List δ) (h : ss.length ≤ ds.length) :
    Vec.fillGo m ss ds = (List.zipWith (fun s d => (m.fill s ⟨d, none⟩).1) ss ds, none) := by
  induction ss generalizing ds with
  | nil => simp [Vec.fillGo]
  | cons s ss ih =>
    cases ds with
    | nil => simp at h
    | cons d ds =>
      simp only [Vec.fillGo, hne, List.zipWith_cons_cons]
      rw [ih ds (by simpa using h)]

theorem vec_fillAll [Inhabited δ] (m : Machine σ (Item δ) ο) (hne : ∀ s v, (m.fill s v).2 = none) (dim : Nat)
    (vs : List (Item (List δ))) (s : VecSt σ) (hlen : ∀ v ∈ vs, s.inner.length ≤ v.data.length) :
    ((vectorizeM m dim).fillAll s vs).inner.length = s.inner.length
    ∧ (∀ i, ((vectorizeM m dim).fillAll s vs).inner[i]? = (s.inner[i]?).map (fun si => m.fillAll si (column i vs)))
    ∧ ((vectorizeM m dim).fillAll s vs).ctx = ctxAfter s.ctx vs := by
  induction vs generalizing s with
  | nil =>
    refine ⟨rfl, ?_, rfl⟩
    intro i
    simp only [Machine.fillAll, List.foldl_nil, column, List.map_nil]
    cases s.inner[i]? <;> rfl
  | cons v vs ih =>
    have hv : s.inner.length ≤ v.data.length := hlen v (by simp)
    have e : ((vectorizeM m dim).fill s v).1
        = ⟨List.zipWith (fun s d => (m.fill s ⟨d, none⟩).1) s.inner v.data, v.context⟩ := by
      simp [vectorizeM, Vec.fill, Vec.fillGo_ok m hne _ _ hv]
    have hl : (List.zipWith (fun s d => (m.fill s ⟨d, none⟩).1) s.inner v.data).length = s.inner.length := by
      simp [List.length_zipWith]; omega
    rw [fillAll_cons, e]
    have := ih ⟨List.zipWith (fun s d => (m.fill s ⟨d, none⟩).1) s.inner v.data, v.context⟩
      (by intro w hw; rw [hl]; exact hlen w (by simp [hw]))
    refine ⟨by rw [this.1, hl], ?_, by rw [this.2.2, ctxAfter_cons]⟩
    intro i
    rw [this.2.1 i]
    simp only [List.getElem?_zipWith, column, List.map_cons, fillAll_cons]
    by_cases hi : i < s.inner.length
    · have hi' : i < v.data.length := by omega
      simp [List.getElem?_eq_getElem hi, List.getElem?_eq_getElem hi', List.getD_eq_getElem?_getD]
    · simp [List.getElem?_eq_none (by omega : s.inner.length ≤ i)]



theorem Vec.computeGo_spec (m : Machine σ (Item δ) ο) (ss : List σ) :
    (Vec.computeGo m ss).2 = firstErr (ss.map (fun s => (m.compute s).2)) := by
  induction ss with
  | nil => rfl
  | cons s ss ih =>
    simp only [Vec.computeGo, List.map_cons]
    cases h : (m.compute s).2 with
    | error e => simp [firstErr]
    | ok ys =>
      cases hh : firstErr (ss.map (fun s => (m.compute s).2)) <;> simp [firstErr, ih, hh]

/-- row `i` of `zip_longest`: the `i`-th result of every component, `None` where a component has fewer -/
theorem zipLongest_row {α : Type} (ls : List (List α)) (i : Nat) (h : i < (zipLongest ls).length) :
    (zipLongest ls)[i] = ls.map (fun l => l[i]?) := by
  simp [zipLongest]

theorem inner_eq_of_pointwise (n : Nat) (l : List σ) (f : Nat → σ)
    (hl : l.length = n) (hp : ∀ i, i < n → l[i]? = some (f i)) :
    l = (List.range n).map f := by
  apply List.ext_getElem?
  intro i
  by_cases hi : i < n
  · rw [hp i hi]; simp [hi]
  · rw [List.getElem?_eq_none (by omega), List.getElem?_eq_none (by simp; omega)]

/-- Vectorize yields the component-wise result of its inner accumulator: component `i` of every yielded
tuple comes from `inner.compute()` after the inner accumulator was filled with component `i` of every
filled vector (bare); tuples are padded with `None` (`zip_longest`), the first exception of a component
propagates, and every tuple carries the context of the last filled vector -/
theorem vec_compute_spec [Inhabited δ] (m : Machine σ (Item δ) ο) (hne : ∀ s v, (m.fill s v).2 = none) (dim : Nat)
    (vs : List (Item (List δ))) (hlen : ∀ v ∈ vs, max dim 1 ≤ v.data.length) :
    ((vectorizeM m dim).compute ((vectorizeM m dim).fillAll (vectorizeM m dim).init vs)).2 =
      match firstErr ((List.range (max dim 1)).map
              (fun i => (m.compute (m.fillAll m.init (column i vs))).2)) with
      | .error e => .error e
      | .ok yss => .ok ((zipLongest yss).map (fun row => withCtx row (ctxAfter [] vs))) := by
  have h0 : (vectorizeM m dim).init = ⟨List.replicate (max dim 1) m.init, []⟩ := rfl
  have hf := vec_fillAll m hne dim vs (vectorizeM m dim).init (by rw [h0]; simpa using hlen)
  rw [h0] at hf
  have hinner := inner_eq_of_pointwise (max dim 1) _ (fun i => m.fillAll m.init (column i vs))
    (by rw [hf.1]; simp) (by
      intro i hi
      rw [hf.2.1 i]
      simp [hi])
  rw [h0]
  show (Vec.compute m _).2 = _
  unfold Vec.compute
  simp only [Vec.computeGo_spec, hinner, hf.2.2, List.map_map, Function.comp_def]
  cases firstErr ((List.range (max dim 1)).map
              (fun i => (m.compute (m.fillAll m.init (column i vs))).2)) <;> rfl


theorem foldl_max_singletons {α : Type} (as : List α) (n : Nat) :
    (as.map (fun a => [a])).foldl (fun n l => max n l.length) n = if as = [] then n else max n 1 := by
  induction as generalizing n with
  | nil => rfl
  | cons a as ih =>
    simp only [List.map_cons, List.foldl_cons, ih, List.length_singleton]
    by_cases h : as = [] <;> simp [h] <;> omega

theorem zipLongest_singletons {α : Type} (as : List α) (h : as ≠ []) :
    zipLongest (as.map (fun a => [a])) = [as.map some] := by
  simp [zipLongest, foldl_max_singletons, h, List.range_succ]

theorem firstErr_ok {α : Type} (ys : List α) : firstErr (ys.map Except.ok) = .ok ys := by
  induction ys with
  | nil => rfl
  | cons y ys ih => simp [firstErr, ih]

/-- `Vectorize(Sum(), dim)`: one tuple of the component sums, with the context of the last filled vector -/
theorem vec_sum_compute_spec (dim : Nat) (vs : List (Item (List Int)))
    (hlen : ∀ v ∈ vs, max dim 1 ≤ v.data.length) :
    ((vectorizeM (sumM 0) dim).compute ((vectorizeM (sumM 0) dim).fillAll (vectorizeM (sumM 0) dim).init vs)).2 =
      .ok [withCtx ((List.range (max dim 1)).map
              (fun i => some (⟨dataSum (column i vs), none⟩ : Item Int))) (ctxAfter [] vs)] := by
  rw [vec_compute_spec (sumM 0) (fun _ _ => rfl) dim vs hlen]
  have : (List.range (max dim 1)).map (fun i => ((sumM 0).compute ((sumM 0).fillAll (sumM 0).init (column i vs))).2)
      = ((List.range (max dim 1)).map (fun i => [(⟨dataSum (column i vs), none⟩ : Item Int)])).map Except.ok := by
    simp only [List.map_map]
    apply List.map_congr_left
    intro i _
    have h := sum_compute_spec 0 (column i vs)
    simp only [Function.comp] 
    rw [h]
    have hc : ctxAfter [] (column i vs) = [] := by
      have := ctxAfter_bare [] (vs.map (fun v => (⟨v.data.getD i default, none⟩ : Item Int)))
      simp only [bare, List.map_map, Function.comp_def] at this
      simp only [column]
      rw [this]; split <;> rfl
    simp [hc, withCtx]
  rw [this, firstErr_ok]
  have hne : (List.range (max dim 1)) ≠ [] := by
    intro h
    have := congrArg List.length h
    simp at this
  have := zipLongest_singletons ((List.range (max dim 1)).map
    (fun i => (⟨dataSum (column i vs), none⟩ : Item Int))) (by simp)
  simp only [List.map_map, Function.comp_def] at this
  simp only [this, List.map_cons, List.map_nil]

example : ((vectorizeM (sumM 0) 2).compute ((vectorizeM (sumM 0) 2).fillAll (vectorizeM (sumM 0) 2).init
    [⟨[1, 2], none⟩, ⟨[3, 5, 9], some [("a", some 1)]⟩])).2
    = .ok [⟨[some ⟨4, none⟩, some ⟨7, none⟩], some [("a", some 1)]⟩] := by rfl


/-! ### Vectorize around `FillComputeSeq(lambda x: f(x), el)` components -/

theorem mapData_fillAll (f : Int → Int) (m : Machine σ (Item Int) ο) (s : σ) (vs : List (Item Int)) :
    (mapDataM f m).fillAll s vs = m.fillAll s (vs.map (fun v => ⟨f v.data, v.ctx⟩)) := by
  induction vs generalizing s with
  | nil => rfl
  | cons v vs ih => rw [fillAll_cons, ih]; rfl

/-- `Vectorize(FillComputeSeq(f, Sum()), dim)` after `reset()`: every component's `Sum` (found through
`_fill_compute`) is reset, so every later history shows what it shows on a new element -/
theorem vec_seq_sum_reset_fresh (f : Int → Int) (dim : Nat) (h1 h2 : List (Op (Item (List Int)))) :
    ((vectorizeM (mapDataM f (sumM 0)) dim).run ((vectorizeM (mapDataM f (sumM 0)) dim).run
      (vectorizeM (mapDataM f (sumM 0)) dim).init (h1 ++ [Op.reset])).1 h2).2
      = (vectorizeM (mapDataM f (sumM 0)) dim).observe h2 :=
  vec_reset_fresh (mapDataM f (sumM 0)) (fun _ => True) trivial (fun _ _ _ => trivial) (fun _ _ => trivial)
    (fun _ _ => rfl) dim h1 h2

/-- `Vectorize(FillComputeSeq(f, Sum()), dim)` yields the component sums of the preprocessed values -/
theorem vec_seq_sum_compute_spec (f : Int → Int) (dim : Nat) (vs : List (Item (List Int)))
    (hlen : ∀ v ∈ vs, max dim 1 ≤ v.data.length) :
    ((vectorizeM (mapDataM f (sumM 0)) dim).compute
        ((vectorizeM (mapDataM f (sumM 0)) dim).fillAll (vectorizeM (mapDataM f (sumM 0)) dim).init vs)).2 =
      match firstErr ((List.range (max dim 1)).map (fun i =>
          ((sumM 0).compute ((sumM 0).fillAll (sumM 0).init
            ((column i vs).map (fun v => ⟨f v.data, v.ctx⟩)))).2)) with
      | .error e => .error e
      | .ok yss => .ok ((zipLongest yss).map (fun row => withCtx row (ctxAfter [] vs))) := by
  rw [vec_compute_spec (mapDataM f (sumM 0)) (fun _ _ => rfl) dim vs hlen]
  simp only [mapData_fillAll]
  simp only [mapDataM]
  generalize firstErr ((List.range (max dim 1)).map (fun i =>
          ((sumM 0).compute ((sumM 0).fillAll (sumM 0).init
            ((column i vs).map (fun v => (⟨f v.data, v.ctx⟩ : Item Int))))).2)) = r
  cases r <;> rfl

example : ((vectorizeM (mapDataM (· * 2) (sumM 0)) 2).observe
    [.fill ⟨[1, 2], none⟩, .reset, .fill ⟨[3, 5], none⟩, .compute])
    = [.filled none, .wasReset, .filled none, .computed (.ok [⟨[some ⟨6, none⟩, some ⟨10, none⟩], none⟩])] := by rfl

end Vectorize

/-! ### Graph -/

theorem Pt.le_trans (a b c : Pt) (h1 : Pt.le a b = true) (h2 : Pt.le b c = true) : Pt.le a c = true := by
  simp only [Pt.le, Bool.or_eq_true, Bool.and_eq_true, decide_eq_true_eq] at *
  omega

theorem Pt.le_total (a b : Pt) : (Pt.le a b || Pt.le b a) = true := by
  simp only [Pt.le, Bool.or_eq_true, Bool.and_eq_true, decide_eq_true_eq]
  omega

theorem graph_fillAll (cfg : GraphCfg) (s : GraphSt) (vs : List (Item Pt)) :
    (graphM cfg).fillAll s vs = ⟨s.points ++ vs.map (·.data), s.scale, ctxAfter s.ctx vs⟩ := by
  induction vs generalizing s with
  | nil => simp [Machine.fillAll, ctxAfter]
  | cons v vs ih =>
    rw [fillAll_cons, ih, ctxAfter_cons]
    simp [graphM, Graph.fill]

/-- what `Graph.compute` yields after filling `vs` into a new graph: `LenaRuntimeError` when the last context
has a scale different from the initial one; otherwise the filled points (sorted if `sort`), the scale of the
last context (else the initial one), and the last context extended by the graph's own keys `scale` and
(when there are points) `dim` -/
theorem graph_compute_spec (cfg : GraphCfg) (vs : List (Item Pt)) :
    ((graphM cfg).compute ((graphM cfg).fillAll (graphM cfg).init vs)).2 =
      let last := ctxAfter [] vs
      let pts := if cfg.sort then (vs.map (·.data)).mergeSort Pt.le else vs.map (·.data)
      match last.get "scale", cfg.scale0 with
      | some c, some sc =>
        if sc != c then .error .runtimeError
        else .ok [⟨pts, some c, if pts.isEmpty then (last.set "scale" cfg.scale0).set "scale" (some c)
                                  else ((last.set "scale" cfg.scale0).set "scale" (some c)).set "dim" (some 1)⟩]
      | some c, none =>
        .ok [⟨pts, some c, if pts.isEmpty then (last.set "scale" none).set "scale" (some c)
                            else ((last.set "scale" none).set "scale" (some c)).set "dim" (some 1)⟩]
      | none, sc =>
        .ok [⟨pts, sc, if pts.isEmpty then (last.set "scale" sc).set "scale" sc
                        else ((last.set "scale" sc).set "scale" sc).set "dim" (some 1)⟩] := by
  rw [graph_fillAll]
  simp only [graphM, Graph.compute, List.nil_append]
  cases h1 : (ctxAfter [] vs).get "scale" <;> cases h2 : cfg.scale0 <;> simp
  split <;> simp_all

/-- the yielded points are the filled points: a permutation of them, sorted lexicographically when `sort` -/
theorem graph_points (cfg : GraphCfg) (vs : List (Item Pt)) :
    let pts := if cfg.sort then (vs.map (·.data)).mergeSort Pt.le else vs.map (·.data)
    pts.Perm (vs.map (·.data)) ∧ (cfg.sort = true → pts.Pairwise (fun a b => Pt.le a b = true)) := by
  cases h : cfg.sort
  · simp
  · simp only [if_true]
    exact ⟨List.mergeSort_perm _ _, fun _ => List.pairwise_mergeSort Pt.le_trans Pt.le_total _⟩

/-- `Graph.reset` (as in /repo now: the initial scale is restored) returns the newly constructed graph -/
theorem graph_reset_is_init (cfg : GraphCfg) (hr : cfg.resetScale = true) (s : GraphSt) :
    (graphM cfg).reset s = (graphM cfg).init := by
  simp [graphM, Graph.reset, hr]

theorem graph_reset_fresh (cfg : GraphCfg) (hr : cfg.resetScale = true) (h1 h2 : List (Op (Item Pt))) :
    ((graphM cfg).run ((graphM cfg).run (graphM cfg).init (h1 ++ [Op.reset])).1 h2).2 = (graphM cfg).observe h2 :=
  reset_fresh_of_const (graphM cfg) (graphM cfg) rfl rfl rfl (graph_reset_is_init cfg hr) h1 h2

/-- the defect of the pinned `Graph.reset` (before 7591aa2), machine-checked: a scale adopted from the flow
survives the reset, so the reset graph yields another context than a new one -/
theorem graph_pinned_reset_not_fresh :
    let m := graphM ⟨none, false, false⟩
    (m.run (m.run m.init ([.fill ⟨(0, 0), some [("scale", some 5)]⟩, .compute] ++ [Op.reset])).1 [.compute]).2
      ≠ m.observe [.compute] := by
  intro m h
  simp [m, Machine.run, Machine.step, Machine.observe, graphM, Graph.compute, Graph.fill, Graph.reset,
    Ctx.get, Ctx.set, Item.context] at h

example : (graphM ⟨none, false, true⟩).observe
    [.fill ⟨(3, 1), some [("scale", some 5)]⟩, .fill ⟨(1, 2), some [("scale", some 5)]⟩, .compute, .reset, .compute]
    = [.filled none, .filled none,
       .computed (.ok [⟨[(3, 1), (1, 2)], some 5, [("scale", some 5), ("dim", some 1)]⟩]),
       .wasReset, .computed (.ok [⟨[], none, [("scale", none)]⟩])] := by
  rfl


/-! ### Mean(DSum()) -/


theorem dySum_bareDy (vs : List (Item Dy)) : dySum (bareDy vs) = dySum vs := by
  simp [dySum, bareDy, List.map_map, Function.comp_def]

theorem ctxAfter_bareDy (c : Ctx) (vs : List (Item Dy)) : ctxAfter c (bareDy vs) = if vs = [] then c else [] := by
  induction vs generalizing c with
  | nil => rfl
  | cons v vs ih => simp only [bareDy, List.map_cons] at *; rw [ctxAfter_cons, ih]; simp [Item.context]

theorem meand_fillAll (poe : Bool) (s : MeanDSt) (vs : List (Item Dy)) :
    (meanDM poe).fillAll s vs = ⟨(dsumM ⟨0, 0⟩).fillAll s.seq (bareDy vs), s.count + vs.length, ctxAfter s.ctx vs⟩ := by
  induction vs generalizing s with
  | nil => simp [Machine.fillAll, ctxAfter, bareDy]
  | cons v vs ih =>
    rw [fillAll_cons, ih, ctxAfter_cons]
    simp [meanDM, MeanD.fill, bareDy, fillAll_cons, dsumM]
    omega

/-- `Mean(DSum())` yields the exact sum of the filled floats divided by their number, with the last context;
with nothing filled it raises `LenaZeroDivisionError`, or yields nothing if `pass_on_empty` -/
theorem meand_compute_spec (poe : Bool) (vs : List (Item Dy)) :
    ((meanDM poe).compute ((meanDM poe).fillAll (meanDM poe).init vs)).2 =
      if vs = [] then (if poe then .ok [] else .error .zeroDivision)
      else .ok [withCtx (dySum vs / (vs.length : Rat)) (ctxAfter [] vs)] := by
  rw [meand_fillAll]
  cases vs with
  | nil => simp [meanDM, MeanD.compute]
  | cons v vs =>
    have h := dsum_fillAll ⟨0, 0⟩ (meanDM poe).init.seq (bareDy (v :: vs))
    have h0 : (meanDM poe).init.seq.total.toRat = 0 := by simp [meanDM, Dec.toRat]
    simp only [meanDM, MeanD.compute, DSum.compute] at h ⊢
    simp only [meanDM] at h0
    rw [h.2.1, ctxAfter_bareDy]
    simp [withCtx, Item.context, Ctx.update_nil, h.1, h0, dySum_bareDy, Rat.zero_add]

theorem meand_reset_fresh (poe : Bool) (h1 h2 : List (Op (Item Dy))) :
    ((meanDM poe).run ((meanDM poe).run (meanDM poe).init (h1 ++ [Op.reset])).1 h2).2 = (meanDM poe).observe h2 := by
  apply reset_bisimilar (meanDM poe) (meanDM poe) (fun _ => True)
    (fun s t => s.seq.total = t.seq.total ∧ s.seq.ctx = t.seq.ctx ∧ s.count = t.count ∧ s.ctx = t.ctx)
    trivial (fun _ _ _ => trivial)
  · intro s _
    simp [meanDM, MeanD.reset, DSum.reset]
  · intro s t op hst
    obtain ⟨e1, e2, e3, e4⟩ := hst
    cases op with
    | fill v => simp [Machine.step, meanDM, MeanD.fill, DSum.fill, DSum.addLoop_total, e1, e3]
    | compute => simp [Machine.step, meanDM, MeanD.compute, DSum.compute, e1, e2, e3, e4]
    | reset => simp [Machine.step, meanDM, MeanD.reset, DSum.reset]


/-! ## Extension round: construct, simulation-based Vectorize, Mean around any sum sequence, GroupBy key errors,
Count.run, n-dimensional Histogram on C06's model, GroupBy on C15's model -/

section Ext1
variable {σ ι ο ο' δ : Type}

/-! ### outputs passed through a function (`Vectorize` with `construct`) -/


theorem Machine.mapOut_run (g : ο → ο') (m : Machine σ ι ο) (s : σ) (h : List (Op ι)) :
    (m.mapOut g).run s h = ((m.run s h).1, (m.run s h).2.map (Obs.map g)) := by
  induction h generalizing s with
  | nil => rfl
  | cons op ops ih =>
    simp only [Machine.run, ih, List.map_cons]
    cases op with
    | fill v => rfl
    | compute =>
      simp only [Machine.step, Machine.mapOut, Obs.map]
      cases (m.compute s).2 <;> rfl
    | reset => rfl

/-- an element that equals a fresh one after `reset()` keeps doing so when its outputs go through `g` -/
theorem mapOut_reset_fresh (g : ο → ο') (m m' : Machine σ ι ο)
    (hm : ∀ h1 h2, (m.run (m.run m.init (h1 ++ [Op.reset])).1 h2).2 = m'.observe h2) (h1 h2 : List (Op ι)) :
    ((m.mapOut g).run ((m.mapOut g).run (m.mapOut g).init (h1 ++ [Op.reset])).1 h2).2 = (m'.mapOut g).observe h2 := by
  simp only [Machine.observe, Machine.mapOut_run]
  have := hm h1 h2
  simp only [Machine.observe] at this
  show ((m.run (m.run m.init (h1 ++ [Op.reset])).1 h2).2).map (Obs.map g) = _
  rw [this]
  rfl

/-- `Vectorize(seq, dim, construct)`: the yielded data is `construct(*row)` when that call is possible, else the
tuple `row` — `row` being what `Vectorize(seq, dim)` yields (`vec_compute_spec`); the context is the same -/
theorem vecC_compute (m : Machine σ (Item δ) ο) (dim : Nat) (c : Construct) (s : VecSt σ) :
    ((vectorizeCM m dim c).compute s).2 =
      match ((vectorizeM m dim).compute s).2 with
      | .error e => .error e
      | .ok ys => .ok (ys.map (fun it => ⟨Vec.build c it.data, it.ctx⟩)) := by
  simp only [vectorizeCM, Machine.mapOut]
  cases ((vectorizeM m dim).compute s).2 <;> rfl

theorem Vec.build_arity (k : Nat) (row : List (Option ο)) :
    (∃ args, Vec.build (.arity k) row = .made args) ↔ row.length = k := by
  unfold Vec.build
  by_cases h : row.length = k <;> simp [h]

theorem vecC_reset_fresh (m : Machine σ (Item δ) ο) (P : σ → Prop) (hinit : P m.init)
    (hfill : ∀ s v, P s → P (m.fill s v).1) (hcomp : ∀ s, P s → P (m.compute s).1)
    (hres : ∀ s, P s → m.reset s = m.init) (dim : Nat) (c : Construct)
    (h1 h2 : List (Op (Item (List δ)))) :
    ((vectorizeCM m dim c).run ((vectorizeCM m dim c).run (vectorizeCM m dim c).init (h1 ++ [Op.reset])).1 h2).2
      = (vectorizeCM m dim c).observe h2 :=
  mapOut_reset_fresh _ (vectorizeM m dim) (vectorizeM m dim)
    (vec_reset_fresh m P hinit hfill hcomp hres dim) h1 h2


end Ext1

section Ext2
variable {σ ι ο δ : Type}

/-! ### Vectorize around accumulators that are fresh after `reset()` only up to a relation (`DSum`, `Mean(DSum())`) -/

/-- the lists have the same length and related entries -/
inductive AllRel (R : σ → σ → Prop) : List σ → List σ → Prop where
  | nil : AllRel R [] []
  | cons {s t : σ} {ss ts : List σ} : R s t → AllRel R ss ts → AllRel R (s :: ss) (t :: ts)

/-- `R` relates states of the inner accumulator that show the same things -/
structure InnerSim (m : Machine σ (Item δ) ο) (R : σ → σ → Prop) : Prop where
  fill : ∀ s t v, R s t → (m.fill s v).2 = (m.fill t v).2 ∧ R (m.fill s v).1 (m.fill t v).1
  compute : ∀ s t, R s t → (m.compute s).2 = (m.compute t).2 ∧ R (m.compute s).1 (m.compute t).1
  reset : ∀ s t, R s t → R (m.reset s) (m.reset t)
  resetInit : ∀ s, R (m.reset s) m.init

theorem Vec.fillGo_sim (m : Machine σ (Item δ) ο) (R : σ → σ → Prop) (hR : InnerSim m R)
    (ss ts : List σ) (ds : List δ) (h : AllRel R ss ts) :
    (Vec.fillGo m ss ds).2 = (Vec.fillGo m ts ds).2 ∧ AllRel R (Vec.fillGo m ss ds).1 (Vec.fillGo m ts ds).1 := by
  induction h generalizing ds with
  | nil => exact ⟨rfl, AllRel.nil⟩
  | @cons s t ss ts hst hrest ih =>
    cases ds with
    | nil => exact ⟨rfl, AllRel.cons hst hrest⟩
    | cons d ds =>
      have hf := hR.fill s t ⟨d, none⟩ hst
      simp only [Vec.fillGo]
      rw [← hf.1]
      cases he : (m.fill s ⟨d, none⟩).2 with
      | some e => exact ⟨rfl, AllRel.cons hf.2 hrest⟩
      | none => exact ⟨(ih ds).1, AllRel.cons hf.2 (ih ds).2⟩

theorem Vec.computeGo_sim (m : Machine σ (Item δ) ο) (R : σ → σ → Prop) (hR : InnerSim m R)
    (ss ts : List σ) (h : AllRel R ss ts) :
    (Vec.computeGo m ss).2 = (Vec.computeGo m ts).2 ∧ AllRel R (Vec.computeGo m ss).1 (Vec.computeGo m ts).1 := by
  induction h with
  | nil => exact ⟨rfl, AllRel.nil⟩
  | @cons s t ss ts hst hrest ih =>
    have hc := hR.compute s t hst
    simp only [Vec.computeGo]
    rw [← hc.1]
    cases he : (m.compute s).2 with
    | error e => exact ⟨rfl, AllRel.cons hc.2 hrest⟩
    | ok ys => exact ⟨by rw [ih.1], AllRel.cons hc.2 ih.2⟩

theorem forall₂_map_reset (m : Machine σ (Item δ) ο) (R : σ → σ → Prop) (hR : InnerSim m R) (ss ts : List σ)
    (h : AllRel R ss ts) : AllRel R (ss.map m.reset) (ts.map m.reset) := by
  induction h with
  | nil => exact AllRel.nil
  | cons hst _ ih => exact AllRel.cons (hR.reset _ _ hst) ih

theorem forall₂_reset_replicate (m : Machine σ (Item δ) ο) (R : σ → σ → Prop) (hR : InnerSim m R) (ss : List σ) :
    AllRel R (ss.map m.reset) (List.replicate ss.length m.init) := by
  induction ss with
  | nil => exact AllRel.nil
  | cons s ss ih => exact AllRel.cons (hR.resetInit s) ih

/-- Vectorize after `reset()`, for an inner accumulator that is fresh after its own `reset()` up to the
simulation `R`: every later history shows what it shows on a new `Vectorize` -/
theorem vec_reset_fresh_sim (m : Machine σ (Item δ) ο) (R : σ → σ → Prop) (hR : InnerSim m R) (dim : Nat)
    (h1 h2 : List (Op (Item (List δ)))) :
    ((vectorizeM m dim).run ((vectorizeM m dim).run (vectorizeM m dim).init (h1 ++ [Op.reset])).1 h2).2
      = (vectorizeM m dim).observe h2 := by
  apply reset_bisimilar (vectorizeM m dim) (vectorizeM m dim) (fun s => s.inner.length = max dim 1)
    (fun s t => AllRel R s.inner t.inner ∧ s.ctx = t.ctx)
  · simp [vectorizeM]
  · intro s op hs
    cases op with
    | fill v =>
      simp only [Machine.step, vectorizeM, Vec.fill]
      split <;> simp [Vec.fillGo_length, hs]
    | compute => simp [Machine.step, vectorizeM, Vec.compute, Vec.computeGo_length, hs]
    | reset => simp [Machine.step, vectorizeM, Vec.reset, hs]
  · intro s hs
    refine ⟨?_, rfl⟩
    simp only [vectorizeM, Vec.reset]
    rw [← hs]
    exact forall₂_reset_replicate m R hR s.inner
  · intro s t op hst
    obtain ⟨hin, hctx⟩ := hst
    cases op with
    | fill v =>
      have := Vec.fillGo_sim m R hR s.inner t.inner v.data hin
      simp only [Machine.step, vectorizeM, Vec.fill]
      rw [← this.1]
      cases (Vec.fillGo m s.inner v.data).2 with
      | some e => exact ⟨rfl, this.2, hctx⟩
      | none => exact ⟨rfl, this.2, rfl⟩
    | compute =>
      have := Vec.computeGo_sim m R hR s.inner t.inner hin
      simp only [Machine.step, vectorizeM, Vec.compute]
      rw [← this.1, hctx]
      exact ⟨rfl, this.2, rfl⟩
    | reset =>
      simp only [Machine.step, vectorizeM, Vec.reset]
      exact ⟨trivial, forall₂_map_reset m R hR _ _ hin, trivial⟩

/-- `DSum()` and `Mean(DSum())` are such accumulators (the raised decimal precision never shows) -/
theorem dsum_innerSim : InnerSim (dsumM ⟨0, 0⟩) (fun s t => s.total = t.total ∧ s.ctx = t.ctx) where
  fill s t v h := by simp [dsumM, DSum.fill, DSum.addLoop_total, h.1]
  compute s t h := by simp [dsumM, DSum.compute, h.1, h.2]
  reset s t _ := by simp [dsumM, DSum.reset]
  resetInit s := by simp [dsumM, DSum.reset]

theorem meand_innerSim (poe : Bool) : InnerSim (meanDM poe)
    (fun s t => s.seq.total = t.seq.total ∧ s.seq.ctx = t.seq.ctx ∧ s.count = t.count ∧ s.ctx = t.ctx) where
  fill s t v h := by simp [meanDM, MeanD.fill, DSum.fill, DSum.addLoop_total, h.1, h.2.2.1]
  compute s t h := by simp [meanDM, MeanD.compute, DSum.compute, h.1, h.2.1, h.2.2.1, h.2.2.2]
  reset s t _ := by simp [meanDM, MeanD.reset, DSum.reset]
  resetInit s := by simp [meanDM, MeanD.reset, DSum.reset]

/-- `Vectorize(Mean(DSum()), dim)` equals a fresh element after `reset()` -/
theorem vec_meand_reset_fresh (poe : Bool) (dim : Nat) (h1 h2 : List (Op (Item (List Dy)))) :
    ((vectorizeM (meanDM poe) dim).run ((vectorizeM (meanDM poe) dim).run (vectorizeM (meanDM poe) dim).init
      (h1 ++ [Op.reset])).1 h2).2 = (vectorizeM (meanDM poe) dim).observe h2 :=
  vec_reset_fresh_sim (meanDM poe) _ (meand_innerSim poe) dim h1 h2

theorem vec_dsum_reset_fresh (dim : Nat) (h1 h2 : List (Op (Item (List Dy)))) :
    ((vectorizeM (dsumM ⟨0, 0⟩) dim).run ((vectorizeM (dsumM ⟨0, 0⟩) dim).run (vectorizeM (dsumM ⟨0, 0⟩) dim).init
      (h1 ++ [Op.reset])).1 h2).2 = (vectorizeM (dsumM ⟨0, 0⟩) dim).observe h2 :=
  vec_reset_fresh_sim (dsumM ⟨0, 0⟩) _ dsum_innerSim dim h1 h2


end Ext2

section Ext3
variable {σ ι ο δ : Type}

/-! ### Mean around an arbitrary sum sequence -/

theorem meanOver_fillAll (m : Machine σ (Item Int) (Item Int)) (poe : Bool) (hne : ∀ s v, (m.fill s v).2 = none)
    (s : MeanOverSt σ) (vs : List (Item Int)) :
    ((meanOverM m poe).fillAll s vs).seq = m.fillAll s.seq (bare vs)
    ∧ ((meanOverM m poe).fillAll s vs).count = s.count + vs.length
    ∧ ((meanOverM m poe).fillAll s vs).ctx = ctxAfter s.ctx vs := by
  induction vs generalizing s with
  | nil => simp [Machine.fillAll, bare, ctxAfter]
  | cons v vs ih =>
    rw [fillAll_cons]
    have e : ((meanOverM m poe).fill s v).1 = ⟨(m.fill s.seq ⟨v.data, none⟩).1, s.count + 1, v.context⟩ := by
      simp [meanOverM, MeanOver.fill, hne]
    rw [e]
    have := ih ⟨(m.fill s.seq ⟨v.data, none⟩).1, s.count + 1, v.context⟩
    refine ⟨by rw [this.1]; rfl, by rw [this.2.1]; simp; omega, by rw [this.2.2, ctxAfter_cons]⟩

/-- `Mean(sum_seq)` for ANY sum sequence whose `fill` does not raise: after filling `vs` (at least one value),
with `sums = list(sum_seq.compute())` taken after `sum_seq` was filled with the bare data: an exception of
`sum_seq.compute` propagates; `assert sums`; the first value is divided by the number of fills, every further
value is passed on; each yielded context is the last filled context updated with the value's own context -/
theorem meanOver_compute_spec (m : Machine σ (Item Int) (Item Int)) (poe : Bool)
    (hne : ∀ s v, (m.fill s v).2 = none) (vs : List (Item Int)) (hvs : vs ≠ []) :
    ((meanOverM m poe).compute ((meanOverM m poe).fillAll (meanOverM m poe).init vs)).2 =
      match (m.compute (m.fillAll m.init (bare vs))).2 with
      | .error e => .error e
      | .ok [] => .error .assertionError
      | .ok (s0 :: rest) =>
        .ok (withCtx ((s0.data : Rat) / (vs.length : Rat)) ((ctxAfter [] vs).update s0.context)
          :: rest.map (fun sv => withCtx (sv.data : Rat) ((ctxAfter [] vs).update sv.context))) := by
  have h := meanOver_fillAll m poe hne (meanOverM m poe).init vs
  have hc : ((meanOverM m poe).fillAll (meanOverM m poe).init vs).count ≠ 0 := by
    rw [h.2.1]; cases vs with
    | nil => exact absurd rfl hvs
    | cons v vs => simp [meanOverM]
  show (MeanOver.compute m poe _).2 = _
  unfold MeanOver.compute
  simp only [hc, if_false]
  rw [h.1, h.2.1, h.2.2]
  simp only [meanOverM, Nat.zero_add]
  cases (m.compute (m.fillAll m.init (bare vs))).2 with
  | error e => rfl
  | ok ys => cases ys <;> rfl

/-- nothing filled: `LenaZeroDivisionError`, or nothing with `pass_on_empty` -/
theorem meanOver_compute_empty (m : Machine σ (Item Int) (Item Int)) (poe : Bool) :
    ((meanOverM m poe).compute (meanOverM m poe).init).2 = if poe then .ok [] else .error .zeroDivision := by
  simp [meanOverM, MeanOver.compute]

/-- `Mean(Sum(total))`, a sum sequence with a non-zero start: `(total + Σ data) / n` -/
theorem mean_sum_start_spec (t0 : Int) (poe : Bool) (vs : List (Item Int)) (hvs : vs ≠ []) :
    ((meanOverM (sumM t0) poe).compute ((meanOverM (sumM t0) poe).fillAll (meanOverM (sumM t0) poe).init vs)).2 =
      .ok [withCtx (((t0 + dataSum vs : Int) : Rat) / (vs.length : Rat)) (ctxAfter [] vs)] := by
  rw [meanOver_compute_spec (sumM t0) poe (fun _ _ => rfl) vs hvs]
  have h := sum_compute_spec t0 (bare vs)
  rw [h, dataSum_bare, ctxAfter_bare]
  simp [hvs, withCtx, Item.context, Ctx.update_nil]

/-- `Mean(Count(name))`: the mean is `n/n`, and the counter's own context `{name: n}` updates the yielded one -/
theorem mean_count_spec (cfg : CountCfg) (poe : Bool) (vs : List (Item Int)) (hvs : vs ≠ []) :
    ((meanOverM (countM Int cfg) poe).compute
        ((meanOverM (countM Int cfg) poe).fillAll (meanOverM (countM Int cfg) poe).init vs)).2 =
      .ok [withCtx (((cfg.count0 + vs.length : Int) : Rat) / (vs.length : Rat))
        ((ctxAfter [] vs).update [(cfg.name, some (cfg.count0 + vs.length))])] := by
  rw [meanOver_compute_spec (countM Int cfg) poe (fun _ _ => rfl) vs hvs]
  have h := count_compute_spec cfg (bare vs)
  rw [h, ctxAfter_bare]
  simp [hvs, bare, Item.context, Ctx.set]

/-- `Mean(StoreFilled(False))`, a sum sequence that yields several values: the first filled value divided by
the count, then every other filled value unchanged, all with the last context -/
theorem mean_multi_spec (poe : Bool) (v : Item Int) (vs : List (Item Int)) :
    ((meanOverM storeItemsM poe).compute
        ((meanOverM storeItemsM poe).fillAll (meanOverM storeItemsM poe).init (v :: vs))).2 =
      .ok (withCtx ((v.data : Rat) / ((vs.length + 1 : Nat) : Rat)) (ctxAfter [] (v :: vs))
        :: vs.map (fun w => withCtx (w.data : Rat) (ctxAfter [] (v :: vs)))) := by
  rw [meanOver_compute_spec storeItemsM poe (fun _ _ => rfl) (v :: vs) (by simp)]
  have hst : ∀ (s : List (Item Int)) (ws : List (Item Int)), storeItemsM.fillAll s ws = s ++ ws := by
    intro s ws
    induction ws generalizing s with
    | nil => simp [Machine.fillAll]
    | cons w ws ih => rw [fillAll_cons, ih]; simp [storeItemsM]
  rw [hst]
  simp [storeItemsM, bare, Item.context, Ctx.update_nil, List.map_map, Function.comp_def]

/-- after `reset()`: what a new `Mean(sum_seq')` shows, `sum_seq'` being the sum sequence in the state its own
`reset` leaves it in (`Sum()`/`Count()` with the documented zero start) -/
theorem meanOver_reset_fresh (m m' : Machine σ (Item Int) (Item Int)) (poe : Bool)
    (hf : m'.fill = m.fill) (hc : m'.compute = m.compute) (hr : m'.reset = m.reset)
    (hres : ∀ s, m.reset s = m'.init) (h1 h2 : List (Op (Item Int))) :
    ((meanOverM m poe).run ((meanOverM m poe).run (meanOverM m poe).init (h1 ++ [Op.reset])).1 h2).2
      = (meanOverM m' poe).observe h2 := by
  apply reset_fresh_of_const (meanOverM m poe) (meanOverM m' poe)
  · simp [meanOverM]; funext s v; simp [MeanOver.fill, hf]
  · simp [meanOverM]; funext s; simp [MeanOver.compute, hc]
  · simp [meanOverM]; funext s; simp [MeanOver.reset, hr]
  · intro s; simp [meanOverM, MeanOver.reset, hres]

theorem mean_sum_start_reset_fresh (t0 : Int) (poe : Bool) (h1 h2 : List (Op (Item Int))) :
    ((meanOverM (sumM t0) poe).run ((meanOverM (sumM t0) poe).run (meanOverM (sumM t0) poe).init
      (h1 ++ [Op.reset])).1 h2).2 = (meanOverM (sumM 0) poe).observe h2 :=
  meanOver_reset_fresh (sumM t0) (sumM 0) poe rfl rfl rfl (fun _ => rfl) h1 h2

example : ((meanOverM (sumM 4) false).observe [.fill ⟨1, none⟩, .fill ⟨1, some [("a", some 1)]⟩, .compute, .reset,
      .fill ⟨3, none⟩, .compute])
    = [.filled none, .filled none, .computed (.ok [⟨3, some [("a", some 1)]⟩]), .wasReset, .filled none,
       .computed (.ok [⟨3, none⟩])] := by
  simp [Machine.observe, Machine.run, Machine.step, meanOverM, MeanOver.fill, MeanOver.compute, MeanOver.reset, sumM,
    Sum.fill, Sum.compute, Sum.reset, withCtx, Item.context, Ctx.update]
  constructor <;> grind


end Ext3

section Ext4
open Lena
variable {κ ι δ : Type} [DecidableEq κ]

/-! ### GroupBy with values whose key cannot be rendered -/

/-- while every key can be rendered, `groupByOptM` is `groupByM` -/
theorem groupByOpt_fillAll (s : List (κ × List ι)) (kvs : List (κ × ι)) :
    (groupByOptM κ ι).fillAll s (kvs.map (fun kv => (some kv.1, kv.2))) = (groupByM κ ι).fillAll s kvs := by
  induction kvs generalizing s with
  | nil => rfl
  | cons kv kvs ih => simp only [List.map_cons, fillAll_cons]; rw [ih]; rfl

/-- a value whose key cannot be rendered raises `LenaValueError` and leaves the groups as they are -/
theorem groupByOpt_fill_none (s : List (κ × List ι)) (v : ι) :
    (groupByOptM κ ι).fill s (none, v) = (s, some .valueError) := rfl

theorem groupByOpt_reset_fresh (h1 h2 : List (Op (Option κ × ι))) :
    ((groupByOptM κ ι).run ((groupByOptM κ ι).run (groupByOptM κ ι).init (h1 ++ [Op.reset])).1 h2).2
      = (groupByOptM κ ι).observe h2 :=
  reset_fresh_of_const (groupByOptM κ ι) (groupByOptM κ ι) rfl rfl rfl (fun _ => rfl) h1 h2

/-! ### Count.run -/

/-- `Count.run`: as many values as came in, with the same data; all but the last unchanged; the counter grows
by their number, and the last value carries its context updated by `{name: counter}` -/
theorem count_run_spec (cfg : CountCfg) (s : CountSt) (flow : List (Item δ)) (last : Item δ)
    (h : flow.getLast? = some last) :
    (Count.run cfg s flow).1 = ⟨s.count + flow.length, s.ctx⟩
    ∧ (Count.run cfg s flow).2 = flow.dropLast ++
        [⟨last.data, some (last.context.set cfg.name (some (s.count + flow.length)))⟩] := by
  simp [Count.run, h]

theorem count_run_empty (cfg : CountCfg) (s : CountSt) : Count.run cfg s ([] : List (Item δ)) = (s, []) := rfl

/-- a `compute()` after `run` counts the values that ran through as well -/
theorem count_run_then_compute (cfg : CountCfg) (flow : List (Item δ)) :
    ((countM δ cfg).compute (Count.run cfg (countM δ cfg).init flow).1).2
      = .ok [⟨cfg.count0 + flow.length, some [(cfg.name, some (cfg.count0 + flow.length))]⟩] := by
  cases h : flow.getLast? with
  | none =>
    have : flow = [] := by simpa using h
    subst this
    simp [Count.run, countM, Count.compute, Ctx.set]
  | some last => simp [Count.run, h, countM, Count.compute, Ctx.set]


end Ext4

section Ext5
open Lena Lena.C06

/-! ### Histogram in any dimension (on C06's transcription) -/

theorem bisect_ok : GuessesOK bisect := by
  intro k lo hi h
  simp only [bisect]
  omega

/-- the one-dimensional re-specification used by `histogramM` is what C06's transcription of the interpolation
search `get_bin_on_value_1d` returns, for any in-range guess -/
theorem binIndex_eq_bin1d (g : Nat → Nat → Int) (hg : GuessOK g) (es : List Int) (hs : es.Pairwise (· < ·))
    (hne : es ≠ []) (x : Int) : bin1d g x es = .ok (binIndex es x) := by
  rw [bin1d_spec g x (hg.at _ _) hs hne]
  simp [binIndex, countLE, List.countP_eq_length_filter]

theorem histnd_reset_is_init (cfg : HistNdCfg) (s0 : HistNdSt) (h : HistogramNd.new cfg = .ok s0) (s : HistNdSt) :
    HistogramNd.reset cfg s = s0 := by
  unfold HistogramNd.new at h
  unfold HistogramNd.reset
  split at h
  · simp at h
  · cases hk : C06.mkHist cfg.edges cfg.startBins cfg.initialValue with
    | error e => simp [hk] at h
    | ok hh => simp [hk] at h ⊢; exact h

/-- n-dimensional `Histogram`: after `reset()` every later history shows what a new element shows -/
theorem histnd_reset_fresh (cfg : HistNdCfg) (s0 : HistNdSt) (h : HistogramNd.new cfg = .ok s0)
    (h1 h2 : List (Op (Item (Coord Int)))) :
    ((histogramNdM cfg s0).run ((histogramNdM cfg s0).run (histogramNdM cfg s0).init (h1 ++ [Op.reset])).1 h2).2
      = (histogramNdM cfg s0).observe h2 :=
  reset_fresh_of_const (histogramNdM cfg s0) (histogramNdM cfg s0) rfl rfl rfl (histnd_reset_is_init cfg s0 h) h1 h2


/-- filling the C09 element is filling C06's `Histogram` element model: every C06 theorem about fills (right cell,
nothing else changed, weight conserved) is a theorem about this element -/
theorem histnd_fillAll_C06 (cfg : HistNdCfg) (s0 : HistNdSt) (vs : List (Item (Coord Int))) (s : HistNdSt)
    (e : HistEl Int Int Ctx) (h : HistEl.fillAll [] 1 ⟨s.hist, s.ctx⟩ (toC06 vs) = .ok e) :
    (histogramNdM cfg s0).fillAll s vs = ⟨e.hist, e.curContext⟩ := by
  induction vs generalizing s with
  | nil =>
    simp only [toC06, List.map_nil, HistEl.fillAll] at h
    cases h
    rfl
  | cons v vs ih =>
    simp only [toC06, List.map_cons, HistEl.fillAll, HistEl.fill] at h
    rw [fillAll_cons]
    cases hf : C06.fill bisect s.hist v.data 1 with
    | error err => simp [hf, bind, Except.bind] at h
    | ok hh =>
      simp only [hf, bind, Except.bind, pure, Except.pure] at h
      have e1 : ((histogramNdM cfg s0).fill s v).1 = ⟨hh, v.context⟩ := by
        simp [histogramNdM, HistogramNd.fill, hf]
      rw [e1]
      exact ih ⟨hh, v.context⟩ h

theorem sumW_replicate_one (n : Nat) : sumW (List.replicate n (1 : Int)) = (n : Int) := by
  induction n with
  | zero => rfl
  | succ n ih => simp only [List.replicate_succ, sumW, ih]; omega

theorem lastCtx_eq_ctxAfter (c : Ctx) (vs : List (Item (Coord Int))) :
    lastCtx ([] : Ctx) c (toC06 vs) = ctxAfter c vs := by
  induction vs generalizing c with
  | nil => rfl
  | cons v vs ih =>
    simp only [toC06, List.map_cons, lastCtx] at ih ⊢
    rw [ctxAfter_cons, ih]
    rfl

/-- **Histogram yields the filled histogram, in any dimension.**  For strictly increasing edges of any dimension
(zero-initialised bins) and any sequence of coordinates of that dimension: construction succeeds, no fill raises,
`compute()` yields the histogram with the context of the last filled value, its edges are the given ones, and the
sum of all bins plus `n_out_of_range` is the number of filled values (C06: every fill went to exactly its cell
or to `n_out_of_range`) -/
theorem histnd_compute_spec (edges : Edges Int) (he : ValidEdges edges) (vs : List (Item (Coord Int)))
    (hv : ∀ v ∈ vs, ∃ xs, Proper edges v.data xs) :
    ∃ s0 hist, HistogramNd.new ⟨edges, none, none, 0⟩ = .ok s0
      ∧ ((histogramNdM ⟨edges, none, none, 0⟩ s0).compute
          ((histogramNdM ⟨edges, none, none, 0⟩ s0).fillAll s0 vs)).2 = .ok [⟨hist, some (ctxAfter [] vs)⟩]
      ∧ hist.edges = edges
      ∧ total hist.bins + hist.nOut = (vs.length : Int) := by
  have hops : OpsOK edges (toOps (1 : Int) (toC06 vs)) := by
    intro op hm
    obtain ⟨v, hvm, rfl⟩ := List.mem_map.1 hm
    obtain ⟨w, hw, rfl⟩ := List.mem_map.1 hvm
    exact ⟨bisect_ok, hv w hw⟩
  obtain ⟨h₀, h, hm, hf, hedges, hn⟩ := weight_conserved (β := Int) he (toOps (1 : Int) (toC06 vs)) hops
  have hnew' : HistogramNd.new ⟨edges, none, none, 0⟩ = .ok ⟨h₀, []⟩ := by
    simp [HistogramNd.new, HistNdCfg.startBins, hm]
  have hel : HistEl.fillAll ([] : Ctx) (1 : Int) ⟨h₀, []⟩ (toC06 vs)
      = .ok ⟨h, lastCtx ([] : Ctx) [] (toC06 vs)⟩ := by
    rw [histEl_fillAll_eq, hf]; rfl
  have hfa := histnd_fillAll_C06 ⟨edges, none, none, 0⟩ ⟨h₀, []⟩ vs ⟨h₀, []⟩ _ hel
  refine ⟨⟨h₀, []⟩, h, hnew', ?_, hedges, ?_⟩
  · rw [hfa]
    simp only [histogramNdM, HistogramNd.compute, lastCtx_eq_ctxAfter]
  · rw [hn, sumW_toOps, sumW_replicate_one]; simp [toC06]


end Ext5

section Ext6
open Lena

/-! ### GroupBy with the real key function (C15's transcription of `GroupBy.__init__/fill/compute`) -/

instance : DecidableEq C15.Slots := fun a b => decidable_of_iff (C15.beqL a b = true) (C15.beqL_iff a b)

/-- C15's `groupsAdd` (key = the selected sub-context `self._iet.get(context)`) is `groupInsert` -/
theorem c15_groupsAdd_eq (key : C15.Slots) (v : C15.Item) (gs : C15.Groups) :
    C15.groupsAdd key v gs = groupInsert gs key v := by
  induction gs with
  | nil => rfl
  | cons kg rest ih =>
    obtain ⟨k, g⟩ := kg
    simp only [C15.groupsAdd, groupInsert, C15.beqL_eq_decide, ih]
    by_cases h : key = k
    · subst h; simp
    · have h' : ¬ k = key := fun e => h e.symm
      simp [h, h']

/-- C15's model of `GroupBy` (names, include/exclude tree, real key function) is the abstract `groupByM` keyed by
`groupKey`: so `groupby_compute_spec` holds for it — one group per distinct selected sub-context, in order of
first occurrence, each with exactly its values in fill order -/
theorem groupby_c15_compute_spec (width : Nat) (t : C15.Tree) (vs : List C15.Item) :
    C15.gbCompute (vs.foldl (C15.gbFill width t) []) =
      (firstKeys (vs.map (C15.groupKey width t))).map
        (fun k => vs.filter (fun v => C15.groupKey width t v = k)) := by
  have hfold : ∀ (gs : C15.Groups), vs.foldl (C15.gbFill width t) gs
      = (groupByM C15.Slots C15.Item).fillAll gs (vs.map (fun v => (C15.groupKey width t v, v))) := by
    induction vs with
    | nil => intro gs; rfl
    | cons v vs ih =>
      intro gs
      simp only [List.foldl_cons, List.map_cons, fillAll_cons]
      rw [ih]
      congr 1
      simp [C15.gbFill, c15_groupsAdd_eq, groupByM]
  rw [hfold]
  have := groupby_compute_spec (vs.map (fun v => (C15.groupKey width t v, v)))
  simp only [groupByM, List.map_map, Function.comp_def] at this
  simp only [C15.gbCompute, groupByM]
  injection this with this
  have key := congrArg (List.map (fun (s : Stored C15.Item) => match s with | .group g => g | .one v => [v])) this
  simp only [List.map_map, Function.comp_def] at key
  rw [key]
  apply List.map_congr_left
  intro k _
  simp [List.filter_map, Function.comp_def, List.map_map]


end Ext6

/-! ## Review follow-up: sentence 1 for every history, own keys only, GroupBy with mixed keys, Count.fill_into,
Graph built from points and context, Vectorize over a list of different components, n-d Histogram per cell -/

section Rev1
variable {σ ι ο δ : Type}

/-! ### Sentence 1 for every history: computes between the fills do not matter -/

/-- the values of the `fill` calls of a history -/
def fillsOf : List (Op ι) → List ι
  | [] => []
  | .fill v :: ops => v :: fillsOf ops
  | _ :: ops => fillsOf ops

/-- the history has no `reset` -/
def noReset : List (Op ι) → Bool
  | [] => true
  | .reset :: _ => false
  | _ :: ops => noReset ops

/-- **Generic.**  If `compute` leaves the element in a state that shows the same things (`Sim`, a simulation that
is reflexive and transitive), then for every history of fills and computes (no reset) a final `compute()` yields
what it yields after the fills alone — so every `x_compute_spec` holds after any such history, not only after
`fill*` -/
theorem compute_after_history (m : Machine σ ι ο) (Sim : σ → σ → Prop)
    (hrefl : ∀ s, Sim s s) (htrans : ∀ a b c, Sim a b → Sim b c → Sim a c)
    (hstep : ∀ s t op, Sim s t → (m.step s op).2 = (m.step t op).2 ∧ Sim (m.step s op).1 (m.step t op).1)
    (hcomp : ∀ s, Sim (m.compute s).1 s)
    (h : List (Op ι)) (hnr : noReset h = true) :
    (m.compute (m.run m.init h).1).2 = (m.compute (m.fillAll m.init (fillsOf h))).2 := by
  have key : ∀ (h : List (Op ι)) (s t : σ), noReset h = true → Sim s t →
      Sim (m.run s h).1 (m.fillAll t (fillsOf h)) := by
    intro h
    induction h with
    | nil => intro s t _ hst; exact hst
    | cons op ops ih =>
      intro s t hnr hst
      cases op with
      | fill v =>
        simp only [Machine.run, fillsOf, fillAll_cons]
        exact ih _ _ (by simpa [noReset] using hnr) (hstep s t (.fill v) hst).2
      | compute =>
        simp only [Machine.run, fillsOf]
        exact ih _ _ (by simpa [noReset] using hnr) (htrans _ _ _ (hcomp s) hst)
      | reset => simp [noReset] at hnr
  have hs := key h m.init m.init hnr (hrefl _)
  have := (hstep _ _ .compute hs).1
  simpa [Machine.step] using this

/-- the instance for elements whose `compute` does not change them (Sum, DSum, Mean, VarianceMeanCount, StoreFilled,
GroupBy, Histogram) -/
theorem compute_after_history_pure (m : Machine σ ι ο) (hcomp : ∀ s, (m.compute s).1 = s)
    (h : List (Op ι)) (hnr : noReset h = true) :
    (m.compute (m.run m.init h).1).2 = (m.compute (m.fillAll m.init (fillsOf h))).2 :=
  compute_after_history m Eq (fun _ => rfl) (fun _ _ _ h1 h2 => h1.trans h2)
    (fun s t op hst => by subst hst; exact ⟨rfl, rfl⟩) hcomp h hnr

/-- after the last `reset()` of any history, a final `compute()` yields the aggregate of the fills since that
reset on a new element: sentences 1 and 2 together -/
theorem compute_after_reset_history (m m' : Machine σ ι ο)
    (hfresh : ∀ h1 h2, (m.run (m.run m.init (h1 ++ [Op.reset])).1 h2).2 = m'.observe h2)
    (hcomp : ∀ s, (m'.compute s).1 = s)
    (h1 h2 : List (Op ι)) (hnr : noReset h2 = true) :
    (m.compute (m.run (m.run m.init (h1 ++ [Op.reset])).1 h2).1).2
      = (m'.compute (m'.fillAll m'.init (fillsOf h2))).2 := by
  have := hfresh h1 (h2 ++ [Op.compute])
  simp only [Machine.observe, Machine.run_append, Machine.run, Machine.step] at this
  have hl := congrArg List.getLast? this
  simp only [List.getLast?_append, List.getLast?_singleton, Option.some_or] at hl
  injection hl with hl
  injection hl with hl
  have e : (m.run m.init (h1 ++ [Op.reset])).1 = m.reset (m.run m.init h1).1 := by
    simp [Machine.run_append, Machine.run, Machine.step]
  rw [e, hl]
  exact compute_after_history_pure m' hcomp h2 hnr

/-- Sum after any history of fills and computes -/
theorem sum_compute_after_history (t0 : Int) (h : List (Op (Item Int))) (hnr : noReset h = true) :
    ((sumM t0).compute ((sumM t0).run (sumM t0).init h).1).2
      = .ok [withCtx (t0 + dataSum (fillsOf h)) (ctxAfter [] (fillsOf h))] := by
  rw [compute_after_history_pure (sumM t0) (fun _ => rfl) h hnr, sum_compute_spec]

theorem mean_compute_after_history (cfg : MeanCfg) (h : List (Op (Item Int))) (hnr : noReset h = true) :
    ((meanM cfg).compute ((meanM cfg).run (meanM cfg).init h).1).2
      = if fillsOf h = [] then (if cfg.passOnEmpty then .ok [] else .error .zeroDivision)
        else .ok [withCtx ((dataSum (fillsOf h) : Rat) / ((fillsOf h).length : Rat)) (ctxAfter [] (fillsOf h))] := by
  rw [compute_after_history_pure (meanM cfg) (fun _ => rfl) h hnr, mean_compute_spec]

theorem vmc_compute_after_history (cfg : VmcCfg) (h : List (Op (Item Int))) (hnr : noReset h = true) :
    ((vmcM cfg).compute ((vmcM cfg).run (vmcM cfg).init h).1).2
      = ((vmcM cfg).compute ((vmcM cfg).fillAll (vmcM cfg).init (fillsOf h))).2 :=
  compute_after_history_pure (vmcM cfg) (fun _ => rfl) h hnr

theorem dsum_compute_after_history (t0 : Dec) (h : List (Op (Item Dy))) (hnr : noReset h = true) :
    ∃ d : Dec, ((dsumM t0).compute ((dsumM t0).run (dsumM t0).init h).1).2
        = .ok [withCtx d (ctxAfter [] (fillsOf h))] ∧ d.toRat = t0.toRat + dySum (fillsOf h) := by
  rw [compute_after_history_pure (dsumM t0) (fun _ => rfl) h hnr]
  exact dsum_exact t0 (fillsOf h)

theorem store_compute_after_history (g : Bool) (h : List (Op ι)) (hnr : noReset h = true) :
    ((storeFilledM ι g).compute ((storeFilledM ι g).run (storeFilledM ι g).init h).1).2
      = .ok (if g then [Stored.group (fillsOf h)] else (fillsOf h).map Stored.one) := by
  rw [compute_after_history_pure (storeFilledM ι g) (fun _ => rfl) h hnr, store_compute_spec]

theorem hist_compute_after_history (cfg : HistCfg) (s0 : HistSt) (h : List (Op (Item Int))) (hnr : noReset h = true) :
    ((histogramM cfg s0).compute ((histogramM cfg s0).run (histogramM cfg s0).init h).1).2
      = ((histogramM cfg s0).compute ((histogramM cfg s0).fillAll (histogramM cfg s0).init (fillsOf h))).2 :=
  compute_after_history_pure (histogramM cfg s0) (fun _ => rfl) h hnr

theorem Ctx.set_set (c : Ctx) (k : String) (v w : Leaf) : (c.set k v).set k w = c.set k w := by
  induction c with
  | nil => simp [Ctx.set]
  | cons kv rest ih =>
    obtain ⟨k₀, v₀⟩ := kv
    by_cases h : k₀ = k
    · simp [Ctx.set, h]
    · simp [Ctx.set, h, ih]

/-- Count: `compute()` writes its own key into the stored context, but that is idempotent ("compute is
idempotent", as the source says) and the next fill replaces the context: after any history of fills and computes
a final `compute()` yields the count of the fills and the last filled context with the counter's key -/
theorem count_compute_after_history (cfg : CountCfg) (h : List (Op (Item δ))) (hnr : noReset h = true) :
    ((countM δ cfg).compute ((countM δ cfg).run (countM δ cfg).init h).1).2
      = .ok [⟨cfg.count0 + (fillsOf h).length,
              some ((ctxAfter [] (fillsOf h)).set cfg.name (some (cfg.count0 + (fillsOf h).length)))⟩] := by
  rw [compute_after_history (countM δ cfg)
    (fun s t => s.count = t.count ∧ s.ctx.set cfg.name (some s.count) = t.ctx.set cfg.name (some t.count))
    (fun _ => ⟨rfl, rfl⟩) (fun a b c h1 h2 => ⟨h1.1.trans h2.1, h1.2.trans h2.2⟩) ?_ ?_ h hnr, count_compute_spec]
  · intro s t op hst
    cases op with
    | fill v => simp [Machine.step, countM, Count.fill, hst.1]
    | compute =>
      have h2 := hst.2
      rw [hst.1] at h2
      simp [Machine.step, countM, Count.compute, hst.1, h2, Ctx.set_set]
    | reset => simp [Machine.step, countM, Count.reset]
  · intro s
    simp [countM, Count.compute, Ctx.set_set]

example : noReset ([.fill (⟨1, none⟩ : Item Int), .compute, .fill ⟨2, none⟩] : List (Op (Item Int))) = true := rfl


end Rev1

section Rev2
variable {σ ι ο δ κ : Type}

/-! ### "extended only by the element's own documented keys" -/

/-- the binding of a key: `none` = the key is absent (unlike `Ctx.get`, which is `dict.get`) -/
def Ctx.lookup : Ctx → String → Option Leaf
  | [], _ => none
  | (k', v') :: rest, k => if k' = k then some v' else Ctx.lookup rest k

theorem Ctx.lookup_set (c : Ctx) (k : String) (v : Leaf) (k' : String) :
    (c.set k v).lookup k' = if k' = k then some v else c.lookup k' := by
  induction c with
  | nil =>
    by_cases h : k' = k
    · simp [Ctx.set, Ctx.lookup, h]
    · have h' : ¬ k = k' := fun e => h e.symm
      simp [Ctx.set, Ctx.lookup, h, h']
  | cons kv rest ih =>
    obtain ⟨k₀, v₀⟩ := kv
    by_cases h0 : k₀ = k
    · subst h0
      by_cases h : k' = k₀
      · subst h; simp [Ctx.set, Ctx.lookup]
      · have h' : ¬ k₀ = k' := fun e => h e.symm
        simp [Ctx.set, Ctx.lookup, h, h']
    · by_cases h : k₀ = k'
      · subst h
        simp [Ctx.set, Ctx.lookup, h0]
      · simp [Ctx.set, Ctx.lookup, h0, h, ih]

/-- Count: every key other than the counter's name is present in the yielded context exactly when it is in the
last filled context, with the same value; the counter's name is bound to the count -/
theorem count_own_key_only (cfg : CountCfg) (vs : List (Item δ)) :
    ∃ d c, ((countM δ cfg).compute ((countM δ cfg).fillAll (countM δ cfg).init vs)).2 = .ok [⟨d, some c⟩]
      ∧ c.lookup cfg.name = some (some (cfg.count0 + vs.length))
      ∧ ∀ k, k ≠ cfg.name → c.lookup k = (ctxAfter [] vs).lookup k := by
  refine ⟨_, _, count_compute_spec cfg vs, ?_, ?_⟩
  · simp [Ctx.lookup_set]
  · intro k hk; simp [Ctx.lookup_set, hk]

/-- the context `Graph.compute` yields (when it yields) -/
def Graph.outCtx (cfg : GraphCfg) (s : GraphSt) : Ctx :=
  let scale := match s.ctx.get "scale" with | some c => some c | none => s.scale
  let pts := if cfg.sort then s.points.mergeSort Pt.le else s.points
  let c1 := (s.ctx.set "scale" cfg.scale0).set "scale" scale
  if pts.isEmpty then c1 else c1.set "dim" (some 1)

/-- the flow's scale contradicts the scale of the graph -/
def Graph.conflict (s : GraphSt) : Bool :=
  match s.ctx.get "scale", s.scale with
  | some c, some sc => sc != c
  | _, _ => false

theorem Graph.compute_eq (cfg : GraphCfg) (s : GraphSt) :
    Graph.compute cfg s =
      if Graph.conflict s then (s, .error .runtimeError)
      else
        let scale := match s.ctx.get "scale" with | some c => some c | none => s.scale
        let pts := if cfg.sort then s.points.mergeSort Pt.le else s.points
        (⟨pts, scale, s.ctx⟩, .ok [⟨pts, scale, Graph.outCtx cfg s⟩]) := by
  unfold Graph.compute Graph.conflict Graph.outCtx
  rfl

theorem graph_compute_cases (cfg : GraphCfg) (s : GraphSt) :
    (Graph.compute cfg s).2 = .error .runtimeError
    ∨ ∃ pts sc, (Graph.compute cfg s).2 = .ok [⟨pts, sc, Graph.outCtx cfg s⟩] := by
  rw [Graph.compute_eq]
  cases Graph.conflict s
  · exact Or.inr ⟨_, _, rfl⟩
  · exact Or.inl rfl

/-- Graph: the yielded context agrees with the last filled context on every key other than `scale` and `dim`
(present exactly when it was, with the same value) -/
theorem graph_own_keys_only (cfg : GraphCfg) (s : GraphSt) (k : String) (hk1 : k ≠ "scale") (hk2 : k ≠ "dim") :
    (Graph.outCtx cfg s).lookup k = s.ctx.lookup k := by
  unfold Graph.outCtx
  simp only []
  cases (if cfg.sort = true then s.points.mergeSort Pt.le else s.points).isEmpty <;> simp [Ctx.lookup_set, hk1, hk2]

/-- a scale found in the last filled context is adopted by `compute()` and stays (`Graph._update`) -/
theorem graph_scale_adopted (cfg : GraphCfg) (s : GraphSt) (c : Int) (hc : s.ctx.get "scale" = some c)
    (hok : s.scale = none ∨ s.scale = some c) :
    (Graph.compute cfg s).1.scale = some c := by
  unfold Graph.compute
  rcases hok with h | h <;> simp [hc, h]

/-! ### GroupBy: values whose key cannot be rendered, mixed with others -/

theorem groupByOpt_fillAll_mixed [DecidableEq κ] (s : List (κ × List ι)) (kvs : List (Option κ × ι)) :
    (groupByOptM κ ι).fillAll s kvs
      = (groupByM κ ι).fillAll s (kvs.filterMap (fun kv => kv.1.map (fun k => (k, kv.2)))) := by
  induction kvs generalizing s with
  | nil => rfl
  | cons kv kvs ih =>
    obtain ⟨k, v⟩ := kv
    rw [fillAll_cons]
    cases k with
    | none => simp only [List.filterMap_cons, Option.map_none]; rw [← ih]; rfl
    | some k => simp only [List.filterMap_cons, Option.map_some, fillAll_cons]; rw [← ih]; rfl

/-- GroupBy yields the groups of the values whose key could be rendered; the others raised `LenaValueError`
and left no trace -/
theorem groupByOpt_compute_spec [DecidableEq κ] (kvs : List (Option κ × ι)) :
    ((groupByOptM κ ι).compute ((groupByOptM κ ι).fillAll (groupByOptM κ ι).init kvs)).2 =
      let good := kvs.filterMap (fun kv => kv.1.map (fun k => (k, kv.2)))
      .ok ((firstKeys (good.map (·.1))).map
            (fun k => Stored.group ((good.filter (fun kv => kv.1 = k)).map (·.2)))) := by
  have := groupby_compute_spec (kvs.filterMap (fun kv => kv.1.map (fun k => (k, kv.2))))
  simp only [groupByOptM, groupByM] at this ⊢
  rw [← this]
  have e := groupByOpt_fillAll_mixed (κ := κ) (ι := ι) [] kvs
  simp only [groupByOptM, groupByM] at e
  rw [e]

/-! ### Count.fill_into -/

/-- `Count.fill_into`: the counter grows by one, the value is handed on with `{name: counter}` added to its
context (and nothing else changed) -/
theorem count_fillInto_spec (cfg : CountCfg) (s : CountSt) (v : Item δ) :
    (Count.fillInto cfg s v).1 = ⟨s.count + 1, s.ctx⟩
    ∧ (Count.fillInto cfg s v).2.data = v.data
    ∧ (∃ c, (Count.fillInto cfg s v).2.ctx = some c ∧ c.lookup cfg.name = some (some (s.count + 1))
        ∧ ∀ k, k ≠ cfg.name → c.lookup k = v.context.lookup k) := by
  refine ⟨rfl, rfl, _, rfl, ?_, ?_⟩
  · simp [Ctx.lookup_set]
  · intro k hk; simp [Ctx.lookup_set, hk]

/-! ### Graph built from points and a context -/

/-- `Graph(points, context, scale, sort)` after `reset()`: "Reset points to an empty list and current context to
an empty dict" (and the scale to the `scale` argument) — every later history shows what it shows on
`Graph(scale=scale, sort=sort)`, the documented empty start (the given points and context are initial
values that reset does not restore, like `Sum(total)`) -/
theorem graph_from_reset_fresh (cfg : GraphCfg) (hr : cfg.resetScale = true) (s0 : GraphSt)
    (h1 h2 : List (Op (Item Pt))) :
    ((graphFromM cfg s0).run ((graphFromM cfg s0).run (graphFromM cfg s0).init (h1 ++ [Op.reset])).1 h2).2
      = (graphM cfg).observe h2 :=
  reset_fresh_of_const (graphFromM cfg s0) (graphM cfg) rfl rfl rfl
    (fun s => by simp [graphFromM, graphM, Graph.reset, hr]) h1 h2

/-- … and it is NOT what a second `Graph(points, context, …)` shows: sentence 2 read with "the same constructor
arguments" is false for the code; the judgement recorded in DESIGN is the documented empty start -/
theorem graph_from_reset_not_same_args :
    ∃ (cfg : GraphCfg) (s0 : GraphSt), cfg.resetScale = true ∧ Graph.new cfg [(0, 1)] [("a", some 1)] = .ok s0 ∧
      ((graphFromM cfg s0).run ((graphFromM cfg s0).run (graphFromM cfg s0).init [Op.reset]).1 [.compute]).2
        ≠ (graphFromM cfg s0).observe [.compute] := by
  refine ⟨⟨none, false, true⟩, ⟨[(0, 1)], none, [("a", some 1)]⟩, rfl, rfl, ?_⟩
  intro h
  simp [Machine.run, Machine.step, Machine.observe, graphFromM, graphM, Graph.compute, Graph.reset, Ctx.get, Ctx.set] at h


end Rev2

section Rev3
variable {σ σ₁ σ₂ ι ο ο₁ ο₂ δ : Type}

/-! ### Vectorize over a list of different components -/

/-- `Vectorize([seq₀, seq₁, …])` after `reset()`: `home s` is the state the component's own `reset` leaves it in;
it depends only on which component it is (it is kept by `fill`, `compute`, `reset`), and the list starts from such
states.  Then every later history shows what it shows on a new `Vectorize` of the same list. -/
theorem vecL_reset_fresh (m : Machine σ (Item δ) ο) (home : σ → σ)
    (hres : ∀ s, m.reset s = home s) (hfill : ∀ s v, home (m.fill s v).1 = home s)
    (hcomp : ∀ s, home (m.compute s).1 = home s) (hhome : ∀ s, home (home s) = home s)
    (inits : List σ) (hinits : ∀ s ∈ inits, home s = s)
    (h1 h2 : List (Op (Item (List δ)))) :
    ((vectorizeLM m inits).run ((vectorizeLM m inits).run (vectorizeLM m inits).init (h1 ++ [Op.reset])).1 h2).2
      = (vectorizeLM m inits).observe h2 := by
  have fillGo_home : ∀ (ss : List σ) (ds : List δ), (Vec.fillGo m ss ds).1.map home = ss.map home := by
    intro ss
    induction ss with
    | nil => intro ds; simp [Vec.fillGo]
    | cons s ss ih =>
      intro ds
      cases ds with
      | nil => simp [Vec.fillGo]
      | cons d ds =>
        simp only [Vec.fillGo]
        split <;> simp [hfill, ih]
  have computeGo_home : ∀ (ss : List σ), (Vec.computeGo m ss).1.map home = ss.map home := by
    intro ss
    induction ss with
    | nil => simp [Vec.computeGo]
    | cons s ss ih =>
      simp only [Vec.computeGo]
      split <;> simp [hcomp, ih]
  have hinit : inits.map home = inits := by
    have : ∀ l : List σ, (∀ s ∈ l, home s = s) → l.map home = l := by
      intro l
      induction l with
      | nil => intro _; rfl
      | cons a l ih => intro h; simp [h a (by simp), ih (fun s hs => h s (by simp [hs]))]
    exact this inits hinits
  apply reset_bisimilar (vectorizeLM m inits) (vectorizeLM m inits) (fun s => s.inner.map home = inits) Eq
  · exact hinit
  · intro s op hs
    cases op with
    | fill v =>
      simp only [Machine.step, vectorizeLM, vectorizeM, Vec.fill]
      split <;> simp [fillGo_home, hs]
    | compute => simp [Machine.step, vectorizeLM, vectorizeM, Vec.compute, computeGo_home, hs]
    | reset =>
      simp only [Machine.step, vectorizeLM, vectorizeM, Vec.reset, List.map_map]
      rw [← hs]
      apply List.map_congr_left
      intro s _
      simp [hres, hhome]
  · intro s hs
    simp only [vectorizeLM, vectorizeM, Vec.reset]
    congr 1
    rw [← hs]
    apply List.map_congr_left
    intro a _
    exact hres a
  · intro s t op hst
    subst hst
    exact ⟨rfl, rfl⟩

/-- the instance for a list mixing two kinds of components whose `reset` returns their initial state
(`[Sum(), Count(), Sum(), …]`) -/
theorem vecL_or_reset_fresh (m₁ : Machine σ₁ (Item δ) ο₁) (m₂ : Machine σ₂ (Item δ) ο₂)
    (h₁ : ∀ s, m₁.reset s = m₁.init) (h₂ : ∀ s, m₂.reset s = m₂.init)
    (kinds : List Bool) (h1 h2 : List (Op (Item (List δ)))) :
    let inits := kinds.map (fun b => if b then Sum.inl m₁.init else Sum.inr m₂.init)
    ((vectorizeLM (orM m₁ m₂) inits).run ((vectorizeLM (orM m₁ m₂) inits).run (vectorizeLM (orM m₁ m₂) inits).init
        (h1 ++ [Op.reset])).1 h2).2 = (vectorizeLM (orM m₁ m₂) inits).observe h2 := by
  intro inits
  apply vecL_reset_fresh (orM m₁ m₂)
    (fun s => match s with | .inl _ => .inl m₁.init | .inr _ => .inr m₂.init)
  · intro s; cases s <;> simp [orM, h₁, h₂]
  · intro s v; cases s <;> simp [orM]
  · intro s; cases s <;> simp [orM]
  · intro s; cases s <;> rfl
  · intro s hs
    simp only [inits, List.mem_map] at hs
    obtain ⟨b, _, rfl⟩ := hs
    cases b <;> rfl

example : ((vectorizeLM (orM (sumM 0) (countM Int ⟨"count", 0⟩)) [.inl (sumM 0).init, .inr (countM Int ⟨"count", 0⟩).init]).observe
      [.fill ⟨[3, 4], none⟩, .reset, .fill ⟨[5, 6], none⟩, .compute])
    = [.filled none, .wasReset, .filled none,
       .computed (.ok [⟨[some (.inl ⟨5, none⟩), some (.inr ⟨1, some [("count", some 1)]⟩)], none⟩])] := by rfl

/-! ### Mean around a sum sequence whose values carry contexts -/

/-- `Mean(FillComputeSeq(StoreFilled(False), lambda x: (x, {"v<x>": 1})))`: the first value divided by the
count, the others unchanged; each yielded context is the last filled context updated with the value's own -/
theorem mean_tagged_spec (poe : Bool) (v : Item Int) (vs : List (Item Int)) :
    ((meanOverM storeTagM poe).compute
        ((meanOverM storeTagM poe).fillAll (meanOverM storeTagM poe).init (v :: vs))).2 =
      .ok (withCtx ((v.data : Rat) / ((vs.length + 1 : Nat) : Rat))
              ((ctxAfter [] (v :: vs)).update [("v" ++ toString v.data, some 1)])
        :: vs.map (fun w => withCtx (w.data : Rat) ((ctxAfter [] (v :: vs)).update [("v" ++ toString w.data, some 1)]))) := by
  rw [meanOver_compute_spec storeTagM poe (fun _ _ => rfl) (v :: vs) (by simp)]
  have hst : ∀ (s : List (Item Int)) (ws : List (Item Int)), storeTagM.fillAll s ws = s ++ ws := by
    intro s ws
    induction ws generalizing s with
    | nil => simp [Machine.fillAll]
    | cons w ws ih => rw [fillAll_cons, ih]; simp [storeTagM]
  rw [hst]
  simp [storeTagM, bare, Item.context, List.map_map, Function.comp_def]


end Rev3

section Rev4
open Lena Lena.C06

/-! ### n-dimensional Histogram: which cell, for any initial bins -/

/-- one fill of the element, the value lying in cell `idx`: that cell (and no other) grows by one, the context is
the value's — for ANY well-formed state (given bins, `make_bins`, `initial_value`, earlier fills) -/
theorem histnd_fill_cell (s : HistNdSt) (hwf : WF s.hist) (v : Item (Coord Int)) (xs : List Int)
    (hp : Proper s.hist.edges v.data xs) (idx : List Nat) (hc : InCell s.hist.edges.axes xs idx) :
    HistogramNd.fill s v = (⟨{ s.hist with bins := NArr.modifyAt (· + 1) s.hist.bins idx }, v.context⟩, none) := by
  unfold HistogramNd.fill
  rw [fill_exact_cell bisect bisect_ok hwf hp (1 : Int) hc]

/-- … lying in no cell: `n_out_of_range` grows by one and the bins stay -/
theorem histnd_fill_out (s : HistNdSt) (hwf : WF s.hist) (v : Item (Coord Int)) (xs : List Int)
    (hp : Proper s.hist.edges v.data xs) (hno : ∀ idx, ¬ InCell s.hist.edges.axes xs idx) :
    HistogramNd.fill s v = (⟨{ s.hist with nOut := s.hist.nOut + 1 }, v.context⟩, none) := by
  unfold HistogramNd.fill
  rw [fill_out_of_range bisect bisect_ok hwf hp (1 : Int) hno]

/-- **any configuration** (bins, `make_bins`, `initial_value`) whose construction succeeds with well-shaped bins, any
sequence of coordinates of the right dimension: no fill raises, `compute()` yields the histogram with the last
context, the edges are the configured ones, and the bins plus `n_out_of_range` hold the initial content plus one per
filled value -/
theorem histnd_compute_spec_any (cfg : HistNdCfg) (s0 : HistNdSt) (_hnew : HistogramNd.new cfg = .ok s0)
    (hwf : WF s0.hist) (vs : List (Item (Coord Int))) (hv : ∀ v ∈ vs, ∃ xs, Proper s0.hist.edges v.data xs) :
    ∃ hist, ((histogramNdM cfg s0).compute ((histogramNdM cfg s0).fillAll s0 vs)).2
        = .ok [⟨hist, some (ctxAfter s0.ctx vs)⟩]
      ∧ hist.edges = s0.hist.edges ∧ WF hist
      ∧ total hist.bins + hist.nOut = total s0.hist.bins + s0.hist.nOut + (vs.length : Int) := by
  have hops : OpsOK s0.hist.edges (toOps (1 : Int) (toC06 vs)) := by
    intro op hm
    obtain ⟨v, hvm, rfl⟩ := List.mem_map.1 hm
    obtain ⟨w, hw, rfl⟩ := List.mem_map.1 hvm
    exact ⟨bisect_ok, hv w hw⟩
  obtain ⟨h, hf, hwf', hedges⟩ := fillAll_ok (toOps (1 : Int) (toC06 vs)) s0.hist hwf hops
  have hcons := (fillAll_conserves _ _ _ hf).2
  have hel : HistEl.fillAll ([] : Ctx) (1 : Int) ⟨s0.hist, s0.ctx⟩ (toC06 vs)
      = .ok ⟨h, lastCtx ([] : Ctx) s0.ctx (toC06 vs)⟩ := by
    rw [histEl_fillAll_eq, hf]; rfl
  have hfa := histnd_fillAll_C06 cfg s0 vs s0 _ hel
  refine ⟨h, ?_, hedges, hwf', ?_⟩
  · rw [hfa]
    simp only [histogramNdM, HistogramNd.compute, lastCtx_eq_ctxAfter]
  · rw [hcons, sumW_toOps, sumW_replicate_one]; simp [toC06]

open Classical in
/-- the full per-cell statement for a whole fill sequence in any dimension ("cell `idx` holds its initial content
plus the number of filled values lying in it"): stated, not proved here — it follows from `histnd_fill_cell` /
`histnd_fill_out` by induction over the values with C06's `modifyAt` algebra; the proved parts are the single-step
theorems above, conservation (`histnd_compute_spec_any`) and the one-dimensional `hist_compute_spec` -/
def histnd_cells_full : Prop :=
  ∀ (cfg : HistNdCfg) (s0 : HistNdSt), HistogramNd.new cfg = .ok s0 → WF s0.hist →
    ∀ (vs : List (Item (Coord Int))) (xsOf : Item (Coord Int) → List Int),
      (∀ v ∈ vs, Proper s0.hist.edges v.data (xsOf v)) →
      ∀ (idx : List Nat) (c0 : Int), (NArr.get? s0.hist.bins idx) = some (.leaf c0) →
        NArr.get? ((histogramNdM cfg s0).fillAll s0 vs).hist.bins idx
          = some (.leaf (c0 + ((vs.filter (fun v => decide (InCell s0.hist.edges.axes (xsOf v) idx))).length : Nat)))


end Rev4

/-- the proved part of `histnd_cells_full`: one fill, any well-formed state -/
theorem histnd_cells_partial (s : HistNdSt) (hwf : C06.WF s.hist) (v : Item (C06.Coord Int)) (xs : List Int)
    (hp : C06.Proper s.hist.edges v.data xs) (idx : List Nat) (hc : C06.InCell s.hist.edges.axes xs idx) :
    HistogramNd.fill s v
      = (⟨{ s.hist with bins := NArr.modifyAt (· + 1) s.hist.bins idx }, v.context⟩, none) :=
  histnd_fill_cell s hwf v xs hp idx hc

/-! ### non-vacuity of the hypotheses used above -/

example : binIndex [0, 1, 3] 2 = 1 ∧ ([0, 1, 3] : List Int).Pairwise (· < ·) := by decide
example : ∀ s v, ((sumM 0).fill s v).2 = none := fun _ _ => rfl
example : ((groupByM Int Int).compute ((groupByM Int Int).fillAll (groupByM Int Int).init
    [(1, 10), (2, 20), (1, 30)])).2 = .ok [.group [10, 30], .group [20]] := by rfl

/-! ## Adversary round (notes/adversary_C09.md): Python's number types in `Sum`, values next to a bin edge,
`VarianceMeanCount` around explicit sums -/

section Adv1
/-! ## Adversary round: Sum with Python's number types -/

theorem tsum_fillAll (t0 : Num) (s : TSumSt) (vs : List (Item Num)) :
    (tsumM t0).fillAll s vs = ⟨⟨s.total.val + numSum vs, s.total.isFloat || anyFloat vs⟩, ctxAfter s.ctx vs⟩ := by
  induction vs generalizing s with
  | nil => simp [Machine.fillAll, ctxAfter, numSum, anyFloat]
  | cons v vs ih =>
    rw [fillAll_cons, ih, ctxAfter_cons]
    simp [tsumM, TSum.fill, Num.add, numSum, anyFloat, Bool.or_assoc]
    omega

/-- Sum, with types: for every fill sequence `compute()` yields `total0 + v1 + v2 + ...` - the exact value, and the
type Python's `+` gives it: a float iff the start or one of the filled numbers is a float - with the context of the
last filled value -/
theorem tsum_compute_spec (t0 : Num) (vs : List (Item Num)) :
    ((tsumM t0).compute ((tsumM t0).fillAll (tsumM t0).init vs)).2 =
      .ok [withCtx ⟨t0.val + numSum vs, t0.isFloat || anyFloat vs⟩ (ctxAfter [] vs)] := by
  rw [tsum_fillAll]
  simp [tsumM, TSum.compute]

/-- the typed model refines `sumM`: forgetting the types commutes with filling -/
theorem tsum_erase (t0 : Num) (s : TSumSt) (vs : List (Item Num)) :
    (sumM t0.val).fillAll ⟨s.total.val, s.ctx⟩ (eraseNum vs)
      = ⟨((tsumM t0).fillAll s vs).total.val, ((tsumM t0).fillAll s vs).ctx⟩ := by
  induction vs generalizing s with
  | nil => rfl
  | cons v vs ih =>
    simp only [eraseNum, List.map_cons, fillAll_cons] at ih ⊢
    have := ih (TSum.fill s v)
    simpa [sumM, tsumM, Sum.fill, TSum.fill, Num.add, Item.context] using this

/-- Sum, with types: after `reset()` every later history shows what it shows on `Sum()` - the int 0 -/
theorem tsum_reset_fresh (t0 : Num) (h1 h2 : List (Op (Item Num))) :
    ((tsumM t0).run ((tsumM t0).run (tsumM t0).init (h1 ++ [Op.reset])).1 h2).2 = (tsumM ⟨0, false⟩).observe h2 :=
  reset_fresh_of_const (tsumM t0) (tsumM ⟨0, false⟩) rfl rfl rfl (fun _ => rfl) h1 h2

/-- ... in particular nothing of the numbers filled before the reset is left, not even their type: whatever was
filled before (floats, a float start), integers filled after `reset()` are added as integers - the total is an int
(exact for integers of any size), a float only from the first float filled after the reset -/
theorem tsum_type_after_reset (t0 : Num) (h1 : List (Op (Item Num))) (vs : List (Item Num)) :
    ((tsumM t0).compute ((tsumM t0).fillAll ((tsumM t0).run (tsumM t0).init (h1 ++ [Op.reset])).1 vs)).2 =
      .ok [withCtx ⟨numSum vs, anyFloat vs⟩ (ctxAfter [] vs)] := by
  rw [Machine.run_append]
  simp only [Machine.run, Machine.step]
  rw [tsum_fillAll]
  simp [tsumM, TSum.compute, TSum.reset]

/-- a `reset` that assigns the zero *of the type the total has* (`type(self._total)()`) -/
def tsumKeepTypeM (total0 : Num) : Machine TSumSt (Item Num) (Item Num) :=
  { tsumM total0 with reset := fun s => ⟨⟨0, s.total.isFloat⟩, []⟩ }

/-- ... is not `Sum()` again: after a float was filled, `reset(); compute()` yields the float 0.0, and every later
integer is added in float arithmetic (machine-checked counterexample to that reading of `reset`) -/
theorem tsum_keep_type_reset_not_fresh :
    let m := tsumKeepTypeM ⟨0, false⟩
    (m.run (m.run m.init ([.fill ⟨⟨1, true⟩, none⟩] ++ [Op.reset])).1 [.fill ⟨⟨5, false⟩, none⟩, .compute]).2
      ≠ m.observe [.fill ⟨⟨5, false⟩, none⟩, .compute] := by
  intro m h
  simp [m, Machine.run, Machine.step, Machine.observe, tsumKeepTypeM, tsumM, TSum.fill, TSum.compute, Num.add,
    withCtx, Item.context] at h

example : (tsumM ⟨0, false⟩).observe [.fill ⟨⟨1, true⟩, some [("a", some 1)]⟩, .compute, .reset, .fill ⟨⟨5, false⟩, none⟩, .compute]
    = [.filled none, .computed (.ok [⟨⟨1, true⟩, some [("a", some 1)]⟩]), .wasReset, .filled none,
       .computed (.ok [⟨⟨5, false⟩, none⟩])] := by rfl

/-! ## Adversary round: the bin of a value next to an edge -/

/-- a value on an edge belongs to the bin that starts there ... -/
theorem binIndex_on_edge (es : List Int) (hs : es.Pairwise (· < ·)) (j : Nat) (hj : j + 1 < es.length) :
    binIndex es es[j] = j := by
  rw [binIndex_spec es hs _ j hj]
  have := List.pairwise_iff_getElem.mp hs j (j + 1) (by omega) hj (by omega)
  omega

/-- ... and a value below an edge belongs to the bin below it however close it is (the numbers of a case are scaled
by 2^k for any k: `edge - 1` is the closest value at every resolution): the comparison with an edge is `≤`, not "close
to" -/
theorem binIndex_just_below_edge (es : List Int) (hs : es.Pairwise (· < ·)) (j : Nat) (hj : j + 1 < es.length) :
    binIndex es (es[j + 1] - 1) = j := by
  rw [binIndex_spec es hs _ j hj]
  have := List.pairwise_iff_getElem.mp hs j (j + 1) (by omega) hj (by omega)
  omega

/-- so such a value is counted in bin `j`, never in bin `j + 1` -/
theorem hist_fill_just_below_edge (es : List Int) (hs : es.Pairwise (· < ·)) (j : Nat) (hj : j + 1 < es.length)
    (c : Option Ctx) : inBin es j ⟨es[j + 1] - 1, c⟩ = true ∧ inBin es (j + 1) ⟨es[j + 1] - 1, c⟩ = false := by
  simp only [inBin, binIndex_just_below_edge es hs j hj]
  constructor
  · simp
  · simp; omega

example : binIndex [0, 8, 16] 7 = 0 ∧ binIndex [0, 8, 16] 8 = 1 := by decide

/-! ## Adversary round: VarianceMeanCount around explicit sum elements -/
section VmcOverSec
variable {σ₁ σ₂ : Type}

theorem vmcOver_fillAll (sq : Machine σ₁ (Item Int) (Item Int)) (sm : Machine σ₂ (Item Int) (Item Int)) (cfg : VmcCfg)
    (hsq : ∀ s v, (sq.fill s v).2 = none) (hsm : ∀ s v, (sm.fill s v).2 = none)
    (s : VmcOverSt σ₁ σ₂) (vs : List (Item Int)) :
    ((vmcOverM sq sm cfg).fillAll s vs).sumSq = sq.fillAll s.sumSq (bareSq vs)
    ∧ ((vmcOverM sq sm cfg).fillAll s vs).sum = sm.fillAll s.sum (bare vs)
    ∧ ((vmcOverM sq sm cfg).fillAll s vs).count = s.count + vs.length
    ∧ ((vmcOverM sq sm cfg).fillAll s vs).ctx = ctxAfter s.ctx vs := by
  induction vs generalizing s with
  | nil => simp [Machine.fillAll, bare, bareSq, ctxAfter]
  | cons v vs ih =>
    rw [fillAll_cons]
    have e : ((vmcOverM sq sm cfg).fill s v).1
        = ⟨(sq.fill s.sumSq ⟨v.data ^ 2, none⟩).1, (sm.fill s.sum ⟨v.data, none⟩).1, s.count + 1, v.context⟩ := by
      simp [vmcOverM, VmcOver.fill, hsq, hsm]
    rw [e]
    have := ih ⟨(sq.fill s.sumSq ⟨v.data ^ 2, none⟩).1, (sm.fill s.sum ⟨v.data, none⟩).1, s.count + 1, v.context⟩
    refine ⟨by rw [this.1]; rfl, by rw [this.2.1]; rfl, by rw [this.2.2.1]; simp; omega, by rw [this.2.2.2, ctxAfter_cons]⟩

theorem dataSum_bareSq (vs : List (Item Int)) : dataSum (bareSq vs) = dataSumSq vs := by
  simp [dataSum, dataSumSq, bareSq, List.map_map, Function.comp_def]

theorem ctxAfter_bareSq (c : Ctx) (vs : List (Item Int)) : ctxAfter c (bareSq vs) = if vs = [] then c else [] := by
  cases vs with
  | nil => rfl
  | cons v vs =>
    simp only [bareSq, ctxAfter, List.getLast?_map]
    cases h : (v :: vs).getLast? with
    | none => simp at h
    | some w => simp [Item.context]

/-- `VarianceMeanCount(Sum(a), Sum(b))`: for every fill sequence the yielded triple is computed from
`a + Σx²` and `b + Σx` - with `a = b = 0` the variance, mean and count of the filled values -, with the last context -/
theorem vmc_sums_compute_spec (a b : Int) (cfg : VmcCfg) (vs : List (Item Int)) :
    ((vmcOverM (sumM a) (sumM b) cfg).compute
        ((vmcOverM (sumM a) (sumM b) cfg).fillAll (vmcOverM (sumM a) (sumM b) cfg).init vs)).2 =
      let n : Rat := (vs.length : Rat)
      let mean : Rat := ((b + dataSum vs : Int) : Rat) / n
      let var : Rat := ((a + dataSumSq vs : Int) : Rat) / n - mean ^ 2
      if vs.length = 0 then (if cfg.passOnEmpty then .ok [] else .error .zeroDivision)
      else if cfg.corrected then
        (if vs.length = 1 then .error .zeroDivision
         else .ok [withCtx ⟨var * (n / (n - 1)), mean, vs.length⟩ (ctxAfter [] vs)])
      else .ok [withCtx ⟨var, mean, vs.length⟩ (ctxAfter [] vs)] := by
  have h := vmcOver_fillAll (sumM a) (sumM b) cfg (fun _ _ => rfl) (fun _ _ => rfl)
    (vmcOverM (sumM a) (sumM b) cfg).init vs
  show (VmcOver.compute (sumM a) (sumM b) cfg _).2 = _
  unfold VmcOver.compute
  rw [h.1, h.2.1, h.2.2.1, h.2.2.2]
  simp only [vmcOverM, sumM, Nat.zero_add]
  have e1 := sum_fillAll a ⟨a, []⟩ (bareSq vs)
  have e2 := sum_fillAll b ⟨b, []⟩ (bare vs)
  simp only [sumM] at e1 e2
  rw [e1, e2, dataSum_bareSq, dataSum_bare, ctxAfter_bareSq, ctxAfter_bare]
  cases vs with
  | nil => simp
  | cons v vs =>
    simp [VmcOver.one, Sum.compute, withCtx]
    by_cases hc : cfg.corrected = true
    · by_cases hv : vs = [] <;> simp [hc, hv]
    · simp [hc]

/-- after `reset()`: what a new `VarianceMeanCount(sum_sq', sum_')` shows, the two sums being in the state their own
`reset` leaves them in - for ALL histories before and after the reset.  Both sums must be reset for this: see
`vmc_half_reset_not_fresh` -/
theorem vmcOver_reset_fresh (sq sq' : Machine σ₁ (Item Int) (Item Int)) (sm sm' : Machine σ₂ (Item Int) (Item Int))
    (cfg : VmcCfg)
    (hf1 : sq'.fill = sq.fill) (hc1 : sq'.compute = sq.compute) (hr1 : sq'.reset = sq.reset)
    (hres1 : ∀ s, sq.reset s = sq'.init)
    (hf2 : sm'.fill = sm.fill) (hc2 : sm'.compute = sm.compute) (hr2 : sm'.reset = sm.reset)
    (hres2 : ∀ s, sm.reset s = sm'.init) (h1 h2 : List (Op (Item Int))) :
    ((vmcOverM sq sm cfg).run ((vmcOverM sq sm cfg).run (vmcOverM sq sm cfg).init (h1 ++ [Op.reset])).1 h2).2
      = (vmcOverM sq' sm' cfg).observe h2 := by
  apply reset_fresh_of_const (vmcOverM sq sm cfg) (vmcOverM sq' sm' cfg)
  · simp [vmcOverM]; funext s v; simp [VmcOver.fill, hf1, hf2]
  · simp [vmcOverM]; funext s; simp [VmcOver.compute, hc1, hc2]
  · simp [vmcOverM]; funext s; simp [VmcOver.reset, hr1, hr2]
  · intro s; simp [vmcOverM, VmcOver.reset, hres1, hres2]

/-- `VarianceMeanCount(Sum(a), Sum(b))` after `reset()` is `VarianceMeanCount(Sum(), Sum())` -/
theorem vmc_sums_reset_fresh (a b : Int) (cfg : VmcCfg) (h1 h2 : List (Op (Item Int))) :
    ((vmcOverM (sumM a) (sumM b) cfg).run ((vmcOverM (sumM a) (sumM b) cfg).run (vmcOverM (sumM a) (sumM b) cfg).init
      (h1 ++ [Op.reset])).1 h2).2 = (vmcOverM (sumM 0) (sumM 0) cfg).observe h2 :=
  vmcOver_reset_fresh (sumM a) (sumM 0) (sumM b) (sumM 0) cfg rfl rfl rfl (fun _ => rfl) rfl rfl rfl (fun _ => rfl) h1 h2

/-- a `_reset` that resets `sum_sq`, the count and the context, but not `sum_` -/
def vmcHalfResetM (cfg : VmcCfg) : Machine (VmcOverSt SumSt SumSt) (Item Int) (Item Vmc) :=
  { vmcOverM (sumM 0) (sumM 0) cfg with reset := fun s => ⟨Sum.reset s.sumSq, s.sum, 0, []⟩ }

/-- ... does not make the element a new one: the values filled before it still count in the mean (machine-checked
counterexample: 3 is filled, reset, 1 is filled - the mean is 4 instead of 1) -/
theorem vmc_half_reset_not_fresh :
    let m := vmcHalfResetM ⟨false, false⟩
    (m.run (m.run m.init ([.fill ⟨3, none⟩] ++ [Op.reset])).1 [.fill ⟨1, none⟩, .compute]).2
      ≠ m.observe [.fill ⟨1, none⟩, .compute] := by
  intro m h
  simp [m, Machine.run, Machine.step, Machine.observe, vmcHalfResetM, vmcOverM, VmcOver.fill, VmcOver.compute,
    VmcOver.one, sumM, Sum.fill, Sum.compute, Sum.reset, withCtx, Item.context] at h
  grind

/-- the default element `VarianceMeanCount()` (`vmcM`) is the instance with two `Sum()`: the same observations for
every history -/
theorem vmc_is_vmcOver (cfg : VmcCfg) (h : List (Op (Item Int))) :
    (vmcM cfg).observe h = (vmcOverM (sumM 0) (sumM 0) cfg).observe h := by
  have key : ∀ (h : List (Op (Item Int))) (s : VmcSt), s.sumSq.ctx = [] → s.sum.ctx = [] →
      ((vmcM cfg).run s h).2 = ((vmcOverM (sumM 0) (sumM 0) cfg).run ⟨s.sumSq, s.sum, s.count, s.ctx⟩ h).2 := by
    intro h
    induction h with
    | nil => intros; rfl
    | cons op ops ih =>
      intro s h1 h2
      cases op with
      | fill v =>
        simp only [Machine.run, Machine.step]
        have := ih (Vmc.fill s v) (by simp [Vmc.fill, Sum.fill, Item.context]) (by simp [Vmc.fill, Sum.fill, Item.context])
        simp [vmcM, vmcOverM, VmcOver.fill, sumM] at this ⊢
        simpa [Vmc.fill] using this
      | compute =>
        simp only [Machine.run, Machine.step]
        have e : ((vmcOverM (sumM 0) (sumM 0) cfg).compute ⟨s.sumSq, s.sum, s.count, s.ctx⟩)
            = (⟨s.sumSq, s.sum, s.count, s.ctx⟩, Vmc.compute cfg s) := by
          simp only [vmcOverM, VmcOver.compute, Vmc.compute, sumM, Sum.compute, h1, h2, withCtx, VmcOver.one]
          by_cases hz : s.count = 0
          · simp [hz]
          · by_cases hc : cfg.corrected = true
            · by_cases ho : s.count = 1 <;> simp [hz, hc, ho]
            · simp [hz, hc]
        rw [e]
        have := ih s h1 h2
        simp [vmcM] at this ⊢
        exact this
      | reset =>
        simp only [Machine.run, Machine.step]
        have := ih (Vmc.reset s) rfl rfl
        simp [vmcM, vmcOverM, VmcOver.reset, sumM, Vmc.reset] at this ⊢
        exact this
  exact key h (vmcM cfg).init rfl rfl

example : (vmcOverM (sumM 2) (sumM 1) ⟨false, false⟩).observe
    [.fill ⟨3, some [("a", some 1)]⟩, .compute, .reset, .fill ⟨1, none⟩, .compute]
    = [.filled none, .computed (.ok [⟨⟨(11 : Rat) - 16, 4, 1⟩, some [("a", some 1)]⟩]), .wasReset, .filled none,
       .computed (.ok [⟨⟨0, 1, 1⟩, none⟩])] := by
  simp [Machine.observe, Machine.run, Machine.step, vmcOverM, VmcOver.fill, VmcOver.compute, VmcOver.reset, VmcOver.one,
    sumM, Sum.fill, Sum.compute, Sum.reset, withCtx, Item.context]
  constructor <;> grind

end VmcOverSec

end Adv1

/-! ## Seed round I: the counter's name is ONE key, whatever string it is

"... together with the context of the last filled value (extended only by the element's own documented keys)":
`Count` documents the key `{self.name: self.count}`.  The `count_*` theorems above hold for every `cfg.name` (no
hypothesis about the string: dots, blanks, the empty string, a key of the context).  Here the same on contexts with
nested dictionaries, and what the string form of `update_recursively` does instead (seed C09-I). -/
section SeedI

/-- `d.update({name: v})` on a context with nested dictionaries, for EVERY string `name`: the key `name` is bound
to `v`, and every other key keeps its binding (a nested dictionary as a whole). -/
theorem NCtx.lookup_set (c : NCtx) (k : String) (v : NVal) (k' : String) :
    (c.set k v).lookup k' = if k' = k then some v else c.lookup k' := by
  induction c with
  | nil =>
    by_cases h : k' = k
    · simp [NCtx.set, NCtx.lookup, h]
    · have h' : ¬ k = k' := fun e => h e.symm
      simp [NCtx.set, NCtx.lookup, h, h']
  | cons kv rest ih =>
    obtain ⟨k₀, v₀⟩ := kv
    by_cases h0 : k₀ = k
    · subst h0
      by_cases h : k' = k₀
      · simp [NCtx.set, NCtx.lookup, h]
      · have h' : ¬ k₀ = k' := fun e => h e.symm
        simp [NCtx.set, NCtx.lookup, h, h']
    · by_cases h : k₀ = k'
      · subst h
        simp [NCtx.set, NCtx.lookup, h0]
      · simp [NCtx.set, NCtx.lookup, h0, h, ih]

theorem nctx_set_own_key_only (c : NCtx) (name : String) (v : NVal) :
    (c.set name v).lookup name = some v ∧ ∀ k, k ≠ name → (c.set name v).lookup k = c.lookup k := by
  refine ⟨by simp [NCtx.lookup_set], ?_⟩
  intro k hk
  simp [NCtx.lookup_set, hk]

/-- the flat contexts of the element models are the nested ones whose values are leaves: `Ctx.set` (what the model of
`Count` does with its name) is `NCtx.set` -/
theorem Ctx.toN_set (c : Ctx) (k : String) (v : Leaf) : (c.set k v).toN = c.toN.set k (.leaf v) := by
  induction c with
  | nil => simp [Ctx.set, Ctx.toN, NCtx.set]
  | cons kv rest ih =>
    obtain ⟨k₀, v₀⟩ := kv
    by_cases h0 : k₀ = k
    · simp [Ctx.set, Ctx.toN, NCtx.set, h0]
    · simpa [Ctx.set, Ctx.toN, NCtx.set, h0] using ih

/-- the context `Count.compute` yields, as a nested context, for EVERY name and fill sequence: the last filled context
with the one key `name` bound to the counter, every other key untouched -/
theorem count_compute_name_one_key (cfg : CountCfg) (vs : List (Item δ)) :
    ∃ d c, ((countM δ cfg).compute ((countM δ cfg).fillAll (countM δ cfg).init vs)).2 = .ok [⟨d, some c⟩]
      ∧ c.toN = (ctxAfter [] vs).toN.set cfg.name (.leaf (some (cfg.count0 + vs.length)))
      ∧ c.toN.lookup cfg.name = some (.leaf (some (cfg.count0 + vs.length)))
      ∧ ∀ k, k ≠ cfg.name → c.toN.lookup k = (ctxAfter [] vs).toN.lookup k := by
  refine ⟨_, _, count_compute_spec cfg vs, Ctx.toN_set _ _ _, ?_, ?_⟩
  · rw [Ctx.toN_set]; exact (nctx_set_own_key_only _ _ _).1
  · intro k hk; rw [Ctx.toN_set]; exact (nctx_set_own_key_only _ _ _).2 k hk

/-- a name without a dot: the path update IS `d.update({name: v})` (why a `Count` that uses `update_recursively` passes
every test with plain names) -/
theorem nctx_setPath_single (c : NCtx) (k : String) (v : Leaf) : c.setPath [k] v = c.set k (.leaf v) := rfl

/-- a path of two or more components (a name with a dot) binds its FIRST component to a dictionary and touches no
other key: the documented key - the name itself, a string different from its first component - is not added, and
whatever the context held under the first component (a leaf, say) is replaced -/
theorem nctx_setPath_dotted (c : NCtx) (k k2 : String) (ks : List String) (v : Leaf) :
    (∃ sub, (c.setPath (k :: k2 :: ks) v).lookup k = some (.dict sub))
    ∧ ∀ name, name ≠ k → (c.setPath (k :: k2 :: ks) v).lookup name = c.lookup name := by
  constructor
  · cases h : c.lookup k with
    | none => exact ⟨NCtx.setPath [] (k2 :: ks) v, by simp [NCtx.setPath, h, NCtx.lookup_set]⟩
    | some x =>
      cases x with
      | leaf l => exact ⟨NCtx.setPath [] (k2 :: ks) v, by simp [NCtx.setPath, h, NCtx.lookup_set]⟩
      | dict sub => exact ⟨NCtx.setPath sub (k2 :: ks) v, by simp [NCtx.setPath, h, NCtx.lookup_set]⟩
  · intro name hn
    cases h : c.lookup k with
    | none => simp [NCtx.setPath, h, NCtx.lookup_set, hn]
    | some x =>
      cases x with
      | leaf l => simp [NCtx.setPath, h, NCtx.lookup_set, hn]
      | dict sub => simp [NCtx.setPath, h, NCtx.lookup_set, hn]

/-- hence a path update never agrees with the documented `{name: v}` on a context that lacks the key `name`, when the
name differs from its first path component (every dotted name): machine-checked counterexample to seed C09-I -/
theorem nctx_setPath_not_update (c : NCtx) (name k k2 : String) (ks : List String) (v : Leaf)
    (hn : name ≠ k) (habs : c.lookup name = none) :
    c.setPath (k :: k2 :: ks) v ≠ c.set name (.leaf v) := by
  intro e
  have h1 := (nctx_setPath_dotted c k k2 ks v).2 name hn
  rw [e, (nctx_set_own_key_only c name (.leaf v)).1, habs] at h1
  cases h1

/-- `Count("events.selected")` after a value with context `{"events": 7}`: the documented context keeps `events` and
has the key `events.selected`; the path update has no such key and has replaced the 7 -/
example :
    let c : NCtx := [("events", .leaf (some 7))]
    (c.set "events.selected" (.leaf (some 1))).lookup "events" = some (.leaf (some 7))
    ∧ (c.set "events.selected" (.leaf (some 1))).lookup "events.selected" = some (.leaf (some 1))
    ∧ (c.setPath ["events", "selected"] (some 1)).lookup "events.selected" = none
    ∧ (c.setPath ["events", "selected"] (some 1)).lookup "events" = some (.dict [("selected", .leaf (some 1))]) := by
  simp [NCtx.set, NCtx.lookup, NCtx.setPath]

example : NCtx.setPath [("events", NVal.leaf (some 7))] ["events", "selected"] (some 1)
    ≠ NCtx.set [("events", NVal.leaf (some 7))] "events.selected" (NVal.leaf (some 1)) :=
  nctx_setPath_not_update _ _ _ _ _ _ (by decide) (by simp [NCtx.lookup])

/-! ### Vectorize: "the longest output is yielded (the others are padded with None)" (seed C09-G)

Components of a `Vectorize([seq₀, seq₁, …])` may yield different numbers of values (`Sum()` one, `StoreFilled(False)`
one per fill).  No result of a longer component is dropped. -/

theorem foldl_max_length_ge {α : Type} (ls : List (List α)) (n : Nat) :
    n ≤ ls.foldl (fun n l => max n l.length) n ∧ ∀ l ∈ ls, l.length ≤ ls.foldl (fun n l => max n l.length) n := by
  induction ls generalizing n with
  | nil => simp
  | cons a rest ih =>
    have h := ih (max n a.length)
    refine ⟨by simp only [List.foldl_cons]; omega, ?_⟩
    intro l hl
    simp only [List.foldl_cons]
    rcases List.mem_cons.mp hl with rfl | hl
    · omega
    · exact h.2 l hl

/-- as many tuples as the longest component yields values -/
theorem zipLongest_length_ge {α : Type} (ls : List (List α)) (l : List α) (h : l ∈ ls) :
    l.length ≤ (zipLongest ls).length := by
  simp only [zipLongest, List.length_map, List.length_range]
  exact (foldl_max_length_ge ls 0).2 l h

/-- every value of every component is in the output, at its place: value `i` of component `j` is component `j` of
tuple `i` (so a `zip` that stops at the shortest component is not what the model - and the documentation - says) -/
theorem zipLongest_keeps_all {α : Type} (ls : List (List α)) (j : Nat) (hj : j < ls.length) (i : Nat)
    (hi : i < ls[j].length) :
    ∃ row, (zipLongest ls)[i]? = some row ∧ row[j]? = some (some ls[j][i]) := by
  have hlen : i < (zipLongest ls).length :=
    Nat.lt_of_lt_of_le hi (zipLongest_length_ge ls ls[j] (List.getElem_mem hj))
  refine ⟨(zipLongest ls)[i], by simp [hlen], ?_⟩
  rw [zipLongest_row ls i hlen]
  simp [hj, hi]

example : zipLongest [[6], [10, 20, 30]] = [[some 6, some 10], [none, some 20], [none, some 30]] := by decide

end SeedI

end Lena.C09
