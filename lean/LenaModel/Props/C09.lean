import LenaModel.Model.C09
/-! # C09 — property theorems (accumulators: documented aggregate; reset equals fresh)

Property C09: "Every framework accumulator yields, for any sequence of filled values, the aggregate it
documents [...] together with the context of the last filled value (extended only by the element's own
documented keys).  After reset() the element is observationally equal to a newly constructed one for every
later sequence of fills and computes."

* `x_compute_spec` theorems: first sentence, per element, for ALL fill sequences (`ctxAfter [] vs` is the
  context of the last filled value, `{}` if nothing was filled).
* `x_reset_fresh` theorems: second sentence, per element, for ALL histories `h1` before the reset and ALL
  histories `h2` after it (instances of the generic `reset_bisimilar`).  "Newly constructed" means the
  documented zero start for `Count`, `Sum`, `DSum` (their `reset` docstrings). -/

namespace Lena.C09
variable {σ ι ο δ : Type}

/-! ## Histories: generic lemmas -/

theorem Machine.run_append (m : Machine σ ι ο) (s : σ) (h1 h2 : List (Op ι)) :
    m.run s (h1 ++ h2) = ((m.run (m.run s h1).1 h2).1, (m.run s h1).2 ++ (m.run (m.run s h1).1 h2).2) := by
  induction h1 generalizing s with
  | nil => simp [Machine.run]
  | cons op ops ih => simp [Machine.run, ih]

/-- simulation: related states show the same observations for every history -/
theorem Machine.run_sim (m m' : Machine σ ι ο) (R : σ → σ → Prop)
    (hstep : ∀ s t op, R s t → (m.step s op).2 = (m'.step t op).2 ∧ R (m.step s op).1 (m'.step t op).1)
    (h : List (Op ι)) : ∀ s t, R s t → (m.run s h).2 = (m'.run t h).2 := by
  induction h with
  | nil => intros; rfl
  | cons op ops ih =>
    intro s t hR
    have := hstep s t op hR
    simp [Machine.run, this.1, ih _ _ this.2]

theorem Machine.run_inv (m : Machine σ ι ο) (Inv : σ → Prop)
    (hstep : ∀ s op, Inv s → Inv (m.step s op).1) (h : List (Op ι)) : ∀ s, Inv s → Inv (m.run s h).1 := by
  induction h with
  | nil => intro s hs; exact hs
  | cons op ops ih => intro s hs; exact ih _ (hstep s op hs)

theorem reset_bisimilar (m m' : Machine σ ι ο) (Inv : σ → Prop) (R : σ → σ → Prop)
    (h0 : Inv m.init) (hinv : ∀ s op, Inv s → Inv (m.step s op).1)
    (hreset : ∀ s, Inv s → R (m.reset s) m'.init)
    (hstep : ∀ s t op, R s t → (m.step s op).2 = (m'.step t op).2 ∧ R (m.step s op).1 (m'.step t op).1)
    (h1 h2 : List (Op ι)) :
    (m.run (m.run m.init (h1 ++ [Op.reset])).1 h2).2 = m'.observe h2 := by
  rw [Machine.run_append]
  simp only [Machine.run, Machine.step, Machine.observe]
  apply Machine.run_sim m m' R hstep
  exact hreset _ (Machine.run_inv m Inv hinv h1 _ h0)

/-! ## The context of the last filled value -/

/-- the context of the last value of `vs` (`c` if there is none) -/
def ctxAfter (c : Ctx) (vs : List (Item δ)) : Ctx :=
  match vs.getLast? with
  | some v => v.context
  | none => c

theorem ctxAfter_nil (c : Ctx) : ctxAfter c ([] : List (Item δ)) = c := rfl

theorem ctxAfter_cons (c : Ctx) (v : Item δ) (vs : List (Item δ)) :
    ctxAfter c (v :: vs) = ctxAfter v.context vs := by
  cases vs with
  | nil => simp [ctxAfter]
  | cons w ws =>
    have h : (w :: ws).getLast? = some ((w :: ws).getLast (by simp)) := List.getLast?_eq_some_getLast _
    simp only [ctxAfter, List.getLast?_cons_cons, h]

theorem fillAll_cons (m : Machine σ ι ο) (s : σ) (v : ι) (vs : List ι) :
    m.fillAll s (v :: vs) = m.fillAll (m.fill s v).1 vs := rfl

/-! ### Count -/
theorem count_fillAll (cfg : CountCfg) (s : CountSt) (vs : List (Item δ)) :
    (countM δ cfg).fillAll s vs = ⟨s.count + vs.length, ctxAfter s.ctx vs⟩ := by
  induction vs generalizing s with
  | nil => simp [Machine.fillAll, ctxAfter]
  | cons v vs ih =>
    rw [fillAll_cons, ih, ctxAfter_cons]
    simp [countM, Count.fill]
    omega

theorem count_compute_spec (cfg : CountCfg) (vs : List (Item δ)) :
    ((countM δ cfg).compute ((countM δ cfg).fillAll (countM δ cfg).init vs)).2 =
      .ok [⟨cfg.count0 + vs.length, some ((ctxAfter [] vs).set cfg.name (some (cfg.count0 + vs.length)))⟩] := by
  rw [count_fillAll]
  simp [countM, Count.compute]

/-! ### Sum -/
def dataSum (vs : List (Item Int)) : Int := (vs.map (·.data)).sum

theorem sum_fillAll (t0 : Int) (s : SumSt) (vs : List (Item Int)) :
    (sumM t0).fillAll s vs = ⟨s.total + dataSum vs, ctxAfter s.ctx vs⟩ := by
  induction vs generalizing s with
  | nil => simp [Machine.fillAll, ctxAfter, dataSum]
  | cons v vs ih =>
    rw [fillAll_cons, ih, ctxAfter_cons]
    simp [sumM, Sum.fill, dataSum]
    omega

theorem sum_compute_spec (t0 : Int) (vs : List (Item Int)) :
    ((sumM t0).compute ((sumM t0).fillAll (sumM t0).init vs)).2 =
      .ok [withCtx (t0 + dataSum vs) (ctxAfter [] vs)] := by
  rw [sum_fillAll]
  simp [sumM, Sum.compute]


/-- instance of `reset_bisimilar` for elements whose `reset` returns one fixed state: the later
observations are those of the machine `m'` that starts in that state -/
theorem reset_fresh_of_const (m m' : Machine σ ι ο) (hf : m'.fill = m.fill) (hc : m'.compute = m.compute)
    (hr : m'.reset = m.reset) (hreset : ∀ s, m.reset s = m'.init) (h1 h2 : List (Op ι)) :
    (m.run (m.run m.init (h1 ++ [Op.reset])).1 h2).2 = m'.observe h2 := by
  apply reset_bisimilar m m' (fun _ => True) Eq trivial (fun _ _ _ => trivial) (fun s _ => hreset s)
  intro s t op hst
  subst hst
  cases op <;> simp [Machine.step, hf, hc, hr]

/-- Count: after `reset()` every later history shows what it shows on `Count(name)` (count 0) -/
theorem count_reset_fresh (cfg : CountCfg) (h1 h2 : List (Op (Item δ))) :
    ((countM δ cfg).run ((countM δ cfg).run (countM δ cfg).init (h1 ++ [Op.reset])).1 h2).2
      = (countM δ { cfg with count0 := 0 }).observe h2 :=
  reset_fresh_of_const (countM δ cfg) (countM δ { cfg with count0 := 0 }) rfl rfl rfl (fun _ => rfl) h1 h2

/-- Sum: after `reset()` every later history shows what it shows on `Sum()` (total 0) -/
theorem sum_reset_fresh (t0 : Int) (h1 h2 : List (Op (Item Int))) :
    ((sumM t0).run ((sumM t0).run (sumM t0).init (h1 ++ [Op.reset])).1 h2).2 = (sumM 0).observe h2 :=
  reset_fresh_of_const (sumM t0) (sumM 0) rfl rfl rfl (fun _ => rfl) h1 h2

example : (sumM 3).observe [.fill ⟨4, some [("a", some 1)]⟩, .compute, .reset, .fill ⟨5, none⟩, .compute]
    = [.filled none, .computed (.ok [⟨7, some [("a", some 1)]⟩]), .wasReset, .filled none, .computed (.ok [⟨5, none⟩])] := by
  rfl

/-! ### StoreFilled -/

theorem store_fillAll (g : Bool) (s : List ι) (vs : List ι) : (storeFilledM ι g).fillAll s vs = s ++ vs := by
  induction vs generalizing s with
  | nil => simp [Machine.fillAll]
  | cons v vs ih => rw [fillAll_cons, ih]; simp [storeFilledM]

/-- StoreFilled yields the filled values themselves: as one group (a copy of the list), or one by one -/
theorem store_compute_spec (g : Bool) (vs : List ι) :
    ((storeFilledM ι g).compute ((storeFilledM ι g).fillAll (storeFilledM ι g).init vs)).2 =
      .ok (if g then [Stored.group vs] else vs.map Stored.one) := by
  rw [store_fillAll]
  simp [storeFilledM]

theorem store_reset_fresh (g : Bool) (h1 h2 : List (Op ι)) :
    ((storeFilledM ι g).run ((storeFilledM ι g).run (storeFilledM ι g).init (h1 ++ [Op.reset])).1 h2).2
      = (storeFilledM ι g).observe h2 :=
  reset_fresh_of_const (storeFilledM ι g) (storeFilledM ι g) rfl rfl rfl (fun _ => rfl) h1 h2

/-! ### VarianceMeanCount: the algebra -/

/-- `Σ (x - c)²`, exact -/
def sqDev (c : Rat) (xs : List Int) : Rat := (xs.map (fun (x : Int) => ((x : Rat) - c) ^ 2)).sum
def isum (xs : List Int) : Int := xs.sum
def isumSq (xs : List Int) : Int := (xs.map (· ^ 2)).sum

theorem sqDev_expand (c : Rat) (xs : List Int) :
    sqDev c xs = (isumSq xs : Rat) - 2 * c * (isum xs : Rat) + (xs.length : Rat) * c ^ 2 := by
  induction xs with
  | nil => simp [sqDev, isumSq, isum]; grind
  | cons x xs ih =>
    simp only [sqDev, isumSq, isum, List.map_cons, List.sum_cons, List.length_cons] at *
    rw [ih]
    simp only [Rat.intCast_add, Rat.intCast_pow, Rat.natCast_add]
    grind


theorem natCast_ge_two {k : Nat} (h : 2 ≤ k) : (2 : Rat) ≤ (k : Rat) := by
  have : ((2 : Nat) : Rat) ≤ (k : Rat) := Rat.natCast_le_natCast.mpr h
  simpa using this

theorem vmc_is_sample_variance (xs : List Int) (hn : 2 ≤ xs.length) :
    let n : Rat := xs.length
    let μ : Rat := (isum xs : Rat) / n
    ((isumSq xs : Rat) / n - μ ^ 2) * (n / (n - 1)) = sqDev μ xs / (n - 1) := by
  intro n μ
  have h2 : (2 : Rat) ≤ n := natCast_ge_two hn
  have hn0 : n ≠ 0 := by grind
  have hn1 : n - 1 ≠ 0 := by grind
  rw [sqDev_expand]
  grind

theorem vmc_is_population_variance (xs : List Int) (hn : 1 ≤ xs.length) :
    let n : Rat := xs.length
    let μ : Rat := (isum xs : Rat) / n
    (isumSq xs : Rat) / n - μ ^ 2 = sqDev μ xs / n := by
  intro n μ
  have h1 : (1 : Rat) ≤ n := by
    have : ((1 : Nat) : Rat) ≤ (xs.length : Rat) := Rat.natCast_le_natCast.mpr hn
    simpa using this
  have hn0 : n ≠ 0 := by grind
  rw [sqDev_expand]
  grind

/-! ### Mean -/

/-- the values as they are filled into an inner sum element: bare data -/
def bare (vs : List (Item Int)) : List (Item Int) := vs.map (fun v => ⟨v.data, none⟩)

theorem ctxAfter_bare (c : Ctx) (vs : List (Item Int)) : ctxAfter c (bare vs) = if vs = [] then c else [] := by
  induction vs generalizing c with
  | nil => rfl
  | cons v vs ih => simp only [bare, List.map_cons] at *; rw [ctxAfter_cons, ih]; simp [Item.context]

theorem dataSum_bare (vs : List (Item Int)) : dataSum (bare vs) = dataSum vs := by
  simp [dataSum, bare, List.map_map, Function.comp_def]

theorem dataSum_cons (v : Item Int) (vs : List (Item Int)) : dataSum (v :: vs) = v.data + dataSum vs := by
  simp [dataSum]

theorem mean_fillAll (cfg : MeanCfg) (s : MeanSt) (vs : List (Item Int)) :
    (meanM cfg).fillAll s vs =
      if cfg.useSeq then ⟨s.sum, (sumM 0).fillAll s.seq (bare vs), s.count + vs.length, ctxAfter s.ctx vs⟩
      else ⟨s.sum + dataSum vs, s.seq, s.count + vs.length, ctxAfter s.ctx vs⟩ := by
  induction vs generalizing s with
  | nil => cases h : cfg.useSeq <;> simp [Machine.fillAll, ctxAfter, dataSum, bare]
  | cons v vs ih =>
    rw [fillAll_cons, ih, ctxAfter_cons]
    cases h : cfg.useSeq
    · simp [meanM, Mean.fill, h, dataSum_cons]; omega
    · simp [meanM, Mean.fill, h, bare, fillAll_cons, sumM]; omega

theorem Ctx.update_nil (c : Ctx) : Ctx.update c [] = c := rfl

/-- Mean yields sum/count of the filled values with the last context (both for `sum_seq=None` and
`sum_seq=Sum()`); with nothing filled it raises `LenaZeroDivisionError`, or yields nothing if
`pass_on_empty` -/
theorem mean_compute_spec (cfg : MeanCfg) (vs : List (Item Int)) :
    ((meanM cfg).compute ((meanM cfg).fillAll (meanM cfg).init vs)).2 =
      if vs = [] then (if cfg.passOnEmpty then .ok [] else .error .zeroDivision)
      else .ok [withCtx ((dataSum vs : Rat) / (vs.length : Rat)) (ctxAfter [] vs)] := by
  rw [mean_fillAll]
  cases vs with
  | nil => cases h : cfg.useSeq <;> simp [meanM, Mean.compute, Machine.fillAll, bare]
  | cons v vs =>
    cases h : cfg.useSeq
    · simp [meanM, Mean.compute, h]
    · simp only [meanM, Mean.compute, h, sum_fillAll, dataSum_bare, ctxAfter_bare]
      simp [Sum.compute, withCtx, Item.context, Ctx.update_nil]

theorem mean_reset_fresh (cfg : MeanCfg) (h1 h2 : List (Op (Item Int))) :
    ((meanM cfg).run ((meanM cfg).run (meanM cfg).init (h1 ++ [Op.reset])).1 h2).2 = (meanM cfg).observe h2 := by
  apply reset_bisimilar (meanM cfg) (meanM cfg)
    (fun s => (cfg.useSeq = true → s.sum = 0) ∧ (cfg.useSeq = false → s.seq = ⟨0, []⟩)) Eq
  · simp [meanM]
  · intro s op hs
    cases op <;> cases h : cfg.useSeq <;> simp_all [Machine.step, meanM, Mean.fill, Mean.reset]
  · intro s hs
    cases h : cfg.useSeq <;> simp_all [meanM, Mean.reset, Sum.reset]
  · intro s t op hst
    subst hst
    exact ⟨rfl, rfl⟩

/-! ### VarianceMeanCount -/

def dataSumSq (vs : List (Item Int)) : Int := (vs.map (fun v => v.data ^ 2)).sum

theorem vmc_fillAll (cfg : VmcCfg) (s : VmcSt) (vs : List (Item Int)) :
    (vmcM cfg).fillAll s vs =
      ⟨⟨s.sumSq.total + dataSumSq vs, if vs = [] then s.sumSq.ctx else []⟩,
       ⟨s.sum.total + dataSum vs, if vs = [] then s.sum.ctx else []⟩, s.count + vs.length, ctxAfter s.ctx vs⟩ := by
  induction vs generalizing s with
  | nil => simp [Machine.fillAll, ctxAfter, dataSum, dataSumSq]
  | cons v vs ih =>
    rw [fillAll_cons, ih, ctxAfter_cons]
    simp [vmcM, Vmc.fill, Sum.fill, dataSum_cons, dataSumSq, Item.context]
    refine ⟨?_, ?_, ?_⟩ <;> first | omega | (split <;> rfl) | skip


/-- what `VarianceMeanCount.compute` yields after filling `vs`: errors for an empty sample (unless
`pass_on_empty`) and, corrected, for a single value; otherwise `(Σx²/n − (Σx/n)²) [· n/(n−1)]`, `Σx/n`, `n`
with the last context -/
theorem vmc_compute_spec (cfg : VmcCfg) (vs : List (Item Int)) :
    ((vmcM cfg).compute ((vmcM cfg).fillAll (vmcM cfg).init vs)).2 =
      let n : Rat := (vs.length : Rat)
      let mean : Rat := (dataSum vs : Rat) / n
      let var : Rat := (dataSumSq vs : Rat) / n - mean ^ 2
      if vs.length = 0 then (if cfg.passOnEmpty then .ok [] else .error .zeroDivision)
      else if cfg.corrected then
        (if vs.length = 1 then .error .zeroDivision
         else .ok [withCtx ⟨var * (n / (n - 1)), mean, vs.length⟩ (ctxAfter [] vs)])
      else .ok [withCtx ⟨var, mean, vs.length⟩ (ctxAfter [] vs)] := by
  rw [vmc_fillAll]
  simp only [vmcM, Vmc.compute, Sum.compute]
  cases vs with
  | nil => simp
  | cons v vs =>
    simp [withCtx]

theorem vmc_reset_fresh (cfg : VmcCfg) (h1 h2 : List (Op (Item Int))) :
    ((vmcM cfg).run ((vmcM cfg).run (vmcM cfg).init (h1 ++ [Op.reset])).1 h2).2 = (vmcM cfg).observe h2 :=
  reset_fresh_of_const (vmcM cfg) (vmcM cfg) rfl rfl rfl (fun _ => rfl) h1 h2


/-- corrected, with at least two values: the yielded triple is the sample variance `Σ(x−μ)²/(n−1)`, the mean
`μ = Σx/n` and the count, with the last context -/
theorem vmc_yields_sample_variance (cfg : VmcCfg) (hc : cfg.corrected = true) (vs : List (Item Int))
    (hn : 2 ≤ vs.length) :
    ((vmcM cfg).compute ((vmcM cfg).fillAll (vmcM cfg).init vs)).2 =
      let xs := vs.map (·.data)
      let n : Rat := (vs.length : Rat)
      let μ : Rat := (isum xs : Rat) / n
      .ok [withCtx ⟨sqDev μ xs / (n - 1), μ, vs.length⟩ (ctxAfter [] vs)] := by
  rw [vmc_compute_spec]
  have h0 : vs.length ≠ 0 := by omega
  have h1 : vs.length ≠ 1 := by omega
  have hs : dataSum vs = isum (vs.map (·.data)) := rfl
  have hq : dataSumSq vs = isumSq (vs.map (·.data)) := by simp [dataSumSq, isumSq, List.map_map, Function.comp_def]
  have key := vmc_is_sample_variance (vs.map (·.data)) (by simpa using hn)
  simp only [List.length_map] at key
  simp only [h0, h1, hc, if_true, if_false, hs, hq]
  rw [key]

/-- uncorrected, with at least one value: the population variance `Σ(x−μ)²/n` -/
theorem vmc_yields_population_variance (cfg : VmcCfg) (hc : cfg.corrected = false) (vs : List (Item Int))
    (hn : 1 ≤ vs.length) :
    ((vmcM cfg).compute ((vmcM cfg).fillAll (vmcM cfg).init vs)).2 =
      let xs := vs.map (·.data)
      let n : Rat := (vs.length : Rat)
      let μ : Rat := (isum xs : Rat) / n
      .ok [withCtx ⟨sqDev μ xs / n, μ, vs.length⟩ (ctxAfter [] vs)] := by
  rw [vmc_compute_spec]
  have h0 : vs.length ≠ 0 := by omega
  have hs : dataSum vs = isum (vs.map (·.data)) := rfl
  have hq : dataSumSq vs = isumSq (vs.map (·.data)) := by simp [dataSumSq, isumSq, List.map_map, Function.comp_def]
  have key := vmc_is_population_variance (vs.map (·.data)) (by simpa using hn)
  simp only [List.length_map] at key
  simp only [h0, hc, if_false, hs, hq, Bool.false_eq_true]
  rw [key]

example : ((vmcM ⟨true, false⟩).compute ((vmcM ⟨true, false⟩).fillAll (vmcM ⟨true, false⟩).init
    [⟨1, none⟩, ⟨2, some [("a", some 1)]⟩, ⟨6, none⟩])).2 = .ok [⟨⟨7, 3, 3⟩, none⟩] := by
  rw [vmc_yields_sample_variance _ rfl _ (by decide)]
  simp [sqDev, isum, ctxAfter, withCtx, Item.context]
  constructor <;> grind


end Lena.C09
