import LenaModel.Model.C03
import LenaModel.Model.C03Spec
import LenaModel.Lemmas.C03
/-! # C03 — property theorems: `Split.run` follows its documented block/branch schedule

All statements are about the transcribed model `Split.runTrace` / `Split.run`
(`Model/C03.lean`), for every list of branches (any length, any mix of the four kinds, any
methods `Ops` over any state type), every flow (any length), every `bufsize ∈ ℕ⁺ ∪ {None}` and
both values of `copy_buf`. -/

namespace Lena.C03

variable {σ α : Type}

/-- `Split.__init__` accepts `bufsize = None` or a natural number `≥ 1` only (`splitInit`) -/
def Split.Valid (s : Split σ α) : Prop := s.bufsize ≠ some 0

/-! ## 1. the loops refine the declarative schedule -/

/-- *"The flow is divided into subslices of bufsize.  Each subslice is processed by sequences in
the order of their initializer list."*  The `while True` loop over buffers and the index loop
with in-place deletion are two nested folds — over the blocks, and inside a block over the
branches that are still active, in order — followed by the final pass.  The fuel given to the
loops is never exhausted. -/
theorem loop_refines_spec (s : Split σ α) (hv : s.Valid) (flow : List α) :
    s.runTrace flow = s.runSpec flow := by
  unfold Split.runTrace Split.runSpec
  rw [outerLoop_eq_passes s.copyBuf s.bufsize hv (flow.length + 1) flow s.branches [] true (by omega)]
  simp

/-- THE MAIN STATEMENT of the property: the trace (hence the output) of `Split.run` is the
concatenation, block by block and inside a block in branch order, of the contribution of each
branch, followed after the last block by the final contributions in branch order — where the
contribution of a branch is a function of that branch and of the blocks alone (`life`): no
branch influences what another one receives or yields. -/
theorem run_eq_schedule (s : Split σ α) (hv : s.Valid) (flow : List α) :
    s.runTrace flow = s.schedule flow := by
  rw [loop_refines_spec s hv, runSpec_eq_schedule]

/-- the same for what `split.run(flow)` yields -/
theorem run_outputs_eq_schedule (s : Split σ α) (hv : s.Valid) (flow : List α)
    (hne : s.branches ≠ []) : s.run flow = outputs (s.schedule flow) := by
  unfold Split.run
  have : s.branches.isEmpty = false := by
    cases hb : s.branches with
    | nil => exact absurd hb hne
    | cons b r => rfl
  simp [this, run_eq_schedule s hv]

/-- `copy_buf` does not change the schedule (values are not mutated by branches: assumption of
the model) -/
theorem copy_buf_irrelevant (brs : List (Branch σ α)) (bs : Option Nat) (hbs : bs ≠ some 0)
    (flow : List α) :
    ({ branches := brs, bufsize := bs, copyBuf := true } : Split σ α).runTrace flow =
      ({ branches := brs, bufsize := bs, copyBuf := false } : Split σ α).runTrace flow := by
  have h1 := loop_refines_spec ({ branches := brs, bufsize := bs, copyBuf := true } : Split σ α) hbs flow
  have h2 := loop_refines_spec ({ branches := brs, bufsize := bs, copyBuf := false } : Split σ α) hbs flow
  rw [h1, h2]
  rfl

/-- `assert flow_was_empty` (split.py:403) never fails: a Source is never left active after a
non-empty flow -/
theorem no_assert_fail (s : Split σ α) (hv : s.Valid) (flow : List α) :
    ∀ e ∈ s.runTrace flow, ∃ i, e.branch = some i := by
  intro e he
  rw [run_eq_schedule s hv] at he
  simp only [Split.schedule, List.mem_append, List.mem_flatMap] at he
  rcases he with ⟨k, _, b, _, h⟩ | ⟨b, _, h⟩
  · exact ⟨b.id, contribution_branch b _ k e h⟩
  · exact ⟨b.id, finalContribution_branch b _ e h⟩

/-! ## 2. the blocks -/

/-- the blocks are consecutive pieces of the flow: nothing is lost, duplicated or reordered -/
theorem blocks_flatten (bs : Option Nat) (hbs : bs ≠ some 0) :
    ∀ (flow : List α), (blocks bs flow).flatten = flow := by
  intro flow
  generalize hn : flow.length = n
  induction n using Nat.strongRecOn generalizing flow with
  | _ n ih =>
    cases flow with
    | nil => simp
    | cons x xs =>
      obtain ⟨_, hbl⟩ := blocks_readBlock bs hbs (x :: xs) (by simp)
      have hlen := readBlock_length bs hbs (x :: xs) (by simp)
      rw [hbl, List.flatten_cons, ih _ (by omega) _ rfl]
      cases bs with
      | none => simp [readBlock]
      | some b => simp [readBlock]

/-- no block is empty, none is longer than `bufsize`, and all but the last have exactly
`bufsize` values -/
theorem blocks_sizes (b : Nat) (hb : 0 < b) :
    ∀ (flow : List α), (∀ blk ∈ blocks (some b) flow, blk ≠ [] ∧ blk.length ≤ b) ∧
      (∀ blk ∈ (blocks (some b) flow).dropLast, blk.length = b) := by
  intro flow
  generalize hn : flow.length = n
  induction n using Nat.strongRecOn generalizing flow with
  | _ n ih =>
    cases flow with
    | nil => simp
    | cons x xs =>
      rw [blocks_some_cons b hb]
      have hlen : ((x :: xs).drop b).length < n := by
        simp only [List.length_drop, List.length_cons] at hn ⊢; omega
      obtain ⟨i1, i2⟩ := ih _ hlen _ rfl
      refine ⟨?_, ?_⟩
      · intro blk hblk
        rcases List.mem_cons.mp hblk with rfl | h
        · refine ⟨?_, by simp [List.length_take]; omega⟩
          cases b with
          | zero => omega
          | succ b => simp
        · exact i1 blk h
      · intro blk hblk
        cases hd : blocks (some b) ((x :: xs).drop b) with
        | nil => simp [hd] at hblk
        | cons c cs =>
          rw [hd, List.dropLast_cons_cons] at hblk
          rcases List.mem_cons.mp hblk with rfl | h
          · have : (x :: xs).drop b ≠ [] := by
              intro h0
              rw [h0] at hd
              simp at hd
            have hl : b < (x :: xs).length := by
              false_or_by_contra
              exact this (List.drop_eq_nil_of_le (by omega))
            simp only [List.length_take, List.length_cons] at hl ⊢; omega
          · exact i2 blk (by rw [hd]; exact h)

/-- `bufsize=None` materialises the whole flow: one block, unless the flow is empty -/
theorem blocks_none (flow : List α) : blocks none flow = if flow = [] then [] else [flow] := by
  cases flow <;> simp [blocks]

/-- a `bufsize` that is at least the length of the (non-empty) flow gives one block: 1000 and
`None` make no difference for short flows -/
theorem blocks_large (b : Nat) (flow : List α) (h : flow.length ≤ b) (hne : flow ≠ []) :
    blocks (some b) flow = [flow] := by
  cases flow with
  | nil => exact absurd rfl hne
  | cons x xs =>
    have hb : 0 < b := by simp at h; omega
    rw [blocks_some_cons b hb, List.take_of_length_le h, List.drop_eq_nil_of_le h]
    simp

example : blocks (some 2) [1, 2, 3, 4, 5] = [[1, 2], [3, 4], [5]] := by decide
example : blocks (none) [1, 2, 3] = [[1, 2, 3]] := by decide
example : blocks (some 1000) ([] : List Nat) = [] := by decide

/-! ## 3. projection: what happens to one branch -/

/-- `mkBranches` numbers the branches by position, so the ids are distinct -/
theorem mkBranches_ids (l : List (Kind × Ops σ α × σ)) (start : Nat) :
    (mkBranches start l).map (·.id) = List.range' start l.length := by
  induction l generalizing start with
  | nil => rfl
  | cons x r ih =>
    obtain ⟨k, o, st⟩ := x
    simp [mkBranches, ih, List.range'_succ]

theorem mkBranches_nodup (l : List (Kind × Ops σ α × σ)) (start : Nat) :
    ((mkBranches start l).map (·.id)).Nodup := by
  rw [mkBranches_ids]
  exact List.nodup_range'

/-- PROJECTION: in a Split whose branches carry distinct tags, the events of branch `b` (its
invocations and the values yielded on its behalf), in order, are its own life over the blocks
of the flow — whatever the other branches are. -/
theorem projection (s : Split σ α) (hv : s.Valid) (hnd : (s.branches.map (·.id)).Nodup)
    (b : Branch σ α) (hb : b ∈ s.branches) (flow : List α) :
    proj b.id (s.runTrace flow) = branchTrace b (blocks s.bufsize flow) := by
  rw [run_eq_schedule s hv]
  unfold Split.schedule branchTrace
  generalize blocks s.bufsize flow = bl
  simp only [proj_append, proj_flatMap_range]
  congr 1
  · have h : ∀ k, proj b.id (s.branches.flatMap fun b' => contribution b' bl k) = contribution b bl k :=
      fun k => proj_flatMap_nodup _ s.branches (fun b' _ => contribution_branch b' bl k) hnd b hb
    simp only [h]
    unfold contribution
    rw [← life_length bl (some b)]
    exact flatMap_range_getD _
  · exact proj_flatMap_nodup _ s.branches (fun b' _ => finalContribution_branch b' bl) hnd b hb

/-- the life of a branch followed by its final contribution, from any starting point -/
def traceF (fwe : Bool) (o : Option (Branch σ α)) (bl : List (List α)) : List (Ev α) :=
  (life o bl).1.flatten ++ finalO fwe (life o bl).2

theorem branchTrace_eq_traceF (b : Branch σ α) (bl : List (List α)) :
    branchTrace b bl = traceF bl.isEmpty (some b) bl := rfl

theorem traceF_nil (fwe : Bool) (o : Option (Branch σ α)) : traceF fwe o [] = finalO fwe o := by
  simp [traceF, life]

theorem traceF_cons (fwe : Bool) (o : Option (Branch σ α)) (blk : List α) (rest : List (List α)) :
    traceF fwe o (blk :: rest) = (stepO blk o).1 ++ traceF fwe (stepO blk o).2 rest := by
  simp [traceF, life, List.append_assoc]

theorem traceF_none (fwe : Bool) (bl : List (List α)) :
    traceF fwe (none : Option (Branch σ α)) bl = [] := by
  induction bl with
  | nil => rfl
  | cons blk rest ih => rw [traceF_cons]; simpa [stepO] using ih

/-! ### a Source -/

/-- *"If a sequence is a Source, it doesn't accept the incoming flow, but produces its own
complete flow and becomes inactive (is not called any more)."*  For every flow, empty or not,
and every block structure: exactly one call, then its complete output. -/
theorem branchTrace_source (b : Branch σ α) (hk : b.kind = .source) (bl : List (List α)) :
    branchTrace b bl = .call b.id :: outs b.id (b.ops.call b.st).1 := by
  rw [branchTrace_eq_traceF]
  cases bl with
  | nil => simp [traceF_nil, finalO, finalOne, hk]
  | cons blk rest => simp [traceF_cons, stepO, stepBranch, hk, traceF_none]

/-- … *the first time it is reached*: in the first block (in the final pass iff there is no block) -/
theorem source_first_block (b : Branch σ α) (hk : b.kind = .source) (blk : List α) (rest : List (List α)) :
    contribution b (blk :: rest) 0 = .call b.id :: outs b.id (b.ops.call b.st).1 ∧
    (∀ k, contribution b (blk :: rest) (k + 1) = []) ∧
    finalContribution b (blk :: rest) = [] := by
  refine ⟨by simp [contribution, life, stepO, stepBranch, hk], ?_, ?_⟩
  · intro k
    simp only [contribution, life, stepO, stepBranch, hk, life_none, List.getElem?_cons_succ,
      List.getElem?_map]
    cases rest[k]? <;> rfl
  · simp [finalContribution, life, stepO, stepBranch, hk, life_none, finalO]

/-! ### a plain Sequence -/

theorem traceF_sequence (bl : List (List α)) :
    ∀ (b : Branch σ α), b.kind = .sequence → traceF false (some b) bl = seqTrace b.id b.ops b.st bl := by
  induction bl with
  | nil => intro b hk; simp [traceF_nil, finalO, finalOne, hk, seqTrace]
  | cons blk rest ih =>
    intro b hk
    rw [traceF_cons]
    simp only [stepO, stepBranch, hk, seqTrace]
    rw [ih _ rfl]

/-- *"A Sequence is called with run(buffer) instead of the whole flow.  The results are yielded
for each buffer (and also if the flow was empty)."* -/
theorem branchTrace_sequence (b : Branch σ α) (hk : b.kind = .sequence) (bl : List (List α)) :
    branchTrace b bl =
      if bl = [] then .run b.id [] :: outs b.id (b.ops.run b.st []).1
      else seqTrace b.id b.ops b.st bl := by
  rw [branchTrace_eq_traceF]
  cases bl with
  | nil => simp [traceF_nil, finalO, finalOne, hk]
  | cons blk rest => simpa using traceF_sequence (blk :: rest) b hk

/-! ### a fill/compute branch -/

theorem fillBuf_append (i : Nat) (ops : Ops σ α) (ys : List α) :
    ∀ (s : σ) (xs : List α), fillBuf i ops s (xs ++ ys) =
      if (fillBuf i ops s xs).2.2 then fillBuf i ops s xs
      else ((fillBuf i ops s xs).1 ++ (fillBuf i ops (fillBuf i ops s xs).2.1 ys).1,
            (fillBuf i ops (fillBuf i ops s xs).2.1 ys).2) := by
  intro s xs
  induction xs generalizing s with
  | nil => simp [fillBuf]
  | cons x xs ih =>
    obtain ⟨s', st, hf⟩ : ∃ s' st, ops.fill s x = (s', st) := ⟨_, _, rfl⟩
    cases st with
    | true => simp [List.cons_append, fillBuf_cons_stop i ops s s' x _ hf]
    | false =>
      rw [List.cons_append, fillBuf_cons_ok i ops s s' x _ hf, fillBuf_cons_ok i ops s s' x _ hf, ih s']
      split <;> simp_all

theorem traceF_fillCompute (fwe : Bool) (bl : List (List α)) :
    ∀ (b : Branch σ α), b.kind = .fillCompute → traceF fwe (some b) bl = fcTrace b bl.flatten := by
  induction bl with
  | nil => intro b hk; simp [traceF_nil, finalO, finalOne, hk, fcTrace, fillBuf]
  | cons blk rest ih =>
    intro b hk
    rw [traceF_cons]
    simp only [stepO, stepBranch, hk, List.flatten_cons, fcTrace, fillBuf_append]
    by_cases hst : (fillBuf b.id b.ops b.st blk).2.2 = true
    · simp [hst, traceF_none]
    · simp only [hst, Bool.false_eq_true, ↓reduceIte]
      rw [ih _ rfl]
      simp [fcTrace, List.append_assoc]

/-- *"A FillComputeSeq is filled with values from each buffer, but yields values from compute
only after the whole flow is finished"* — or at the block where it signalled `LenaStopFill`.
Whatever the blocks are, the branch sees: the values of the whole flow one by one until it
signals `LenaStopFill` (if it does), then one `compute()`. -/
theorem branchTrace_fillCompute (b : Branch σ α) (hk : b.kind = .fillCompute) (bl : List (List α)) :
    branchTrace b bl = fcTrace b bl.flatten := by
  rw [branchTrace_eq_traceF]
  exact traceF_fillCompute _ bl b hk

/-! ### a fill/request branch -/

theorem traceF_fillRequest (bl : List (List α)) :
    ∀ (b : Branch σ α), b.kind = .fillRequest → traceF false (some b) bl = frTrace b.id b.ops b.st bl := by
  induction bl with
  | nil => intro b hk; simp [traceF_nil, finalO, finalOne, hk, frTrace]
  | cons blk rest ih =>
    intro b hk
    rw [traceF_cons]
    simp only [stepO, stepBranch, hk, frTrace]
    by_cases hst : (fillBuf b.id b.ops b.st blk).2.2 = true
    · simp [hst, traceF_none]
    · simp only [hst, Bool.false_eq_true, ↓reduceIte]
      rw [ih _ rfl]

/-- *"A FillRequestSeq is filled with the buffer contents.  After the buffer is finished, it
yields all values from request()."*  On an empty flow: one `request()`. -/
theorem branchTrace_fillRequest (b : Branch σ α) (hk : b.kind = .fillRequest) (bl : List (List α)) :
    branchTrace b bl =
      if bl = [] then .request b.id :: outs b.id (b.ops.request b.st).1
      else frTrace b.id b.ops b.st bl := by
  rw [branchTrace_eq_traceF]
  cases bl with
  | nil => simp [traceF_nil, finalO, finalOne, hk]
  | cons blk rest => simpa using traceF_fillRequest (blk :: rest) b hk

/-- the four closed forms together (`closedForm` is what the driver executes) -/
theorem branchTrace_closedForm (b : Branch σ α) (bl : List (List α)) : branchTrace b bl = closedForm b bl := by
  unfold closedForm
  cases hk : b.kind with
  | source => exact branchTrace_source b hk bl
  | fillCompute => exact branchTrace_fillCompute b hk bl
  | fillRequest =>
    rw [branchTrace_fillRequest b hk bl]
    cases bl <;> simp
  | sequence =>
    rw [branchTrace_sequence b hk bl]
    cases bl <;> simp

/-! ## 4. LenaStopFill: finalised once, then dropped -/

/-- no `LenaStopFill` in this part of the trace -/
def NoStop (l : List (Ev α)) : Prop := ∀ e ∈ l, e.isStop = false

theorem NoStop.append {l₁ l₂ : List (Ev α)} (h₁ : NoStop l₁) (h₂ : NoStop l₂) : NoStop (l₁ ++ l₂) := by
  intro e he
  rcases List.mem_append.mp he with h | h
  · exact h₁ e h
  · exact h₂ e h

theorem noStop_outs (i : Nat) (vals : List α) : NoStop (outs i vals) := by
  intro e he
  simp only [outs, List.mem_map] at he
  obtain ⟨v, _, rfl⟩ := he
  rfl

theorem noStop_cons {e : Ev α} {l : List (Ev α)} (he : e.isStop = false) (hl : NoStop l) : NoStop (e :: l) := by
  intro e' h
  rcases List.mem_cons.mp h with rfl | h
  · exact he
  · exact hl e' h

/-- the fills of one buffer: no stop at all, or a run of accepted values ending with the one
that raised -/
theorem fillBuf_shape (i : Nat) (ops : Ops σ α) :
    ∀ (s : σ) (xs : List α),
      ((fillBuf i ops s xs).2.2 = false ∧ NoStop (fillBuf i ops s xs).1) ∨
      ((fillBuf i ops s xs).2.2 = true ∧ ∃ a x, NoStop a ∧ (fillBuf i ops s xs).1 = a ++ [.fill i x true]) := by
  intro s xs
  induction xs generalizing s with
  | nil => left; exact ⟨rfl, by intro e he; simp [fillBuf] at he⟩
  | cons x xs ih =>
    obtain ⟨s', st, hf⟩ : ∃ s' st, ops.fill s x = (s', st) := ⟨_, _, rfl⟩
    cases st with
    | true =>
      right
      rw [fillBuf_cons_stop i ops s s' x _ hf]
      exact ⟨rfl, [], x, by intro e he; simp at he, rfl⟩
    | false =>
      rw [fillBuf_cons_ok i ops s s' x _ hf]
      rcases ih s' with ⟨h1, h2⟩ | ⟨h1, a, y, ha, h2⟩
      · left; exact ⟨h1, noStop_cons rfl h2⟩
      · right
        refine ⟨h1, .fill i x false :: a, y, noStop_cons rfl ha, ?_⟩
        simp [h2]

/-- a stopping fill after a stop-free prefix is found in the rest -/
theorem nostop_prefix_split {A T pre post : List (Ev α)} {e : Ev α} (hA : NoStop A)
    (he : e.isStop = true) (h : A ++ T = pre ++ e :: post) : ∃ pre', pre = A ++ pre' ∧ T = pre' ++ e :: post := by
  induction A generalizing pre with
  | nil => exact ⟨pre, rfl, h⟩
  | cons a0 A' ih =>
    cases pre with
    | nil =>
      simp only [List.cons_append, List.nil_append, List.cons.injEq] at h
      have := hA a0 (List.mem_cons_self ..)
      rw [h.1, he] at this
      cases this
    | cons p pre'' =>
      simp only [List.cons_append, List.cons.injEq] at h
      obtain ⟨pre', h1, h2⟩ := ih (fun e he => hA e (List.mem_cons_of_mem _ he)) h.2
      exact ⟨pre', by rw [h.1, h1]; rfl, h2⟩

/-- the only stopping fill of `a ++ e :: c` (with `a`, `c` stop-free) is `e` -/
theorem stop_split_unique {a c pre post : List (Ev α)} {e e' : Ev α} (ha : NoStop a) (hc : NoStop c)
    (he' : e'.isStop = true) (h : a ++ e :: c = pre ++ e' :: post) : post = c := by
  obtain ⟨pre', _, h2⟩ := nostop_prefix_split ha he' h
  cases pre' with
  | nil => simp only [List.nil_append, List.cons.injEq] at h2; exact h2.2.symm
  | cons p q =>
    simp only [List.cons_append, List.cons.injEq] at h2
    have := hc e' (by rw [h2.2]; simp)
    rw [he'] at this
    cases this

theorem frTrace_stop (i : Nat) (ops : Ops σ α) (bl : List (List α)) :
    ∀ (s : σ) (pre post : List (Ev α)) (e : Ev α), e.isStop = true →
      frTrace i ops s bl = pre ++ e :: post → ∃ vals, post = .request i :: outs i vals := by
  induction bl with
  | nil => intro s pre post e _ h; cases pre <;> simp [frTrace] at h
  | cons blk rest ih =>
    intro s pre post e he h
    simp only [frTrace] at h
    rcases fillBuf_shape i ops s blk with ⟨h1, h2⟩ | ⟨h1, a, y, ha, h2⟩
    · simp only [h1, Bool.false_eq_true, ↓reduceIte] at h
      have hA : NoStop ((fillBuf i ops s blk).1 ++ .request i :: outs i (ops.request (fillBuf i ops s blk).2.1).1) :=
        h2.append (noStop_cons rfl (noStop_outs _ _))
      obtain ⟨pre', _, hT⟩ := nostop_prefix_split hA he h
      exact ih _ pre' post e he hT
    · simp only [h1, ↓reduceIte, h2, List.append_nil, List.append_assoc, List.cons_append,
        List.nil_append] at h
      exact ⟨_, stop_split_unique ha (noStop_cons rfl (noStop_outs _ _)) he h⟩

/-- *"a branch that signals LenaStopFill is finalised and dropped"*: whatever happened before,
after the `fill` that raised `LenaStopFill` the branch receives exactly one more call — its
`compute()` (fill/compute) or `request()` (fill/request) — whose results are yielded, and then
nothing: no further value, no second finalisation, in this block or any later one or the final
pass. -/
theorem stopfill_dropped_life (b : Branch σ α) (hk : b.kind = .fillCompute ∨ b.kind = .fillRequest)
    (bl : List (List α)) (pre post : List (Ev α)) (e : Ev α) (he : e.isStop = true)
    (h : branchTrace b bl = pre ++ e :: post) : ∃ vals, post = finaliser b :: outs b.id vals := by
  rcases hk with hk | hk
  · rw [branchTrace_fillCompute b hk, fcTrace] at h
    simp only [finaliser, hk]
    rcases fillBuf_shape b.id b.ops b.st bl.flatten with ⟨_, h2⟩ | ⟨_, a, y, ha, h2⟩
    · have hall : NoStop (pre ++ e :: post) := by
        rw [← h]; exact h2.append (noStop_cons rfl (noStop_outs _ _))
      have := hall e (by simp)
      rw [he] at this
      cases this
    · rw [h2, List.append_assoc] at h
      exact ⟨_, stop_split_unique ha (noStop_cons rfl (noStop_outs _ _)) he h⟩
  · rw [branchTrace_fillRequest b hk] at h
    simp only [finaliser, hk]
    split at h
    · have hall : NoStop (pre ++ e :: post) := by
        rw [← h]; exact noStop_cons rfl (noStop_outs _ _)
      have := hall e (by simp)
      rw [he] at this
      cases this
    · exact frTrace_stop _ _ bl _ pre post e he h

/-- the same, read off the trace of a whole `Split.run` -/
theorem stopfill_dropped (s : Split σ α) (hv : s.Valid) (hnd : (s.branches.map (·.id)).Nodup)
    (b : Branch σ α) (hb : b ∈ s.branches) (hk : b.kind = .fillCompute ∨ b.kind = .fillRequest)
    (flow : List α) (pre post : List (Ev α)) (x : α)
    (h : proj b.id (s.runTrace flow) = pre ++ .fill b.id x true :: post) :
    ∃ vals, post = finaliser b :: outs b.id vals := by
  rw [projection s hv hnd b hb] at h
  exact stopfill_dropped_life b hk _ pre post _ rfl h

/-! ## 5. the empty flow -/

/-- *"If the flow was empty, each call, compute, request or run is called nevertheless"*:
on an empty flow the trace is, branch by branch in branch order, exactly one invocation
followed by its results (for every `bufsize`, every `copy_buf`). -/
theorem empty_flow_once (s : Split σ α) :
    s.runTrace [] = s.branches.flatMap (fun b => invocationOf b :: outs b.id (resultOf b)) := by
  unfold Split.runTrace
  simp only [outerLoop, readBlock_nil, List.isEmpty_nil, ↓reduceIte,
    List.nil_append]
  rw [finalPass_eq_flatMap true s.branches (Or.inl rfl)]
  congr 1
  funext b
  unfold finalOne invocationOf resultOf
  cases b.kind <;> rfl

theorem invocationOf_isInvocation (b : Branch σ α) : (invocationOf b).isInvocation = true := by
  unfold invocationOf
  cases b.kind <;> rfl

/-- every branch is invoked exactly once on an empty flow -/
theorem empty_flow_invocations (s : Split σ α) (hnd : (s.branches.map (·.id)).Nodup)
    (b : Branch σ α) (hb : b ∈ s.branches) : invocations b.id (s.runTrace []) = [invocationOf b] := by
  rw [empty_flow_once]
  unfold invocations
  rw [proj_flatMap_nodup (fun b => invocationOf b :: outs b.id (resultOf b)) s.branches ?_ hnd b hb]
  · simp only [List.filter_cons, invocationOf_isInvocation, ↓reduceIte, List.cons.injEq, true_and]
    rw [List.filter_eq_nil_iff]
    intro e he
    simp only [outs, List.mem_map] at he
    obtain ⟨v, _, rfl⟩ := he
    simp [Ev.isInvocation]
  · intro c _ e he
    rcases List.mem_cons.mp he with rfl | he
    · unfold invocationOf; cases c.kind <;> rfl
    · exact outs_branch _ _ e he

/-! ## 6. consequences: independence of `bufsize`, the empty Split -/

/-- in a `Split.run`, a fill/compute branch sees the values of the whole flow one by one until it
signals `LenaStopFill`, then one `compute()` — the blocks do not appear in the statement -/
theorem projection_fillCompute (s : Split σ α) (hv : s.Valid) (hnd : (s.branches.map (·.id)).Nodup)
    (b : Branch σ α) (hb : b ∈ s.branches) (hk : b.kind = .fillCompute) (flow : List α) :
    proj b.id (s.runTrace flow) = fcTrace b flow := by
  rw [projection s hv hnd b hb, branchTrace_fillCompute b hk, blocks_flatten s.bufsize hv]

/-- *"the results of fill/compute branches … are independent of bufsize"*: for any two
`bufsize ∈ ℕ⁺ ∪ {None}` (and any `copy_buf`), everything that happens to a fill/compute branch —
the values it is filled with, its one `compute()`, the results yielded for it — is the same -/
theorem bufsize_independent_fc (brs : List (Branch σ α)) (hnd : (brs.map (·.id)).Nodup)
    (bs₁ bs₂ : Option Nat) (h₁ : bs₁ ≠ some 0) (h₂ : bs₂ ≠ some 0) (cb₁ cb₂ : Bool)
    (b : Branch σ α) (hb : b ∈ brs) (hk : b.kind = .fillCompute) (flow : List α) :
    proj b.id (({ branches := brs, bufsize := bs₁, copyBuf := cb₁ } : Split σ α).runTrace flow) =
      proj b.id (({ branches := brs, bufsize := bs₂, copyBuf := cb₂ } : Split σ α).runTrace flow) := by
  have e₁ := projection_fillCompute ({ branches := brs, bufsize := bs₁, copyBuf := cb₁ } : Split σ α) h₁ hnd b hb hk flow
  have e₂ := projection_fillCompute ({ branches := brs, bufsize := bs₂, copyBuf := cb₂ } : Split σ α) h₂ hnd b hb hk flow
  rw [e₁, e₂]

theorem outputs_append (l₁ l₂ : List (Ev α)) : outputs (l₁ ++ l₂) = outputs l₁ ++ outputs l₂ := by
  induction l₁ with
  | nil => rfl
  | cons e r ih => cases e <;> simp [outputs, ih]

theorem outputs_outs (i : Nat) (vals : List α) : outputs (outs i vals) = vals := by
  induction vals with
  | nil => rfl
  | cons v r ih => simp only [outs, List.map_cons, outputs] at ih ⊢; rw [ih]

/-- a `run` that works value by value (possibly with a state): running a concatenation is
running the parts one after the other, and running nothing yields nothing.  Every map, filter
and flat-map is of this kind (`streaming_of_perValue`). -/
structure Streaming (ops : Ops σ α) : Prop where
  run_nil : ∀ s, ops.run s [] = ([], s)
  run_append : ∀ s xs ys, ops.run s (xs ++ ys) =
    ((ops.run s xs).1 ++ (ops.run (ops.run s xs).2 ys).1, (ops.run (ops.run s xs).2 ys).2)

theorem streaming_of_perValue (ops : Ops σ α) (f : α → List α)
    (h : ∀ s xs, ops.run s xs = (xs.flatMap f, s)) : Streaming ops :=
  ⟨fun s => by simp [h], fun s xs ys => by simp [h]⟩

theorem outputs_seqTrace (i : Nat) (ops : Ops σ α) (hs : Streaming ops) (bl : List (List α)) :
    ∀ s, outputs (seqTrace i ops s bl) = (ops.run s bl.flatten).1 := by
  induction bl with
  | nil => intro s; simp [seqTrace, outputs, hs.run_nil]
  | cons blk rest ih =>
    intro s
    simp only [seqTrace, outputs, List.flatten_cons, hs.run_append, outputs_append, outputs_outs, ih]

/-- *"the results … of per-value (map/filter) branches are independent of bufsize"*: the values
yielded for a plain Sequence whose `run` is streaming are its `run` on the whole flow, for every
`bufsize ∈ ℕ⁺ ∪ {None}` -/
theorem projection_per_value (s : Split σ α) (hv : s.Valid) (hnd : (s.branches.map (·.id)).Nodup)
    (b : Branch σ α) (hb : b ∈ s.branches) (hk : b.kind = .sequence) (hs : Streaming b.ops)
    (flow : List α) : outputsOf b.id (s.runTrace flow) = (b.ops.run b.st flow).1 := by
  unfold outputsOf
  rw [projection s hv hnd b hb, branchTrace_sequence b hk]
  split
  · rename_i h
    have : flow = [] := by rw [← blocks_flatten s.bufsize hv flow, h]; rfl
    subst this
    simp [outputs, outputs_outs]
  · rw [outputs_seqTrace _ _ hs, blocks_flatten s.bufsize hv]

theorem bufsize_independent_per_value (brs : List (Branch σ α)) (hnd : (brs.map (·.id)).Nodup)
    (bs₁ bs₂ : Option Nat) (h₁ : bs₁ ≠ some 0) (h₂ : bs₂ ≠ some 0) (cb₁ cb₂ : Bool)
    (b : Branch σ α) (hb : b ∈ brs) (hk : b.kind = .sequence) (hs : Streaming b.ops) (flow : List α) :
    outputsOf b.id (({ branches := brs, bufsize := bs₁, copyBuf := cb₁ } : Split σ α).runTrace flow) =
      outputsOf b.id (({ branches := brs, bufsize := bs₂, copyBuf := cb₂ } : Split σ α).runTrace flow) := by
  have e₁ := projection_per_value ({ branches := brs, bufsize := bs₁, copyBuf := cb₁ } : Split σ α) h₁ hnd b hb hk hs flow
  have e₂ := projection_per_value ({ branches := brs, bufsize := bs₂, copyBuf := cb₂ } : Split σ α) h₂ hnd b hb hk hs flow
  rw [e₁, e₂]

/-- *"an empty Split is the identity"* -/
theorem empty_split_id (s : Split σ α) (h : s.branches = []) (flow : List α) : s.run flow = flow := by
  unfold Split.run
  simp only [h, List.isEmpty_nil, ↓reduceIte]
  induction flow with
  | nil => rfl
  | cons v r ih => simp [emptyRun, ih]

/-! ## 7. a Split whose branches share one type offers that type's methods -/

theorem allKind_iff (k : Kind) (kinds : List Kind) :
    allKind k kinds = true ↔ kinds ≠ [] ∧ ∀ k' ∈ kinds, k' = k := by
  unfold allKind
  cases kinds with
  | nil => simp
  | cons a r => simp

/-- which methods exist: `fill`+`compute` iff all branches are fill/compute, `fill`+`request` iff
all are fill/request, `__call__` works iff all are Sources (at least one branch in each case);
`run` is the identity `_empty_run` iff there is no branch -/
theorem methods_available (kinds : List Kind) :
    ((methodsOf kinds).compute = true ↔ kinds ≠ [] ∧ ∀ k ∈ kinds, k = .fillCompute) ∧
    ((methodsOf kinds).request = true ↔ kinds ≠ [] ∧ ∀ k ∈ kinds, k = .fillRequest) ∧
    ((methodsOf kinds).fill = true ↔ (methodsOf kinds).compute = true ∨ (methodsOf kinds).request = true) ∧
    ((methodsOf kinds).callable = true ↔ kinds ≠ [] ∧ ∀ k ∈ kinds, k = .source) ∧
    ((methodsOf kinds).emptyRun = true ↔ kinds = []) := by
  refine ⟨allKind_iff _ _, allKind_iff _ _, ?_, allKind_iff _ _, ?_⟩
  · simp [methodsOf]
  · simp [methodsOf]

/-- `__call__` raises `LenaAttributeError` unless every branch is a Source -/
theorem call_available (s : Split σ α) :
    (s.call = .error .lenaAttributeError ∨ s.call = .ok (splitCallLoop s.branches)) ∧
    (s.call = .ok (splitCallLoop s.branches) ↔ s.branches ≠ [] ∧ ∀ b ∈ s.branches, b.kind = .source) := by
  unfold Split.call
  have h := (methods_available (s.branches.map (·.kind))).2.2.2.1
  by_cases hc : (methodsOf (s.branches.map (·.kind))).callable = true
  · simp only [hc, ↓reduceIte, true_iff, or_true, true_and]
    have := h.mp hc
    simpa using this
  · simp only [hc, Bool.false_eq_true, ↓reduceIte, true_or, true_and, reduceCtorEq, false_iff]
    intro hh
    apply hc
    apply h.mpr
    simpa using hh

theorem outputs_flatMap {β : Type} (l : List β) (f : β → List (Ev α)) :
    outputs (l.flatMap f) = l.flatMap (fun b => outputs (f b)) := by
  induction l with
  | nil => rfl
  | cons b r ih => simp [outputs_append, ih]

theorem passes_nil_act (bl : List (List α)) : passes bl ([] : List (Branch σ α)) = ([], []) := by
  induction bl with
  | nil => rfl
  | cons blk rest ih => simp [passes, foldB, ih]

theorem splitCallLoop_fst (brs : List (Branch σ α)) :
    (splitCallLoop brs).1 = brs.flatMap (fun b => (b.ops.call b.st).1) := by
  induction brs with
  | nil => rfl
  | cons b r ih => simp [splitCallLoop, ih]

theorem splitCompute_fst (brs : List (Branch σ α)) :
    (splitCompute brs).1 = brs.flatMap (fun b => (b.ops.compute b.st).1) := by
  induction brs with
  | nil => rfl
  | cons b r ih => simp [splitCompute, ih]

/-- ALL SOURCES: `split.run(flow)` yields, for every flow (empty or not) and every `bufsize`,
what `split()` yields — the complete outputs of the Sources one after the other
(*"bufsize makes no difference, because these are Sources"*) -/
theorem common_type_source (s : Split σ α) (hv : s.Valid)
    (hall : ∀ b ∈ s.branches, b.kind = .source) (flow : List α) :
    outputs (s.runTrace flow) = (splitCallLoop s.branches).1 := by
  rw [loop_refines_spec s hv, splitCallLoop_fst]
  unfold Split.runSpec
  have key : outputs (s.branches.flatMap (fun b => Ev.call b.id :: outs b.id (b.ops.call b.st).1)) =
      s.branches.flatMap (fun b => (b.ops.call b.st).1) := by
    rw [outputs_flatMap]
    congr 1
    funext b
    simp [outputs, outputs_outs]
  cases hbl : blocks s.bufsize flow with
  | nil =>
    simp only [passes, List.nil_append, List.isEmpty_nil]
    rw [finalPass_eq_flatMap true _ (Or.inl rfl), ← key]
    congr 1
    apply flatMap_congr'
    intro b hb
    simp [finalOne, hall b hb]
  | cons blk rest =>
    have h1 : (foldB (stepBranch blk) s.branches).1 =
        s.branches.flatMap (fun b => Ev.call b.id :: outs b.id (b.ops.call b.st).1) := by
      rw [foldB_fst]
      apply flatMap_congr'
      intro b hb
      simp [stepBranch, hall b hb]
    have h2 : (foldB (stepBranch blk) s.branches).2 = [] := by
      rw [foldB_snd, List.filterMap_eq_nil_iff]
      intro b hb
      simp [stepBranch, hall b hb]
    simp only [passes, h1, h2, passes_nil_act, List.append_nil, finalPass, key]

/-! ### fill / compute -/

theorem fillBuf_snd_id (i j : Nat) (ops : Ops σ α) :
    ∀ (s : σ) (xs : List α), (fillBuf i ops s xs).2 = (fillBuf j ops s xs).2 := by
  intro s xs
  induction xs generalizing s with
  | nil => rfl
  | cons x xs ih =>
    obtain ⟨s', st, hf⟩ : ∃ s' st, ops.fill s x = (s', st) := ⟨_, _, rfl⟩
    cases st with
    | true => rw [fillBuf_cons_stop i ops s s' x _ hf, fillBuf_cons_stop j ops s s' x _ hf]
    | false => rw [fillBuf_cons_ok i ops s s' x _ hf, fillBuf_cons_ok j ops s s' x _ hf]; exact ih s'

/-- branch `b` accepts every value of `xs` (no `LenaStopFill`) -/
def Accepts (b : Branch σ α) (xs : List α) : Prop := (fillBuf b.id b.ops b.st xs).2.2 = false

theorem accepts_cons (b : Branch σ α) (x : α) (xs : List α) :
    Accepts b (x :: xs) ↔ (b.ops.fill b.st x).2 = false ∧ Accepts (filled b [x]) xs := by
  unfold Accepts filled
  obtain ⟨s', st, hf⟩ : ∃ s' st, b.ops.fill b.st x = (s', st) := ⟨_, _, rfl⟩
  cases st with
  | true => rw [fillBuf_cons_stop _ _ _ s' _ _ hf]; simp [hf]
  | false =>
    rw [fillBuf_cons_ok _ _ _ s' _ _ hf, fillBuf_cons_ok _ _ _ s' _ _ hf]
    simp [hf, fillBuf]

theorem filled_cons (b : Branch σ α) (x : α) (xs : List α) (h : (b.ops.fill b.st x).2 = false) :
    filled b (x :: xs) = filled (filled b [x]) xs := by
  unfold filled
  obtain ⟨s', st, hf⟩ : ∃ s' st, b.ops.fill b.st x = (s', st) := ⟨_, _, rfl⟩
  cases st with
  | true => simp [hf] at h
  | false =>
    rw [fillBuf_cons_ok _ _ _ s' _ _ hf, fillBuf_cons_ok _ _ _ s' _ _ hf]
    simp [fillBuf]

theorem filled_one (b : Branch σ α) (x : α) (h : (b.ops.fill b.st x).2 = false) :
    filled b [x] = { b with st := (b.ops.fill b.st x).1 } := by
  unfold filled
  obtain ⟨s', st, hf⟩ : ∃ s' st, b.ops.fill b.st x = (s', st) := ⟨_, _, rfl⟩
  cases st with
  | true => simp [hf] at h
  | false =>
    rw [fillBuf_cons_ok _ _ _ s' _ _ hf]
    simp [fillBuf, hf]

theorem filled_nil (b : Branch σ α) : filled b [] = b := rfl

theorem accepts_append (b : Branch σ α) (xs ys : List α) :
    Accepts b (xs ++ ys) ↔ Accepts b xs ∧ Accepts (filled b xs) ys := by
  unfold Accepts filled
  rw [fillBuf_append]
  by_cases h : (fillBuf b.id b.ops b.st xs).2.2 = true
  · simp [h]
  · simp [h]

theorem filled_append (b : Branch σ α) (xs ys : List α) (h : Accepts b xs) :
    filled b (xs ++ ys) = filled (filled b xs) ys := by
  unfold Accepts at h
  unfold filled
  rw [fillBuf_append]
  simp [h]

/-- `Split._fill(x)` when every branch accepts `x` -/
theorem splitFill_iff (x : α) (brs : List (Branch σ α)) :
    ((splitFill x brs).2 = false ↔ ∀ b ∈ brs, (b.ops.fill b.st x).2 = false) ∧
    ((splitFill x brs).2 = false → (splitFill x brs).1 = brs.map (fun b => filled b [x])) := by
  induction brs with
  | nil => simp [splitFill]
  | cons b r ih =>
    obtain ⟨s', st, hf⟩ : ∃ s' st, b.ops.fill b.st x = (s', st) := ⟨_, _, rfl⟩
    cases st with
    | true => simp [splitFill, hf]
    | false =>
      have hb : filled b [x] = { b with st := s' } := by rw [filled_one b x (by simp [hf]), hf]
      simp only [splitFill, hf, List.mem_cons, forall_eq_or_imp, true_and, List.map_cons, hb]
      refine ⟨ih.1, fun h => ?_⟩
      rw [ih.2 h]

/-- filling value by value through the common `fill` meets no `LenaStopFill` iff every branch
accepts the whole flow; then every branch has been filled with the whole flow -/
theorem splitFillAll_iff (xs : List α) :
    ∀ (brs : List (Branch σ α)),
      ((splitFillAll brs xs).2 = false ↔ ∀ b ∈ brs, Accepts b xs) ∧
      ((splitFillAll brs xs).2 = false → (splitFillAll brs xs).1 = brs.map (fun b => filled b xs)) := by
  induction xs with
  | nil => intro brs; simp [splitFillAll, Accepts, fillBuf, filled]
  | cons x xs ih =>
    intro brs
    obtain ⟨f1, f2⟩ := splitFill_iff x brs
    unfold splitFillAll
    cases hs : splitFill x brs with
    | mk brs' st =>
      cases st with
      | true =>
        simp only [Bool.true_eq_false, false_iff, false_imp_iff, and_true]
        intro hall
        have : (splitFill x brs).2 = false := f1.mpr (fun b hb => ((accepts_cons b x xs).mp (hall b hb)).1)
        rw [hs] at this
        cases this
      | false =>
        have hfalse : (splitFill x brs).2 = false := by rw [hs]
        have hbrs' : brs' = brs.map (fun b => filled b [x]) := by rw [← f2 hfalse, hs]
        have hx := f1.mp hfalse
        obtain ⟨i1, i2⟩ := ih brs'
        simp only
        constructor
        · rw [i1, hbrs']
          simp only [List.mem_map, forall_exists_index, and_imp, forall_apply_eq_imp_iff₂]
          constructor
          · intro h b hb
            exact (accepts_cons b x xs).mpr ⟨hx b hb, h b hb⟩
          · intro h b hb
            exact ((accepts_cons b x xs).mp (h b hb)).2
        · intro h
          rw [i2 h, hbrs', List.map_map]
          apply List.map_congr_left
          intro b hb
          simp only [Function.comp]
          rw [filled_cons b x xs (hx b hb)]

theorem outputs_fillBuf (i : Nat) (ops : Ops σ α) :
    ∀ (s : σ) (xs : List α), outputs (fillBuf i ops s xs).1 = [] := by
  intro s xs
  induction xs generalizing s with
  | nil => rfl
  | cons x xs ih =>
    obtain ⟨s', st, hf⟩ : ∃ s' st, ops.fill s x = (s', st) := ⟨_, _, rfl⟩
    cases st with
    | true => rw [fillBuf_cons_stop i ops s s' x _ hf]; rfl
    | false => rw [fillBuf_cons_ok i ops s s' x _ hf]; simpa [outputs] using ih s'

/-- all branches fill/compute and accepting: over the blocks they are only filled -/
theorem passes_fc (bl : List (List α)) :
    ∀ (act : List (Branch σ α)), (∀ b ∈ act, b.kind = .fillCompute) → (∀ b ∈ act, Accepts b bl.flatten) →
      outputs (passes bl act).1 = [] ∧ (passes bl act).2 = act.map (fun b => filled b bl.flatten) := by
  induction bl with
  | nil => intro act _ _; simp [passes, outputs, filled_nil]
  | cons blk rest ih =>
    intro act hk hacc
    have hacc' : ∀ b ∈ act, Accepts b blk ∧ Accepts (filled b blk) rest.flatten :=
      fun b hb => (accepts_append b blk rest.flatten).mp (by simpa using hacc b hb)
    have h1 : (foldB (stepBranch blk) act).1 = act.flatMap (fun b => (fillBuf b.id b.ops b.st blk).1) := by
      rw [foldB_fst]
      apply flatMap_congr'
      intro b hb
      have := (hacc' b hb).1
      unfold Accepts at this
      simp [stepBranch, hk b hb, this]
    have h2 : (foldB (stepBranch blk) act).2 = act.map (fun b => filled b blk) := by
      rw [foldB_snd]
      apply filterMap_eq_map'
      intro b hb
      have := (hacc' b hb).1
      unfold Accepts at this
      simp [stepBranch, hk b hb, this, filled]
    obtain ⟨i1, i2⟩ := ih (act.map (fun b => filled b blk))
      (by intro b hb; simp only [List.mem_map] at hb; obtain ⟨c, hc, rfl⟩ := hb; exact hk c hc)
      (by intro b hb; simp only [List.mem_map] at hb; obtain ⟨c, hc, rfl⟩ := hb; exact (hacc' c hc).2)
    simp only [passes, h1, h2, outputs_append, i1, i2, List.append_nil, List.map_map, List.flatten_cons]
    constructor
    · rw [outputs_flatMap]
      simp [outputs_fillBuf]
    · apply List.map_congr_left
      intro b hb
      simp only [Function.comp]
      rw [filled_append b blk rest.flatten (hacc' b hb).1]

/-- ALL FILL/COMPUTE: used through its common methods — `fill` every value of the flow (no
branch signals `LenaStopFill`), then `compute()` — the Split yields what `run(flow)` yields, for
every `bufsize`: *"fill fills all its subsequences, and compute yields values from all sequences
in turn"*, with the same meaning as `run`. -/
theorem common_type_fill_compute (s : Split σ α) (hv : s.Valid)
    (hall : ∀ b ∈ s.branches, b.kind = .fillCompute) (flow : List α)
    (hok : (splitFillAll s.branches flow).2 = false) :
    outputs (s.runTrace flow) = (splitCompute (splitFillAll s.branches flow).1).1 := by
  obtain ⟨f1, f2⟩ := splitFillAll_iff flow s.branches
  rw [loop_refines_spec s hv, f2 hok, splitCompute_fst]
  unfold Split.runSpec
  have hacc : ∀ b ∈ s.branches, Accepts b (blocks s.bufsize flow).flatten := by
    rw [blocks_flatten s.bufsize hv]; exact f1.mp hok
  obtain ⟨p1, p2⟩ := passes_fc (blocks s.bufsize flow) s.branches hall hacc
  rw [outputs_append, p1, p2, blocks_flatten s.bufsize hv, List.nil_append, finalPass_eq_flatMap]
  · rw [outputs_flatMap]
    apply flatMap_congr'
    intro b hb
    simp only [List.mem_map] at hb
    obtain ⟨c, hc, rfl⟩ := hb
    simp [finalOne, filled, hall c hc, outputs, outputs_outs]
  · right
    intro b hb
    simp only [List.mem_map] at hb
    obtain ⟨c, hc, rfl⟩ := hb
    simp [filled, hall c hc]

/-! ### fill / request -/

theorem splitRequest_fst (brs : List (Branch σ α)) :
    (splitRequest brs).1 = brs.flatMap (fun b => (b.ops.request b.st).1) := by
  induction brs with
  | nil => rfl
  | cons b r ih => simp [splitRequest, ih]

theorem splitRequest_snd (brs : List (Branch σ α)) :
    (splitRequest brs).2 = brs.map (fun b => { b with st := (b.ops.request b.st).2 }) := by
  induction brs with
  | nil => rfl
  | cons b r ih => simp [splitRequest, ih]

/-- one block over accepting fill/request branches = `fill` every value through the common
`fill`, then the common `request()` -/
theorem pass_fr (blk : List α) (act : List (Branch σ α)) (hk : ∀ b ∈ act, b.kind = .fillRequest)
    (hacc : ∀ b ∈ act, Accepts b blk) :
    outputs (foldB (stepBranch blk) act).1 = (splitRequest (act.map (fun b => filled b blk))).1 ∧
    (foldB (stepBranch blk) act).2 = (splitRequest (act.map (fun b => filled b blk))).2 := by
  rw [foldB_fst, foldB_snd, splitRequest_fst, splitRequest_snd, outputs_flatMap, List.flatMap_map,
    List.map_map]
  constructor
  · apply flatMap_congr'
    intro b hb
    have := hacc b hb
    unfold Accepts at this
    simp [stepBranch, hk b hb, outputs_append, outputs_fillBuf, outputs, outputs_outs, filled]
  · apply filterMap_eq_map'
    intro b hb
    have := hacc b hb
    unfold Accepts at this
    simp [stepBranch, hk b hb, this, filled]

theorem passes_fr (bl : List (List α)) :
    ∀ (act : List (Branch σ α)), (∀ b ∈ act, b.kind = .fillRequest) → (splitFrBlocks act bl).2 = false →
      outputs (passes bl act).1 = (splitFrBlocks act bl).1.flatten ∧
      ∀ b ∈ (passes bl act).2, b.kind = .fillRequest := by
  induction bl with
  | nil => intro act hk _; exact ⟨rfl, hk⟩
  | cons blk rest ih =>
    intro act hk hok
    obtain ⟨f1, f2⟩ := splitFillAll_iff blk act
    unfold splitFrBlocks at hok ⊢
    cases hs : splitFillAll act blk with
    | mk brs' st =>
      cases st with
      | true => simp [hs] at hok
      | false =>
        have hfalse : (splitFillAll act blk).2 = false := by rw [hs]
        have hbrs' : brs' = act.map (fun b => filled b blk) := by rw [← f2 hfalse, hs]
        obtain ⟨p1, p2⟩ := pass_fr blk act hk (f1.mp hfalse)
        simp only [hs] at hok ⊢
        rw [hbrs'] at hok ⊢
        have hk' : ∀ b ∈ (splitRequest (act.map (fun b => filled b blk))).2, b.kind = .fillRequest := by
          rw [splitRequest_snd]
          intro b hb
          simp only [List.mem_map] at hb
          obtain ⟨c, ⟨d, hd, rfl⟩, rfl⟩ := hb
          simp [filled, hk d hd]
        obtain ⟨i1, i2⟩ := ih _ hk' hok
        simp only [passes, outputs_append, p1, p2, i1, List.flatten_cons]
        exact ⟨trivial, i2⟩

theorem finalPass_fr_nonempty (act : List (Branch σ α)) (hk : ∀ b ∈ act, b.kind = .fillRequest) :
    finalPass false act = [] := by
  induction act with
  | nil => rfl
  | cons b r ih =>
    simp [finalPass, hk b (List.mem_cons_self ..), ih (fun c hc => hk c (List.mem_cons_of_mem _ hc))]

/-- ALL FILL/REQUEST: `run(flow)` yields what the Split yields when it is used through its
common methods as `Split.run` itself uses a fill/request element — block by block `fill` every
value, then `request()` (no branch signalling `LenaStopFill`); on an empty flow, one `request()`. -/
theorem common_type_fill_request (s : Split σ α) (hv : s.Valid)
    (hall : ∀ b ∈ s.branches, b.kind = .fillRequest) (flow : List α)
    (hok : (splitFrBlocks s.branches (blocks s.bufsize flow)).2 = false) :
    outputs (s.runTrace flow) =
      if flow = [] then (splitRequest s.branches).1
      else (splitFrBlocks s.branches (blocks s.bufsize flow)).1.flatten := by
  rw [loop_refines_spec s hv]
  unfold Split.runSpec
  obtain ⟨p1, p2⟩ := passes_fr (blocks s.bufsize flow) s.branches hall hok
  rw [outputs_append, p1]
  cases flow with
  | nil =>
    simp only [blocks_nil, splitFrBlocks, List.flatten_nil, List.nil_append, ↓reduceIte, passes,
      List.isEmpty_nil]
    rw [finalPass_eq_flatMap true _ (Or.inl rfl), outputs_flatMap, splitRequest_fst]
    apply flatMap_congr'
    intro b hb
    simp [finalOne, hall b hb, outputs, outputs_outs]
  | cons x xs =>
    obtain ⟨_, hbl⟩ := blocks_readBlock s.bufsize hv (x :: xs) (by simp)
    have hne : (blocks s.bufsize (x :: xs)).isEmpty = false := by rw [hbl]; rfl
    rw [hne, finalPass_fr_nonempty _ p2]
    simp [outputs]

/-! ## 8. Zip: tuples of the i-th results, up to the shortest -/

/-- `colAt` is defined exactly up to the shortest result list -/
theorem colAt_eq_none_iff (i : Nat) (rs : List (List α)) :
    colAt i rs = none ↔ ∃ r ∈ rs, r.length ≤ i := by
  induction rs with
  | nil => simp [colAt]
  | cons r rest ih =>
    simp only [colAt, List.mem_cons, exists_eq_or_imp]
    cases h1 : r[i]? with
    | none =>
      simp only [true_iff]
      left
      exact List.getElem?_eq_none_iff.mp h1
    | some v =>
      have hlt : ¬ r.length ≤ i := by
        intro h
        rw [List.getElem?_eq_none_iff.mpr h] at h1
        cases h1
      cases h2 : colAt i rest with
      | none => simp only [true_iff]; right; exact ih.mp h2
      | some vs =>
        simp only [reduceCtorEq, false_iff, not_or, hlt, not_false_eq_true, true_and]
        intro h
        rw [ih.mpr h] at h2
        cases h2

/-- … and then it is the tuple of the `i`-th results, in the order of the sequences -/
theorem colAt_eq_some (i : Nat) (rs : List (List α)) (vs : List α) (h : colAt i rs = some vs) :
    vs = rs.filterMap (·[i]?) ∧ vs.length = rs.length := by
  induction rs generalizing vs with
  | nil => simp [colAt] at h; subst h; simp
  | cons r rest ih =>
    simp only [colAt] at h
    cases h1 : r[i]? with
    | none => simp [h1] at h
    | some v =>
      cases h2 : colAt i rest with
      | none => simp [h1, h2] at h
      | some ws =>
        simp only [h1, h2, Option.some.injEq] at h
        subst h
        obtain ⟨e1, e2⟩ := ih ws h2
        simp [h1, ← e1, e2]

theorem zipRound_none (rs : List (List α)) (h : zipRound rs = none) : ∀ i, colAt i rs = none := by
  induction rs with
  | nil => simp [zipRound] at h
  | cons r rest ih =>
    intro i
    cases r with
    | nil => simp [colAt]
    | cons v r' =>
      simp only [zipRound] at h
      cases h2 : zipRound rest with
      | none =>
        simp only [colAt, ih h2 i]
        cases (v :: r')[i]? <;> rfl
      | some p => simp [h2] at h

theorem zipRound_some (rs : List (List α)) (vs : List α) (ts : List (List α))
    (h : zipRound rs = some (vs, ts)) :
    colAt 0 rs = some vs ∧ (∀ i, colAt (i + 1) rs = colAt i ts) ∧
      (∀ r rest, rs = r :: rest → ∃ t trest, ts = t :: trest ∧ t.length + 1 = r.length) := by
  induction rs generalizing vs ts with
  | nil =>
    simp only [zipRound, Option.some.injEq, Prod.mk.injEq] at h
    obtain ⟨rfl, rfl⟩ := h
    exact ⟨rfl, fun _ => rfl, fun _ _ h => by cases h⟩
  | cons r rest ih =>
    cases r with
    | nil => simp [zipRound] at h
    | cons v r' =>
      simp only [zipRound] at h
      cases h2 : zipRound rest with
      | none => simp [h2] at h
      | some p =>
        obtain ⟨ws, us⟩ := p
        simp only [h2, Option.some.injEq, Prod.mk.injEq] at h
        obtain ⟨rfl, rfl⟩ := h
        obtain ⟨i1, i2, _⟩ := ih ws us h2
        refine ⟨by simp [colAt, i1], fun i => by simp [colAt, i2 i], ?_⟩
        intro r rest' hr
        cases hr
        exact ⟨r', us, rfl, rfl⟩

theorem zipYieldFuel_getElem? :
    ∀ (fuel : Nat) (r : List α) (rest : List (List α)), r.length < fuel →
      ∀ i, (zipYieldFuel fuel (r :: rest))[i]? = colAt i (r :: rest) := by
  intro fuel
  induction fuel with
  | zero => intro r rest h; omega
  | succ fuel ih =>
    intro r rest h i
    simp only [zipYieldFuel]
    cases hz : zipRound (r :: rest) with
    | none => simp [zipRound_none _ hz i]
    | some p =>
      obtain ⟨vs, ts⟩ := p
      obtain ⟨z1, z2, z3⟩ := zipRound_some _ vs ts hz
      obtain ⟨t, trest, rfl, hlen⟩ := z3 r rest rfl
      cases i with
      | zero => simp [z1]
      | succ i =>
        simp only [List.getElem?_cons_succ]
        rw [z2 i]
        exact ih t trest (by omega) i

/-- `Zip._yield`: the `i`-th value yielded is the tuple of the `i`-th results of all sequences,
and there are as many as the shortest result list has (`colAt_eq_none_iff`, `colAt_eq_some`) -/
theorem zip_yield_ith (rs : List (List α)) (hne : rs ≠ []) (i : Nat) :
    (zipYield rs)[i]? = colAt i rs := by
  cases rs with
  | nil => exact absurd rfl hne
  | cons r rest => exact zipYieldFuel_getElem? (r.length + 1) r rest (by omega) i

theorem zipCollect_eq (get : Ops σ α → σ → List α × σ) (brs : List (Branch σ α)) :
    zipCollect get brs = brs.map (fun b => (get b.ops b.st).1) := by
  induction brs with
  | nil => rfl
  | cons b r ih => simp [zipCollect, ih]

/-- *"a Zip of such branches yields the tuples of their i-th results"* (fill/compute branches;
the same with `request` for fill/request branches) -/
theorem zip_ith (brs : List (Branch σ α)) (hne : brs ≠ []) (i : Nat) :
    (zipCompute brs)[i]? = colAt i (brs.map (fun b => (b.ops.compute b.st).1)) ∧
    (zipRequest brs)[i]? = colAt i (brs.map (fun b => (b.ops.request b.st).1)) := by
  unfold zipCompute zipRequest
  rw [zipCollect_eq, zipCollect_eq]
  have h1 : brs.map (fun b => (b.ops.compute b.st).1) ≠ [] := by cases brs <;> simp_all
  have h2 : brs.map (fun b => (b.ops.request b.st).1) ≠ [] := by cases brs <;> simp_all
  exact ⟨zip_yield_ith _ h1 i, zip_yield_ith _ h2 i⟩

example : zipYield [[1, 2, 3], [10, 20], [100, 200, 300]] = [[1, 10, 100], [2, 20, 200]] := by decide

/-! ## 9. construction: classification of the arguments, argument checks -/

/-- *"Source is not checked, because it must be Source explicitly"*: nothing but a `Source` is
classified as a source -/
theorem classify_source_iff (ok : Bool) (o : Obj) : classify ok o = .ok .source ↔ o = .source := by
  cases o with
  | source => simp [classify]
  | fcSeq => simp [classify]
  | frSeq => simp [classify]
  | seq => simp [classify]
  | el c =>
    simp only [classify, reduceCtorEq, iff_false]
    split <;> (try split) <;> (try split) <;> simp
  | tuple els =>
    simp only [classify, reduceCtorEq, iff_false]
    repeat' split
    all_goals simp
  | list els =>
    simp only [classify, reduceCtorEq, iff_false]
    repeat' split
    all_goals simp

/-- the explicit sequence types keep their type -/
theorem classify_explicit (ok : Bool) :
    classify ok .source = .ok .source ∧ classify ok .fcSeq = .ok .fillCompute ∧
    classify ok .frSeq = .ok .fillRequest ∧ classify ok .seq = .ok .sequence := ⟨rfl, rfl, rfl, rfl⟩

/-- a single element: fill/compute wins over fill/request, which wins over a Run element /
callable; anything else is rejected with `LenaTypeError` -/
theorem classify_el (ok : Bool) (c : ElCaps) :
    classify ok (.el c) =
      if c.fill && c.compute then .ok .fillCompute
      else if c.fill && c.request then .ok .fillRequest
      else if c.run || c.call then .ok .sequence
      else .error .lenaTypeError := by
  simp only [classify, ElCaps.isFC, ElCaps.isFR, ElCaps.runnable]
  by_cases h : (c.fill && c.compute) = true <;> simp [h]

/-- a tuple that contains a fill/compute element is a fill/compute branch or an error — never
a fill/request branch or a plain Sequence -/
theorem classify_tuple_fc (ok : Bool) (els : List ElCaps) (h : els.any ElCaps.isFC = true) :
    classify ok (.tuple els) = .ok .fillCompute ∨ classify ok (.tuple els) = .error .lenaTypeError := by
  simp only [classify, h, ↓reduceIte]
  split <;> simp

/-- `seqs` must be a list -/
theorem splitInit_not_list (objs : List Obj) (bs : Option Int) :
    splitInit false objs bs = .error .lenaTypeError := rfl

/-- a `bufsize` that is not `None` or a natural number is rejected; a Split that was
constructed has a valid `bufsize` (the hypothesis `Split.Valid` of the theorems above) -/
theorem splitInit_valid (isList : Bool) (objs : List Obj) (bs : Option Int) (kinds : List Kind)
    (b : Option Nat) (h : splitInit isList objs bs = .ok (kinds, b)) :
    b ≠ some 0 ∧ (∀ n, bs = some n → 1 ≤ n ∧ b = some n.toNat) ∧ (bs = none → b = none) := by
  unfold splitInit at h
  cases isList with
  | false => simp at h
  | true =>
    simp only [Bool.not_true, Bool.false_eq_true, ↓reduceIte] at h
    split at h
    · cases h
    · cases bs with
      | none =>
        simp only [Except.ok.injEq, Prod.mk.injEq] at h
        obtain ⟨_, rfl⟩ := h
        simp
      | some n =>
        simp only at h
        split at h
        · cases h
        · simp only [Except.ok.injEq, Prod.mk.injEq] at h
          obtain ⟨_, rfl⟩ := h
          rename_i hn
          refine ⟨?_, ?_, by simp⟩
          · simp only [ne_eq, Option.some.injEq]; omega
          · intro m hm; cases hm; exact ⟨by omega, rfl⟩

theorem splitInit_bad_bufsize (isList : Bool) (objs : List Obj) (n : Int) (hn : n < 1) :
    ∃ e, splitInit isList objs (some n) = .error e := by
  unfold splitInit
  cases isList with
  | false => exact ⟨_, rfl⟩
  | true =>
    simp only [Bool.not_true, Bool.false_eq_true, ↓reduceIte]
    split
    · exact ⟨_, rfl⟩
    · simp [hn]

/-- `Zip` needs at least one sequence, one common type, and that type must be fill/compute or
fill/request -/
theorem zipInit_ok_iff (objs : List Obj) (t : ZipType) :
    zipInit objs = .ok t ↔ ∃ kinds, classifyAll true objs = .ok kinds ∧ kinds ≠ [] ∧
      ∀ k ∈ kinds, k = (match t with
        | .fillCompute => Kind.fillCompute
        | .fillRequest => Kind.fillRequest) := by
  unfold zipInit
  cases objs with
  | nil =>
    simp only [List.isEmpty_nil, ↓reduceIte, reduceCtorEq, false_iff, not_exists, not_and]
    intro kinds h
    simp [classifyAll] at h
    subst h
    simp
  | cons o rest =>
    simp only [List.isEmpty_cons, Bool.false_eq_true, ↓reduceIte]
    cases hc : classifyAll true (o :: rest) with
    | error e => simp
    | ok kinds =>
      simp only [Except.ok.injEq, exists_eq_left']
      unfold zipTypeOf
      by_cases h1 : allKind .fillCompute kinds = true
      · have := (allKind_iff _ _).mp h1
        cases t with
        | fillCompute => simp only [h1, ↓reduceIte, true_iff]; exact this
        | fillRequest =>
          simp only [h1, ↓reduceIte, Except.ok.injEq, reduceCtorEq, false_iff, not_and]
          intro hne hall
          cases kinds with
          | nil => exact hne rfl
          | cons k ks =>
            have a := this.2 k (List.mem_cons_self ..)
            have b := hall k (List.mem_cons_self ..)
            rw [a] at b
            cases b
      · by_cases h2 : allKind .fillRequest kinds = true
        · have := (allKind_iff _ _).mp h2
          cases t with
          | fillRequest => simp only [h1, h2, Bool.false_eq_true, ↓reduceIte, true_iff]; exact this
          | fillCompute =>
            simp only [h1, h2, Bool.false_eq_true, ↓reduceIte, Except.ok.injEq, reduceCtorEq, false_iff, not_and]
            intro hne hall
            cases kinds with
            | nil => exact hne rfl
            | cons k ks =>
              have a := this.2 k (List.mem_cons_self ..)
              have b := hall k (List.mem_cons_self ..)
              rw [a] at b
              cases b
        · have n1 := fun h => h1 ((allKind_iff _ _).mpr h)
          have n2 := fun h => h2 ((allKind_iff _ _).mpr h)
          simp only [h1, h2, Bool.false_eq_true, ↓reduceIte]
          constructor
          · intro h
            split at h <;> cases h
          · intro ⟨hne, hall⟩
            cases t with
            | fillCompute => exact absurd ⟨hne, hall⟩ n1
            | fillRequest => exact absurd ⟨hne, hall⟩ n2

/-! ## 9b. further facts about the schedule -/

theorem life_take (bl : List (List α)) :
    ∀ (o : Option (Branch σ α)) (n : Nat), ((life o bl).1).take n = (life o (bl.take n)).1 := by
  induction bl with
  | nil => intro o n; simp [life]
  | cons blk rest ih =>
    intro o n
    cases n with
    | zero => simp [life]
    | succ n => simp [life, ih]

/-- *block by block*: what a branch contributes to block `k` is determined by the first `k+1`
blocks — `Split.run` is an online algorithm, a later part of the flow cannot change what was
yielded for an earlier block -/
theorem contribution_causal (b : Branch σ α) (bl bl' : List (List α)) (k : Nat)
    (h : bl.take (k + 1) = bl'.take (k + 1)) : contribution b bl k = contribution b bl' k := by
  unfold contribution
  have e : ∀ (l : List (List (Ev α))), l[k]? = (l.take (k + 1))[k]? := by
    intro l
    rw [List.getElem?_take]
    simp
  rw [e (life (some b) bl).1, e (life (some b) bl').1, life_take, life_take, h]

/-- `Split._fill` when a branch signals `LenaStopFill`: the branches before it have been filled
with the value, the signalling branch is left as its own `fill` left it, the branches after it
have not seen the value, and the exception leaves `_fill` -/
theorem splitFill_stop (x : α) (pre post : List (Branch σ α)) (b : Branch σ α)
    (hpre : ∀ c ∈ pre, (c.ops.fill c.st x).2 = false) (hb : (b.ops.fill b.st x).2 = true) :
    splitFill x (pre ++ b :: post) =
      (pre.map (fun c => filled c [x]) ++ { b with st := (b.ops.fill b.st x).1 } :: post, true) := by
  induction pre with
  | nil =>
    obtain ⟨s', st, hf⟩ : ∃ s' st, b.ops.fill b.st x = (s', st) := ⟨_, _, rfl⟩
    cases st with
    | true => simp [splitFill, hf]
    | false => simp [hf] at hb
  | cons c r ih =>
    obtain ⟨s', st, hf⟩ : ∃ s' st, c.ops.fill c.st x = (s', st) := ⟨_, _, rfl⟩
    have hc := hpre c (List.mem_cons_self ..)
    cases st with
    | true => simp [hf] at hc
    | false =>
      have e : filled c [x] = { c with st := s' } := by rw [filled_one c x hc, hf]
      simp only [List.cons_append, splitFill, hf, List.map_cons, e]
      rw [ih (fun d hd => hpre d (List.mem_cons_of_mem _ hd))]

/-! ## 9c. a common-type Split as a branch of another Split: "with the same meaning" -/

/-- filling a nested Split through its `fill` value by value until `LenaStopFill` is
`splitFillAll` on its branches -/
theorem fillBuf_splitOps (i : Nat) (xs : List α) :
    ∀ (brs : List (Branch σ α)), (fillBuf i splitOps brs xs).2 = splitFillAll brs xs := by
  induction xs with
  | nil => intro brs; rfl
  | cons x xs ih =>
    intro brs
    obtain ⟨brs', st, hf⟩ : ∃ brs' st, splitFill x brs = (brs', st) := ⟨_, _, rfl⟩
    have hf' : (splitOps : Ops (List (Branch σ α)) α).fill brs x = (brs', st) := hf
    cases st with
    | true => rw [fillBuf_cons_stop i splitOps brs brs' x xs hf']; simp [splitFillAll, hf]
    | false => rw [fillBuf_cons_ok i splitOps brs brs' x xs hf']; simp [splitFillAll, hf, ih]

/-- NESTED FILL/COMPUTE: a Split of fill/compute branches used as a branch anywhere inside another
Split (any other branches, any `bufsize` of the outer one) yields there exactly what it yields
when it is run alone on the same flow (with any `bufsize`), as long as none of its branches
signals `LenaStopFill` -/
theorem nested_fill_compute (outer : Split (List (Branch σ α)) α) (hv : outer.Valid)
    (hnd : (outer.branches.map (·.id)).Nodup) (ob : Branch (List (Branch σ α)) α)
    (hob : ob ∈ outer.branches) (hk : ob.kind = .fillCompute) (hops : ob.ops = splitOps)
    (hall : ∀ b ∈ ob.st, b.kind = .fillCompute) (flow : List α)
    (hok : (splitFillAll ob.st flow).2 = false) (bs : Option Nat) (hbs : bs ≠ some 0) (cb : Bool) :
    outputsOf ob.id (outer.runTrace flow) =
      outputs (({ branches := ob.st, bufsize := bs, copyBuf := cb } : Split σ α).runTrace flow) := by
  unfold outputsOf
  rw [projection_fillCompute outer hv hnd ob hob hk flow, fcTrace, outputs_append, outputs_fillBuf]
  rw [common_type_fill_compute ({ branches := ob.st, bufsize := bs, copyBuf := cb } : Split σ α) hbs hall flow hok]
  simp only [outputs, outputs_outs, List.nil_append, hops, fillBuf_splitOps]
  rfl

theorem outputs_frTrace_splitOps (i : Nat) (bl : List (List α)) :
    ∀ (inner : List (Branch σ α)), (splitFrBlocks inner bl).2 = false →
      outputs (frTrace i splitOps inner bl) = (splitFrBlocks inner bl).1.flatten := by
  induction bl with
  | nil => intro inner _; rfl
  | cons blk rest ih =>
    intro inner hok
    have hf := fillBuf_splitOps i blk inner
    unfold splitFrBlocks at hok ⊢
    unfold frTrace
    cases hs : splitFillAll inner blk with
    | mk brs' st =>
      rw [hs] at hf
      cases st with
      | true => simp [hs] at hok
      | false =>
        simp only [hs] at hok ⊢
        have h1 : (fillBuf i splitOps inner blk).2.1 = brs' := by rw [hf]
        have h2 : (fillBuf i splitOps inner blk).2.2 = false := by rw [hf]
        simp only [h1, h2, Bool.false_eq_true, ↓reduceIte, outputs_append, outputs_fillBuf, outputs,
          outputs_outs, List.nil_append, List.flatten_cons]
        rw [show (splitOps : Ops (List (Branch σ α)) α).request brs' = splitRequest brs' from rfl]
        rw [ih _ hok]

/-- NESTED FILL/REQUEST: a Split of fill/request branches used as a branch inside another Split
yields there what it yields when it is run alone on the same flow with the `bufsize` of the
enclosing Split (no branch signalling `LenaStopFill`) -/
theorem nested_fill_request (outer : Split (List (Branch σ α)) α) (hv : outer.Valid)
    (hnd : (outer.branches.map (·.id)).Nodup) (ob : Branch (List (Branch σ α)) α)
    (hob : ob ∈ outer.branches) (hk : ob.kind = .fillRequest) (hops : ob.ops = splitOps)
    (hall : ∀ b ∈ ob.st, b.kind = .fillRequest) (flow : List α)
    (hok : (splitFrBlocks ob.st (blocks outer.bufsize flow)).2 = false) (cb : Bool) :
    outputsOf ob.id (outer.runTrace flow) =
      outputs (({ branches := ob.st, bufsize := outer.bufsize, copyBuf := cb } : Split σ α).runTrace flow) := by
  unfold outputsOf
  rw [projection outer hv hnd ob hob, branchTrace_fillRequest ob hk]
  rw [common_type_fill_request ({ branches := ob.st, bufsize := outer.bufsize, copyBuf := cb } : Split σ α)
    hv hall flow hok]
  cases flow with
  | nil => simp [outputs, outputs_outs, hops, splitOps]
  | cons x xs =>
    obtain ⟨_, hbl⟩ := blocks_readBlock outer.bufsize hv (x :: xs) (by simp)
    have hne : blocks outer.bufsize (x :: xs) ≠ [] := by rw [hbl]; simp
    simp only [hne, ↓reduceIte, reduceCtorEq, hops]
    exact outputs_frTrace_splitOps _ _ _ hok

/-! ## 9d. a tuple `(f…, el, g…)` is `el` seen through `f` and `g`

`_get_seq_with_type` converts a tuple of callables around one element into a `FillComputeSeq`,
`FillRequestSeq` or `Sequence` (`seqOps`).  Inside `Split.run` such a branch yields the
post-processed results of the bare element on the pre-processed flow, block for block. -/

theorem fillBuf_seqOps (i : Nat) (pre post : List (α → α)) (el : Ops σ α) :
    ∀ (s : σ) (xs : List α),
      (fillBuf i (seqOps pre post el) s xs).2 = (fillBuf i el s (xs.map (applyAll pre))).2 := by
  intro s xs
  induction xs generalizing s with
  | nil => rfl
  | cons x xs ih =>
    obtain ⟨s', st, hf⟩ : ∃ s' st, el.fill s (applyAll pre x) = (s', st) := ⟨_, _, rfl⟩
    have hf' : (seqOps pre post el).fill s x = (s', st) := hf
    cases st with
    | true =>
      rw [fillBuf_cons_stop i _ s s' x xs hf', List.map_cons, fillBuf_cons_stop i el s s' _ _ hf]
    | false =>
      rw [fillBuf_cons_ok i _ s s' x xs hf', List.map_cons, fillBuf_cons_ok i el s s' _ _ hf]
      exact ih s'

theorem outputs_map_outs (i : Nat) (f : α → α) (vals : List α) :
    outputs (outs i (vals.map f)) = (outputs (outs i vals)).map f := by
  simp [outputs_outs]

/-- a fill/compute tuple: `compute()` results post-processed, of the element filled with the
pre-processed flow -/
theorem tuple_fill_compute (b : Branch σ α) (pre post : List (α → α)) (xs : List α) :
    outputs (fcTrace { b with ops := seqOps pre post b.ops } xs) =
      (outputs (fcTrace b (xs.map (applyAll pre)))).map (applyAll post) := by
  simp only [fcTrace, outputs_append, outputs_fillBuf, outputs, outputs_outs, List.nil_append,
    fillBuf_seqOps]
  rfl

/-- a fill/request tuple, block for block -/
theorem tuple_fill_request (i : Nat) (pre post : List (α → α)) (el : Ops σ α) (bl : List (List α)) :
    ∀ (s : σ), outputs (frTrace i (seqOps pre post el) s bl) =
      (outputs (frTrace i el s (bl.map (fun blk => blk.map (applyAll pre))))).map (applyAll post) := by
  induction bl with
  | nil => intro s; rfl
  | cons blk rest ih =>
    intro s
    simp only [frTrace, List.map_cons, outputs_append, outputs_fillBuf, outputs, outputs_outs,
      List.nil_append, fillBuf_seqOps, List.map_append]
    congr 1
    by_cases h : (fillBuf i el s (blk.map (applyAll pre))).2.2 = true
    · simp [h, outputs]
    · simp only [h, Bool.false_eq_true, ↓reduceIte]
      exact ih _

/-- a plain-Sequence tuple, block for block -/
theorem tuple_sequence (i : Nat) (pre post : List (α → α)) (el : Ops σ α) (bl : List (List α)) :
    ∀ (s : σ), outputs (seqTrace i (seqOps pre post el) s bl) =
      (outputs (seqTrace i el s (bl.map (fun blk => blk.map (applyAll pre))))).map (applyAll post) := by
  induction bl with
  | nil => intro s; rfl
  | cons blk rest ih =>
    intro s
    simp only [seqTrace, List.map_cons, outputs, outputs_append, outputs_outs, List.map_append]
    congr 1
    exact ih _

/-! ## 10. non-vacuity: a concrete Split that satisfies the hypotheses used above -/

section demo

/-- one object playing all four roles: it stores at most two values (`fill` raises
`LenaStopFill` on a third), `compute`/`request` yield the sum (`request` forgets the values),
`run` adds 100 to every value, `call` yields 7, 8 -/
def demoOps : Ops (List Nat) Nat :=
  { call := fun s => ([7, 8], s)
    fill := fun s x => if s.length ≥ 2 then (s, true) else (s ++ [x], false)
    compute := fun s => ([s.sum], s)
    request := fun s => ([s.sum], [])
    run := fun s xs => (xs.map (· + 100), s) }

def demoBranches : List (Branch (List Nat) Nat) :=
  mkBranches 0 [(.sequence, demoOps, []), (.fillRequest, demoOps, []), (.source, demoOps, []),
    (.fillCompute, demoOps, [])]

def demoSplit (bs : Option Nat) : Split (List Nat) Nat :=
  { branches := demoBranches, bufsize := bs, copyBuf := true }

-- the hypotheses `Valid`, `Nodup`, membership and kind are satisfiable together
example : (demoSplit (some 2)).Valid := by simp [Split.Valid, demoSplit]
example : ((demoSplit (some 2)).branches.map (·.id)).Nodup := by decide
example : (demoSplit (some 2)).branches[3]?.map (·.kind) = some .fillCompute := by decide

-- blocks [1,2] [3]: run on each block, request after each block, the Source once in the first
-- block, the fill/compute branch stops on the third value and is computed at once
example : (demoSplit (some 2)).run [1, 2, 3] = [101, 102, 3, 7, 8, 103, 3, 3] := by decide
example : (demoSplit none).run [1, 2, 3] = [101, 102, 103, 3, 7, 8, 3] := by decide
example : (demoSplit (some 1000)).run [] = [0, 7, 8, 0] := by decide

-- an instance of the hypothesis of `stopfill_dropped`: the events of the fill/compute branch
example : proj 3 ((demoSplit (some 2)).runTrace [1, 2, 3]) =
    [.fill 3 1 false, .fill 3 2 false] ++ .fill 3 3 true :: [.compute 3, .out 3 3] := by decide

-- … and of the fill/request branch with one block of three values (it stops inside the block)
example : proj 1 ((demoSplit none).runTrace [1, 2, 3]) =
    [.fill 1 1 false, .fill 1 2 false] ++ .fill 1 3 true :: [.request 1, .out 1 3] := by decide

/-- `demoOps.run` is a per-value map, hence streaming -/
example : Streaming demoOps :=
  streaming_of_perValue demoOps (fun x => [x + 100]) (by
    intro s xs
    simp only [demoOps, Prod.mk.injEq, and_true]
    induction xs with
    | nil => rfl
    | cons x r ih => simp [ih])

-- hypotheses of the common-type theorems
def demoFC : List (Branch (List Nat) Nat) :=
  mkBranches 0 [(.fillCompute, demoOps, []), (.fillCompute, demoOps, [5])]
example : (splitFillAll demoFC [1]).2 = false := by decide
example : (splitFillAll demoFC [1, 2]).2 = true := by decide
example : outputs (({ branches := demoFC, bufsize := some 1, copyBuf := false } : Split _ _).runTrace [1])
    = (splitCompute (splitFillAll demoFC [1]).1).1 := by decide
def demoFR : List (Branch (List Nat) Nat) :=
  mkBranches 0 [(.fillRequest, demoOps, []), (.fillRequest, demoOps, [])]
example : (splitFrBlocks demoFR (blocks (some 2) [1, 2, 3])).2 = false := by decide
example : (splitFrBlocks demoFR (blocks (some 2) [1, 2, 3])).1 = [[3, 3], [3, 3]] := by decide

-- a fill/compute Split nested in another Split (hypotheses of `nested_fill_compute`)
def demoOuter : Split (List (Branch (List Nat) Nat)) Nat :=
  { branches := [{ id := 0, kind := .sequence, ops := splitOps, st := [] },
                 { id := 1, kind := .fillCompute, ops := splitOps, st := demoFC }],
    bufsize := some 1, copyBuf := true }
example : (demoOuter.branches.map (·.id)).Nodup := by decide
example : outputsOf 1 (demoOuter.runTrace [1]) =
    outputs (({ branches := demoFC, bufsize := none, copyBuf := false } : Split _ _).runTrace [1]) := by decide
example : outputsOf 1 (demoOuter.runTrace [1]) = [1, 6] := by decide

end demo

/-! ## 11. the harness elements that the check treats as "per value" are streaming -/

theorem runningLoop_append (tag : Nat) (ys : List V) :
    ∀ (n : Nat) (xs : List V), runningLoop tag n (xs ++ ys) =
      ((runningLoop tag n xs).1 ++ (runningLoop tag (runningLoop tag n xs).2 ys).1,
        (runningLoop tag (runningLoop tag n xs).2 ys).2) := by
  intro n xs
  induction xs generalizing n with
  | nil => simp [runningLoop]
  | cons x xs ih => simp [runningLoop, ih]

/-- `map`, `lam`, `even`, `dup` and `running` (the kinds `PER_VALUE_SQ` of `harness/props/c03.py`,
for which the oracle demands independence of `bufsize`) satisfy the hypothesis of
`bufsize_independent_per_value` -/
theorem harness_per_value_streaming (tag : Nat) (v : SqKind)
    (hv : v = .map ∨ v = .lam ∨ v = .even ∨ v = .dup ∨ v = .running) :
    Streaming ((BSpec.sq v).ops tag) := by
  rcases hv with rfl | rfl | rfl | rfl | rfl
  · exact ⟨fun s => rfl, fun s xs ys => by simp [BSpec.ops, sqRun]⟩
  · exact ⟨fun s => rfl, fun s xs ys => by simp [BSpec.ops, sqRun]⟩
  · exact ⟨fun s => rfl, fun s xs ys => by simp [BSpec.ops, sqRun]⟩
  · exact ⟨fun s => rfl, fun s xs ys => by simp [BSpec.ops, sqRun]⟩
  · exact ⟨fun s => rfl, fun s xs ys => by simp [BSpec.ops, sqRun, runningLoop_append]⟩

/-- … while `mapEnd` and `sumBlock` do not (their results depend on the blocks) -/
example : ¬ Streaming ((BSpec.sq .sumBlock).ops 0) := by
  intro h
  have := h.run_nil {}
  simp [BSpec.ops, sqRun] at this

end Lena.C03
