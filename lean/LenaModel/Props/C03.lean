import LenaModel.Model.C03
import LenaModel.Lemmas.C03
namespace Lena.C03
end Lena.C03
