import LenaModel.Model.C18Spec
import LenaModel.Lemmas.C18
/-! # C18 — the executable versions of the specification vocabulary decide the propositions

`drivers/C18.lean` evaluates `distinctB`, `noFilledB`, `modeOkB`, `evAfterB`, `storedByList` (and the functions
`endOf`, `eraseCaches`, `cacheIds`, `pipeFlow`) on every generated run; these theorems say that what it evaluates
are the propositions the property theorems are stated with. -/

namespace Lena.C18

theorem distinctB_iff (els : List ElSpec) : distinctB els = true ↔ Distinct els := by
  simp [distinctB, Distinct]

theorem noFilledB_iff (fs : FS) : ∀ (els : List ElSpec), noFilledB fs els = true ↔ NoFilled fs els
  | [] => by simp [noFilledB, NoFilled]
  | .map a r :: els => by
    rw [noFilledB, noFilledB_iff fs els]
    constructor
    · intro h; exact h.map a r
    · intro h c rc hc; exact h c rc (by simp [hc])
  | .cache c rc :: els => by
    rw [noFilledB, Bool.and_eq_true, noFilledB_iff fs els]
    constructor
    · intro ⟨h1, h2⟩; exact h2.cache (by simpa using h1)
    · intro h
      exact ⟨by simpa using h c rc (by simp), fun c' rc' hc => h c' rc' (by simp [hc])⟩

theorem modeOkB_iff (mode : Mode) (els : List ElSpec) : modeOkB mode els = true ↔ ModeOk mode els := by
  unfold modeOkB ModeOk
  constructor
  · intro h
    by_cases hb : mode = .bare
    · right
      subst hb
      simp only [bne_self_eq_false, Bool.false_or] at h
      split at h
      · exact ⟨_, _, rfl⟩
      · simp at h
    · exact Or.inl hb
  · intro h
    rcases h with h | ⟨c, rc, rfl⟩
    · simp [h]
    · simp

theorem evAfterB_iff (p : Nat) (ev : Ev) : evAfterB p ev = true ↔ EvAfter p ev := by
  cases ev <;> simp [evAfterB, EvAfter]

/-- `storedByList` lists exactly the pairs that `StoredBy` holds of -/
theorem storedByList_iff (fs : FS) (r : RunSpec) (c : Nat) (xs : List Val) :
    (c, xs) ∈ storedByList fs r ↔ StoredBy fs r c xs := by
  unfold storedByList StoredBy
  constructor
  · intro h
    split at h
    · rename_i hend
      simp only [List.mem_filterMap, List.mem_range] at h
      obtain ⟨p, hp, hsome⟩ := h
      have hget : r.els[p]? = some r.els[p] := List.getElem?_eq_getElem hp
      rw [hget] at hsome
      cases hel : r.els[p] with
      | map a q => simp [hel] at hsome
      | cache c' rc =>
        simp only [hel] at hsome
        split at hsome
        · rename_i hcond
          simp only [Bool.and_eq_true, Bool.not_eq_eq_eq_not, Bool.not_true, Option.isNone_iff_eq_none] at hcond
          simp only [Option.some.injEq, Prod.mk.injEq] at hsome
          obtain ⟨rfl, rfl⟩ := hsome
          refine ⟨r.els.take p, rc, r.els.drop (p + 1), ?_, hcond.1.1, (noFilledB_iff fs _).mp hcond.1.2, hend, ?_⟩
          · rw [← hel]
            exact (List.take_append_drop p r.els).symm.trans (by rw [List.drop_eq_getElem_cons hp])
          · cases hpf : pipeFlow fs r.src (List.take p r.els) with
            | mk vals exc => simp [hpf] at hcond ⊢; exact hcond.2
        · simp at hsome
    · simp at h
  · intro ⟨pre, rc, post, hels, hx, hpost, hend, hflow⟩
    simp only [hend, if_true, List.mem_filterMap, List.mem_range]
    refine ⟨pre.length, by rw [hels]; simp, ?_⟩
    have h1 : r.els[pre.length]? = some (.cache c rc) := by rw [hels]; simp
    have h2 : r.els.drop (pre.length + 1) = post := by rw [hels]; simp
    have h3 : r.els.take pre.length = pre := by rw [hels]; simp
    rw [h1, h2, h3, hflow]
    simp [hx, (noFilledB_iff fs post).mpr hpost]

end Lena.C18
