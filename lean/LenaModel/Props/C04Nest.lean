import LenaModel.Model.C04
import LenaModel.Model.C04Spec
/-! # C04 — a `Split` given directly as a branch of another `Split` / `Zip` (seed round I/J)

A `Split` whose sequences have one common type has `fill` (`Split._fill`, model `splitFill`) and is used by the
`Split` around it like any fill/compute (fill/request) element: for the outer `Split` it is one branch object
(`Ops`), and the generic theorems of `Props/C04.lean` (`split_tokens_disjoint`, `branch_alone_equiv`,
`split_fill_alone_equiv`, `zip_fill_alone_equiv`) speak about it under the hypothesis `Local`.

What they need from the *outer* `Split` is that it hands the nested one a private deep copy (unless it is the
last branch).  That the nested `Split` "copies the values for its sequences anyway" does not make this copy
superfluous: `splitFill_last_gets_original` — **whatever `copy_buf`, the last sequence of a `Split` is filled
with the very value the `Split` was filled with** (the same objects, `copied = false`), so everything that
sequence changes in place is changed in the objects that were passed in.  (`Zip._fill` is different:
`zip_tokens_disjoint` — every sequence of a `Zip` receives a copy.)  `splitFill_others_flag` is the other half of
the copy policy of `Split._fill`: every sequence but the last is handed a deep copy exactly when `copy_buf` is
set. -/

namespace Lena.C04

open Lena.Flow (Value)

variable {σ S C : Type}

/-- `seq.fill(val)` without a copy: the sequence is handed, and invoked on, `val` itself -/
theorem fillOne_false_evs (x : Item S) (w : World C) (b : Branch σ S C) :
    (fillOne false x w b).1 =
      [Ev.hand b.id [x] false, Ev.fill b.id x (b.ops.act w.st b.st (.fill x)).2.2.stopped] := by
  simp [fillOne]

/-- `Split._fill(val)`, any `copy_buf`, any sequences, any heap: if the earlier sequences do not raise
`LenaStopFill` (then the value would not reach the last one), the last sequence is handed `val` itself — the event
is `hand last [val] false` — and is invoked with `fill(val)` on these very objects. -/
theorem splitFill_last_gets_original (copyBuf : Bool) (x : Item S) (b : Branch σ S C) :
    ∀ (pre : List (Branch σ S C)) (w : World C),
      (∀ b' ∈ pre, ∀ st s y, (b'.ops.act st s (.fill y)).2.2.stopped = false) →
      Ev.hand b.id [x] false ∈ (splitFill copyBuf x w (pre ++ [b])).evs ∧
      ∃ stopped, Ev.fill b.id x stopped ∈ (splitFill copyBuf x w (pre ++ [b])).evs := by
  intro pre
  induction pre with
  | nil =>
    intro w _
    simp only [List.nil_append, splitFill, List.isEmpty_nil, Bool.not_true, Bool.and_false]
    split
    · simp only [fillOne_false_evs]
      exact ⟨by simp, (b.ops.act w.st b.st (.fill x)).2.2.stopped, by simp⟩
    · simp only [fillOne_false_evs]
      exact ⟨by simp, (b.ops.act w.st b.st (.fill x)).2.2.stopped, by simp⟩
  | cons b' rest ih =>
    intro w h
    have hb' := h b' (List.mem_cons_self ..)
    have ih' := fun w' => ih w' (fun b'' hb'' => h b'' (List.mem_cons_of_mem _ hb''))
    simp only [List.cons_append, splitFill]
    have hns : (fillOne (copyBuf && !(rest ++ [b]).isEmpty) x w b').2.2.2 = false := by
      simp only [fillOne]
      exact hb' _ _ _
    rw [if_neg (by simp [hns])]
    obtain ⟨i1, st, i2⟩ := ih' (fillOne (copyBuf && !(rest ++ [b]).isEmpty) x w b').2.1
    exact ⟨List.mem_append_right _ i1, st, List.mem_append_right _ i2⟩

/-- the other half of the copy policy of `Split._fill`: a sequence that is not the last one is handed a deep copy
exactly when `copy_buf` is set (first sequence; by `splitFill`'s recursion, every sequence with a successor) -/
theorem splitFill_first_flag (copyBuf : Bool) (x : Item S) (b b2 : Branch σ S C) (rest : List (Branch σ S C))
    (w : World C) :
    ∃ y, (splitFill copyBuf x w (b :: b2 :: rest)).evs.head? = some (Ev.hand b.id [y] copyBuf) ∧
      (copyBuf = false → y = x) := by
  refine ⟨((if copyBuf then deepcopy (copyNsOf b.id) w [x] else (w, [x])).2).headD x, ?_, ?_⟩
  · simp only [splitFill, List.isEmpty_cons, Bool.not_false, Bool.and_true]
    split
    · simp [fillOne]
    · simp [fillOne]
  · intro h
    simp [h]

/-! non-vacuity: a `Split([Sum(), (Variable("a"), Sum())])` filled with a value whose context is the object
`(0, 0)`: the last sequence is handed that object, and after the fill it carries the variable's entry — whatever
`copy_buf` -/
def nestDemoBrs : List (Branch HSt Skel Value) :=
  mkBranches 0 [{ kind := .fillCompute, steps := [], term := .sum, srcN := 0 },
                { kind := .fillCompute, steps := [.var "a"], term := .sum, srcN := 0 }]

example (cb : Bool) :
    ((splitFill cb (mkItem (.int 1) (some (0, 0))) { st := fun _ => .dict [], cc := 0 } nestDemoBrs).w.st (0, 0)) =
      .dict [("variable", .dict [("name", .str "a")])] := by
  cases cb <;> rfl

/-- the hypothesis of `splitFill_last_gets_original` holds for the demo: its first sequence, a bare `Sum()`, never
raises `LenaStopFill` -/
example : ∀ b' ∈ nestDemoBrs.take 1, ∀ st s y, (b'.ops.act st s (.fill y)).2.2.stopped = false := by
  intro b' hb' st s y
  simp only [nestDemoBrs, mkBranches, List.take_succ_cons, List.take_zero, List.mem_singleton] at hb'
  subst hb'
  rfl

end Lena.C04
