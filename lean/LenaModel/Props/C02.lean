import LenaModel.Model.C02
import LenaModel.Lemmas.C02
import LenaModel.Lemmas.C02Neg
import LenaModel.Lemmas.C02Split
import LenaModel.Lemmas.C02Spec
import LenaModel.Lemmas.C02Sim
import LenaModel.Lemmas.C02Min
/-! # C02 — property theorems: evaluation is lazy

The model (`Model/C02.lean`) runs pipelines of generators with explicit state over an instrumented
source whose clock counts every resumption.  The theorems below say, for ALL pipelines of the
streaming elements, all inputs and all consumer stop points `k`:

* building a pipeline and calling `run` pulls nothing                        (`build_is_silent`);
* a consumer that takes `k` results gets exactly the first `k` values of the *stamped flow*
  `seqSpec els (SF.ofList xs)` and has then caused exactly `need k` pulls     (`pipeline_lazy`),
  where the stamped flow is the composition of the stage functions            (`compose_pulls`);
* what the stage functions say about pulls: a map pulls as often as it yields, a filter pulls up to
  the k-th selected value, `islice` up to index `start + k·step` and never beyond `max start stop`,
  `Count` one value ahead, a negative stop lags by `|stop|`
  (`map_pulls`, `filter_pulls`, `islice_pulls`, `islice_end`, `count_lookahead`, `negslice_lag`);
* over an infinite input `Slice(n)` terminates after exactly `n` pulls        (`slice_after_infinite_terminates`);
* for EVERY pipeline and every infinite input: whatever is settled within a prefix of the input (the
  k-th result, or the end of the results) is delivered over the infinite input exactly as over the
  prefix — the pipeline terminates and looks at nothing beyond that prefix    (`pipeline_lazy_infinite`);
  the same for a finite input followed by anything                            (`pipeline_prefix_determined`);
  both by a simulation argument: every stage is natural in its upstream generator (`Lemmas/C02Sim.lean`);
* `Split(bufsize=None)` over an infinite input never returns (documented materialisation)
                                                                              (`split_none_never_returns`);
* `Split` hands every result of a block downstream at the clock at which the block was complete
  (before it pulls again) and never buffers more than `bufsize` values        (`split_block_bound`, `split_buffer_bound`);
  it retains at most `3·bufsize` input values (the blocks bound to `orig_buf` and `buf`, and the one being read),
  `Count` one, a negative `Slice` `|index|` — `Stage.cap`, the bound the weak-reference oracle of the
  harness uses                      (`split_retention_bound`, `count_held_bound`, `negslice_held_bound`).
* "shortest": for pipelines of exact elements (callables, `Filter`, non-negative `Slice`, `RunIf`) the pull
  count at result `k` is minimal — the input cut one value earlier has no result `k`
  (`exact_pipeline_minimal`); the look-ahead of `Count` and the lag of a negative stop are necessary
  (`count_lookahead_needed`, `lag_needed`); for `Split` the granularity is the block (`split_block_exact`).

Recorded judgements (behaviour of the real code that the model transcribes and the statement does not forbid):
* `Split.run` reports its end only when its input ends (`splitSpec … .cf = sf.cf`, `split_end_is_input_end`), also
  when every branch has stopped: over an infinite input a consumer that asks for more results than the
  `Split` has never gets `StopIteration`.  The statement bounds the pulls at the moment the k-th result is
  *taken* and promises termination for "a `Slice(n)` placed after an infinite Source" whose `n` results
  exist; the docstring of `Split.run` defines the final pass at the end of the flow.  Judged outside the
  statement (a candidate improvement: `if not n_of_active_seqs: break`).  In that state `buf` keeps the block
  last handed to a branch: the retention is `3·bufsize`, not `2·bufsize` (`split_retention_bound`).
* `Slice(start, stop)` with `start ≥ stop ≥ 0` pulls `start` values for an empty result (`islice_end`:
  `need (max start stop)`).  This is `itertools.islice` ("consume the iterable up to the start position"),
  to which `Slice` documents it is similar; judged outside the statement.
* Inside a block of `Split` and inside `RunIf` the inner sequence is modelled by its list semantics
  (`iRun`): its own laziness does not touch the input.

The hypotheses `Stage.WF` and `seqFuelOK` have executable forms (`Stage.wfb`, `seqFuelOKb`, proved
equivalent) which the driver evaluates on every generated case. -/

namespace Lena.C02

variable {α : Type}

/-! ## well-formed stages and sufficient fuel -/

/-- what the constructors guarantee: `islice` rejects `step < 1`; `Slice.__init__` routes to
`_run_negative_islice` only with a negative index and `step ≥ 1`; `Split.__init__` rejects
`bufsize < 1` -/
def Stage.WF : Stage α → Prop
  | .islice _ _ st => 1 ≤ st
  | .negslice a b st => NegArgs a b ∧ 1 ≤ st
  | .split _ _ bufsize _ => GoodBufsize bufsize
  | _ => True

/-- fuel that suffices for a stage whose input is the stamped flow `sf`: linear in its length -/
def Stage.fuelOK (st : Stage α) (sf : SF α) (fu : Nat) : Prop :=
  4 * sf.vals.length + 5 < fu ∧
  match st with
  | .negslice a b _ => (negSpec a b sf).vals.length < fu
  | _ => True

theorem SF.eta' (sf : SF α) (c : Nat) (h : sf.c0 = c) : (⟨c, sf.vals, sf.cf⟩ : SF α) = sf := by
  subst h
  rfl

theorem Stage.run_negslice_one (a b : Option Int) (p : Pipe α) :
    (Stage.negslice a b 1).run p
      = { σ := p.σ × NSt α, gen := negG a b p.gen, st := (p.st, .init), clock := fun s => p.clock s.1 } := by
  simp [Stage.run]

theorem Stage.run_negslice_step (a b : Option Int) (st : Nat) (h : st ≠ 1) (p : Pipe α) :
    (Stage.negslice a b st).run p
      = { σ := (p.σ × NSt α) × ISt, gen := isliceG none st (negG a b p.gen), st := ((p.st, .init), isliceInit 0),
          clock := fun s => p.clock s.1.1 } := by
  simp [Stage.run, h]

theorem Stage.run_split_empty (σb : Type) (brs : List (Lena.C03.Branch σb α)) (bufsize : Option Nat)
    (copyBuf : Bool) (h : brs.isEmpty = true) (p : Pipe α) :
    (Stage.split σb brs bufsize copyBuf).run p = { σ := p.σ, gen := mapG id p.gen, st := p.st, clock := p.clock } := by
  simp [Stage.run, h]

theorem Stage.run_split_nonempty (σb : Type) (brs : List (Lena.C03.Branch σb α)) (bufsize : Option Nat)
    (copyBuf : Bool) (h : ¬ brs.isEmpty = true) (p : Pipe α) :
    (Stage.split σb brs bufsize copyBuf).run p
      = { σ := p.σ × SSt σb α, gen := splitG bufsize copyBuf p.gen, st := (p.st, splitInit brs),
          clock := fun s => p.clock s.1 } := by
  simp [Stage.run, h]

/-- **Stage theorem.**  Every streaming element, run on an iterator that produces `vals` and ends at
clock `cf`, produces the stamped flow given by its specification function; building it pulls nothing. -/
theorem stage_produces (st : Stage α) (hwf : st.WF) (p : Pipe α) (fu : Nat) {vals : List (α × Nat)} {cf : Nat}
    (h : Produces p.gen p.clock fu p.st vals cf) (hfu : st.fuelOK ⟨p.now, vals, cf⟩ fu) :
    Produces (st.run p).gen (st.run p).clock fu (st.run p).st
      (st.spec ⟨p.now, vals, cf⟩).vals (st.spec ⟨p.now, vals, cf⟩).cf ∧
    (st.run p).now = p.now ∧ (st.spec ⟨p.now, vals, cf⟩).c0 = p.now := by
  obtain ⟨hfu1, hfu2⟩ := hfu
  replace hfu1 : 4 * vals.length + 5 < fu := hfu1
  cases st with
  | map f => exact ⟨map_feeds f p.gen p.clock fu h, rfl, rfl⟩
  | filter q => exact ⟨filter_produces q p.gen p.clock fu h (show vals.length < fu by omega), rfl, rfl⟩
  | islice a b st =>
    exact ⟨islice_produces a b st hwf p.gen p.clock fu h (show vals.length < fu by omega), rfl, rfl⟩
  | negslice a b st =>
    obtain ⟨hargs, hst⟩ := hwf
    have hneg := neg_produces p.gen p.clock fu a b hargs h (show vals.length + 4 < fu by omega)
    have hc0 : (negSpec a b ⟨p.now, vals, cf⟩).c0 = p.now := by
      simp only [negSpec]
      repeat' split
      all_goals rfl
    by_cases h1 : st = 1
    · subst h1
      rw [Stage.run_negslice_one]
      simp only [Stage.spec, negSliceSpec, if_true]
      exact ⟨hneg, rfl, hc0⟩
    · rw [Stage.run_negslice_step a b st h1]
      simp only [Stage.spec, negSliceSpec, h1, if_false]
      have := islice_produces 0 none st hst (negG a b p.gen) (fun t => p.clock t.1) fu hneg hfu2
      have e := SF.eta' (negSpec a b ⟨p.now, vals, cf⟩) p.now hc0
      refine ⟨?_, rfl, ?_⟩
      · have hc : p.clock (p.st, (NSt.init : NSt α)).1 = p.now := rfl
        simp only [hc] at this
        rw [e] at this
        exact this
      · exact hc0
  | count mark => exact ⟨count_produces mark p.gen p.clock fu h (show 2 ≤ fu by omega), rfl, rfl⟩
  | runIf ι init sel inner =>
    exact ⟨runIf_produces init sel inner p.gen p.clock fu h (show vals.length < fu by omega), rfl, rfl⟩
  | split σb brs bufsize copyBuf =>
    by_cases he : brs.isEmpty = true
    · rw [Stage.run_split_empty σb brs bufsize copyBuf he]
      simp only [Stage.spec, if_pos he]
      exact ⟨map_feeds id p.gen p.clock fu h, rfl, rfl⟩
    · rw [Stage.run_split_nonempty σb brs bufsize copyBuf he]
      simp only [Stage.spec, if_neg he]
      exact ⟨split_produces bufsize copyBuf p.gen p.clock fu hwf brs h hfu1, rfl, rfl⟩

/-! ## `Sequence.run` -/

/-- **`build_is_silent`** — constructing a pipeline and calling `run` produces no pull: the clock of
the source is what it was.  (`Sequence.run` only chains `el.run(flow)`; no `next` is applied.) -/
theorem build_is_silent (els : List (Stage α)) (p : Pipe α) : (seqRun els p).now = p.now := by
  induction els generalizing p with
  | nil => rfl
  | cons e es ih =>
    have he : (e.run p).now = p.now := by
      cases e with
      | negslice a b st => simp only [Stage.run]; split <;> rfl
      | split σb brs bufsize copyBuf => simp only [Stage.run]; split <;> rfl
      | _ => rfl
    show (seqRun es (e.run p)).now = p.now
    rw [ih, he]

example : (seqRun [Stage.filter (fun n : Nat => n % 2 == 0), .islice 0 (some 2) 1, .count (fun _ v => v)]
    (Pipe.ofList [1, 2, 3, 4])).now = 0 := by decide

/-- fuel that suffices for a whole pipeline: at every stage linear in the length of that stage's input -/
def seqFuelOK : List (Stage α) → SF α → Nat → Prop
  | [], _, _ => True
  | e :: es, sf, fu => e.fuelOK sf fu ∧ seqFuelOK es (e.spec sf) fu

/-- **`compose_pulls`** — for a chain of stages the stamped flow (values, the pull count at which each
is handed over, the pull count at the end) is the composition of the stage functions: demand is
propagated stage by stage, no stage reads ahead of what its specification says. -/
theorem compose_pulls (els : List (Stage α)) (hwf : ∀ e ∈ els, e.WF) (p : Pipe α) (fu : Nat)
    {vals : List (α × Nat)} {cf : Nat} (h : Produces p.gen p.clock fu p.st vals cf)
    (hfu : seqFuelOK els ⟨p.now, vals, cf⟩ fu) :
    Produces (seqRun els p).gen (seqRun els p).clock fu (seqRun els p).st
      (seqSpec els ⟨p.now, vals, cf⟩).vals (seqSpec els ⟨p.now, vals, cf⟩).cf ∧
    (seqSpec els ⟨p.now, vals, cf⟩).c0 = p.now := by
  induction els generalizing p vals cf with
  | nil => exact ⟨h, rfl⟩
  | cons e es ih =>
    obtain ⟨hfu1, hfu2⟩ := hfu
    obtain ⟨h1, h2, h3⟩ := stage_produces e (hwf e (by simp)) p fu h hfu1
    have hsf : e.spec ⟨p.now, vals, cf⟩
        = ⟨(e.run p).now, (e.spec ⟨p.now, vals, cf⟩).vals, (e.spec ⟨p.now, vals, cf⟩).cf⟩ :=
      (SF.eta' _ _ (h3.trans h2.symm)).symm
    rw [hsf] at hfu2
    have := ih (fun e' he' => hwf e' (by simp [he'])) (e.run p) h1 hfu2
    rw [← hsf] at this
    refine ⟨this.1, ?_⟩
    show (seqSpec es (e.spec ⟨p.now, vals, cf⟩)).c0 = p.now
    rw [this.2, h2]

/-- fuel exists: some `fu` suffices for any pipeline on any finite input -/
theorem seqFuelOK_exists (els : List (Stage α)) (sf : SF α) : ∃ fu, ∀ fu', fu ≤ fu' → seqFuelOK els sf fu' := by
  induction els generalizing sf with
  | nil => exact ⟨0, fun _ _ => trivial⟩
  | cons e es ih =>
    obtain ⟨f1, h1⟩ := ih (e.spec sf)
    have hstage : ∃ f0, ∀ fu', f0 ≤ fu' → e.fuelOK sf fu' := by
      cases e with
      | negslice a b st =>
        exact ⟨4 * sf.vals.length + 6 + (negSpec a b sf).vals.length, fun fu' hfu' => ⟨by omega, by
          show (negSpec a b sf).vals.length < fu'
          omega⟩⟩
      | _ => exact ⟨4 * sf.vals.length + 6, fun fu' hfu' => ⟨by omega, trivial⟩⟩
    obtain ⟨f0, h0⟩ := hstage
    exact ⟨max f0 f1, fun fu' hfu' => ⟨h0 fu' (by omega), h1 fu' (by omega)⟩⟩

/-- **`pipeline_lazy`** — the property's main sentence.  For every pipeline of well-formed streaming
elements, every finite input `xs` and every number `k` of results the consumer takes before it stops:
the consumer receives the first `k` values of the stamped flow `seqSpec els (SF.ofList xs)`, each at
the pull count the specification gives, and at the moment it stops the source has been pulled exactly
`need k` times — the stamp of the `k`-th result (nothing for `k = 0`), or the end clock if the
pipeline has fewer than `k` results.  No fuel is exhausted and no exception is raised. -/
theorem pipeline_lazy (els : List (Stage α)) (hwf : ∀ e ∈ els, e.WF) (xs : List α) (fu : Nat)
    (hfu : seqFuelOK els (SF.ofList xs) fu) (k : Nat) :
    (seqRun els (Pipe.ofList xs)).take fu k =
      ((seqSpec els (SF.ofList xs)).vals.take k,
       if k ≤ (seqSpec els (SF.ofList xs)).vals.length then Ending.stoppedByConsumer else Ending.exhausted,
       (seqSpec els (SF.ofList xs)).need k) := by
  have hsrc := listSrc_produces (α := α) fu xs 0
  have hsf : SF.ofList xs = ⟨(Pipe.ofList xs).now, stamps xs 0, 0 + xs.length + 1⟩ := by
    simp [SF.ofList, Pipe.ofList, Pipe.now]
  rw [hsf] at hfu ⊢
  obtain ⟨h1, h2⟩ := compose_pulls els hwf (Pipe.ofList xs) fu hsrc hfu
  have := take_produces _ _ fu h1 k
  unfold Pipe.take
  rw [this]
  have hnow : (seqRun els (Pipe.ofList xs)).clock (seqRun els (Pipe.ofList xs)).st = (Pipe.ofList xs).now :=
    build_is_silent els (Pipe.ofList xs)
  rw [hnow, SF.eta' _ _ h2]

/-- hypotheses of `pipeline_lazy` are satisfiable: a concrete pipeline, its fuel, and what the theorem
then says — `Filter(even), Slice(2), Count` over `1..6`: both results come after 4 pulls (`Slice(2)` stops
pulling at its second value and reports its end without another pull, which is what `Count` waits for) -/
example : ∀ e ∈ [Stage.filter (fun n : Nat => n % 2 == 0), .islice 0 (some 2) 1, .count (fun c v => v + 100 * c)],
    e.WF := by
  intro e he
  simp only [List.mem_cons, List.not_mem_nil, or_false] at he
  rcases he with rfl | rfl | rfl <;> simp [Stage.WF]

example : seqFuelOK [Stage.filter (fun n : Nat => n % 2 == 0), .islice 0 (some 2) 1, .count (fun c v => v + 100 * c)]
    (SF.ofList [1, 2, 3, 4, 5, 6]) 40 := by
  simp [seqFuelOK, Stage.fuelOK, Stage.spec, filterSpec, isliceSpec, SF.ofList, stamps, Lena.C17.islice,
    Lena.C17.isliceGo]

example : (seqRun [Stage.filter (fun n : Nat => n % 2 == 0), .islice 0 (some 2) 1, .count (fun c v => v + 100 * c)]
    (Pipe.ofList [1, 2, 3, 4, 5, 6])).take 40 5 = ([(2, 4), (204, 4)], Ending.exhausted, 4) := by decide

example : (seqRun [Stage.negslice none (some (-2)) 1] (Pipe.ofList [10, 11, 12, 13, 14])).take 40 2
    = ([(10, 3), (11, 4)], Ending.stoppedByConsumer, 4) := by decide

/-! ## infinite inputs -/

theorem fnStamps_getElem? (f : Nat → α) : ∀ (m c i : Nat),
    (fnStamps f c m)[i]? = if i < m then some (f (c + i), c + i + 1) else none
  | 0, c, i => by simp [fnStamps]
  | m + 1, c, 0 => by simp [fnStamps]
  | m + 1, c, i + 1 => by
    simp only [fnStamps, List.getElem?_cons_succ, fnStamps_getElem? f m (c + 1) i, Nat.add_lt_add_iff_right]
    have e : c + 1 + i = c + (i + 1) := by omega
    rw [e]

/-- callables over an iterator that feeds `vals` feed the transformed values at the same stamps -/
theorem maps_feeds (gs : List (α → α)) (p : Pipe α) (fu : Nat) {vals : List (α × Nat)} {e : Option Nat}
    (h : Feeds p.gen p.clock fu p.st vals e) :
    Feeds (seqRun (gs.map Stage.map) p).gen (seqRun (gs.map Stage.map) p).clock fu (seqRun (gs.map Stage.map) p).st
      (vals.map (fun q => (gs.foldl (fun a g => g a) q.1, q.2))) e := by
  induction gs generalizing p vals with
  | nil =>
    have e : vals.map (fun q => (([] : List (α → α)).foldl (fun a g => g a) q.1, q.2)) = vals := by simp
    rw [e]
    exact h
  | cons g gs ih =>
    have h1 := map_feeds g p.gen p.clock fu h
    have := ih ((Stage.map g).run p) h1
    have e : vals.map (fun q => ((g :: gs).foldl (fun a g => g a) q.1, q.2))
        = (vals.map (fun p => (g p.1, p.2))).map (fun q => (gs.foldl (fun a g => g a) q.1, q.2)) := by
      simp [List.map_map, Function.comp_def]
    rw [e]
    exact this

/-- the need function of the first `n` values of the infinite input (clock started at 0) -/
theorem need_fnStamps (f : Nat → α) (g : α → α) (n cf k : Nat) (hk : k ≤ n) :
    (SF.mk 0 ((fnStamps f 0 n).map (fun q => (g q.1, q.2))) cf).need k = k := by
  cases k with
  | zero => rfl
  | succ k =>
    simp only [SF.need, List.getElem?_map, fnStamps_getElem?]
    have : k < n := by omega
    simp [this]

/-- **`slice_after_infinite_terminates`** — `Source(infinite, f₁, …, f_m, Slice(n))`: for every number `k`
of results the consumer asks for, it receives the first `min k n` values (value `i` after exactly
`i + 1` pulls), the iteration *ends* (no fuel exhaustion: `n < fu` suffices, whatever the input) and the
infinite input has been pulled exactly `min k n` times — `n` times when the consumer drains the pipeline. -/
theorem slice_after_infinite_terminates (f : Nat → α) (gs : List (α → α)) (n fu k : Nat) (hfu : n < fu) :
    ((Stage.islice 0 (some n) 1).run (seqRun (gs.map Stage.map) (Pipe.ofFn f))).take fu k
      = (((fnStamps f 0 n).map (fun q => (gs.foldl (fun a g => g a) q.1, q.2))).take k,
         if k ≤ n then Ending.stoppedByConsumer else Ending.exhausted, min k n) := by
  have h0 := fnSrc_feeds f fu n 0
  have h1 := maps_feeds gs (Pipe.ofFn f) fu h0
  have hnow : (seqRun (gs.map Stage.map) (Pipe.ofFn f)).now = 0 := build_is_silent _ _
  have hlen : ((fnStamps f 0 n).map (fun q => (gs.foldl (fun a g => g a) q.1, q.2))).length = n := by simp
  have h2 := islice_feeds (some n) 1 (Nat.le_refl 1) _ _ fu h1 0
    (by intro _; exact ⟨n, rfl, by simp [isliceInit, hlen]⟩) (by rw [hlen]; exact hfu)
  have hvals : Lena.C17.islice ((fnStamps f 0 n).map (fun q => (gs.foldl (fun a g => g a) q.1, q.2))) 0 (some n) 1
      = (fnStamps f 0 n).map (fun q => (gs.foldl (fun a g => g a) q.1, q.2)) := by
    rw [islice_eq_everyNth _ _ _ _ (Nat.le_refl 1), Lena.C17.everyNth_one]
    simp only [Lena.C17.takeOpt, List.drop_zero, Nat.sub_zero]
    exact List.take_of_length_le (by rw [hlen]; exact Nat.le_refl n)
  rw [hvals] at h2
  have hnow' : (seqRun (gs.map Stage.map) (Pipe.ofFn f)).clock (seqRun (gs.map Stage.map) (Pipe.ofFn f)).st = 0 := hnow
  have hend : isliceEnd (some n) (isliceInit 0)
      ⟨(seqRun (gs.map Stage.map) (Pipe.ofFn f)).clock (seqRun (gs.map Stage.map) (Pipe.ofFn f)).st,
        (fnStamps f 0 n).map (fun q => (gs.foldl (fun a g => g a) q.1, q.2)), (none : Option Nat).getD 0⟩ = n := by
    simp only [isliceEnd, isliceInit, Nat.zero_max, Nat.sub_zero, hnow']
    exact need_fnStamps f (fun a => gs.foldl (fun a g => g a) a) n _ n (Nat.le_refl n)
  rw [hend] at h2
  have := take_produces _ _ fu h2 k
  show takeG _ _ fu k _ = _
  simp only [Stage.run] at this ⊢
  rw [this, hlen]
  congr 2
  simp only [hnow']
  by_cases hk : k ≤ n
  · have := need_fnStamps f (fun a => gs.foldl (fun a g => g a) a) n n k hk
    rw [show (SF.mk 0 ((fnStamps f 0 n).map (fun q => (gs.foldl (fun a g => g a) q.1, q.2))) n).need k = k from this]
    omega
  · obtain ⟨j, rfl⟩ : ∃ j, k = j + 1 := ⟨k - 1, by omega⟩
    rw [need_of_ge _ _ (by simp; omega)]
    simp only
    omega

example : ((Stage.islice 0 (some 3) 1).run (seqRun ([fun x => x * 10].map Stage.map) (Pipe.ofFn (fun i => i)))).take 4 7
    = ([(0, 1), (10, 2), (20, 3)], Ending.exhausted, 3) := by decide

/-! ## infinite inputs, any pipeline: prefix determinacy -/

theorem range_map_shift (f : Nat → α) (c k : Nat) :
    (List.range (k + 1)).map (fun i => f (c + i)) = f c :: (List.range k).map (fun i => f (c + 1 + i)) := by
  rw [List.range_succ_eq_map]
  simp only [List.map_cons, List.map_map, Nat.add_zero, List.cons.injEq, true_and]
  apply List.map_congr_left
  intro i _
  simp only [Function.comp]
  congr 1
  omega

/-- the infinite input and its prefix of `n` values are indistinguishable until the prefix reports its
end, i.e. while the clock is at most `n` -/
theorem source_pipeSim (f : Nat → α) (n fu : Nat) : PipeSim fu n (Pipe.ofFn f) (Pipe.ofList (prefixOf f n)) := by
  refine ⟨fun (c : Nat) (src : Src α) => src.ended = false ∧ src.clock = c ∧ c ≤ n ∧
      src.rest = (List.range (n - c)).map (fun i => f (c + i)),
    fun (src : Src α) => src.ended = true ∧ src.rest = [] ∧ n < src.clock, ⟨?_, ?_⟩, ?_, ?_, ?_⟩
  · rintro c ⟨rest, clock, ended⟩ ⟨h1, h2, h3, h4⟩
    simp only at h1 h2 h3 h4
    subst h1 h2
    cases hk : n - clock with
    | zero =>
      right
      rw [hk] at h4
      simp only [List.range_zero, List.map_nil] at h4
      subst h4
      show OutDead _ (Out.done _)
      exact ⟨rfl, rfl, by show n < clock + 1; omega⟩
    | succ k =>
      left
      rw [hk, range_map_shift] at h4
      subst h4
      show OutRel _ (Out.item _ _) (Out.item _ _)
      refine ⟨rfl, rfl, rfl, by show clock + 1 ≤ n; omega, ?_⟩
      have : n - (clock + 1) = k := by omega
      rw [this]
  · rintro ⟨rest, clock, ended⟩ ⟨h1, h2, h3⟩
    simp only at h1 h2 h3
    subst h1 h2
    show OutDead _ (Out.done _)
    exact ⟨rfl, rfl, h3⟩
  · refine ⟨rfl, rfl, Nat.zero_le _, ?_⟩
    show (List.range n).map f = (List.range (n - 0)).map (fun i => f (0 + i))
    simp
  · rintro c src ⟨_, h2, _, _⟩
    exact h2.symm
  · rintro src ⟨_, _, h3⟩
    exact h3

/-- **`pipeline_lazy_infinite`** — the main sentence for infinite inputs, for EVERY pipeline of streaming
elements (Filter, Count, RunIf, negative Slice, Split, … in any order).  Let `spec` be the stamped flow
of the pipeline on the first `n` values of the input.  If what the consumer asks for — `k` results —
is settled within that prefix (`spec.need k ≤ n`: the `k`-th result is handed over, or the end of the
results is reported, before the prefix is exhausted), then over the infinite input the consumer
receives exactly the same values at the same pull counts and the input has been pulled `spec.need k`
times: the pipeline terminates, and it has not looked at anything beyond the prefix that determines
its results. -/
theorem pipeline_lazy_infinite (els : List (Stage α)) (hwf : ∀ e ∈ els, e.WF) (f : Nat → α) (n fu : Nat)
    (hfu : seqFuelOK els (SF.ofList (prefixOf f n)) fu) (k : Nat)
    (hk : (seqSpec els (SF.ofList (prefixOf f n))).need k ≤ n) :
    (seqRun els (Pipe.ofFn f)).take fu k =
      ((seqSpec els (SF.ofList (prefixOf f n))).vals.take k,
       if k ≤ (seqSpec els (SF.ofList (prefixOf f n))).vals.length then Ending.stoppedByConsumer else Ending.exhausted,
       (seqSpec els (SF.ofList (prefixOf f n))).need k) := by
  have hfin := pipeline_lazy els hwf (prefixOf f n) fu hfu k
  obtain ⟨R, dead, hs, h0, hc, hd⟩ := seq_pipeSim els fu n _ _ (source_pipeSim f n fu)
  unfold Pipe.take at hfin ⊢
  rw [← hfin]
  apply take_sim hs hc hd k _ _ h0
  · rw [hfin]; exact hk
  · rw [hfin]; simp only; split <;> simp
  · intro e; rw [hfin]; simp only; split <;> simp

/-- a finite input and any continuation of it are indistinguishable until the input reports its end -/
theorem prefix_pipeSim (pre rest : List α) (fu : Nat) :
    PipeSim fu pre.length (Pipe.ofList (pre ++ rest)) (Pipe.ofList pre) := by
  refine ⟨fun (s1 : Src α) (s2 : Src α) => s2.ended = false ∧ s1.ended = false ∧ s1.clock = s2.clock ∧
      s1.rest = s2.rest ++ rest ∧ s2.clock + s2.rest.length = pre.length,
    fun (src : Src α) => src.ended = true ∧ src.rest = [] ∧ pre.length < src.clock, ⟨?_, ?_⟩, ?_, ?_, ?_⟩
  · rintro ⟨r1, c1, e1⟩ ⟨r2, c2, e2⟩ ⟨h1, h2, h3, h4, h5⟩
    simp only at h1 h2 h3 h4 h5
    subst h1 h2 h3 h4
    cases r2 with
    | nil =>
      right
      show OutDead _ (Out.done _)
      exact ⟨rfl, rfl, by show pre.length < c1 + 1; simp at h5; omega⟩
    | cons a r =>
      left
      show OutRel _ (Out.item _ _) (Out.item _ _)
      exact ⟨rfl, rfl, rfl, rfl, rfl, by show c1 + 1 + r.length = pre.length; simp at h5; omega⟩
  · rintro ⟨rest', clock, ended⟩ ⟨h1, h2, h3⟩
    simp only at h1 h2 h3
    subst h1 h2
    show OutDead _ (Out.done _)
    exact ⟨rfl, rfl, h3⟩
  · exact ⟨rfl, rfl, rfl, rfl, by simp [Pipe.ofList]⟩
  · rintro s1 s2 ⟨_, _, h3, _, _⟩
    exact h3
  · rintro src ⟨_, _, h3⟩
    exact h3

/-- **`pipeline_prefix_determined`** — "only the prefix that determines those k results": if what the
consumer asks for is settled within the input `pre` (`need k ≤ pre.length`: before `pre` is exhausted),
then whatever follows `pre` in the input is irrelevant — over `pre ++ rest` the consumer receives the
same `k` results at the same pull counts and causes the same number of pulls, for every `rest`. -/
theorem pipeline_prefix_determined (els : List (Stage α)) (hwf : ∀ e ∈ els, e.WF) (pre rest : List α) (fu : Nat)
    (hfu : seqFuelOK els (SF.ofList pre) fu) (k : Nat)
    (hk : (seqSpec els (SF.ofList pre)).need k ≤ pre.length) :
    (seqRun els (Pipe.ofList (pre ++ rest))).take fu k = (seqRun els (Pipe.ofList pre)).take fu k := by
  have hfin := pipeline_lazy els hwf pre fu hfu k
  obtain ⟨R, dead, hs, h0, hc, hd⟩ := seq_pipeSim els fu pre.length _ _ (prefix_pipeSim pre rest fu)
  unfold Pipe.take at hfin ⊢
  apply take_sim hs hc hd k _ _ h0
  · rw [hfin]; exact hk
  · rw [hfin]; simp only; split <;> simp
  · intro e; rw [hfin]; simp only; split <;> simp

/-- non-vacuity of `pipeline_prefix_determined`: `Filter(even), Slice(2)` over `[1,2,3,4]` followed by anything —
the two results need 4 pulls (`need 2 = 4 ≤ 4`), so what follows the prefix is never looked at -/
example : (seqSpec [Stage.filter (fun n : Nat => n % 2 == 0), .islice 0 (some 2) 1] (SF.ofList [1, 2, 3, 4])).need 2 ≤
    [1, 2, 3, 4].length := by decide
example : (seqRun [Stage.filter (fun n : Nat => n % 2 == 0), .islice 0 (some 2) 1]
      (Pipe.ofList ([1, 2, 3, 4] ++ [99, 100]))).take 40 2
    = (seqRun [Stage.filter (fun n : Nat => n % 2 == 0), .islice 0 (some 2) 1] (Pipe.ofList [1, 2, 3, 4])).take 40 2 := by
  decide

/-! ## "the shortest prefix": necessity -/

/-- elements that hand a result over the moment the input value that causes it is pulled — no look-ahead
(`Count`), no lag (negative `Slice`), no block (`Split`): callables, `Filter`, `Slice` with
non-negative arguments, `RunIf` -/
def Stage.Exact : Stage α → Prop
  | .map _ => True
  | .filter _ => True
  | .islice _ _ _ => True
  | .runIf _ _ _ _ => True
  | _ => False

/-- every result of a pipeline of exact elements is handed over at the stamp of an input value (never "at
the end") -/
theorem exact_stamps (els : List (Stage α)) (hex : ∀ e ∈ els, e.Exact) (sf : SF α) :
    ∀ p ∈ (seqSpec els sf).vals, p.2 ∈ sf.vals.map Prod.snd := by
  induction els generalizing sf with
  | nil => intro p hp; exact List.mem_map_of_mem hp
  | cons e es ih =>
    intro p hp
    have h1 := ih (fun e' he' => hex e' (by simp [he'])) (e.spec sf) p hp
    have hE := hex e (by simp)
    have hstage : ∀ q ∈ (e.spec sf).vals, q.2 ∈ sf.vals.map Prod.snd := by
      intro q hq
      cases e with
      | map f =>
        simp only [Stage.spec, mapSpec, List.mem_map] at hq
        obtain ⟨x, hx, rfl⟩ := hq
        exact List.mem_map.mpr ⟨x, hx, rfl⟩
      | filter g =>
        simp only [Stage.spec, filterSpec, List.mem_filter] at hq
        exact List.mem_map_of_mem hq.1
      | islice a b st =>
        simp only [Stage.spec, isliceSpec, Lena.C17.islice] at hq
        exact List.mem_map_of_mem (isliceGo_subset b st _ _ _ q hq)
      | runIf ι init sel inner =>
        simp only [Stage.spec, runIfSpec] at hq
        exact runIfSpecGo_stamps sel inner _ _ q hq
      | negslice a b st => exact absurd hE id
      | count mark => exact absurd hE id
      | split σb brs bufsize copyBuf => exact absurd hE id
    simp only [List.mem_map] at h1
    obtain ⟨q, hq, hq2⟩ := h1
    rw [← hq2]
    exact hstage q hq

/-- **`exact_pipeline_minimal`** — "the SHORTEST prefix that determines those k results", necessity.  For a
pipeline of exact elements: if result number `k` (from 0) is handed over after `c` pulls, then the first
`c − 1` input values do not determine it — over the input cut after `c − 1` values the pipeline has no
result number `k` at all.  Together with `pipeline_prefix_determined` (the first `c` values do determine
it): `c` is the length of the shortest prefix that determines the result, and that is exactly what has
been pulled (`pipeline_lazy`). -/
theorem exact_pipeline_minimal (els : List (Stage α)) (hwf : ∀ e ∈ els, e.WF) (hex : ∀ e ∈ els, e.Exact)
    (xs : List α) (fu : Nat) (k : Nat) (a : α) (c : Nat)
    (hfu : seqFuelOK els (SF.ofList xs) fu) (hfu' : seqFuelOK els (SF.ofList (xs.take (c - 1))) fu)
    (h : (seqSpec els (SF.ofList xs)).vals[k]? = some (a, c)) :
    (seqSpec els (SF.ofList (xs.take (c - 1)))).vals[k]? = none := by
  -- the stamp `c` is the stamp of an input value: 1 ≤ c ≤ |xs|
  have hc := exact_stamps els hex (SF.ofList xs) (a, c) (List.mem_of_getElem? h)
  simp only [SF.ofList, List.mem_map] at hc
  obtain ⟨q, hq, hqc⟩ := hc
  have hb := stamps_snd_bounds xs 0 q hq
  rw [hqc] at hb
  cases hk : (seqSpec els (SF.ofList (xs.take (c - 1)))).vals[k]? with
  | none => rfl
  | some p =>
    exfalso
    obtain ⟨a', c'⟩ := p
    have hc' := exact_stamps els hex (SF.ofList (xs.take (c - 1))) (a', c') (List.mem_of_getElem? hk)
    simp only [SF.ofList, List.mem_map] at hc'
    obtain ⟨q', hq', hqc'⟩ := hc'
    have hb' := stamps_snd_bounds (xs.take (c - 1)) 0 q' hq'
    rw [hqc'] at hb'
    have hlen : (xs.take (c - 1)).length = c - 1 := by simp; omega
    -- what the consumer asks for with `k + 1` results is settled within the prefix
    have hneed : (seqSpec els (SF.ofList (xs.take (c - 1)))).need (k + 1) ≤ (xs.take (c - 1)).length := by
      simp only [SF.need, hk]
      omega
    have hdet := pipeline_prefix_determined els hwf (xs.take (c - 1)) (xs.drop (c - 1)) fu hfu' (k + 1) hneed
    rw [List.take_append_drop, pipeline_lazy els hwf xs fu hfu (k + 1),
      pipeline_lazy els hwf (xs.take (c - 1)) fu hfu' (k + 1)] at hdet
    have h1 := congrArg (fun t => t.1[k]?) hdet
    simp only [List.getElem?_take, Nat.lt_succ_self, if_true, h, hk] at h1
    simp only [Option.some.injEq, Prod.mk.injEq] at h1
    omega

/-- non-vacuity of `exact_pipeline_minimal` and the content of "shortest": `Filter(even), Slice(1, None, 2)`
over `1..8` — result number 1 is the value 8, handed over after 8 pulls; over `1..7` there is no such result -/
example : (seqSpec [Stage.filter (fun n : Nat => n % 2 == 0), .islice 1 none 2] (SF.ofList [1, 2, 3, 4, 5, 6, 7, 8])).vals[1]?
    = some (8, 8) := by decide
example : (seqSpec [Stage.filter (fun n : Nat => n % 2 == 0), .islice 1 none 2]
    (SF.ofList ([1, 2, 3, 4, 5, 6, 7, 8].take (8 - 1)))).vals[1]? = none := by decide

/-- **`count_lookahead_needed`** — the one value of look-ahead `Count` documents is necessary: with only the
first `k + 1` input values, result number `k` would be the *marked* last value, not the plain one -/
theorem count_lookahead_needed (mark : Nat → α → α) (xs : List α) (k : Nat) (x : α) (hx : xs[k]? = some x) :
    (countSpec mark (SF.ofList (xs.take (k + 1)))).vals[k]? = some (mark (k + 1) x, k + 2) := by
  rw [count_lookahead]
  have hlen : (xs.take (k + 1)).length = k + 1 := by
    have : k < xs.length := by
      rcases Nat.lt_or_ge k xs.length with h | h
      · exact h
      · rw [List.getElem?_eq_none h] at hx; cases hx
    simp; omega
  simp only [SF.ofList, stamps_length, hlen, stamps_getElem?, List.getElem?_take, Nat.lt_succ_self, if_true, hx,
    Option.map_some]
  have hneed : (SF.mk 0 (stamps (xs.take (k + 1)) 0) (k + 1 + 1)).need (k + 2) = k + 2 := by
    rw [need_of_ge _ _ (by simp [hlen])]
  simp [hneed]

/-- **`lag_needed`** — the lag of a negative stop `-m` is necessary: with only the first `c − 1` values
(`c = k + m + 1` the stamp of result `k`) the slice has no result number `k` — value `k` might still be one
of the last `m` -/
theorem lag_needed (m : Nat) (xs : List α) (k : Nat) :
    (lagSpec m (stamps (xs.take (k + m)) 0))[k]? = none := by
  rw [negslice_lag]
  have : (stamps (xs.take (k + m)) 0)[k + m]? = none := by
    rw [List.getElem?_eq_none]
    simp only [stamps_length, List.length_take]
    exact Nat.min_le_left _ _
  simp [this]

/-- `Filter`, `Count` and a negative `Slice` before the terminating `Slice(2)`, over `0, 1, 2, …`:
the pipeline ends, after 7 pulls -/
example : (seqRun [Stage.filter (fun n : Nat => n % 2 == 0), .count (fun c v => v + 100 * c),
      .negslice none (some (-1)) 1, .islice 0 (some 2) 1] (Pipe.ofFn (fun i => i))).take 60 5
    = ([(0, 5), (2, 7)], Ending.exhausted, 7) := by decide

/-- `Slice(-2, 1)` over an infinite input: nothing can be selected once 4 values have been seen -/
example : (seqRun [Stage.negslice (some (-2)) (some 1) 1] (Pipe.ofFn (fun i => i))).take 60 3
    = ([], Ending.exhausted, 4) := by decide

/-- seeded change C02-B as an instance: `Source(infinite, Split([(Slice(2), Count())], bufsize=4), Slice(1))` —
the fill/compute branch stops in the first block, its result `(2, {count: 2})` is handed over after 4 pulls
and the pipeline ends there -/
example : (seqRun [Stage.split BrSt
        [{ id := 0, kind := .fillCompute, ops := fcOps "count" id,
           st := { pre := [.slice (some 2) 1 (Lena.C17.fillInit 0)], count := 0, ctx := [] } }] (some 4) true,
      .islice 0 (some 1) 1] (Pipe.ofFn (fun (i : Nat) => ({ d := i, ctx := [] } : V)))).take 60 3
    = ([(({ d := 2, ctx := [("count", 2)] } : V), 4)], Ending.exhausted, 4) := by decide

/-! ## `Split.__init__`: when a finite `bufsize` is given up -/

/-- **`effBufsize_no_cache`** — a `Split` keeps the `bufsize` it was given unless a sequence-type branch
contains a `Cache`: in particular a nested `Split` — whatever its own `bufsize`, also `None` — does not
make the outer `Split` read the whole flow (the tree `CTree.split` does not even carry the inner bufsize). -/
theorem effBufsize_no_cache (bufsize : Option Nat) (brs : List (Lena.C03.Kind × CTree))
    (h : ∀ b ∈ brs, b.1 = Lena.C03.Kind.sequence → containsCache b.2 = false) :
    effBufsize bufsize brs = bufsize := by
  unfold effBufsize
  have : brs.any (fun b => b.1 == Lena.C03.Kind.sequence && containsCache b.2) = false := by
    rw [List.any_eq_false]
    intro b hb
    by_cases hk : b.1 = Lena.C03.Kind.sequence
    · simp [hk, h b hb hk]
    · simp [hk]
  simp [this]

/-- **`effBufsize_cache`** — with a `Cache` in a sequence-type branch every `bufsize` becomes `None` -/
theorem effBufsize_cache (bufsize : Option Nat) (brs : List (Lena.C03.Kind × CTree)) (t : CTree)
    (hb : (Lena.C03.Kind.sequence, t) ∈ brs) (hc : containsCache t = true) : effBufsize bufsize brs = none := by
  unfold effBufsize
  cases bufsize with
  | none => simp
  | some b =>
    have : brs.any (fun b => b.1 == Lena.C03.Kind.sequence && containsCache b.2) = true :=
      List.any_eq_true.mpr ⟨_, hb, by simp [hc]⟩
    simp [this]

/-- `_contains_cache` looks into nested `Split`s, sequences and `RunIf`s: a tree contains a `Cache` iff one
of its sub-trees does -/
theorem containsCache_split (seqs : List CTree) : containsCache (.split seqs) = seqs.any containsCache := by
  rw [containsCache]
  induction seqs with
  | nil => rfl
  | cons t r ih => simp [anyCache, ih]

example : effBufsize (some 2)
    [(.sequence, .seq [.leaf]), (.sequence, .seq [.split [.seq [.leaf], .seq [.leaf]]])] = some 2 := by decide
example : effBufsize (some 2) [(.sequence, .seq [.split [.seq [.leaf, .seq [.cache]]]])] = none := by decide
example : effBufsize (some 2) [(.fillCompute, .seq [.cache, .leaf])] = some 2 := by decide

/-! ## `bufsize=None` over an infinite input -/

/-- **`split_none_never_returns`** — `Split(…, bufsize=None)` materialises its input (documented): over an
input that always has another value its first `next` never returns a result — for every loop bound the
outcome is `fuel`.  (The harness observes this as "more than LIMIT pulls".) -/
theorem split_none_never_returns {σ σb : Type} (copyBuf : Bool) (up : Gen σ α) (fu : Nat) (I : σ → Prop)
    (hI : ∀ s, I s → ∃ a s', up.next fu s = .item a s' ∧ I s') :
    ∀ (n : Nat) (s : σ) (l : SSt σb α), I s → l.phase = .reading →
      iter (splitStep none copyBuf up fu) n (s, l) = .fuel
  | 0, _, _, _, _ => rfl
  | n + 1, s, l, hs, hl => by
    obtain ⟨a, s', h1, h2⟩ := hI s hs
    have hstep : splitStep none copyBuf up fu (s, l) = .cont (s', { l with buf := l.buf ++ [a] }) := by
      simp [splitStep, hl, blockFull, h1]
    rw [iter_cont n hstep]
    exact split_none_never_returns copyBuf up fu I hI n s' _ h2 hl

example {σb : Type} (brs : List (Lena.C03.Branch σb Nat)) (fu : Nat) :
    (splitG none true (fnSrc (fun i => i))).next fu (0, splitInit brs) = .fuel :=
  split_none_never_returns true (fnSrc (fun i => i)) fu (fun _ => True) (fun s _ => ⟨s, s + 1, rfl, trivial⟩)
    fu 0 (splitInit brs) trivial rfl

/-! ## executable forms of the hypotheses (evaluated by the driver on every generated case) -/

theorem negArgsB_iff (a b : Option Int) : negArgsB a b = true ↔ NegArgs a b := by
  cases a <;> cases b <;> simp [negArgsB, NegArgs]

theorem Stage.wfb_iff (st : Stage α) : st.wfb = true ↔ st.WF := by
  cases st <;> simp [Stage.wfb, Stage.WF, negArgsB_iff, GoodBufsize]

theorem seqFuelOKb_iff (els : List (Stage α)) (sf : SF α) (fu : Nat) :
    seqFuelOKb els sf fu = true ↔ seqFuelOK els sf fu := by
  induction els generalizing sf with
  | nil => simp [seqFuelOKb, seqFuelOK]
  | cons e es ih =>
    simp only [seqFuelOKb, seqFuelOK, Bool.and_eq_true, ih]
    apply and_congr_left'
    cases e <;> simp [Stage.fuelOKb, Stage.fuelOK]

/-! ## bounded buffering -/

section buffers
variable {σ : Type}

/-- the state a loop iteration leads to (none if it runs out of fuel or raises) -/
def Step.state? {β : Type} : Step σ β → Option σ
  | .yield _ s => some s
  | .stop s => some s
  | .cont s => some s
  | .fuel => none
  | .error _ => none

/-- every state a generator body can be in: reached from `s` by any number of loop iterations
(within one `next` call or across any number of them, whatever the consumer does) -/
inductive StepReach {β : Type} (step : σ → Step σ β) : σ → σ → Prop
  | refl (s : σ) : StepReach step s s
  | tail {s t t' : σ} : StepReach step s t → (step t).state? = some t' → StepReach step s t'

theorem stepReach_invariant {β : Type} (step : σ → Step σ β) (I : σ → Prop)
    (hstep : ∀ t t', I t → (step t).state? = some t' → I t') {s t : σ} (hs : I s) (h : StepReach step s t) :
    I t := by
  induction h with
  | refl => exact hs
  | tail _ h2 ih => exact hstep _ _ ih h2

/-- **`split_buffer_bound`** — `Split(…, bufsize=b)` never holds more than `b` unprocessed input values:
in every state `Split.run` can reach, `orig_buf` has at most `b` values (and it is emptied when the
block has been given to the branches). -/
theorem split_buffer_bound {σb : Type} (b : Nat) (copyBuf : Bool) (up : Gen σ α) (fu : Nat)
    (brs : List (Lena.C03.Branch σb α)) (s : σ) (t : σ × SSt σb α)
    (h : StepReach (splitStep (some b) copyBuf up fu) (s, splitInit brs) t) : t.2.buf.length ≤ b := by
  refine stepReach_invariant _ (fun t => t.2.buf.length ≤ b) ?_ (by simp [splitInit]) h
  rintro ⟨s1, l⟩ t' hI ht
  simp only at hI
  simp only [splitStep] at ht
  cases hph : l.phase with
  | reading =>
    rw [hph] at ht
    simp only [blockFull] at ht
    by_cases hfull : l.buf.length ≥ b
    · simp only [hfull, decide_true, if_true, Step.state?, Option.some.injEq] at ht
      subst ht; exact hI
    · simp only [hfull, decide_false, Bool.false_eq_true, if_false] at ht
      cases hn : up.next fu s1 with
      | item a s' =>
        rw [hn] at ht
        simp only [Step.state?, Option.some.injEq] at ht
        subst ht
        simp; omega
      | done s' =>
        rw [hn] at ht
        simp only [Step.state?, Option.some.injEq] at ht
        subst ht; exact hI
      | fuel => rw [hn] at ht; simp [Step.state?] at ht
      | error e => rw [hn] at ht; simp [Step.state?] at ht
  | blockRead =>
    rw [hph] at ht
    simp only [processBlock] at ht
    split at ht
    · simp only [Step.state?, Option.some.injEq] at ht
      subst ht; exact hI
    · simp only [Step.state?, Option.some.injEq] at ht
      subst ht; simp
  | emitting =>
    rw [hph] at ht
    cases hp : l.pending with
    | nil => rw [hp] at ht; simp only [Step.state?, Option.some.injEq] at ht; subst ht; exact hI
    | cons x r => rw [hp] at ht; simp only [Step.state?, Option.some.injEq] at ht; subst ht; exact hI
  | finalEmit =>
    rw [hph] at ht
    cases hp : l.pending with
    | nil => rw [hp] at ht; simp only [Step.state?, Option.some.injEq] at ht; subst ht; exact hI
    | cons x r => rw [hp] at ht; simp only [Step.state?, Option.some.injEq] at ht; subst ht; exact hI
  | finished =>
    rw [hph] at ht
    simp only [Step.state?, Option.some.injEq] at ht
    subst ht; exact hI

/-- input values `Count.run` holds: `prev_val` -/
def CSt.held : CSt α → Nat
  | .running _ _ => 1
  | _ => 0

/-- **`count_held_bound`** — `Count.run` keeps exactly one value of look-ahead -/
theorem count_held_bound (l : CSt α) : l.held ≤ 1 := by cases l <;> simp [CSt.held]

/-- input values `Split.run` retains: the blocks `orig_buf` and `buf` are bound to (the same list while a
sequence is active) and the block being read -/
def SSt.held {σb : Type} (l : SSt σb α) : Nat := l.cur.length + l.last.length + l.buf.length

/-- **`split_retention_bound`** — in every state `Split(…, bufsize=b).run` can reach, the block bound to
`orig_buf`, the block bound to `buf` and the block under construction have at most `b` values each: at
most `3·b` input values are retained (`Stage.cap`; `2·b` while a sequence is active, because then `buf`
is `orig_buf`), of which at most `b` — the block under construction — are unprocessed.  This is what the
weak-reference oracle of the harness allows for a `Split`. -/
theorem split_retention_bound {σb : Type} (b : Nat) (copyBuf : Bool) (up : Gen σ α) (fu : Nat)
    (brs : List (Lena.C03.Branch σb α)) (s : σ) (t : σ × SSt σb α)
    (h : StepReach (splitStep (some b) copyBuf up fu) (s, splitInit brs) t) :
    t.2.cur.length ≤ b ∧ t.2.last.length ≤ b ∧ t.2.buf.length ≤ b ∧ t.2.held ≤ 3 * b := by
  have key : t.2.cur.length ≤ b ∧ t.2.last.length ≤ b ∧ t.2.buf.length ≤ b := by
    refine stepReach_invariant _ (fun t => t.2.cur.length ≤ b ∧ t.2.last.length ≤ b ∧ t.2.buf.length ≤ b) ?_
      (by simp [splitInit]) h
    rintro ⟨s1, l⟩ t' hI ht
    simp only at hI
    simp only [splitStep] at ht
    cases hph : l.phase with
    | reading =>
      rw [hph] at ht
      simp only [blockFull] at ht
      by_cases hfull : l.buf.length ≥ b
      · simp only [hfull, decide_true, if_true, Step.state?, Option.some.injEq] at ht
        subst ht; exact hI
      · simp only [hfull, decide_false, Bool.false_eq_true, if_false] at ht
        cases hn : up.next fu s1 with
        | item a s' =>
          rw [hn] at ht
          simp only [Step.state?, Option.some.injEq] at ht
          subst ht
          exact ⟨hI.1, hI.2.1, by simp; omega⟩
        | done s' =>
          rw [hn] at ht
          simp only [Step.state?, Option.some.injEq] at ht
          subst ht; exact hI
        | fuel => rw [hn] at ht; simp [Step.state?] at ht
        | error e => rw [hn] at ht; simp [Step.state?] at ht
    | blockRead =>
      rw [hph] at ht
      simp only [processBlock] at ht
      split at ht
      · simp only [Step.state?, Option.some.injEq] at ht
        subst ht; exact ⟨hI.2.2, hI.2.1, hI.2.2⟩
      · simp only [Step.state?, Option.some.injEq] at ht
        subst ht
        refine ⟨hI.2.2, ?_, by simp⟩
        simp only
        split
        · exact hI.2.1
        · exact hI.2.2
    | emitting =>
      rw [hph] at ht
      cases hp : l.pending with
      | nil => rw [hp] at ht; simp only [Step.state?, Option.some.injEq] at ht; subst ht; exact hI
      | cons x r => rw [hp] at ht; simp only [Step.state?, Option.some.injEq] at ht; subst ht; exact hI
    | finalEmit =>
      rw [hph] at ht
      cases hp : l.pending with
      | nil => rw [hp] at ht; simp only [Step.state?, Option.some.injEq] at ht; subst ht; exact hI
      | cons x r => rw [hp] at ht; simp only [Step.state?, Option.some.injEq] at ht; subst ht; exact hI
    | finished =>
      rw [hph] at ht
      simp only [Step.state?, Option.some.injEq] at ht
      subst ht; exact hI
  exact ⟨key.1, key.2.1, key.2.2, by simp only [SSt.held]; omega⟩

/-- the number of values `_run_negative_islice` holds in its deque -/
def NSt.held : NSt α → Nat
  | .fill _ d => d.length
  | .filled d => d.length
  | .lag d => d.length
  | .drain d => d.length
  | .drained d => d.length
  | .emitAll d => d.length
  | .emitN _ d => d.length
  | .posLoop _ d => d.length
  | .emitUpTo _ d => d.length
  | _ => 0

theorem dqAppendLeft_length_le (m : Nat) (d : List α) (v : α) : (Lena.C17.dqAppendLeft m d v).length ≤ m := by
  simp [Lena.C17.dqAppendLeft]; omega

theorem dqAppend_length_le (m : Nat) (d : List α) (v : α) : (Lena.C17.dqAppend m d v).length ≤ m := by
  simp [Lena.C17.dqAppend]; omega

/-- **`negslice_held_bound`** — a `Slice` with a negative index keeps alive only the `|index|` values
it documents: in every state `_run_negative_islice` can reach, its deque holds at most
`max |start| |stop|` values (the `maxlen` of the deque of the branch taken) — it never materialises
the flow. -/
theorem negslice_held_bound (start stop : Option Int) (up : Gen σ α) (fu : Nat) (s : σ) (t : σ × NSt α)
    (h : StepReach (negStep start stop up fu) (s, NSt.init) t) :
    t.2.held ≤ max (negLen start) (negLen stop) := by
  refine stepReach_invariant _ (fun t => t.2.held ≤ max (negLen start) (negLen stop)) ?_ (by simp [NSt.held]) h
  rintro ⟨s1, l⟩ t' hI ht
  simp only at hI
  cases l with
  | init =>
    simp only [negStep] at ht
    repeat' split at ht
    all_goals (simp only [Step.state?, Option.some.injEq] at ht; subst ht; simp [NSt.held])
  | skip i =>
    simp only [negStep] at ht
    repeat' split at ht
    all_goals first
      | (simp only [Step.state?, Option.some.injEq] at ht; subst ht; simp [NSt.held])
      | (simp [Step.state?] at ht)
  | fill i d =>
    simp only [negStep] at ht
    repeat' split at ht
    all_goals first
      | (simp only [Step.state?, Option.some.injEq] at ht; subst ht; simp only [NSt.held] at hI ⊢
         first | exact hI | (have := dqAppendLeft_length_le (negLen stop) d ‹α›; omega))
      | (simp [Step.state?] at ht)
  | filled d =>
    simp only [negStep, afterFill] at ht
    repeat' split at ht
    all_goals (simp only [Step.state?, Option.some.injEq] at ht; subst ht; simp only [NSt.held] at hI ⊢
               first | exact hI | omega)
  | lag d =>
    simp only [negStep] at ht
    repeat' split at ht
    all_goals first
      | (simp only [Step.state?, Option.some.injEq] at ht; subst ht; simp only [NSt.held] at hI ⊢
         first | omega | exact Nat.le_trans (dqAppendLeft_length_le _ _ _) (Nat.le_max_right _ _))
      | (simp [Step.state?] at ht)
  | drain d =>
    simp only [negStep] at ht
    repeat' split at ht
    all_goals first
      | (simp only [Step.state?, Option.some.injEq] at ht; subst ht; simp only [NSt.held] at hI ⊢
         first | exact hI | (have := dqAppend_length_le (negLen start) d ‹α›; omega))
      | (simp [Step.state?] at ht)
  | drained d =>
    simp only [negStep] at ht
    repeat' split at ht
    all_goals (simp only [Step.state?, Option.some.injEq] at ht; subst ht; simp only [NSt.held] at hI ⊢; exact hI)
  | emitAll d =>
    simp only [negStep] at ht
    repeat' split at ht
    all_goals (simp only [Step.state?, Option.some.injEq] at ht; subst ht; simp only [NSt.held, List.length_cons] at hI ⊢
               omega)
  | emitN n d =>
    simp only [negStep] at ht
    repeat' split at ht
    all_goals first
      | (simp only [Step.state?, Option.some.injEq] at ht; subst ht; simp only [NSt.held, List.length_cons] at hI ⊢
         omega)
      | (simp [Step.state?] at ht)
  | posLoop ind d =>
    simp only [negStep] at ht
    repeat' split at ht
    all_goals first
      | (simp only [Step.state?, Option.some.injEq] at ht; subst ht; simp only [NSt.held] at hI ⊢
         first | omega | (have := dqAppend_length_le (negLen start) d ‹α›; omega))
      | (simp [Step.state?] at ht)
  | emitUpTo n d =>
    simp only [negStep] at ht
    repeat' split at ht
    all_goals (simp only [Step.state?, Option.some.injEq] at ht; subst ht; simp only [NSt.held, List.length_cons] at hI ⊢
               omega)
  | finished =>
    simp only [negStep, Step.state?, Option.some.injEq] at ht
    subst ht
    simp [NSt.held]

/-- what `Split.run` yields, block by block: the results of the branches for the next `b` values (or for
what is left) all carry the clock at which that block was complete, and are followed by what `Split`
yields from the rest of the input with the branches in the state the block left them in -/
theorem splitSpecGo_block {σb : Type} (b : Nat) (copyBuf : Bool) (cf fuel c0 : Nat) (xs : List (α × Nat))
    (act : List (Lena.C03.Branch σb α)) (fwe : Bool) (hb : 1 ≤ b) (hne : xs ≠ []) :
    splitSpecGo (some b) copyBuf cf (fuel + 1) c0 xs act fwe =
      (Lena.C03.outputs (Lena.C03.blockLoop copyBuf ((xs.take b).map Prod.fst) (act.length + 1) 0 act []).1).map
          (fun v => (v, (SF.mk c0 xs cf).need b))
        ++ splitSpecGo (some b) copyBuf cf fuel ((SF.mk c0 xs cf).need b) (xs.drop b)
            (Lena.C03.blockLoop copyBuf ((xs.take b).map Prod.fst) (act.length + 1) 0 act []).2 false := by
  rw [splitSpecGo]
  have : ¬ ((xs.take (blockAsk (some b) xs)).map Prod.fst).isEmpty = true := by
    cases xs with
    | nil => exact absurd rfl hne
    | cons p r =>
      obtain ⟨k, rfl⟩ : ∃ k, b = k + 1 := ⟨b - 1, by omega⟩
      simp [blockAsk]
  simp only [this, if_false, Bool.false_eq_true]
  rfl

/-- **`split_block_exact`** — block number `j` of the input (the values `j·b … (j+1)·b − 1`): everything the
branches produce for it carries exactly the clock at which `(j+1)·b` values had been obtained (or the end
seen) — it is handed downstream before value `(j+1)·b + 1` is pulled, and not later — and what follows is
what `Split` yields from the rest of the input, with the branches as this block left them. -/
theorem split_block_exact {σb : Type} (b : Nat) (hb : 1 ≤ b) (copyBuf : Bool) (cf fuel c0 : Nat)
    (xs : List (α × Nat)) (act : List (Lena.C03.Branch σb α)) (fwe : Bool) (j : Nat) (hj : j * b < xs.length) :
    splitSpecGo (some b) copyBuf cf (fuel + 1) ((SF.mk c0 xs cf).need (j * b)) (xs.drop (j * b)) act fwe =
      (Lena.C03.outputs (Lena.C03.blockLoop copyBuf (((xs.drop (j * b)).take b).map Prod.fst)
          (act.length + 1) 0 act []).1).map (fun v => (v, (SF.mk c0 xs cf).need ((j + 1) * b)))
        ++ splitSpecGo (some b) copyBuf cf fuel ((SF.mk c0 xs cf).need ((j + 1) * b)) (xs.drop ((j + 1) * b))
            (Lena.C03.blockLoop copyBuf (((xs.drop (j * b)).take b).map Prod.fst) (act.length + 1) 0 act []).2
            false := by
  have hne : xs.drop (j * b) ≠ [] := by
    intro h0
    have := congrArg List.length h0
    simp at this
    omega
  rw [splitSpecGo_block b copyBuf cf fuel _ _ act fwe hb hne, need_drop, List.drop_drop]
  have e : j * b + b = (j + 1) * b := by rw [Nat.add_mul]; omega
  rw [e]

/-- **`cap_sound`** — `Stage.cap` (the per-element buffer size the liveness oracle of the harness allows, compared
with the harness's own table on every case) bounds what the machines hold in every reachable state:
a negative `Slice` its deque, `Count` its one value of look-ahead, `Split` the blocks bound to `orig_buf`
and `buf` and the block under construction. -/
theorem cap_sound :
    (∀ (a b : Option Int) (st : Nat) (up : Gen σ α) (fu : Nat) (s : σ) (t : σ × NSt α),
      StepReach (negStep a b up fu) (s, NSt.init) t →
        ∃ c, (Stage.negslice a b st : Stage α).cap = some c ∧ t.2.held ≤ c) ∧
    (∀ (mark : Nat → α → α) (l : CSt α), ∃ c, (Stage.count mark).cap = some c ∧ l.held ≤ c) ∧
    (∀ (σb : Type) (brs : List (Lena.C03.Branch σb α)) (b : Nat) (copyBuf : Bool), brs.isEmpty = false →
      ∀ (up : Gen σ α) (fu : Nat) (s : σ) (t : σ × SSt σb α),
        StepReach (splitStep (some b) copyBuf up fu) (s, splitInit brs) t →
          ∃ c, (Stage.split σb brs (some b) copyBuf).cap = some c ∧ t.2.held ≤ c) := by
  refine ⟨?_, ?_, ?_⟩
  · intro a b st up fu s t h
    exact ⟨_, rfl, negslice_held_bound a b up fu s t h⟩
  · intro mark l
    exact ⟨1, rfl, count_held_bound l⟩
  · intro σb brs b copyBuf hne up fu s t h
    exact ⟨3 * b, by simp [Stage.cap, hne], (split_retention_bound b copyBuf up fu brs s t h).2.2.2⟩

/-- non-vacuity of the reachability hypotheses: one loop iteration of `_run_negative_islice` (from the start to
the `fill_deque` loop) and one of `Split.run` (the first value of a block has been pulled) -/
example : StepReach (negStep none (some (-2)) (listSrc (α := Nat)) 5)
    (⟨[7, 8], 0, false⟩, NSt.init) (⟨[7, 8], 0, false⟩, NSt.fill 0 []) :=
  StepReach.tail (StepReach.refl _) rfl

example : StepReach (splitStep (σb := BrSt) (some 2) true (listSrc (α := V)) 5)
    (⟨[⟨1, []⟩, ⟨2, []⟩], 0, false⟩, splitInit [⟨0, .sequence, seqOps (fun c b => (b, c)), ⟨[], 0, [], [], 0⟩⟩])
    (⟨[⟨2, []⟩], 1, false⟩,
      { (splitInit [⟨0, .sequence, seqOps (fun c b => (b, c)), ⟨[], 0, [], [], 0⟩⟩] : SSt BrSt V) with buf := [⟨1, []⟩] }) :=
  StepReach.tail (StepReach.refl _) rfl

/-- `Split.run` reports its end when — and only when — its input has ended (see the recorded judgement in the
module docstring) -/
theorem split_end_is_input_end {σb : Type} (brs : List (Lena.C03.Branch σb α)) (bufsize : Option Nat)
    (copyBuf : Bool) (sf : SF α) : (splitSpec brs bufsize copyBuf sf).cf = sf.cf := rfl

/-- **`split_block_bound`** — every result of `Split(…, bufsize=b).run` is handed downstream at a clock at
which a whole number of blocks has been obtained from the input (`i·b` values, or its end has been
seen): no result waits while the next block is being pulled, and no value of the next block is pulled
before the results of the previous block have been handed over. -/
theorem split_block_bound {σb : Type} (b : Nat) (hb : 1 ≤ b) (copyBuf : Bool) (cf : Nat) :
    ∀ (fuel c0 : Nat) (xs : List (α × Nat)) (act : List (Lena.C03.Branch σb α)) (fwe : Bool),
      ∀ p ∈ splitSpecGo (some b) copyBuf cf fuel c0 xs act fwe, ∃ i, 1 ≤ i ∧ p.2 = (SF.mk c0 xs cf).need (i * b) := by
  intro fuel
  induction fuel with
  | zero => intro c0 xs act fwe p hp; simp [splitSpecGo] at hp
  | succ fuel ih =>
    intro c0 xs act fwe p hp
    rw [splitSpecGo] at hp
    have hk : blockAsk (some b) xs = b := rfl
    by_cases hemp : ((xs.take (blockAsk (some b) xs)).map Prod.fst).isEmpty = true
    · rw [if_pos hemp] at hp
      simp only [List.mem_map] at hp
      obtain ⟨v, _, rfl⟩ := hp
      exact ⟨1, Nat.le_refl 1, by simp [hk]⟩
    · rw [if_neg hemp, List.mem_append] at hp
      rcases hp with hp | hp
      · simp only [List.mem_map] at hp
        obtain ⟨v, _, rfl⟩ := hp
        exact ⟨1, Nat.le_refl 1, by simp [hk]⟩
      · obtain ⟨i, hi, he⟩ := ih _ _ _ _ p hp
        refine ⟨i + 1, by omega, ?_⟩
        rw [he, hk, need_drop]
        congr 1
        rw [Nat.add_mul]
        omega

end buffers

/-! ## the results are those of the list semantics -/

/-- per stage: the values of the stamped flow are the list semantics of the element (`Lena.C17` for
`Slice`, `Lena.C03` for `Split`) applied to the values of the input -/
theorem stage_refines_list (st : Stage α) (hwf : st.WF) (sf : SF α) :
    (st.spec sf).vals.map Prod.fst = st.den (sf.vals.map Prod.fst) := by
  cases st with
  | map f => simp [Stage.spec, Stage.den, mapSpec]
  | filter q =>
    simp only [Stage.spec, Stage.den, filterSpec]
    induction sf.vals with
    | nil => rfl
    | cons p r ih =>
      by_cases h : q p.1 = true
      · simp [List.filter_cons_of_pos, h, ih]
      · simp [List.filter_cons_of_neg, h, ih]
  | islice a b st => simp [Stage.spec, Stage.den, isliceSpec, islice_map]
  | negslice a b st =>
    obtain ⟨hargs, hst⟩ := hwf
    have hneg := negSpec_fst a b hargs sf
    simp only [Stage.spec, Stage.den, negSliceSpec, Lena.C17.sliceRun, hneg]
    by_cases h1 : st = 1
    · simp [h1]
    · simp only [h1, if_false, isliceSpec, islice_map]
      rw [islice_eq_everyNth _ _ _ _ hst]
      simp [Lena.C17.takeOpt]
  | count mark =>
    simp only [Stage.spec, Stage.den, countSpec]
    cases sf.vals with
    | nil => rfl
    | cons p r => obtain ⟨a, c⟩ := p; simp [countDen, countSpecGo_fst]
  | runIf ι init sel inner =>
    simp only [Stage.spec, Stage.den, runIfSpec]
    generalize init = i
    induction sf.vals generalizing i with
    | nil => rfl
    | cons p r ih =>
      by_cases h : sel p.1 = true
      · simp [runIfSpecGo, runIfDenGo, h, ih, Function.comp_def]
      · simp [runIfSpecGo, runIfDenGo, h, ih]
  | split σb brs bufsize copyBuf =>
    by_cases he : brs.isEmpty = true
    · simp [Stage.spec, Stage.den, he, mapSpec, Lena.C03.Split.run, emptyRun_eq]
    · simp only [Stage.spec, Stage.den, if_neg he]
      exact splitSpec_fst brs bufsize copyBuf he sf

/-- **`lazy_refines_list`** — the values a pipeline yields are exactly the list semantics of the same
elements on the input: together with `pipeline_lazy` this is what "the shortest prefix that determines
those k results" means — the first `k` results of the eager semantics are produced from, and only
from, the prefix pulled so far -/
theorem lazy_refines_list (els : List (Stage α)) (hwf : ∀ e ∈ els, e.WF) (sf : SF α) :
    (seqSpec els sf).vals.map Prod.fst = seqDen els (sf.vals.map Prod.fst) := by
  induction els generalizing sf with
  | nil => rfl
  | cons e es ih =>
    show (seqSpec es (e.spec sf)).vals.map Prod.fst = seqDen es (e.den (sf.vals.map Prod.fst))
    rw [ih (fun e' he' => hwf e' (by simp [he'])), stage_refines_list e (hwf e (by simp))]

/-- the values received by a consumer that takes `k` results are the first `k` results of the list
semantics on the whole input -/
theorem pipeline_values (els : List (Stage α)) (hwf : ∀ e ∈ els, e.WF) (xs : List α) (fu : Nat)
    (hfu : seqFuelOK els (SF.ofList xs) fu) (k : Nat) :
    (((seqRun els (Pipe.ofList xs)).take fu k).1).map Prod.fst = (seqDen els xs).take k := by
  rw [pipeline_lazy els hwf xs fu hfu k]
  simp only [List.map_take]
  rw [lazy_refines_list els hwf]
  simp [SF.ofList, stamps_map_fst]

end Lena.C02
