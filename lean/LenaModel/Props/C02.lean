import LenaModel.Model.C02
/-! # C02 — property theorems (laziness) -/
namespace Lena.C02
end Lena.C02
