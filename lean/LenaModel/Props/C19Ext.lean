import LenaModel.Props.C19
import LenaModel.Model.C19Ext
/-! # C19 — theorems about the extension model (`Model/C19Ext.lean`)

Clauses of the property that had generator / oracle / theorem coverage only for ONE value per element object, or for
one kind of input, before the adversary round (`notes/adversary_C19.md`):

* "MakeFilename never replaces an existing name …" and "every file named by a yielded value … exactly the content
  produced from the current data": the name a value gets depends on that value's own context and the static context
  only — never on the values the same object named before (`mfObjRun_eq_map`, `mfObjRun_independent`,
  `runSpecStatic_none`, `runSpecStatic_named`);
* "… with exactly the content produced from the current data [and template]": every value of a flow is rendered from
  the template *it* selects, as that file is on disk now, whatever the same `RenderLaTeX` object rendered before
  (`renderRun_current`); the CSV text follows `output.duplicate_last_bin` of the value's context when the key is
  present — also when it is `False` (`toCsv_context_dup_precedence`, `hist1dRows_length`, `hist1dRows_dup`);
* "every file named by a yielded value exists": a conversion whose return code is not 0 — positive or negative —
  is never named by a yielded value (`latexHandle_rc_nonzero`, `latexRun_yields_iff_rc_zero`);
* "… exists at output_directory/dirname/filename.fileext": for ALL names, also absolute ones, the path `Write` builds
  is the output directory followed by relative components (`write_path_below_outdir`). -/

namespace Lena.C19
set_option linter.unusedSectionVars false
set_option linter.unusedSimpArgs false
variable {C : Type} [DecidableEq C]

/-! ## one `MakeFilename` object, several values -/

/-- the run-time context wins, the static context only fills in -/
theorem fullName_some (static : Option String) (n : String) : fullName static (some n) = some n := rfl

theorem fullName_none (static : Option String) : fullName static none = static := rfl

theorem fullName_no_static (name : Option String) : fullName none name = name := by
  cases name <;> rfl

/-- **`mfObjRun_eq_map`.**  For every `MakeFilename` object (any methods, any static context), every flow of values:
the result for each value is `MakeFilename.__call__` on that value alone — with its own `name` if it has one, else
the static one.  Nothing is carried from one value to the next. -/
theorem mfObjRun_eq_map (el : MFObj) (vals : List (Option String × OutCtx)) :
    mfObjRun el vals = vals.map fun p => mfCall el.overwrite el.ms (fullName el.static p.1) p.2 := by
  induction vals with
  | nil => rfl
  | cons x rest ih =>
    obtain ⟨n, o⟩ := x
    simp only [mfObjRun, mfObjCall, List.map_cons, ih]

/-- **`mfObjRun_independent`.**  The name given to a value does not depend on the values named before or after it by
the same object. -/
theorem mfObjRun_independent (el : MFObj) (pre post : List (Option String × OutCtx)) (x : Option String × OutCtx) :
    mfObjRun el (pre ++ x :: post) = mfObjRun el pre ++ mfObjRun el [x] ++ mfObjRun el post := by
  simp only [mfObjRun_eq_map, List.map_append, List.map_cons, List.map_nil, List.append_assoc, List.cons_append,
    List.nil_append]

/-- non-vacuity, the adversary's situation: static context `far`, first value named `a`, second value unnamed — the
second value is named from the static context, not from the first value -/
example : mfObjRun ⟨false, [(.filename, [.var])], some "far"⟩ [(some "a", {}), (none, {})]
    = [({ filename := some "a" }, true), ({ filename := some "far" }, true)] := by decide

/-- and without a static context the unnamed value is left alone (`Write` then uses its default name) -/
example : mfObjRun ⟨false, [(.filename, [.var])], none⟩ [(some "a", {}), (none, {})]
    = [({ filename := some "a" }, true), ({}, false)] := by decide

theorem Plot.withStatic_none (pl : Plot) : pl.withStatic none = pl := by
  cases pl with
  | mk name data => cases name <;> rfl

/-- a pipeline without a static context is the pipeline of `Model/C19.lean` -/
theorem runSpecStatic_none (conv : Conv C) (w : World C) (r : RunSpec) :
    runSpecStatic conv w none r = runSpec conv w r := by
  have hm : r.plots.map (Plot.withStatic none) = r.plots := by
    induction r.plots with
    | nil => rfl
    | cons p ps ih => simp only [List.map_cons, Plot.withStatic_none, ih]
  obtain ⟨cfg, layout, tpl, plots⟩ := r
  simp only at hm
  unfold runSpecStatic
  cases layout <;> simp only [hm]

/-- **the static context never replaces a plot's own name**: when every plot has a name, a run with any static
context is the run without one — all theorems about `runSpec` (freshness, no-redo) apply to it unchanged -/
theorem runSpecStatic_named (conv : Conv C) (w : World C) (static : Option String) (r : RunSpec)
    (hl : r.layout ≠ .group) (hn : ∀ pl ∈ r.plots, pl.name.isSome) :
    runSpecStatic conv w static r = runSpec conv w r := by
  have hm : r.plots.map (Plot.withStatic static) = r.plots := by
    have : ∀ (l : List Plot), (∀ pl ∈ l, pl.name.isSome) → l.map (Plot.withStatic static) = l := by
      intro l
      induction l with
      | nil => intro _; rfl
      | cons p ps ih =>
        intro h
        have hp := h p (List.mem_cons_self ..)
        have hps := ih fun q hq => h q (List.mem_cons_of_mem _ hq)
        cases p with
        | mk name data =>
          cases name with
          | none => cases hp
          | some n => simp only [List.map_cons, hps]; rfl
    exact this _ hn
  obtain ⟨cfg, layout, tpl, plots⟩ := r
  simp only at hm hl
  unfold runSpecStatic
  cases layout with
  | group => exact absurd rfl hl
  | separate => simp only [hm]
  | scalars => simp only [hm]

/-! ## `RenderLaTeX.run` on a flow: every value is rendered from its own template, as it is on disk -/

/-- the cache is coherent with the template directory: a cached template that carries the current modification time
of its file is the file's content (an edit changes the modification time) -/
def EnvOK (st : EnvState) (dir : TplDir) : Prop :=
  ∀ name t m f, st.cache name = some (t, m) → dir name = some f → m = f.mtime → t = f.tpl

theorem EnvOK.fresh (dir : TplDir) : EnvOK {} dir := by
  intro name t m f h; cases h

theorem EnvOK.set {st : EnvState} {dir : TplDir} (h : EnvOK st dir) (name : String) (f : TplFile)
    (hf : dir name = some f) : EnvOK (st.set name f.tpl f.mtime) dir := by
  intro n t m g hc hg hm
  unfold EnvState.set at hc
  simp only at hc
  by_cases hn : n = name
  · subst hn
    simp only [if_true, Option.some.injEq, Prod.mk.injEq] at hc
    obtain ⟨rfl, rfl⟩ := hc
    rw [hf] at hg
    cases hg
    rfl
  · simp only [hn, if_false] at hc
    exact h n t m g hc hg hm

/-- `get_template(name)` gives the template that the file of that name holds now, and keeps the cache coherent -/
theorem getTemplateN_current (st : EnvState) (dir : TplDir) (name : String) (f : TplFile) (h : EnvOK st dir)
    (hf : dir name = some f) :
    ∃ st', getTemplateN st dir name = .ok (f.tpl, st') ∧ EnvOK st' dir := by
  unfold getTemplateN
  rw [hf]
  simp only
  cases hc : st.cache name with
  | none => exact ⟨_, rfl, h.set name f hf⟩
  | some tm =>
    obtain ⟨t, m⟩ := tm
    simp only
    by_cases hm : m = f.mtime
    · rw [if_pos hm]
      have := h name t m f hc hf hm
      subst this
      exact ⟨_, rfl, h⟩
    · rw [if_neg hm]
      exact ⟨_, rfl, h.set name f hf⟩

theorem getTemplateN_missing (st : EnvState) (dir : TplDir) (name : String) (hf : dir name = none) :
    getTemplateN st dir name = .error .outsideModel := by
  unfold getTemplateN
  rw [hf]

/-- **`renderRun_current`.**  For every `RenderLaTeX` object whose cache is coherent with the template directory (any
state reached by earlier runs and template edits), every flow of values — each selecting its template through
`context.output.template` or falling back to the element's — the run with the cache yields exactly what the
reference without a cache yields: every selected value is rendered from the template file **it** names, as that
file is on disk now; other values pass; the same exception otherwise.  The cache stays coherent. -/
theorem renderRun_current (conv : Conv C) (default : String) (dir : TplDir) :
    ∀ (flow : List (Val C × Option String)) (st : EnvState), EnvOK st dir →
      match renderRun conv default dir st flow, renderRunRef conv default dir flow with
      | .ok (vs, st'), .ok vs' => vs = vs' ∧ EnvOK st' dir
      | .error e, .error e' => e = e'
      | _, _ => False := by
  intro flow
  induction flow with
  | nil => intro st h; exact ⟨rfl, h⟩
  | cons x rest ih =>
    intro st h
    obtain ⟨v, ct⟩ := x
    unfold renderRun renderRunRef
    by_cases hft : v.out.filetype = some "csv"
    · rw [if_pos hft, if_pos hft]
      cases hs : selectTemplateS ct default with
      | error e => rfl
      | ok name =>
        simp only
        cases hf : dir name with
        | none =>
          rw [getTemplateN_missing st dir name hf]
        | some f =>
          obtain ⟨st', hg, hok⟩ := getTemplateN_current st dir name f h hf
          rw [hg]
          simp only
          have := ih st' hok
          cases h1 : renderRun conv default dir st' rest with
          | error e =>
            cases h2 : renderRunRef conv default dir rest with
            | error e' => rw [h1, h2] at this; exact this
            | ok r2 => rw [h1, h2] at this; exact this.elim
          | ok r1 =>
            obtain ⟨vs, st''⟩ := r1
            cases h2 : renderRunRef conv default dir rest with
            | error e' => rw [h1, h2] at this; exact this.elim
            | ok vs' =>
              rw [h1, h2] at this
              exact ⟨by rw [this.1], this.2⟩
    · rw [if_neg hft, if_neg hft]
      have := ih st h
      cases h1 : renderRun conv default dir st rest with
      | error e =>
        cases h2 : renderRunRef conv default dir rest with
        | error e' => rw [h1, h2] at this; exact this
        | ok r2 => rw [h1, h2] at this; exact this.elim
      | ok r1 =>
        obtain ⟨vs, st''⟩ := r1
        cases h2 : renderRunRef conv default dir rest with
        | error e' => rw [h1, h2] at this; exact this.elim
        | ok vs' =>
          rw [h1, h2] at this
          exact ⟨by rw [this.1], this.2⟩

/-- non-vacuity, the adversary's situation: two csv values in one run, the second selects `b.tex` through its
context: it is rendered from template 2, the first from the element's template 1 -/
example :
    let dir : TplDir := fun n => if n = "a.tex" then some ⟨1, 1⟩ else if n = "b.tex" then some ⟨2, 1⟩ else none
    let v (p : String) : Val Content := { data := .path p, name := none, out := { filetype := some "csv", filepath := some p }, group := none }
    (renderRun stubConv "a.tex" dir {} [(v "out/p0.csv", none), (v "out/p1.csv", some "b.tex")]).toOption.map
        (fun r => r.1.map fun x => match x.data with | .text c => some c | _ => none)
      = some [some (.tex 1 ["out/p0.csv"]), some (.tex 2 ["out/p1.csv"])] := by
  decide +kernel

/-! ## `ToCSV`: the options that travel with the value -/

/-- **`toCsv_context_dup_precedence`.**  "If `output.duplicate_last_bin` is present in context, it takes precedence
over this element's value" — for both values of the key, whatever the element's option is. -/
theorem toCsv_context_dup_precedence (el : ToCsvEl) (toCsv : Option Bool) (b : Bool) (edges bins : List Int)
    (h : toCsv.getD true = true) :
    toCsvHist el toCsv (some b) edges bins
      = .csv (if truthy el.header then el.header else none) (hist1dRows edges bins b) := by
  unfold toCsvHist dupEffective
  simp [h]

/-- without the key the element's option decides -/
theorem toCsv_element_dup (el : ToCsvEl) (toCsv : Option Bool) (edges bins : List Int) (h : toCsv.getD true = true) :
    toCsvHist el toCsv none edges bins
      = .csv (if truthy el.header then el.header else none) (hist1dRows edges bins el.dup) := by
  unfold toCsvHist dupEffective
  simp [h]

/-- `output.to_csv = False`: the value passes -/
theorem toCsv_skipped (el : ToCsvEl) (ctxDup : Option Bool) (edges bins : List Int) :
    toCsvHist el (some false) ctxDup edges bins = .passed := rfl

/-- **the rows**: for a histogram with `n` bins (`n + 1` edges), `n` rows without and `n + 1` rows with
`duplicate_last_bin` -/
theorem hist1dRows_length (edges bins : List Int) (dup : Bool) (hb : bins ≠ []) (he : edges.length = bins.length + 1) :
    (hist1dRows edges bins dup).length = bins.length + (if dup then 1 else 0) := by
  unfold hist1dRows
  have hne : edges ≠ [] := by intro h; rw [h] at he; simp at he
  have h1 : (edges.dropLast.zip bins).length = bins.length := by
    simp [List.length_zip, List.length_dropLast, he]
  cases dup with
  | false => simp [h1]
  | true =>
    obtain ⟨x, hx⟩ : ∃ x, edges.getLast? = some x := ⟨edges.getLast hne, List.getLast?_eq_some_getLast hne⟩
    obtain ⟨b, hbb⟩ : ∃ b, bins.getLast? = some b := ⟨bins.getLast hb, List.getLast?_eq_some_getLast hb⟩
    simp [h1, hx, hbb]

/-- with `duplicate_last_bin` the rows are those without it followed by one row: the last edge with the content of
the last bin -/
theorem hist1dRows_dup (edges bins : List Int) (x b : Int) (hx : edges.getLast? = some x) (hb : bins.getLast? = some b) :
    hist1dRows edges bins true = hist1dRows edges bins false ++ [(x, b)] := by
  unfold hist1dRows
  simp [hx, hb]

/-- non-vacuity: the histogram of the harness, `histogram([0, 1, 2], bins=[d, 7])` -/
example : hist1dRows [0, 1, 2] [5, 7] true = [(0, 5), (1, 7), (2, 7)] := by decide
example : toCsvHist { dup := true } none (some false) [0, 1, 2] [5, 7] = .csv none [(0, 5), (1, 7)] := by decide
example : toCsvHist { dup := false } none (some true) [0, 1, 2] [5, 7] = .csv none [(0, 5), (1, 7), (2, 7)] := by decide

/-- one `ToCSV` object on a flow: each result is that of the value alone (the element keeps nothing) -/
theorem toCsvRun_pointwise (el : ToCsvEl) (pre post : List (Option Bool × Option Bool × List Int × List Int))
    (x : Option Bool × Option Bool × List Int × List Int) :
    toCsvRun el (pre ++ x :: post) = toCsvRun el pre ++ toCsvHist el x.1 x.2.1 x.2.2.1 x.2.2.2 :: toCsvRun el post := by
  simp [toCsvRun]

/-! ## return codes: only 0 is a success -/

theorem rcFailed_iff (rc : Int) : rcFailed rc = false ↔ rc = 0 := by
  unfold rcFailed
  simp

theorem schedOfRc_ok_iff (rc : Int) (fin : Nat) : (schedOfRc rc fin).ok = true ↔ rc = 0 := by
  unfold schedOfRc rcFailed
  simp

/-- **`latexHandle_rc_nonzero`.**  A command that ends with ANY non-zero return code — 1, 127, or the negative code
of a process killed by a signal — leaves the file system as it was and its value joins the pool as "not to be
yielded". -/
theorem latexHandle_rc_nonzero (conv : Conv C) (overwrite : Bool) (w w' : World C) (v : Val C) (rc : Int) (fin : Nat)
    (launched : List (PoolEntry C)) (now : List (Val C)) (hrc : rc ≠ 0)
    (h : latexHandle conv overwrite w v (schedOfRc rc fin) = .ok (w', launched, now)) :
    w'.fs = w.fs ∧ ∀ e ∈ launched, e.ok = false := by
  have hs : (schedOfRc rc fin).ok = false := by
    cases hh : (schedOfRc rc fin).ok with
    | false => rfl
    | true => exact absurd ((schedOfRc_ok_iff rc fin).1 hh) hrc
  exact latexHandle_failed conv overwrite w w' v _ launched now hs h

/-- a flow whose launches are given by return codes -/
def flowOfRc (flow : List (Val C × Int × Nat)) : List (Val C × Sched) :=
  flow.map fun x => (x.1, schedOfRc x.2.1 x.2.2)

/-- **`latexRun_yields_iff_rc_zero`.**  `latexRun_yields_iff_ok` for launches described by their return codes (any
integers): `LaTeXToPDF.run` with its pool ends in the same world as the pool-less reference and yields — up to the
order — what was left in the pool with a successful command plus what the reference yields; and the reference yields
a launched value iff its return code is 0 (`schedOfRc_ok_iff`, `latexHandle_rc_nonzero`). -/
theorem latexRun_yields_iff_rc_zero (conv : Conv C) (overwrite : Bool) (verbose : Nat)
    (flow : List (Val C × Int × Nat)) (w : World C) (pool : List (PoolEntry C)) :
    match latexRun conv overwrite verbose w pool (flowOfRc flow), latexRunSeq conv overwrite w (flowOfRc flow) with
    | .ok (w1, vs), .ok (w2, vs') => w1 = w2 ∧ vs.Perm ((pool.filter (·.ok)).map (·.val) ++ vs')
    | .error e, .error e' => e = e'
    | _, _ => False :=
  latexRun_yields_iff_ok conv overwrite verbose (flowOfRc flow) w pool

/-- non-vacuity: a `.tex` value whose command is killed (-9) and one whose command succeeds: only the second pdf is
yielded, whenever the first is seen terminated -/
example :
    let v (p : String) : Val Content := { data := .path p, name := none, out := { filetype := some "tex", changed := some true }, group := none }
    let w : World Content := { fs := fun p => if p = "out/a.tex" ∨ p = "out/b.tex" then some ⟨.tex 1 [], 1⟩ else none, clock := 5, log := [] }
    ((latexRun stubConv false 0 w [] (flowOfRc [(v "out/a.tex", -9, 0), (v "out/b.tex", 0, 1)])).toOption.map
        fun r => r.2.map dataPath) = some ["out/b.pdf"] := by
  decide +kernel

/-! ## `Write._make_filename`: the file is below the output directory, whatever the names are -/

theorem normPath_rel {p q : String} (h : normPath p = .ok q) : isAbs q = false := by
  unfold normPath at h
  by_cases hp : isAbs p = true
  · rw [if_pos hp] at h
    simp only at h
    by_cases hq : isAbs (p.drop 1).toString = true
    · rw [if_pos hq] at h; cases h
    · rw [if_neg hq] at h
      cases h
      simpa using hq
  · rw [if_neg hp] at h
    cases h
    simpa using hp

/-- `os.path.join(a, b)` for a relative `b` keeps `a` in front -/
theorem pjoin_rel (a b : String) (h : isAbs b = false) : ∃ s, (s = "" ∨ s = "/") ∧ pjoin a b = a ++ s ++ b := by
  unfold pjoin
  rw [h]
  simp only [Bool.false_eq_true, if_false]
  by_cases ha : (a = "" || a.endsWith "/") = true
  · rw [if_pos ha]; exact ⟨"", Or.inl rfl, by simp⟩
  · rw [if_neg ha]; exact ⟨"/", Or.inr rfl, rfl⟩

/-- **`write_path_below_outdir`.**  For ALL values of `output.dirname`, `output.filename`, `output.fileext`,
`output.filetype` — relative or absolute: whenever `Write._make_filename` returns a path, that path is the output
directory followed by a relative directory part and a relative file part (separated by at most one "/" each):
`os.path.join` never discards the output directory, no file is written outside it.  (`write_path_rule` says which
parts these are for relative names.) -/
theorem write_path_below_outdir (outdir defName : String) (dn fn fe ft : Option String) (d f e p : String)
    (h : wmfCore outdir defName dn fn fe ft = .ok (d, f, e, p)) :
    ∃ s1 s2 fp, (s1 = "" ∨ s1 = "/") ∧ (s2 = "" ∨ s2 = "/") ∧ isAbs d = false ∧ isAbs fp = false ∧
      p = outdir ++ s1 ++ d ++ s2 ++ fp := by
  unfold wmfCore at h
  simp only at h
  split at h
  · cases h
  · rename_i filename _
    split at h
    · cases h
    · rename_i dirname hd
      split at h
      · cases h
      · rename_i filepath hfp
        simp only [Except.ok.injEq, Prod.mk.injEq] at h
        obtain ⟨rfl, _, _, rfl⟩ := h
        have h1 := normPath_rel hd
        have h2 := normPath_rel hfp
        obtain ⟨s1, hs1, e1⟩ := pjoin_rel outdir dirname h1
        obtain ⟨s2, hs2, e2⟩ := pjoin_rel (pjoin outdir dirname) filepath h2
        exact ⟨s1, s2, filepath, hs1, hs2, h1, h2, by rw [e2, e1]⟩

/-- non-vacuity: an absolute file name (the adversary's situation) stays below the output directory -/
example : wmfCore "out" "output" none (some "/plots/p") none (some "csv") = .ok ("", "/plots/p", "csv", "out/plots/p.csv") := by
  decide +kernel

/-- … and so does an absolute directory name -/
example : wmfCore "out" "output" (some "/d") (some "p") none (some "csv") = .ok ("d", "p", "csv", "out/d/p.csv") := by
  decide +kernel

/-! ## Seed round K: existing names that are empty strings

"MakeFilename never replaces an existing name unless overwrite is set": existence is presence of the key.  The
theorem `makefilename_keeps_existing` (Props/C19) is stated with `isSome`, so it covers `some ""`; what had no theorem
is the consequence for the FILE: a value whose three names exist goes where they say, whatever `MakeFilename` stands
before `Write`. -/

/-- **A value that already has its names is written where they say** — for every `MakeFilename` without `overwrite`
(any methods, any templates), every `name`, every output directory and every incoming context in which
`output.filename`, `output.dirname` and `output.fileext` exist (as any strings, the empty one included):
`Write` after `MakeFilename` computes the same result (path or exception) as `Write` alone. -/
theorem mfWritePath_existing (ms : List (MFKey × Tpl)) (name : Option String) (outdir : String) (o : OutCtx)
    (hf : o.filename.isSome) (hd : o.dirname.isSome) (he : o.fileext.isSome) :
    mfWritePath false ms name outdir o = wMakeFilename outdir "output" o := by
  obtain ⟨k1, k2, k3⟩ := makefilename_keeps_existing ms name o
  simp only [mfWritePath, wMakeFilename, k1 hf, k2 hd, k3 he, mfCall_filetype]

/-- the same for each name alone: an existing name (possibly empty) is the one `Write` reads -/
theorem mfWritePath_reads_existing (ms : List (MFKey × Tpl)) (name : Option String) (outdir : String) (o : OutCtx) :
    mfWritePath false ms name outdir o =
      wmfCore outdir "output"
        (if o.dirname.isSome then o.dirname else (mfCall false ms name o).1.dirname)
        (if o.filename.isSome then o.filename else (mfCall false ms name o).1.filename)
        (if o.fileext.isSome then o.fileext else (mfCall false ms name o).1.fileext) o.filetype := by
  obtain ⟨k1, k2, k3⟩ := makefilename_keeps_existing ms name o
  simp only [mfWritePath, wMakeFilename, mfCall_filetype]
  congr 1
  · split <;> rename_i h
    · exact k2 h
    · rfl
  · split <;> rename_i h
    · exact k1 h
    · rfl
  · split <;> rename_i h
    · exact k3 h
    · rfl

/-- non-vacuity, the seed's situation: a `Makefile` without extension directly in the output directory passes
`MakeFilename(filename="plot", dirname="plots", fileext="csv")` -/
example : mfWritePath false [(.filename, [.lit "plot"]), (.dirname, [.lit "plots"]), (.fileext, [.lit "csv"])] none "out"
    { filename := some "Makefile", dirname := some "", fileext := some "" } = .ok ("", "Makefile", "", "out/Makefile") := by
  decide +kernel

/-- … `makefilename_keeps_existing` on empty names (its hypotheses hold for `some ""`) -/
example : (mfCall false [(.dirname, [.lit "plots"]), (.fileext, [.lit "csv"])] (some "n")
    { dirname := some "", fileext := some "" }).1 = { dirname := some "", fileext := some "" } := by decide +kernel

/-- … with `overwrite` they are replaced -/
example : mfWritePath true [(.dirname, [.lit "plots"]), (.fileext, [.lit "csv"])] none "out"
    { filename := some "Makefile", dirname := some "", fileext := some "" } =
    .ok ("plots", "Makefile", "csv", "out/plots/Makefile.csv") := by decide +kernel

/-- … and an absent name is set (the hypothesis `isSome` is not redundant) -/
example : mfWritePath false [(.fileext, [.lit "csv"])] none "out" { filename := some "Makefile", dirname := some "" } =
    .ok ("", "Makefile", "csv", "out/Makefile.csv") := by decide +kernel

end Lena.C19
