import LenaModel.Model.C19
/-! # C19 — theorems (under construction) -/
namespace Lena.C19
end Lena.C19
