import LenaModel.Lemmas.C19
/-! # C19 — output files always match the current data and nothing unchanged is redone

Theorems about the model `LenaModel/Model/C19.lean` (lemmas and the definitions of `FUnit`, `UnitInv`,
`SourceClosed`, `UnitFresh`, `PlotFresh`, `ClockInv`, `effective` are in `LenaModel/Lemmas/C19.lean`).

The sentences of the property and where they are formalised:

* "after each run every file named by a yielded value exists at output_directory/dirname/filename.fileext with
  exactly the content produced from the current data, and every derived artefact has been regenerated if anything
  it was rendered from was rewritten or if it was missing" — `run_fresh_partial`, `history_fresh_partial`
  (separate plots), `grpCore_fresh`, `group_fresh_partial`, `group_history_fresh_partial` (a group),
  `write_path_rule`, `write_file_at_path`;
  proved under the hypothesis `SourceClosed` (every existing pdf has its `.tex` and CSV files on disk when the
  run starts).  The statements without that hypothesis are kept as `run_fresh_full`, `history_fresh_full` and
  are **false** for the code as it is: `run_fresh_full_fails`, `history_fresh_full_fails` (the known finding;
  `writeCore_created_leaves_changed` is its mechanism).  Its exact extent for one plot: `stale_when_csv_missing`,
  `stale_when_tex_missing` (the pdf is left as it was, for all data and all worlds), `fresh_when_all_sources_missing`
  (both sources missing: regenerated through the modification-time rule).
* "context.output.changed is true whenever a file's content changed and stays true downstream" —
  `writeCore_changed_content`, `writeCore_sticky`, `changed_sticky`, `changed_sticky_plot`,
  `group_changed_sticky`, `group_changed_after_mapgroup`, `groupPlotsChanged_iff`, `combineChanged_spec`.
* "a run whose inputs are unchanged rewrites no file and launches no converter" — `idle_run_is_noop`,
  `settled_run_is_noop` (separate plots), `group_idle_run_is_noop`, `group_settled_run_is_noop` (a group); plain
  values through the group pipeline reduce to the separate layout (`runScalarPlots_eq_runPlots`).
* the exact class of the known finding: `stale_when_csv_missing`, `stale_when_tex_missing` (one plot),
  `grp_stale_when_nothing_rewritten` (a group), how long it lasts: `pdf_kept_when_sources_settled`; outside it:
  `fresh_when_all_sources_missing`, `fresh_when_latex_overwrites`.
* hypotheses that are *not* derived: plots have files of their own (`UnitsOK`, `FUnit.Distinct`, `GroupOK.nodup`), one
  set of units per history, converters succeed; `UnitFresh` is stated with `effective` (an `existing_unchanged` Write
  keeps an existing source).  Several plots are taken through the pipeline one after the other (the real `Sequence`
  interleaves them; unobservable for plots with files of their own).
* "MakeFilename never replaces an existing name unless overwrite is set while prefix and suffix are applied
  exactly once" — `makefilename_keeps_existing`, `makefilename_prefix_suffix_once`,
  `makefilename_second_has_no_prefix`, `makefilename_prefix_accumulates`, `makefilename_init_rules`.

All theorems quantify over arbitrary content types and converters (`Conv C`), all worlds satisfying the stated
invariant, all data, templates, numbers of plots and option settings; none is bounded. -/

namespace Lena.C19
set_option linter.unusedSectionVars false
set_option linter.unusedSimpArgs false
attribute [local irreducible] pdfPathOf pngPathOf
variable {C : Type} [DecidableEq C]

/-! ## runs and histories -/

/-- a run of the separate layout whose plots resolve to the (well-formed) units paired with them -/
structure RunOK (r : RunSpec) (pus : List (Plot × (FUnit × String))) : Prop where
  layout : r.layout = .separate
  plots : r.plots = pus.map (·.1)
  resolves : ∃ ms, mfInit r.cfg.mf = .ok ms ∧ Resolves r.cfg ms pus
  units : UnitsOK (pus.map (·.2))

/-- invariant of the world between the steps of a history over the units `us` -/
def WInv (conv : Conv C) (us : List (FUnit × String)) (w : World C) : Prop :=
  ClockInv w ∧ ∀ up ∈ us, UnitInv conv up.1 w.fs

/-- every plot of the run is fresh in `fs'` (the run started in `w0`) -/
def RunFresh (conv : Conv C) (r : RunSpec) (pus : List (Plot × (FUnit × String))) (w0 : World C) (fs' : FS C) : Prop :=
  ∀ x ∈ pus, PlotFresh conv r.cfg r.tpl w0 fs' x.1 x.2

/-- **`run_fresh_partial`.**  For all converters, all option settings (modes of both `Write`s, `overwrite` of both
converters, any `MakeFilename` arguments that resolve to distinct files), all numbers of plots, all data and
templates and all pre-states that satisfy the invariant: a run that starts `SourceClosed` (every existing pdf has
its `.tex` and CSV files on disk) succeeds, yields one value per plot naming its image, leaves every file of every
plot with exactly the content produced from the current data and template, touches no other file, and
re-establishes the invariant. -/
theorem run_fresh_partial (conv : Conv C) (hok : ConvOK conv) (r : RunSpec) (pus : List (Plot × (FUnit × String)))
    (w : World C) (hr : RunOK r pus) (hinv : WInv conv (pus.map (·.2)) w)
    (hsc : ∀ up ∈ pus.map (·.2), SourceClosed up.1 w.fs) :
    ∃ w' vs, runSpec conv w r = .ok (w', vs) ∧
      vs.map (fun v => dataPath v) = pus.map (fun x => x.2.1.png) ∧
      RunFresh conv r pus w w'.fs ∧
      (∀ q, (∀ x ∈ pus, q ∉ x.2.1.paths) → w'.fs q = w.fs q) ∧
      WInv conv (pus.map (·.2)) w' := by
  obtain ⟨hl, hp, ⟨ms, hms, hres⟩, hu⟩ := hr
  obtain ⟨hclk, hinvs⟩ := hinv
  obtain ⟨w', vs, hrun, hdata, hfresh, hframe, hck, _, hinv'⟩ :=
    runPlots_fresh conv r.cfg ms r.tpl hok pus w hres hu hclk
      (fun x hx => ⟨hinvs x.2 (List.mem_map_of_mem hx), hsc x.2 (List.mem_map_of_mem hx)⟩)
  refine ⟨w', vs, ?_, hdata, hfresh, hframe, hck, ?_⟩
  · unfold runSpec runSeparate; rw [hl]; simp only [hms, hp]; exact hrun
  · intro up hup
    obtain ⟨x, hx, rfl⟩ := List.mem_map.mp hup
    exact hinv' x hx

theorem ClockInv.del {w : World C} (h : ClockInv w) (ps : List String) : ClockInv { w with fs := w.fs.del ps } := by
  intro p f hp
  simp only [FS.del] at hp
  split at hp
  · cases hp
  · exact h p f hp

theorem WInv.del {conv : Conv C} {us : List (FUnit × String)} {w : World C} (h : WInv conv us w) (ps : List String) :
    WInv conv us (step conv w (.del ps)) :=
  ⟨h.1.del ps, fun up hup => (h.2 up hup).del ps⟩

/-- along the history every run resolves to the same units `us` and starts `SourceClosed` -/
def SourceClosedHist (conv : Conv C) (us : List (FUnit × String)) : World C → List HStep → Prop
  | _, [] => True
  | w, .del ps :: rest => SourceClosedHist conv us (step conv w (.del ps)) rest
  | w, .run r :: rest =>
    (∃ pus, RunOK r pus ∧ pus.map (·.2) = us) ∧ (∀ up ∈ us, SourceClosed up.1 w.fs) ∧
    SourceClosedHist conv us (step conv w (.run r)) rest

/-- after every run of the history the files of all its plots are fresh -/
def FreshHist (conv : Conv C) : World C → List HStep → Prop
  | _, [] => True
  | w, .del ps :: rest => FreshHist conv (step conv w (.del ps)) rest
  | w, .run r :: rest =>
    (∃ pus vs, RunOK r pus ∧ runSpec conv w r = .ok (step conv w (.run r), vs) ∧
      vs.map (fun v => dataPath v) = pus.map (fun x => x.2.1.png) ∧
      RunFresh conv r pus w (step conv w (.run r)).fs) ∧
    FreshHist conv (step conv w (.run r)) rest

/-- **`history_fresh_partial`.**  For every history of runs (changing data, templates and option settings) and
removals of arbitrary sets of files in which no run starts with a source file missing while its pdf exists: after
every run all files named by the yielded values exist with exactly the content produced from the current data. -/
theorem history_fresh_partial (conv : Conv C) (hok : ConvOK conv) (us : List (FUnit × String)) :
    ∀ (h : List HStep) (w : World C), WInv conv us w → SourceClosedHist conv us w h → FreshHist conv w h := by
  intro h
  induction h with
  | nil => intro _ _ _; trivial
  | cons s rest ih =>
    intro w hinv hsc
    cases s with
    | del ps => exact ih _ (hinv.del ps) hsc
    | run r =>
      obtain ⟨⟨pus, hr, hus⟩, hscw, hrest⟩ := hsc
      subst hus
      obtain ⟨w', vs, hrun, hdata, hfresh, _, hinv'⟩ := run_fresh_partial conv hok r pus w hr hinv hscw
      have hstep : step conv w (.run r) = w' := by simp only [step, hrun]
      refine ⟨⟨pus, vs, hr, by rw [hstep]; exact hrun, hdata, by rw [hstep]; exact hfresh⟩, ?_⟩
      rw [hstep] at hrest ⊢
      exact ih w' hinv' hrest


/-! ## the unrestricted statements are false: the known finding -/

/-- every run of the history resolves to the units `us` (nothing is required about missing files) -/
def ResolvesHist (us : List (FUnit × String)) : List HStep → Prop
  | [] => True
  | .del _ :: rest => ResolvesHist us rest
  | .run r :: rest => (∃ pus, RunOK r pus ∧ pus.map (·.2) = us) ∧ ResolvesHist us rest

/-- **The full statement of the property about runs** (`run_fresh_partial` without `SourceClosed`).  It is false:
`run_fresh_full_fails`. -/
def run_fresh_full : Prop :=
  ∀ (C : Type) [DecidableEq C] (conv : Conv C), ConvOK conv →
    ∀ (r : RunSpec) (pus : List (Plot × (FUnit × String))) (w : World C),
      RunOK r pus → WInv conv (pus.map (·.2)) w →
      ∃ w' vs, runSpec conv w r = .ok (w', vs) ∧ RunFresh conv r pus w w'.fs

/-- **The full statement of the property about histories** (`history_fresh_partial` for *all* histories of runs
and removals of files).  It is false: `history_fresh_full_fails`. -/
def history_fresh_full : Prop :=
  ∀ (C : Type) [DecidableEq C] (conv : Conv C), ConvOK conv →
    ∀ (us : List (FUnit × String)) (h : List HStep) (w : World C),
      WInv conv us w → ResolvesHist us h → FreshHist conv w h

namespace Witness

def cfg : Cfg :=
  { outdir := "out", w1 := .normal, w2 := .normal, lo := false, po := false,
    mf := { filename := some [.var] }, gmf := { filename := some [.lit "combined"] } }

def ms : List (MFKey × Tpl) := [(.filename, [.var])]

/-- a run of the standard pipeline on one plot `p0` with data `d` -/
def run (d : Nat) : RunSpec := { cfg := cfg, layout := .separate, tpl := 1, plots := [⟨some "p0", d⟩] }

def unit : FUnit := ⟨["out/p0.csv"], "out/p0.tex", "out/p0.pdf", "out/p0.png"⟩

/-- run with data 1; remove the CSV file; run with data 2 -/
def history : List HStep := [.run (run 1), .del ["out/p0.csv"], .run (run 2)]

/-- the world in which the last run starts -/
def before : World Content := exec stubConv World.init [.run (run 1), .del ["out/p0.csv"]]

end Witness

deriving instance DecidableEq for FUnit
deriving instance DecidableEq for Except

theorem witness_mfInit : mfInit Witness.cfg.mf = .ok Witness.ms := by decide +kernel

theorem witness_unit (d : Nat) : plotUnit Witness.cfg Witness.ms ⟨some "p0", d⟩ = .ok (Witness.unit, "out/p0.csv") := by
  have : plotUnit Witness.cfg Witness.ms ⟨some "p0", 0⟩ = .ok (Witness.unit, "out/p0.csv") := by decide +kernel
  exact this

theorem witness_runOK (d : Nat) : RunOK (Witness.run d) [(⟨some "p0", d⟩, (Witness.unit, "out/p0.csv"))] where
  layout := rfl
  plots := rfl
  resolves := ⟨Witness.ms, witness_mfInit, fun x hx => by
    simp only [List.mem_singleton] at hx; subst hx; exact witness_unit d⟩
  units := ⟨fun up hup => by
    simp only [List.map_cons, List.map_nil, List.mem_singleton] at hup; subst hup
    unfold FUnit.Distinct Witness.unit; decide +kernel, by simp⟩

theorem stubConv_ok : ConvOK stubConv := fun _ _ => rfl

theorem effective_normal (old : Option (File C)) (new : C) : effective .normal old new = new := by
  cases old <;> rfl

/-- the witness: after `run 1; remove out/p0.csv; run 2` the pdf is the one rendered from data 1 -/
theorem witness_stale :
    ((exec stubConv World.init Witness.history).fs "out/p0.pdf").map (·.content)
      = some (.pdf (.tex 1 ["out/p0.csv"]) (.cons (.csv 1) .nil)) := by decide +kernel

theorem witness_csv_current :
    ((exec stubConv World.init Witness.history).fs "out/p0.csv").map (·.content) = some (.csv 2) := by decide +kernel

/-- a pair list whose plots are `[pl]` and whose units resolve is `[(pl, up)]` -/
theorem runOK_singleton {r : RunSpec} {pus : List (Plot × (FUnit × String))} {pl : Plot} {up : FUnit × String}
    {ms : List (MFKey × Tpl)} (h : RunOK r pus) (hp : r.plots = [pl]) (hms : mfInit r.cfg.mf = .ok ms)
    (hu : plotUnit r.cfg ms pl = .ok up) : pus = [(pl, up)] := by
  obtain ⟨_, hplots, ⟨ms', hms', hres⟩, _⟩ := h
  rw [hms] at hms'; cases hms'
  rw [hp] at hplots
  match pus, hplots, hres with
  | [x], hplots, hres =>
    simp only [List.map_cons, List.map_nil, List.cons.injEq, and_true] at hplots
    have := hres x (by simp)
    rw [← hplots, hu] at this
    cases this
    cases x; simp_all

/-- **`history_fresh_full_fails`: the full statement is false.**  Witness (the replay of the known finding): the
standard pipeline on one plot; run with data 1, remove `out/p0.csv`, run with data 2.  The second run re-creates
the CSV file, `Write` leaves `output.changed` unset, the second `Write` turns "unset" into `False`, both converters
skip: `out/p0.pdf` still shows data 1. -/
theorem history_fresh_full_fails : ¬ history_fresh_full := by
  intro hfull
  have h := hfull Content stubConv stubConv_ok [(Witness.unit, "out/p0.csv")] Witness.history World.init
    ⟨fun p f hp => by simp [World.init, FS.empty] at hp, fun up _ => UnitInv.empty _ _⟩
    ⟨⟨_, witness_runOK 1, rfl⟩, ⟨_, witness_runOK 2, rfl⟩, trivial⟩
  -- unfold to the last run
  obtain ⟨_, h2⟩ := h
  obtain ⟨⟨pus, vs, hr, _, _, hfresh⟩, _⟩ := h2
  have hpus := runOK_singleton hr rfl witness_mfInit (witness_unit 2)
  subst hpus
  have hf := hfresh _ (List.mem_singleton.mpr rfl)
  obtain ⟨_, _, ⟨pf, hpf, hpc⟩, _⟩ := hf
  have hst := witness_stale
  have hfs : (exec stubConv World.init Witness.history).fs "out/p0.pdf" = some pf := hpf
  rw [hfs] at hst
  simp only [Option.map_some, Option.some.injEq] at hst
  rw [hst] at hpc
  simp only [effective_normal] at hpc
  exact absurd hpc (by decide)


theorem WInv.exec {conv : Conv C} (hok : ConvOK conv) {us : List (FUnit × String)} :
    ∀ (h : List HStep) (w : World C), WInv conv us w → SourceClosedHist conv us w h → WInv conv us (exec conv w h) := by
  intro h
  induction h with
  | nil => intro w hinv _; exact hinv
  | cons s rest ih =>
    intro w hinv hsc
    cases s with
    | del ps => exact ih _ (hinv.del ps) hsc
    | run r =>
      obtain ⟨⟨pus, hr, hus⟩, hscw, hrest⟩ := hsc
      subst hus
      obtain ⟨w', vs, hrun, _, _, _, hinv'⟩ := run_fresh_partial conv hok r pus w hr hinv hscw
      have hstep : step conv w (.run r) = w' := by simp only [step, hrun]
      unfold Lena.C19.exec
      rw [List.foldl_cons, hstep]
      rw [hstep] at hrest
      exact ih w' hinv' hrest

/-- **`run_fresh_full_fails`**: the full statement about one run is false — the world reached by `run 1; remove
out/p0.csv` satisfies the invariant, and the run with data 2 from it leaves the pdf stale. -/
theorem run_fresh_full_fails : ¬ run_fresh_full := by
  intro hfull
  have hinit : WInv stubConv [(Witness.unit, "out/p0.csv")] (World.init : World Content) :=
    ⟨fun p f hp => by simp [World.init, FS.empty] at hp, fun up _ => UnitInv.empty _ _⟩
  have hinv : WInv stubConv [(Witness.unit, "out/p0.csv")] Witness.before :=
    WInv.exec stubConv_ok _ _ hinit
      ⟨⟨_, witness_runOK 1, rfl⟩, fun up _ h => by simp [World.init, FS.empty] at h, trivial⟩
  obtain ⟨w', vs, hrun, hfresh⟩ := hfull Content stubConv stubConv_ok (Witness.run 2) _ Witness.before (witness_runOK 2) hinv
  have hw' : exec stubConv World.init Witness.history = w' := by
    have : exec stubConv World.init Witness.history = step stubConv Witness.before (.run (Witness.run 2)) := rfl
    rw [this]; simp only [step, hrun]
  have hf := hfresh _ (List.mem_singleton.mpr rfl)
  obtain ⟨_, _, ⟨pf, hpf, hpc⟩, _⟩ := hf
  have hst := witness_stale
  rw [hw'] at hst
  have hfs : w'.fs "out/p0.pdf" = some pf := hpf
  rw [hfs] at hst
  simp only [Option.map_some, Option.some.injEq] at hst
  rw [hst] at hpc
  simp only [effective_normal] at hpc
  exact absurd hpc (by decide)


/-! ## nothing unchanged is redone -/

/-- the files of a plot are *settled* for the inputs of a run: the two source files exist and hold the current
texts (or the `Write` that owns them does not look: `existing_unchanged`), the pdf and the image exist -/
def Settled (conv : Conv C) (cfg : Cfg) (tpl : Nat) (fs : FS C) (pl : Plot) (up : FUnit × String) : Prop :=
  (∃ f, fs up.2 = some f ∧ (cfg.w1 = .existingUnchanged ∨ f.content = conv.csvOf pl.data)) ∧
  (∃ f, fs up.1.tex = some f ∧ (cfg.w2 = .existingUnchanged ∨ f.content = conv.texOf tpl [up.2])) ∧
  (fs up.1.pdf).isSome ∧ (fs up.1.png).isSome

theorem writeCore_noop (mode : WMode) (p : String) (c : C) (w : World C) (chg : Option Bool) (f : File C)
    (hf : w.fs p = some f) (hm : mode ≠ .overwrite) (hc : mode = .existingUnchanged ∨ f.content = c) :
    writeCore mode p c w chg = (w, some (chg.getD false)) := by
  unfold writeCore
  rw [hf]
  cases mode with
  | overwrite => exact absurd rfl hm
  | existingUnchanged => rfl
  | normal =>
    rcases hc with h | h
    · cases h
    · simp [h]

/-- a settled plot is left alone: no file written, no converter launched, `output.changed = False` -/
theorem sepCore_noop (conv : Conv C) (m1 m2 : WMode) (u : FUnit) (pc : String) (ncsv ntex : C) (w : World C)
    (fc ft : File C) (hm1 : m1 ≠ .overwrite) (hm2 : m2 ≠ .overwrite)
    (hc : w.fs pc = some fc) (hcc : m1 = .existingUnchanged ∨ fc.content = ncsv)
    (ht : w.fs u.tex = some ft) (htc : m2 = .existingUnchanged ∨ ft.content = ntex)
    (hp : (w.fs u.pdf).isSome) (hg : (w.fs u.png).isSome) :
    sepCore conv m1 m2 false false u pc ncsv ntex w = .ok (w, some false) := by
  unfold sepCore downCore
  rw [writeCore_noop m1 pc ncsv w none fc hc hm1 hcc]
  simp only [Option.getD_none]
  rw [writeCore_noop m2 u.tex ntex w (some false) ft ht hm2 htc]
  simp only [Option.getD_some]
  unfold convCore
  rw [latexCore_skip conv u.tex u.pdf w hp]
  simp only
  rw [pngCore_skip conv u.pdf u.png w hg]

theorem runPlots_noop (conv : Conv C) (cfg : Cfg) (ms : List (MFKey × Tpl)) (tpl : Nat)
    (hm1 : cfg.w1 ≠ .overwrite) (hm2 : cfg.w2 ≠ .overwrite) (hlo : cfg.lo = false) (hpo : cfg.po = false) :
    ∀ (pus : List (Plot × (FUnit × String))) (w : World C),
      Resolves cfg ms pus → (∀ x ∈ pus, Settled conv cfg tpl w.fs x.1 x.2) →
      ∃ vs, runPlots conv cfg ms tpl w (pus.map (·.1)) = .ok (w, vs) ∧
        vs.map (fun v => dataPath v) = pus.map (fun x => x.2.1.png) ∧ ∀ v ∈ vs, v.out.changed = some false := by
  intro pus
  induction pus with
  | nil => intro w _ _; exact ⟨[], rfl, rfl, fun _ h => by cases h⟩
  | cons x pus ih =>
    intro w hres hall
    obtain ⟨⟨fc, hc, hcc⟩, ⟨ft, ht, htc⟩, hp, hg⟩ := hall x (by simp)
    have hs : sepCore conv cfg.w1 cfg.w2 cfg.lo cfg.po x.2.1 x.2.2 (conv.csvOf x.1.data) (conv.texOf tpl [x.2.2]) w
        = .ok (w, some false) := by
      rw [hlo, hpo]
      exact sepCore_noop conv cfg.w1 cfg.w2 x.2.1 x.2.2 (conv.csvOf x.1.data) (conv.texOf tpl [x.2.2]) w fc ft
        hm1 hm2 hc hcc ht htc hp hg
    obtain ⟨ov, hr, _, hv⟩ := runPlot_eq_sepCore conv cfg ms tpl w x.1 x.2.1 x.2.2 (hres x (by simp)) w (some false) hs
    obtain ⟨v, hov, hdata, hchg, _⟩ := hv false rfl
    subst hov
    obtain ⟨vs, hrs, hdatas, hchgs⟩ := ih w (fun y hy => hres y (by simp [hy])) (fun y hy => hall y (by simp [hy]))
    refine ⟨v :: vs, ?_, ?_, ?_⟩
    · simp only [List.map_cons]; unfold runPlots; rw [hr]; simp only; rw [hrs]; rfl
    · rw [List.map_cons, List.map_cons, hdatas]; simp only [dataPath, hdata]
    · intro v' hv'
      simp only [List.mem_cons] at hv'
      rcases hv' with h | h
      · subst h; exact hchg
      · exact hchgs v' h

theorem effective_settled (mode : WMode) (old : Option (File C)) (new : C) (f : File C) (hm : mode ≠ .overwrite)
    (hf : f.content = effective mode old new) : mode = .existingUnchanged ∨ f.content = new := by
  cases mode with
  | overwrite => exact absurd rfl hm
  | existingUnchanged => exact .inl rfl
  | normal => right; rw [hf]; exact effective_normal old new

theorem PlotFresh.settled {conv : Conv C} {cfg : Cfg} {tpl : Nat} {w0 : World C} {fs' : FS C} {pl : Plot}
    {up : FUnit × String} (h : PlotFresh conv cfg tpl w0 fs' pl up) (hcs : up.1.csvs = [up.2])
    (hm1 : cfg.w1 ≠ .overwrite) (hm2 : cfg.w2 ≠ .overwrite) : Settled conv cfg tpl fs' pl up := by
  obtain ⟨hc, ⟨tf, htf, htc⟩, ⟨pf, hpf, _⟩, ⟨gf, hgf, _⟩⟩ := h
  rw [hcs] at hc
  simp only [depContents, List.map_cons, List.map_nil, List.cons.injEq, and_true] at hc
  cases hcf : fs' up.2 with
  | none => rw [hcf] at hc; cases hc
  | some cf =>
    rw [hcf] at hc
    simp only [Option.map_some, Option.some.injEq] at hc
    exact ⟨⟨cf, hcf, effective_settled _ _ _ cf hm1 hc⟩, ⟨tf, htf, effective_settled _ _ _ tf hm2 htc⟩,
      by simp [hpf], by simp [hgf]⟩

/-- **`idle_run_is_noop`.**  For every run that starts `SourceClosed` in a world satisfying the invariant, with any
number of plots, any data and template, and any option setting without `overwrite`: running the same pipeline
again on the same inputs with nothing deleted leaves the world *identical* — no file is written, no converter is
launched (the log and the clock do not move) — and every yielded value has `output.changed = False`. -/
theorem idle_run_is_noop (conv : Conv C) (hok : ConvOK conv) (r : RunSpec) (pus : List (Plot × (FUnit × String)))
    (w : World C) (hr : RunOK r pus) (hinv : WInv conv (pus.map (·.2)) w)
    (hsc : ∀ up ∈ pus.map (·.2), SourceClosed up.1 w.fs)
    (hm1 : r.cfg.w1 ≠ .overwrite) (hm2 : r.cfg.w2 ≠ .overwrite) (hlo : r.cfg.lo = false) (hpo : r.cfg.po = false) :
    ∃ w' vs vs', runSpec conv w r = .ok (w', vs) ∧ runSpec conv w' r = .ok (w', vs') ∧
      vs'.map (fun v => dataPath v) = pus.map (fun x => x.2.1.png) ∧ ∀ v ∈ vs', v.out.changed = some false := by
  obtain ⟨w', vs, hrun, _, hfresh, _, _⟩ := run_fresh_partial conv hok r pus w hr hinv hsc
  obtain ⟨hl, hp, ⟨ms, hms, hres⟩, hu⟩ := hr
  obtain ⟨vs', hrun', hdata', hchg'⟩ := runPlots_noop conv r.cfg ms r.tpl hm1 hm2 hlo hpo pus w' hres
    (fun x hx => (hfresh x hx).settled (plotUnit_csvs (hres x hx)) hm1 hm2)
  refine ⟨w', vs, vs', hrun, ?_, hdata', hchg'⟩
  unfold runSpec runSeparate; rw [hl]; simp only [hms, hp]; exact hrun'

/-- **nothing unchanged is redone**, in general: whenever all plots of a run are settled (whatever the history
that led there) and no `overwrite` option is set, the run leaves the world identical. -/
theorem settled_run_is_noop (conv : Conv C) (r : RunSpec) (pus : List (Plot × (FUnit × String))) (w : World C)
    (hr : RunOK r pus) (hset : ∀ x ∈ pus, Settled conv r.cfg r.tpl w.fs x.1 x.2)
    (hm1 : r.cfg.w1 ≠ .overwrite) (hm2 : r.cfg.w2 ≠ .overwrite) (hlo : r.cfg.lo = false) (hpo : r.cfg.po = false) :
    ∃ vs, runSpec conv w r = .ok (w, vs) ∧ ∀ v ∈ vs, v.out.changed = some false := by
  obtain ⟨hl, hp, ⟨ms, hms, hres⟩, _⟩ := hr
  obtain ⟨vs, hrun, _, hchg⟩ := runPlots_noop conv r.cfg ms r.tpl hm1 hm2 hlo hpo pus w hres hset
  refine ⟨vs, ?_, hchg⟩
  unfold runSpec runSeparate; rw [hl]; simp only [hms, hp]; exact hrun


/-! ## the exact extent of the finding (bookkeeping level, one plot) -/

/-- **The finding in general** (not only on the witness): whenever a run starts with the CSV file missing while the
`.tex` file is on disk and unchanged and the pdf exists (and `LaTeXToPDF` is not told to overwrite), the pdf file
is *left exactly as it was* — whatever the new data are.  (`Write` creates the CSV file and leaves
`output.changed` unset; the second `Write` turns it into `False`; `LaTeXToPDF` skips.) -/
theorem stale_when_csv_missing (conv : Conv C) (m1 m2 : WMode) (po : Bool) (u : FUnit) (pc : String) (ncsv ntex : C)
    (w : World C) (ft pf : File C) (hd : u.Distinct) (hpc : pc ≠ u.tex ∧ pc ≠ u.pdf ∧ pc ≠ u.png)
    (hc : w.fs pc = none) (ht : w.fs u.tex = some ft) (hm2 : m2 ≠ .overwrite)
    (htc : m2 = .existingUnchanged ∨ ft.content = ntex) (hp : w.fs u.pdf = some pf) :
    ∃ w' c, sepCore conv m1 m2 false po u pc ncsv ntex w = .ok (w', some c) ∧ w'.fs u.pdf = some pf ∧
      HasContent w'.fs pc ncsv := by
  obtain ⟨_, _, _, htp, htg, hpg⟩ := hd
  obtain ⟨h1, h2, h3⟩ := hpc
  have hw1 : writeCore m1 pc ncsv w none = (w.put pc ncsv (.write pc), none) := by unfold writeCore; rw [hc]
  have ht1 : (w.put pc ncsv (.write pc)).fs u.tex = some ft := by rw [put_fs_ne _ _ _ (Ne.symm h1)]; exact ht
  have hp1 : (w.put pc ncsv (.write pc)).fs u.pdf = some pf := by rw [put_fs_ne _ _ _ (Ne.symm h2)]; exact hp
  unfold sepCore downCore
  simp only [hw1]
  rw [writeCore_noop m2 u.tex ntex _ none ft ht1 hm2 htc]
  simp only [Option.getD_none]
  unfold convCore
  rw [latexCore_skip conv u.tex u.pdf _ (by rw [hp1]; rfl)]
  simp only
  refine ⟨_, _, rfl, ?_, ?_⟩
  · unfold pngCore
    split
    · simp only [hp1]; rw [put_fs_ne _ _ _ hpg]; exact hp1
    · exact hp1
  · unfold pngCore
    split
    · simp only [hp1]; exact ⟨_, by rw [put_fs_ne _ _ _ h3, put_fs_eq], rfl⟩
    · exact ⟨_, put_fs_eq _ _ _ _, rfl⟩

/-- the same for a missing `.tex` file when the CSV file is on disk and unchanged: the re-created `.tex` file (new
template) does not make `LaTeXToPDF` regenerate the pdf -/
theorem stale_when_tex_missing (conv : Conv C) (m1 m2 : WMode) (po : Bool) (u : FUnit) (pc : String) (ncsv ntex : C)
    (w : World C) (fc pf : File C) (hd : u.Distinct)
    (hc : w.fs pc = some fc) (hm1 : m1 ≠ .overwrite) (hcc : m1 = .existingUnchanged ∨ fc.content = ncsv)
    (ht : w.fs u.tex = none) (hp : w.fs u.pdf = some pf) :
    ∃ w' c, sepCore conv m1 m2 false po u pc ncsv ntex w = .ok (w', some c) ∧ w'.fs u.pdf = some pf ∧
      HasContent w'.fs u.tex ntex := by
  obtain ⟨_, _, _, htp, htg, hpg⟩ := hd
  have hw2 : writeCore m2 u.tex ntex w (some false) = (w.put u.tex ntex (.write u.tex), some false) := by
    unfold writeCore; rw [ht]
  have hp1 : (w.put u.tex ntex (.write u.tex)).fs u.pdf = some pf := by rw [put_fs_ne _ _ _ (Ne.symm htp)]; exact hp
  unfold sepCore downCore
  rw [writeCore_noop m1 pc ncsv w none fc hc hm1 hcc]
  simp only [Option.getD_none, hw2]
  unfold convCore
  rw [latexCore_skip conv u.tex u.pdf _ (by rw [hp1]; rfl)]
  simp only
  refine ⟨_, _, rfl, ?_, ?_⟩
  · unfold pngCore
    split
    · simp only [hp1]; rw [put_fs_ne _ _ _ hpg]; exact hp1
    · exact hp1
  · unfold pngCore
    split
    · simp only [hp1]; exact ⟨_, by rw [put_fs_ne _ _ _ htg, put_fs_eq], rfl⟩
    · exact ⟨_, put_fs_eq _ _ _ _, rfl⟩

/-- **how long the finding lasts**: as long as both source files of a plot are on disk and kept by their `Write`s
(same content, or `existing_unchanged`; no `overwrite`) and the pdf exists, the pdf is left exactly as it is —
whatever it was rendered from.  So a pdf made stale by the finding stays stale through every later run with the
same inputs, until a source is rewritten or the pdf is removed. -/
theorem pdf_kept_when_sources_settled (conv : Conv C) (m1 m2 : WMode) (po : Bool) (u : FUnit) (pc : String)
    (ncsv ntex : C) (w : World C) (fc ft pf : File C) (hd : u.Distinct)
    (hc : w.fs pc = some fc) (hm1 : m1 ≠ .overwrite) (hcc : m1 = .existingUnchanged ∨ fc.content = ncsv)
    (ht : w.fs u.tex = some ft) (hm2 : m2 ≠ .overwrite) (htc : m2 = .existingUnchanged ∨ ft.content = ntex)
    (hp : w.fs u.pdf = some pf) :
    ∃ w' c, sepCore conv m1 m2 false po u pc ncsv ntex w = .ok (w', some c) ∧ w'.fs u.pdf = some pf := by
  obtain ⟨_, _, _, _, _, hpg⟩ := hd
  unfold sepCore downCore
  rw [writeCore_noop m1 pc ncsv w none fc hc hm1 hcc]
  simp only [Option.getD_none]
  rw [writeCore_noop m2 u.tex ntex w (some false) ft ht hm2 htc]
  simp only [Option.getD_some]
  unfold convCore
  rw [latexCore_skip conv u.tex u.pdf w (by rw [hp]; rfl)]
  simp only
  refine ⟨_, _, rfl, ?_⟩
  unfold pngCore
  split
  · simp only [hp]; rw [put_fs_ne _ _ _ hpg]; exact hp
  · exact hp

/-- **Outside the finding**: when *both* source files of a plot are missing, `output.changed` stays unset through
both `Write`s, `LaTeXToPDF` compares modification times, the `.tex` file written in this run is newer than any pdf
of an earlier run (`ClockInv`), and everything is regenerated — no `SourceClosed` hypothesis. -/
theorem fresh_when_all_sources_missing (conv : Conv C) (m1 m2 : WMode) (lo po : Bool) (u : FUnit) (pc : String)
    (ncsv ntex : C) (w : World C) (hu : u.csvs = [pc]) (hd : u.Distinct) (hclk : ClockInv w)
    (hc : w.fs pc = none) (ht : w.fs u.tex = none) (hdeps : conv.depsOf ntex = u.csvs) :
    ∃ w' c, sepCore conv m1 m2 lo po u pc ncsv ntex w = .ok (w', some c) ∧ UnitFresh conv u w'.fs [ncsv] ntex := by
  have hd' := hd
  obtain ⟨htc, hpc', hgc, htp, htg, hpg⟩ := hd'
  have hpct : pc ≠ u.tex := fun h => htc (by rw [hu, ← h]; simp)
  have hpcp : pc ≠ u.pdf := fun h => hpc' (by rw [hu, ← h]; simp)
  have hpcg : pc ≠ u.png := fun h => hgc (by rw [hu, ← h]; simp)
  have hw1 : writeCore m1 pc ncsv w none = (w.put pc ncsv (.write pc), none) := by unfold writeCore; rw [hc]
  have ht1 : (w.put pc ncsv (.write pc)).fs u.tex = none := by rw [put_fs_ne _ _ _ (Ne.symm hpct)]; exact ht
  have hw2 : writeCore m2 u.tex ntex (w.put pc ncsv (.write pc)) none
      = ((w.put pc ncsv (.write pc)).put u.tex ntex (.write u.tex), none) := by unfold writeCore; rw [ht1]
  -- LaTeXToPDF launches: the pdf is missing, or older than the .tex file written now
  have hlaunch : latexCore conv lo u.tex u.pdf ((w.put pc ncsv (.write pc)).put u.tex ntex (.write u.tex)) none
      = .ok (((w.put pc ncsv (.write pc)).put u.tex ntex (.write u.tex)).put u.pdf
          (conv.pdfOf ntex [some ncsv]) (.latex u.tex), true, true) := by
    have hdc : depContents ((w.put pc ncsv (.write pc)).put u.tex ntex (.write u.tex)).fs (conv.depsOf ntex) = [some ncsv] := by
      rw [hdeps, hu]; simp [depContents, put_fs_ne _ _ _ hpct]
    unfold latexCore
    simp only [put_fs_eq]
    cases hp : w.fs u.pdf with
    | none =>
      have : ((w.put pc ncsv (.write pc)).put u.tex ntex (.write u.tex)).fs u.pdf = none := by
        rw [put_fs_ne _ _ _ (Ne.symm htp), put_fs_ne _ _ _ (Ne.symm hpcp)]; exact hp
      simp only [this, Option.isSome_none, Bool.and_false, Bool.false_and, Bool.false_eq_true, if_false]
      unfold depContents at hdc; rw [hdc]
    | some pf =>
      have hpf : ((w.put pc ncsv (.write pc)).put u.tex ntex (.write u.tex)).fs u.pdf = some pf := by
        rw [put_fs_ne _ _ _ (Ne.symm htp), put_fs_ne _ _ _ (Ne.symm hpcp)]; exact hp
      have hlt : pf.mtime < (w.put pc ncsv (.write pc)).clock := by have := hclk _ _ hp; simp; omega
      simp only [hpf, hlt, decide_true, Bool.not_true, Bool.and_false, Bool.false_eq_true, if_false]
      unfold depContents at hdc; rw [hdc]
  unfold sepCore downCore
  simp only [hw1, hw2]
  unfold convCore
  rw [hlaunch]
  simp only
  rw [pngCore_run conv po u.pdf u.png _ (some true) ⟨_, _⟩ (put_fs_eq _ _ _ _) (.inr (.inr rfl))]
  refine ⟨_, _, rfl, ?_, ?_, ?_, ?_⟩
  · rw [hu]; simp [depContents, put_fs_ne _ _ _ hpcg, put_fs_ne _ _ _ hpcp, put_fs_ne _ _ _ hpct]
  · exact ⟨_, by rw [put_fs_ne _ _ _ htg, put_fs_ne _ _ _ htp, put_fs_eq], rfl⟩
  · exact ⟨_, by rw [put_fs_ne _ _ _ hpg, put_fs_eq], rfl⟩
  · exact ⟨_, put_fs_eq _ _ _ _, rfl⟩

/-- **`LaTeXToPDF(overwrite=True)` cures the finding**: with that option the pdf (and therefore the image) is
regenerated in every run, so all files are fresh whatever was missing at the start — no `SourceClosed`.
(`Write(overwrite=True)` does *not*: `stale_when_csv_missing` holds for every mode of the first `Write`,
because a file that does not exist is created through the same branch.) -/
theorem fresh_when_latex_overwrites (conv : Conv C) (m1 m2 : WMode) (po : Bool) (u : FUnit) (pc : String) (ncsv ntex : C)
    (w : World C) (hu : u.csvs = [pc]) (hd : u.Distinct) (hclk : ClockInv w)
    (htd : ∀ tf, w.fs u.tex = some tf → conv.depsOf tf.content = u.csvs) (hdeps : conv.depsOf ntex = u.csvs) :
    ∃ w' c, sepCore conv m1 m2 true po u pc ncsv ntex w = .ok (w', some c) ∧
      UnitFresh conv u w'.fs [effective m1 (w.fs pc) ncsv] (effective m2 (w.fs u.tex) ntex) := by
  have hd' := hd
  obtain ⟨htc, hpc', hgc, htp, htg, hpg⟩ := hd'
  have hpct : pc ≠ u.tex := fun h => htc (by rw [hu, ← h]; simp)
  have hpcp : pc ≠ u.pdf := fun h => hpc' (by rw [hu, ← h]; simp)
  have hpcg : pc ≠ u.png := fun h => hgc (by rw [hu, ← h]; simp)
  -- after the two Writes
  obtain ⟨cf, hcf, hcc⟩ := writeCore_content m1 pc ncsv w none
  have ht1 : (writeCore m1 pc ncsv w none).1.fs u.tex = w.fs u.tex := writeCore_frame m1 pc ncsv w none (Ne.symm hpct)
  obtain ⟨tf, htf, htfc⟩ := writeCore_content m2 u.tex ntex (writeCore m1 pc ncsv w none).1 (writeCore m1 pc ncsv w none).2
  rw [ht1] at htfc
  have hc2 : (writeCore m2 u.tex ntex (writeCore m1 pc ncsv w none).1 (writeCore m1 pc ncsv w none).2).1.fs pc = some cf := by
    rw [writeCore_frame m2 u.tex ntex _ _ hpct]; exact hcf
  have hdeps2 : conv.depsOf tf.content = u.csvs := by
    rw [htfc]
    rcases effective_cases m2 (w.fs u.tex) ntex with h | ⟨f, hf, h⟩
    · rw [h]; exact hdeps
    · rw [h]; exact htd f hf
  obtain ⟨w', he, hpdf, hpng, hframe, _, _⟩ := convCore_launch conv true po u _ _ tf hd
    (writeCore_clockInv m2 u.tex ntex _ _ (writeCore_clockInv m1 pc ncsv w none hclk)) htf (.inr (.inl rfl))
  have hdc : depContents (writeCore m2 u.tex ntex (writeCore m1 pc ncsv w none).1 (writeCore m1 pc ncsv w none).2).1.fs
      (conv.depsOf tf.content) = [some (effective m1 (w.fs pc) ncsv)] := by
    rw [hdeps2, hu]; simp [depContents, hc2, hcc]
  rw [hdc, htfc] at hpdf hpng
  refine ⟨w', true, he, ?_, ⟨tf, ?_, htfc⟩, hpdf, hpng⟩
  · rw [hu]; simp [depContents, hframe pc hpcp hpcg, hc2, hcc]
  · rw [hframe u.tex htp htg]; exact htf

/-- plots must have files of their own (`UnitsOK`): two plots with one file name in one run — the second
overwrites the files of the first, and the value yielded for the first names files that hold the data of the
second -/
example :
    ((exec stubConv World.init [.run ⟨Witness.cfg, .separate, 1, [⟨some "p0", 1⟩, ⟨some "p0", 2⟩]⟩]).fs
      "out/p0.csv").map (·.content) = some (.csv 2) := by
  decide +kernel

/-- a name-making `MakeFilename` without `overwrite` leaves a value that has a file name exactly as it is -/
theorem mfCall_filename_noop (t : Tpl) (name : Option String) (o : OutCtx) (h : o.filename.isSome) :
    (mfCall false [(.filename, t)] name o).1 = o := by
  simp [mfCall, mfStep, h]

/-- **plain values through the group pipeline** (`MapGroup` maps its sequence to scalars): when the group's
`MakeFilename` only makes a file name and does not overwrite, a plot sent through the group pipeline is treated
exactly like a plot of the separate pipeline (`Write` has given it its file name) — so `run_fresh_partial` and the
other theorems about `runPlot` apply to it. -/
theorem runScalarPlot_eq_runPlot (conv : Conv C) (cfg : Cfg) (ms : List (MFKey × Tpl)) (t : Tpl) (tpl : Nat)
    (w : World C) (pl : Plot) (on : OutCtx) (pc : String) (hn : memberNamed cfg ms pl = .ok (on, pc))
    (how : cfg.gmf.overwrite = false) :
    runScalarPlot conv cfg ms [(.filename, t)] tpl w pl = runPlot conv cfg ms tpl w pl := by
  have hfn : on.filename.isSome := by
    unfold memberNamed at hn
    cases h1 : wmfCore cfg.outdir "output" (plotCtx cfg ms pl).dirname (plotCtx cfg ms pl).filename
        (plotCtx cfg ms pl).fileext (some "csv") with
    | error e => simp [h1] at hn
    | ok r1 =>
      obtain ⟨d1, fn, fe, pc'⟩ := r1
      simp only [h1, Except.ok.injEq, Prod.mk.injEq] at hn
      rw [← hn.1]; rfl
  unfold runScalarPlot runPlot
  rw [memberStage_eq conv cfg ms w pl on pc hn]
  simp only [mfVal, how]
  rw [mfCall_filename_noop t pl.name _ (by exact hfn)]

/-- plain values through the group pipeline, any number of them: when every plot resolves (`memberNamed`) and the
group's `MakeFilename` only makes a file name without `overwrite`, the run *is* the run of the separate layout —
`run_fresh_partial`, `history_fresh_partial`, `idle_run_is_noop` hold for it through this equation -/
theorem runScalarPlots_eq_runPlots (conv : Conv C) (cfg : Cfg) (ms : List (MFKey × Tpl)) (t : Tpl) (tpl : Nat)
    (how : cfg.gmf.overwrite = false) :
    ∀ (pls : List Plot) (w : World C), (∀ pl ∈ pls, ∃ x, memberNamed cfg ms pl = .ok x) →
      runScalarPlots conv cfg ms [(.filename, t)] tpl w pls = runPlots conv cfg ms tpl w pls := by
  intro pls
  induction pls with
  | nil => intro w _; rfl
  | cons pl rest ih =>
    intro w h
    obtain ⟨⟨on, pc⟩, hn⟩ := h pl (by simp)
    unfold runScalarPlots runPlots
    rw [runScalarPlot_eq_runPlot conv cfg ms t tpl w pl on pc hn how]
    cases runPlot conv cfg ms tpl w pl with
    | error e => rfl
    | ok r =>
      obtain ⟨w', ov⟩ := r
      simp only
      rw [ih w' (fun pl' hpl' => h pl' (by simp [hpl']))]

/-- `MapGroup` accepts a group iff its data list and `context.group` have the same length -/
theorem mapGroupGuard_ok (a b : Nat) : mapGroupGuard a b = .ok () ↔ a = b := by
  unfold mapGroupGuard
  by_cases h : a = b <;> simp [h]

/-! ## `output.changed` is true whenever a file's content changed and stays true downstream -/

/-- `Write` never turns `True` into anything else (all modes, all states of the file) -/
theorem writeCore_sticky (mode : WMode) (p : String) (c : C) (w : World C) :
    (writeCore mode p c w (some true)).2 = some true := by
  unfold writeCore
  cases w.fs p with
  | none => rfl
  | some f => cases mode <;> simp only [Option.getD_some] <;> (try split) <;> rfl

/-- `Write`: if the content of an existing file changed, `output.changed` is true -/
theorem writeCore_changed_content (mode : WMode) (p : String) (c : C) (w : World C) (chg : Option Bool) (f f' : File C)
    (hf : w.fs p = some f) (hf' : (writeCore mode p c w chg).1.fs p = some f') (hne : f'.content ≠ f.content) :
    (writeCore mode p c w chg).2 = some true := by
  rcases writeCore_cases mode p c w chg with h | ⟨heq, _⟩ | ⟨hnone, _⟩
  · exact h
  · rw [heq] at hf'; rw [hf] at hf'; cases hf'; exact absurd rfl hne
  · rw [hnone] at hf; cases hf

/-- `LaTeXToPDF`: an incoming `True` always launches the command and stays `True` -/
theorem latexCore_sticky (conv : Conv C) (lo : Bool) (texP pdfP : String) (w : World C) :
    ∃ w' y, latexCore conv lo texP pdfP w (some true) = .ok (w', true, y) ∧ Event.latex texP ∈ w'.log := by
  cases ht : w.fs texP with
  | none =>
    refine ⟨w.note (.latex texP), false, ?_, by simp [World.note]⟩
    unfold latexCore; simp [ht]
  | some tf =>
    exact ⟨_, true, latexCore_launch conv lo texP pdfP w (some true) tf ht (.inl rfl), by simp [World.put]⟩

/-- `PDFToPNG`: an incoming `True` always launches the command and stays `True` -/
theorem pngCore_sticky (conv : Conv C) (po : Bool) (pdfP pngP : String) (w : World C) :
    (pngCore conv po pdfP pngP w (some true)).2 = true ∧
      Event.topng pdfP ∈ (pngCore conv po pdfP pngP w (some true)).1.log ∧
      ∀ e ∈ w.log, e ∈ (pngCore conv po pdfP pngP w (some true)).1.log := by
  unfold pngCore
  cases w.fs pdfP <;> simp [World.note, World.put] <;> intro e he <;> exact .inl he

/-- **`changed_sticky`.**  For every option setting and every state of the files: if the value that reaches the
second `Write` carries `output.changed = True` (the first `Write` rewrote the CSV file), then the `.tex` stage,
the pdf stage and the image stage all hand on `True`: the LaTeX command and `pdftoppm` are launched and the
yielded value (if the command succeeds) has `output.changed = True`. -/
theorem changed_sticky (conv : Conv C) (m2 : WMode) (lo po : Bool) (u : FUnit) (ntex : C) (w : World C) :
    ∃ w' oc, downCore conv m2 lo po u ntex w (some true) = .ok (w', oc) ∧ (oc = none ∨ oc = some true) ∧
      Event.latex u.tex ∈ w'.log ∧ (oc = some true → Event.topng u.pdf ∈ w'.log) := by
  unfold downCore
  simp only
  rw [writeCore_sticky m2 u.tex ntex w]
  unfold convCore
  obtain ⟨w3, y, hl, hlog⟩ := latexCore_sticky conv lo u.tex u.pdf (writeCore m2 u.tex ntex w (some true)).1
  rw [hl]
  cases y with
  | false => exact ⟨_, _, rfl, .inl rfl, hlog, fun h => by cases h⟩
  | true =>
    have hp := pngCore_sticky conv po u.pdf u.png w3
    exact ⟨_, _, rfl, .inr (by rw [hp.1]), hp.2.2 _ hlog, fun _ => hp.2.1⟩

/-- the first `Write`: a rewritten CSV file (its content changed) makes the whole plot `changed`: the pdf and the
image are regenerated and the yielded value says `True` -/
theorem changed_sticky_plot (conv : Conv C) (m1 m2 : WMode) (lo po : Bool) (u : FUnit) (pc : String) (ncsv ntex : C)
    (w : World C) (f f' : File C) (hf : w.fs pc = some f)
    (hf' : (writeCore m1 pc ncsv w none).1.fs pc = some f') (hne : f'.content ≠ f.content) :
    ∃ w' oc, sepCore conv m1 m2 lo po u pc ncsv ntex w = .ok (w', oc) ∧ (oc = none ∨ oc = some true) ∧
      Event.latex u.tex ∈ w'.log ∧ (oc = some true → Event.topng u.pdf ∈ w'.log) := by
  unfold sepCore
  simp only
  rw [writeCore_changed_content m1 pc ncsv w none f f' hf hf' hne]
  exact changed_sticky conv m2 lo po u ntex _

/-- the mechanism of the known finding: a file that did **not** exist is created and `output.changed` is left as
it came (`tests/output/test_write.py::test_write_writes` pins this) -/
theorem writeCore_created_leaves_changed (mode : WMode) (p : String) (c : C) (w : World C) (chg : Option Bool)
    (h : w.fs p = none) : (writeCore mode p c w chg).2 = chg := by
  unfold writeCore; rw [h]


/-- "regenerated if anything it was rendered from was *rewritten*" — also when the content is the same: a
`Write(overwrite=True)` that rewrites an existing CSV file makes the whole plot `changed`: the LaTeX command and
`pdftoppm` are launched -/
theorem overwrite_rewrites_and_relaunches (conv : Conv C) (m2 : WMode) (lo po : Bool) (u : FUnit) (pc : String)
    (ncsv ntex : C) (w : World C) (f : File C) (hf : w.fs pc = some f) :
    ∃ w' oc, sepCore conv .overwrite m2 lo po u pc ncsv ntex w = .ok (w', oc) ∧ (oc = none ∨ oc = some true) ∧
      Event.latex u.tex ∈ w'.log ∧ (oc = some true → Event.topng u.pdf ∈ w'.log) := by
  have hw : writeCore .overwrite pc ncsv w none = (w.put pc ncsv (.write pc), some true) := by
    unfold writeCore; rw [hf]
  obtain ⟨w', oc, he, hoc, hl, hg⟩ := changed_sticky conv m2 lo po u ntex (w.put pc ncsv (.write pc))
  exact ⟨w', oc, by unfold sepCore; simp only [hw]; exact he, hoc, hl, hg⟩

theorem latexCore_false_world (conv : Conv C) (lo : Bool) (t p : String) (w w1 : World C) (chg : Option Bool) (y : Bool)
    (h : latexCore conv lo t p w chg = .ok (w1, false, y)) : w1 = w := by
  unfold latexCore at h
  cases chg <;> cases hp : w.fs p <;> cases ht : w.fs t <;> simp only [hp, ht] at h <;>
    (try (split at h)) <;> simp_all

/-- a command that fails writes nothing and its value joins the pool as "not to be yielded" — independently of
`latexRun`: this is the step function that both sides of `latexRun_yields_iff_ok` share -/
theorem latexHandle_failed (conv : Conv C) (overwrite : Bool) (w w' : World C) (v : Val C) (s : Sched)
    (launched : List (PoolEntry C)) (now : List (Val C)) (hs : s.ok = false)
    (h : latexHandle conv overwrite w v s = .ok (w', launched, now)) :
    w'.fs = w.fs ∧ ∀ e ∈ launched, e.ok = false := by
  unfold latexHandle at h
  by_cases hft : v.out.filetype = some "tex"
  · rw [if_pos hft] at h
    cases hd : v.data with
    | path texP =>
      rw [hd] at h
      simp only at h
      cases hl : latexCore conv overwrite texP (pdfPathOf texP) w v.out.changed with
      | error e => rw [hl] at h; cases h
      | ok r =>
        obtain ⟨w1, chg', y⟩ := r
        rw [hl] at h
        cases chg' with
        | false =>
          simp only [if_true, Except.ok.injEq, Prod.mk.injEq] at h
          obtain ⟨rfl, rfl, _⟩ := h
          exact ⟨by rw [latexCore_false_world conv overwrite texP _ w w1 _ y hl], fun _ he => by cases he⟩
        | true =>
          simp only [Bool.true_eq_false, if_false, hs, Except.ok.injEq, Prod.mk.injEq] at h
          obtain ⟨rfl, rfl, _⟩ := h
          exact ⟨rfl, fun e he => by simp only [List.mem_singleton] at he; subst he; rfl⟩
    | text c => rw [hd] at h; cases h
    | many ps => rw [hd] at h; cases h
    | writer c => rw [hd] at h; cases h
  · rw [if_neg hft] at h
    simp only [Except.ok.injEq, Prod.mk.injEq] at h
    obtain ⟨rfl, rfl, _⟩ := h
    exact ⟨rfl, fun _ he => by cases he⟩

/-! ## `MakeFilename` and `Write._make_filename`: the naming rules -/

theorem mfStep_keeps (name : Option String) (o : OutCtx) (m : MFKey × Tpl) :
    (o.filename.isSome → (mfStep false name o m).1.filename = o.filename) ∧
    (o.dirname.isSome → (mfStep false name o m).1.dirname = o.dirname) ∧
    (o.fileext.isSome → (mfStep false name o m).1.fileext = o.fileext) := by
  obtain ⟨k, t⟩ := m
  refine ⟨?_, ?_, ?_⟩ <;> intro h <;> cases k <;> simp only [mfStep, h, Bool.not_false, Bool.and_self, Bool.false_and,
    Bool.true_and, if_true] <;> (repeat' split) <;> first | rfl | simp_all

theorem mfCall_foldl_keeps (name : Option String) (ms : List (MFKey × Tpl)) :
    ∀ (acc : OutCtx × Bool),
      let r := ms.foldl (fun acc m => let r := mfStep false name acc.1 m; (r.1, acc.2 || r.2)) acc
      (acc.1.filename.isSome → r.1.filename = acc.1.filename) ∧
      (acc.1.dirname.isSome → r.1.dirname = acc.1.dirname) ∧
      (acc.1.fileext.isSome → r.1.fileext = acc.1.fileext) := by
  induction ms with
  | nil => intro acc; exact ⟨fun _ => rfl, fun _ => rfl, fun _ => rfl⟩
  | cons m rest ih =>
    intro acc
    simp only [List.foldl_cons]
    obtain ⟨k1, k2, k3⟩ := mfStep_keeps name acc.1 m
    obtain ⟨i1, i2, i3⟩ := ih ((mfStep false name acc.1 m).1, acc.2 || (mfStep false name acc.1 m).2)
    simp only at i1 i2 i3
    refine ⟨fun h => ?_, fun h => ?_, fun h => ?_⟩
    · rw [i1 (by rw [k1 h]; exact h), k1 h]
    · rw [i2 (by rw [k2 h]; exact h), k2 h]
    · rw [i3 (by rw [k3 h]; exact h), k3 h]

/-- **`MakeFilename` never replaces an existing name unless `overwrite` is set**: for every list of methods, every
`name` and every incoming context, an existing `output.filename` / `dirname` / `fileext` is kept. -/
theorem makefilename_keeps_existing (ms : List (MFKey × Tpl)) (name : Option String) (o : OutCtx) :
    (o.filename.isSome → (mfCall false ms name o).1.filename = o.filename) ∧
    (o.dirname.isSome → (mfCall false ms name o).1.dirname = o.dirname) ∧
    (o.fileext.isSome → (mfCall false ms name o).1.fileext = o.fileext) :=
  mfCall_foldl_keeps name ms (o, false)

/-- **prefix and suffix are applied exactly once and consumed**: `MakeFilename(filename=tpl)` on a value without
a file name creates `prefix + name + suffix` from `output.prefix` / `output.suffix` and leaves no (non-empty)
prefix or suffix behind — so a later `MakeFilename` cannot apply them again. -/
theorem makefilename_prefix_suffix_once (ow : Bool) (tpl : Tpl) (name : Option String) (o : OutCtx) (r : String)
    (hf : fmt tpl name = some r) (hno : o.filename = none ∨ ow = true) :
    let o' := (mfCall ow [(.filename, tpl)] name o).1
    o'.filename = some (o.pfx.getD "" ++ r ++ o.sfx.getD "") ∧ truthy o'.pfx = false ∧ truthy o'.sfx = false ∧
    o'.dirname = o.dirname ∧ o'.fileext = o.fileext := by
  obtain ⟨fnm, dn, fe, ft, px, sx, fp, ch⟩ := o
  have hp : (fnm.isSome && !ow) = false := by
    rcases hno with h | h
    · simp only at h; simp [h]
    · simp [h]
  simp only [mfCall, List.foldl_cons, List.foldl_nil, mfStep, hp, hf]
  cases px with
  | none => cases sx with
    | none => simp [truthy]
    | some s => by_cases hs : s = "" <;> simp [truthy, hs]
  | some p => cases sx with
    | none => by_cases hp' : p = "" <;> simp [truthy, hp']
    | some s => by_cases hp' : p = "" <;> by_cases hs : s = "" <;> simp [truthy, hp', hs]

/-- once the name was made, a second name-making `MakeFilename` (even with `overwrite`) gets no prefix or suffix -/
theorem makefilename_second_has_no_prefix (ow ow2 : Bool) (tpl tpl2 : Tpl) (name : Option String) (o : OutCtx) (r r2 : String)
    (hf : fmt tpl name = some r) (hf2 : fmt tpl2 name = some r2) (hno : o.filename = none ∨ ow = true) :
    (mfCall ow2 [(.filename, tpl2)] name (mfCall ow [(.filename, tpl)] name o).1).1.filename
      = if ow2 then some r2 else some (o.pfx.getD "" ++ r ++ o.sfx.getD "") := by
  obtain ⟨h1, h2, h3, _, _⟩ := makefilename_prefix_suffix_once ow tpl name o r hf hno
  cases ow2 with
  | false =>
    have := (makefilename_keeps_existing [(.filename, tpl2)] name (mfCall ow [(.filename, tpl)] name o).1).1 (by rw [h1]; rfl)
    rw [this, h1]; rfl
  | true =>
    obtain ⟨g1, _⟩ := makefilename_prefix_suffix_once true tpl2 name (mfCall ow [(.filename, tpl)] name o).1 r2 hf2 (.inr rfl)
    rw [g1]
    have e1 : (mfCall ow [(.filename, tpl)] name o).1.pfx.getD "" = "" := by
      revert h2; unfold truthy; cases (mfCall ow [(.filename, tpl)] name o).1.pfx <;> simp
    have e2 : (mfCall ow [(.filename, tpl)] name o).1.sfx.getD "" = "" := by
      revert h3; unfold truthy; cases (mfCall ow [(.filename, tpl)] name o).1.sfx <;> simp
    rw [e1, e2]; simp

/-- `MakeFilename(prefix=…)`: the new prefix goes before an existing one, a new suffix after an existing one -/
theorem makefilename_prefix_accumulates (tpl : Tpl) (name : Option String) (o : OutCtx) (r : String)
    (hf : fmt tpl name = some r) :
    (mfCall false [(.pfx, tpl)] name o).1.pfx = some (r ++ o.pfx.getD "") ∧
    (mfCall false [(.sfx, tpl)] name o).1.sfx = some (o.sfx.getD "" ++ r) := by
  obtain ⟨fnm, dn, fe, ft, px, sx, fp, ch⟩ := o
  simp only [mfCall, List.foldl_cons, List.foldl_nil, mfStep, hf]
  constructor
  · cases px with
    | none => simp [truthy]
    | some p => by_cases hp : p = "" <;> simp [truthy, hp]
  · cases sx with
    | none => simp [truthy]
    | some p => by_cases hp : p = "" <;> simp [truthy, hp]

/-- `MakeFilename.__init__`: `filename` together with `prefix` or `suffix`, or no argument at all, is a
`LenaTypeError` -/
theorem makefilename_init_rules (a : MFArgs) :
    ((a.filename.isSome ∧ (a.pfx.isSome ∨ a.sfx.isSome)) → mfInit a = .error .lenaTypeError) ∧
    ((a.filename = none ∧ a.dirname = none ∧ a.fileext = none ∧ a.pfx = none ∧ a.sfx = none) →
      mfInit a = .error .lenaTypeError) := by
  constructor
  · rintro ⟨h1, h2⟩
    unfold mfInit
    rcases h2 with h2 | h2 <;> simp [h1, h2]
  · rintro ⟨h1, h2, h3, h4, h5⟩
    unfold mfInit
    simp [h1, h2, h3, h4, h5]

/-- **`Write._make_filename`: the file is `output_directory/dirname/filename.fileext`** for relative names
(absolute ones lose their leading separator with a warning) -/
theorem write_path_rule (outdir : String) (dn fn fe : String) (ft : Option String)
    (hdn : isAbs dn = false) (hfn : isAbs (fn ++ "." ++ fe) = false) (hne : fn ≠ "") (hfe : fe ≠ "") :
    wmfCore outdir "output" (some dn) (some fn) (some fe) ft
      = .ok (dn, fn, fe, pjoin (pjoin outdir dn) (fn ++ "." ++ fe)) := by
  have h2 : (fe != "") = true := by simp [hfe]
  simp [wmfCore, hne, normPath, hdn, hfn, h2]

/-- **every file named by a value yielded by `Write` exists at that path with the written content** (all modes):
the value names `filepath`, `output.filename/fileext/filepath` are set, and the file holds the text (an
`existing_unchanged` Write keeps an existing file). -/
theorem write_file_at_path (conv : Conv C) (outdir : String) (mode : WMode) (w : World C) (v : Val C) (c : C)
    (d fn fe p : String) (hd : v.data = .text c) (hw : v.noWrite = false)
    (hn : wmfCore outdir "output" v.out.dirname v.out.filename v.out.fileext v.out.filetype = .ok (d, fn, fe, p)) :
    ∃ w' v', writeVal conv outdir mode w v = .ok (w', v') ∧ v'.data = .path p ∧
      v'.out.filename = some fn ∧ v'.out.fileext = some fe ∧ v'.out.filepath = some p ∧
      HasContent w'.fs p (effective mode (w.fs p) c) ∧ (∀ q, q ≠ p → w'.fs q = w.fs q) :=
  ⟨_, _, writeVal_text conv outdir mode w v c d fn fe p hd hw hn, rfl, rfl, rfl, rfl,
    writeCore_content mode p c w v.out.changed, fun _ h => writeCore_frame mode p c w v.out.changed h⟩

/-- "If `context.output.write` is `False` a value will not be written. Not written values pass unchanged": also
values whose data is neither a string nor an object with a `write` method — the world is not touched -/
theorem write_not_writable_passes (conv : Conv C) (outdir : String) (mode : WMode) (w : World C) (v : Val C)
    (h : v.noWrite = true ∨ ∃ ps, v.data = .many ps) : writeVal conv outdir mode w v = .ok (w, v) := by
  unfold writeVal
  rcases h with h | ⟨ps, h⟩
  · rw [h]; rfl
  · cases hn : v.noWrite
    · simp only [Bool.false_eq_true, if_false, h]
    · rfl

/-- an object with a `write` method writes itself (whatever the mode and the existing file) and
`output.changed` is `True` -/
theorem write_writer_changed (conv : Conv C) (outdir : String) (mode : WMode) (w : World C) (v : Val C) (c : C)
    (d fn fe p : String) (hd : v.data = .writer c) (hw : v.noWrite = false)
    (hn : wmfCore outdir "output" v.out.dirname v.out.filename v.out.fileext v.out.filetype = .ok (d, fn, fe, p)) :
    ∃ w' v', writeVal conv outdir mode w v = .ok (w', v') ∧ v'.data = .path p ∧ v'.out.changed = some true ∧
      HasContent w'.fs p c ∧ (∀ q, q ≠ p → w'.fs q = w.fs q) := by
  refine ⟨w.put p c (.write p), { v with data := .path p, out := { v.out with filename := some fn, fileext := some fe, filepath := some p, changed := some true } }, ?_, rfl, rfl, ⟨_, put_fs_eq _ _ _ _, rfl⟩, fun q h => put_fs_ne _ _ _ h⟩
  unfold writeVal wMakeFilename
  rw [hd, hw]
  simp only [hn]
  rfl

/-- an empty `output.filename` is a `LenaRuntimeError` -/
theorem write_empty_filename (outdir : String) (dn fe ft : Option String) :
    wmfCore outdir "output" dn (some "") fe ft = .error .lenaRuntimeError := by
  simp [wmfCore]


/-! ## groups: `group_plots`, `_update_with_group` -/

theorem allEq_some {α : Type} [DecidableEq α] {l : List (Option α)} {v : α} (h : allEq l = some v) :
    ∀ x ∈ l, x = some v := by
  cases l with
  | nil => simp [allEq] at h
  | cons a rest =>
    simp only [allEq] at h
    by_cases hall : (rest.all (· == a)) = true
    · rw [if_pos hall] at h
      subst h
      intro x hx
      simp only [List.mem_cons] at hx
      rcases hx with rfl | hx
      · rfl
      · have := List.all_eq_true.mp hall x hx
        simpa using this
    · rw [if_neg hall] at h; cases h

/-- `group_plots`: the group is changed iff some member is -/
theorem groupPlotsChanged_iff (ms : List (Option Bool)) : groupPlotsChanged ms = true ↔ some true ∈ ms := by
  unfold groupPlotsChanged
  rw [List.any_eq_true]
  constructor
  · rintro ⟨m, hm, h⟩
    cases m with
    | none => simp at h
    | some b => cases b <;> simp_all
  · intro h; exact ⟨some true, h, rfl⟩

/-- `_update_with_group`, the three-valued combination: true if any is true, else false if any is known to be
false, else unknown -/
theorem combineChanged_spec (c : Option Bool) (ms : List (Option Bool)) :
    (some true ∈ c :: ms → combineChanged c ms = some true) ∧
    (some true ∉ c :: ms → some false ∈ c :: ms → combineChanged c ms = some false) ∧
    ((∀ x ∈ c :: ms, x = none) → combineChanged c ms = none) := by
  unfold combineChanged
  refine ⟨fun h => ?_, fun h1 h2 => ?_, fun h => ?_⟩
  · have : (c :: ms).any (· == some true) = true := List.any_eq_true.mpr ⟨_, h, by simp⟩
    simp only [this, if_true]
  · have : (c :: ms).any (· == some true) = false := by
      rw [List.any_eq_false]; intro x hx hxe; simp at hxe; subst hxe; exact h1 hx
    simp only [this, Bool.false_eq_true, if_false]
    rw [if_pos (List.contains_iff_mem.mpr h2)]
  · have h1 : (c :: ms).any (· == some true) = false := by
      rw [List.any_eq_false]; intro x hx hxe; simp at hxe; subst hxe; cases h _ hx
    have h2 : (c :: ms).contains (some false) = false := by
      rw [← Bool.not_eq_true, List.contains_iff_mem]; intro hm; cases h _ hm
    simp only [h1, h2, Bool.false_eq_true, if_false]

/-- **`output.changed` stays true through `MapGroup`**: if a member of the group was rewritten
(`output.changed = True`), the group's `output.changed` is `True` after `_update_with_group` — whatever the
group's own flag, the other members and the previous common context are. -/
theorem group_changed_sticky (o : OutCtx) (newOuts : List OutCtx) (oldInter : OutCtx)
    (h : ∃ x ∈ newOuts, x.changed = some true) : (updateWithGroup o newOuts oldInter).changed = some true := by
  obtain ⟨x, hx, hxc⟩ := h
  have hmem : some true ∈ newOuts.map (·.changed) := List.mem_map.mpr ⟨x, hx, hxc⟩
  have hc := (combineChanged_spec o.changed (newOuts.map (·.changed))).1 (List.mem_cons_of_mem _ hmem)
  unfold updateWithGroup
  simp only [hc, updOut, diffOut, interOut, updSlot, diffSlot]
  split
  next v hv =>
    by_cases hcond : allEq (newOuts.map (·.changed)) = oldInter.changed
    · simp only [hcond, ↓reduceIte] at hv; cases hv
    · simp only [hcond, ↓reduceIte] at hv
      have := allEq_some hv (some true) hmem
      cases this; rfl
  · rfl

/-- the group's own `True` can be reset when *all* members say `False` (their common `output.changed = False`
overwrites it, lines 98-103).  Not reachable in the pipelines: no lena element turns a member's `True` into
`False`, and the group's flag comes from its members. -/
example : (updateWithGroup { changed := some true } [{ changed := some false }] {}).changed = some false := by decide

/-- in a pipeline the group value starts with `output.changed = False` (`group_plots` of fresh values): after
`MapGroup` it is `True` iff a member was rewritten — never unknown -/
theorem group_changed_after_mapgroup (newOuts : List OutCtx) (oldInter : OutCtx) (hold : oldInter.changed = none) :
    (updateWithGroup { changed := some false } newOuts oldInter).changed
      = some (newOuts.any (·.changed == some true)) := by
  by_cases hany : ∃ x ∈ newOuts, x.changed = some true
  · rw [group_changed_sticky _ _ _ hany]
    obtain ⟨x, hx, hxc⟩ := hany
    have : newOuts.any (·.changed == some true) = true := List.any_eq_true.mpr ⟨x, hx, by simp [hxc]⟩
    rw [this]
  · have hnone : some true ∉ (some false :: newOuts.map (·.changed)) := by
      intro hm
      simp only [List.mem_cons, List.mem_map] at hm
      rcases hm with hm | ⟨x, hx, hxc⟩
      · cases hm
      · exact hany ⟨x, hx, hxc⟩
    have hc := (combineChanged_spec (some false) (newOuts.map (·.changed))).2.1 hnone (by simp)
    have hf : newOuts.any (·.changed == some true) = false := by
      rw [List.any_eq_false]; intro x hx hxe; simp at hxe; exact hany ⟨x, hx, hxe⟩
    rw [hf]
    unfold updateWithGroup
    simp only [hc, updOut, diffOut, interOut, updSlot, diffSlot, hold]
    split
    next v hv =>
      by_cases hcond : allEq (newOuts.map (·.changed)) = none
      · simp only [hcond, ↓reduceIte] at hv; cases hv
      · simp only [hcond, ↓reduceIte] at hv
        -- all members carry the same known value, which is not `True`
        cases hl : newOuts with
        | nil => rw [hl] at hv; simp [allEq] at hv
        | cons a rest =>
          have := allEq_some hv (a.changed) (by rw [hl]; simp)
          cases v with
          | false => rfl
          | true => exact absurd ⟨a, by rw [hl]; simp, this⟩ hany
    · rfl


/-- **`run_fresh_partial` for a group (bookkeeping level)**: any number of members, all option settings; a run
that starts `SourceClosed` leaves the members' CSV files, the combined `.tex` file, the pdf and the image with
exactly the content produced from the current data and template. -/
theorem grpCore_fresh (conv : Conv C) (m1 m2 : WMode) (lo po : Bool) (u : FUnit) (members : List (String × C)) (ntex : C)
    (w : World C) (hu : u.csvs = members.map (·.1)) (hnd : u.csvs.Nodup) (hd : u.Distinct) (hclk : ClockInv w)
    (hinv : UnitInv conv u w.fs) (hsc : SourceClosed u w.fs) (hdeps : conv.depsOf ntex = u.csvs) :
    ∃ w' c, grpCore conv m1 m2 lo po u members ntex w = .ok (w', some c) ∧
      UnitFresh conv u w'.fs (members.map fun pc => effective m1 (w.fs pc.1) pc.2) (effective m2 (w.fs u.tex) ntex) ∧
      (∀ q, q ∉ u.paths → w'.fs q = w.fs q) ∧ ClockInv w' ∧ w.clock ≤ w'.clock ∧ UnitInv conv u w'.fs := by
  have hd' := hd
  obtain ⟨htc, hpc, hgc, _, _, _⟩ := hd'
  obtain ⟨hfr, hcont, hflag, hck1, hle1⟩ := membersCore_spec m1 members w (hu ▸ hnd) hclk
  simp only at hfr hcont hflag hck1 hle1
  rw [← hu] at hfr hcont hflag
  have hall : ∀ p ∈ u.csvs, ((membersCore m1 w members).1.fs p).isSome := by
    intro p hp
    have : (depContents (membersCore m1 w members).1.fs u.csvs).all (·.isSome) = true := by
      rw [hcont]; simp
    simp only [depContents, List.all_map, List.all_eq_true] at this
    have := this p hp
    simpa using this
  have hflag' : some ((membersCore m1 w members).2.any (· == some true)) = some true ∨
      (∃ p ∈ u.csvs, w.fs p = none) ∨ (∀ p ∈ u.csvs, (membersCore m1 w members).1.fs p = w.fs p) := by
    rcases hflag with h | h | h
    · exact .inl (by rw [List.any_eq_true.mpr ⟨_, h, by simp⟩])
    · exact .inr (.inl h)
    · exact .inr (.inr h)
  obtain ⟨w', c, he, htex, hpdf, hpng, hframe, hck, hle⟩ :=
    down_of_source conv m2 lo po u ntex w _ _ hd hinv hsc hck1 hfr hall hflag' hdeps
  rw [hcont] at hpdf hpng
  have hcsv' : ∀ p ∈ u.csvs, w'.fs p = (membersCore m1 w members).1.fs p := by
    intro p hp
    exact hframe p (fun h => htc (h ▸ hp)) (fun h => hpc (h ▸ hp)) (fun h => hgc (h ▸ hp))
  have hfresh : UnitFresh conv u w'.fs (members.map fun pc => effective m1 (w.fs pc.1) pc.2) (effective m2 (w.fs u.tex) ntex) := by
    have hmm : (members.map fun pc => some (effective m1 (w.fs pc.1) pc.2))
        = (members.map fun pc => effective m1 (w.fs pc.1) pc.2).map some := by
      rw [List.map_map]; rfl
    rw [hmm] at hpdf hpng hcont
    exact ⟨by rw [depContents_congr hcsv', hcont], htex, hpdf, hpng⟩
  refine ⟨w', c, he, hfresh, ?_, hck, Nat.le_trans hle1 hle, UnitInv.of_fresh hfresh (effective_deps conv u w.fs m2 ntex hinv hdeps)⟩
  intro q hq
  rw [FUnit.mem_paths] at hq
  rw [hframe q (fun h => hq (.inr (.inl h))) (fun h => hq (.inr (.inr (.inl h)))) (fun h => hq (.inr (.inr (.inr h)))),
    hfr q (fun h => hq (.inl h))]


theorem interOut_defaults (pls : List Plot) (h : pls ≠ []) : interOut (pls.map fun _ => ({} : OutCtx)) = {} := by
  cases pls with
  | nil => exact absurd rfl h
  | cons a rest => simp [interOut, allEq_none_cons]

theorem groupPlotsOut_defaults (pls : List Plot) (h : pls ≠ []) :
    groupPlotsOut (pls.map fun _ => ({} : OutCtx)) = { changed := some false } := by
  unfold groupPlotsOut
  rw [interOut_defaults pls h]
  have : groupPlotsChanged ((pls.map fun _ => ({} : OutCtx)).map (·.changed)) = false := by
    rw [← Bool.not_eq_true, groupPlotsChanged_iff]
    simp
  rw [this]

/-- a run of the group layout whose members and combined plot resolve to the unit `u` -/
structure GroupOK (r : RunSpec) (mems : List (Plot × (OutCtx × String))) (u : FUnit) : Prop where
  layout : r.layout = .group
  plots : r.plots = mems.map (·.1)
  nonempty : mems ≠ []
  resolves : ∃ ms gms, mfInit r.cfg.mf = .ok ms ∧ mfInit r.cfg.gmf = .ok gms ∧
    (∀ x ∈ mems, memberNamed r.cfg ms x.1 = .ok x.2) ∧
    groupTexPath r.cfg gms (allEq (mems.map (·.1.name))) (mems.map (·.2.1)) = .ok u.tex
  csvs : u.csvs = mems.map (·.2.2)
  pdf : u.pdf = pdfPathOf u.tex
  png : u.png = pngPathOf (pdfPathOf u.tex) "png"
  nodup : u.csvs.Nodup
  distinct : u.Distinct

/-- **Refinement for the group layout.**  When the members and the combined plot resolve to the unit `u`
(`GroupOK`), the pipeline `group_plots → MapGroup(ToCSV, MakeFilename, Write) → MakeFilename → RenderLaTeX → Write →
LaTeXToPDF → PDFToPNG` acts on the world exactly as the bookkeeping `grpCore` on these names; the yielded value
names the combined image and carries the final `output.changed`. -/
theorem runGroup_refines (conv : Conv C) (r : RunSpec) (mems : List (Plot × (OutCtx × String))) (u : FUnit)
    (w : World C) (hr : GroupOK r mems u) :
    ∀ w' oc, grpCore conv r.cfg.w1 r.cfg.w2 r.cfg.lo r.cfg.po u (mems.map fun x => (x.2.2, conv.csvOf x.1.data))
        (conv.texOf r.tpl u.csvs) w = .ok (w', oc) →
      ∃ ov, runSpec conv w r = .ok (w', ov.toList) ∧ (oc = none → ov = none) ∧
        (∀ c, oc = some c → ∃ v, ov = some v ∧ v.data = .path u.png ∧ v.out.changed = some c) := by
  intro w' oc hg
  obtain ⟨hl, hp, hne, ⟨ms, gms, hms, hgms, hmem, hgt⟩, hcsvs, hpdf, hpng, hnd, hd⟩ := hr
  -- the pipeline
  have hpne : mems.map (·.1) ≠ [] := by simpa using hne
  unfold grpCore at hg
  simp only at hg
  obtain ⟨n1, n2, n3, n4⟩ := memberVals_outs (C := C) mems
    (membersCore r.cfg.w1 w (mems.map fun x => (x.2.2, conv.csvOf x.1.data))).2
    (by rw [membersCore_length]; simp)
  have hfields : ∀ x ∈ mems, x.2.1.filetype = some "csv" ∧ x.2.1.filepath = some x.2.2 :=
    fun x hx => memberNamed_fields (hmem x hx)
  -- the group's tex name
  cases hgt' : wmfCore r.cfg.outdir "output"
      (mfCall r.cfg.gmf.overwrite gms (allEq (mems.map (·.1.name)))
        (nm (updateWithGroup { changed := some false } (mems.map (·.2.1)) {}))).1.dirname
      (mfCall r.cfg.gmf.overwrite gms (allEq (mems.map (·.1.name)))
        (nm (updateWithGroup { changed := some false } (mems.map (·.2.1)) {}))).1.filename (some "tex") (some "tex") with
  | error e => simp [groupTexPath, hgt'] at hgt
  | ok rt =>
    obtain ⟨d, fn, fe, pt⟩ := rt
    simp only [groupTexPath, hgt', Except.ok.injEq] at hgt
    subst hgt
    -- unfold the pipeline down to tailStage
    let w1 := (membersCore r.cfg.w1 w (mems.map fun x => (x.2.2, conv.csvOf x.1.data))).1
    let flags := (membersCore r.cfg.w1 w (mems.map fun x => (x.2.2, conv.csvOf x.1.data))).2
    let vs : List (Val C) := memberVals mems flags
    let newOuts := vs.map (·.out)
    let gv : Val C := { data := .many (vs.map dataPath), name := allEq (mems.map (·.1.name)),
                        out := updateWithGroup { changed := some false } newOuts {}, group := some newOuts }
    have hrun : runSpec conv w r = match tailStage conv r.cfg r.tpl w1 (mfVal r.cfg.gmf.overwrite gms gv) with
        | .error e => .error e
        | .ok (w2, ov) => .ok (w2, ov.toList) := by
      unfold runSpec runGroup
      rw [hl]
      simp only [hms, hgms, hp]
      rw [if_neg (by simpa using hne)]
      rw [runMembers_eq conv r.cfg ms mems w hmem]
      simp only
      rw [groupPlotsOut_defaults _ hpne, interOut_defaults _ hpne, List.map_map]
      rfl
    -- hypotheses of tailStage_eq_downCore
    have hnm : newOuts.map nm = (mems.map (·.2.1)).map nm := n1
    have hgvout : nm (mfVal r.cfg.gmf.overwrite gms gv).out
        = (mfCall r.cfg.gmf.overwrite gms (allEq (mems.map (·.1.name)))
            (nm (updateWithGroup { changed := some false } (mems.map (·.2.1)) {}))).1 := by
      show nm (mfCall _ _ _ _).1 = _
      rw [mfCall_nm, updateWithGroup_nm _ _ _ _ hnm]
    have hft : (mfVal r.cfg.gmf.overwrite gms gv).out.filetype = some "csv" := by
      show (mfCall _ _ _ _).1.filetype = _
      rw [mfCall_filetype]
      show (updateWithGroup _ newOuts _).filetype = _
      have hall : allEq (newOuts.map (·.filetype)) = some "csv" := by
        apply allEq_const
        · intro h0
          have : (newOuts.map nm).length = 0 := by rw [List.length_map, List.map_eq_nil_iff.mp h0]; rfl
          rw [hnm] at this
          simp at this
          exact hne this
        · intro x hx
          obtain ⟨o, ho, rfl⟩ := List.mem_map.mp hx
          have : (nm o).filetype = some "csv" := by
            have hmem' : nm o ∈ (mems.map (·.2.1)).map nm := by rw [← hnm]; exact List.mem_map_of_mem ho
            obtain ⟨o', ho', he⟩ := List.mem_map.mp hmem'
            obtain ⟨x', hx', rfl⟩ := List.mem_map.mp ho'
            rw [← he]; exact (hfields x' hx').1
          exact this
      unfold updateWithGroup
      simp only [updOut, diffOut, interOut, hall]
      cases combineChanged (some false) (newOuts.map (·.changed)) <;> rfl
    have hdeps : (match (mfVal r.cfg.gmf.overwrite gms gv).group with
              | none => (mfVal r.cfg.gmf.overwrite gms gv).out.filepath.toList
              | some g => g.filterMap (·.filepath)) = u.csvs := by
      show newOuts.filterMap (·.filepath) = u.csvs
      rw [n3, hcsvs]
      exact filterMap_filepath mems (fun x hx => (hfields x hx).2)
    have hn : wmfCore r.cfg.outdir "output" (mfVal r.cfg.gmf.overwrite gms gv).out.dirname
        (mfVal r.cfg.gmf.overwrite gms gv).out.filename (some "tex") (some "tex") = .ok (d, fn, fe, u.tex) := by
      have e1 : (mfVal r.cfg.gmf.overwrite gms gv).out.dirname = (nm (mfVal r.cfg.gmf.overwrite gms gv).out).dirname := rfl
      have e2 : (mfVal r.cfg.gmf.overwrite gms gv).out.filename = (nm (mfVal r.cfg.gmf.overwrite gms gv).out).filename := rfl
      rw [e1, e2, hgvout]; exact hgt'
    have hchg : (mfVal r.cfg.gmf.overwrite gms gv).out.changed = some (flags.any (· == some true)) := by
      show (mfCall _ _ _ _).1.changed = _
      rw [mfCall_changed]
      show (updateWithGroup _ newOuts _).changed = _
      rw [group_changed_after_mapgroup newOuts {} rfl]
      have : flags = newOuts.map (·.changed) := n2.symm
      rw [this]
      simp only [List.any_map, Function.comp_def]
    obtain ⟨ov, ht, hnone, hv⟩ := tailStage_eq_downCore conv r.cfg r.tpl w1 (mfVal r.cfg.gmf.overwrite gms gv) u.csvs
      d fn fe u.tex hft rfl hdeps hn u rfl hpdf hpng w' oc (by rw [hchg]; exact hg)
    refine ⟨ov, by rw [hrun, ht], ‹_›, ?_⟩
    intro c hc
    obtain ⟨v, hov, hdata, hch, _⟩ := hv c hc
    exact ⟨v, hov, hdata, hch⟩



/-- **`run_fresh_partial` for the group layout.**  `group_plots(plots)` through `MapGroup(ToCSV, MakeFilename,
Write)`, `MakeFilename`, `RenderLaTeX`, `Write`, `LaTeXToPDF`, `PDFToPNG`, any number of members, all option
settings: a run that starts `SourceClosed` yields one value naming the combined image and leaves the members'
CSV files, the combined `.tex` file, the pdf and the image with exactly the content produced from the current
data and template; no other file is touched and the invariant holds again. -/
theorem group_fresh_partial (conv : Conv C) (hok : ConvOK conv) (r : RunSpec) (mems : List (Plot × (OutCtx × String)))
    (u : FUnit) (w : World C) (hr : GroupOK r mems u) (hclk : ClockInv w) (hinv : UnitInv conv u w.fs)
    (hsc : SourceClosed u w.fs) :
    ∃ w' v, runSpec conv w r = .ok (w', [v]) ∧ v.data = .path u.png ∧
      UnitFresh conv u w'.fs (mems.map fun x => effective r.cfg.w1 (w.fs x.2.2) (conv.csvOf x.1.data))
        (effective r.cfg.w2 (w.fs u.tex) (conv.texOf r.tpl u.csvs)) ∧
      (∀ q, q ∉ u.paths → w'.fs q = w.fs q) ∧ ClockInv w' ∧ UnitInv conv u w'.fs := by
  obtain ⟨hl, hp, hne, ⟨ms, gms, hms, hgms, hmem, hgt⟩, hcsvs, hpdf, hpng, hnd, hd⟩ := hr
  -- bookkeeping level
  have hu' : u.csvs = (mems.map fun x => (x.2.2, conv.csvOf x.1.data)).map (·.1) := by
    rw [hcsvs, List.map_map]; rfl
  obtain ⟨w', c, hg, hfresh, hframe, hck, _, hinv'⟩ :=
    grpCore_fresh conv r.cfg.w1 r.cfg.w2 r.cfg.lo r.cfg.po u (mems.map fun x => (x.2.2, conv.csvOf x.1.data))
      (conv.texOf r.tpl u.csvs) w hu' hnd hd hclk hinv hsc (hok _ _)
  rw [List.map_map] at hfresh
  obtain ⟨ov, hrun, _, hv⟩ := runGroup_refines conv r mems u w
    ⟨hl, hp, hne, ⟨ms, gms, hms, hgms, hmem, hgt⟩, hcsvs, hpdf, hpng, hnd, hd⟩ w' (some c) hg
  obtain ⟨v, hov, hdata, _⟩ := hv c rfl
  subst hov
  exact ⟨w', v, hrun, hdata, hfresh, hframe, hck, hinv'⟩

/-! ### the group layout: nothing unchanged is redone; the extent of the finding -/

/-- a member is *quiet* for the first `Write`: its CSV file is missing (it will be created, `output.changed` stays
unset) or it is on disk and will be kept (same content, or `existing_unchanged`) — the `Write` does not say
"changed" -/
def MemberQuiet (m1 : WMode) (fs : FS C) (pc : String × C) : Prop :=
  fs pc.1 = none ∨ ∃ f, fs pc.1 = some f ∧ m1 ≠ .overwrite ∧ (m1 = .existingUnchanged ∨ f.content = pc.2)

theorem membersCore_quiet (m1 : WMode) :
    ∀ (members : List (String × C)) (w : World C), (members.map (·.1)).Nodup →
      (∀ pc ∈ members, MemberQuiet m1 w.fs pc) →
      (∀ q, q ∉ members.map (·.1) → (membersCore m1 w members).1.fs q = w.fs q) ∧
      (∀ x ∈ (membersCore m1 w members).2, x ≠ some true) := by
  intro members
  induction members with
  | nil => intro w _ _; exact ⟨fun _ _ => rfl, fun _ h => by cases h⟩
  | cons pc rest ih =>
    intro w hnd hq
    obtain ⟨p, c⟩ := pc
    simp only [List.map_cons, List.nodup_cons] at hnd
    obtain ⟨hp, hnd'⟩ := hnd
    have hfr1 : ∀ q, q ≠ p → (writeCore m1 p c w none).1.fs q = w.fs q := fun q h => writeCore_frame m1 p c w none h
    have hq' : ∀ pc' ∈ rest, MemberQuiet m1 (writeCore m1 p c w none).1.fs pc' := by
      intro pc' hpc'
      have hne : pc'.1 ≠ p := fun h => hp (h ▸ List.mem_map_of_mem hpc')
      unfold MemberQuiet
      rw [hfr1 _ hne]
      exact hq pc' (by simp [hpc'])
    obtain ⟨i1, i2⟩ := ih (writeCore m1 p c w none).1 hnd' hq'
    have hflag : (writeCore m1 p c w none).2 ≠ some true := by
      rcases hq (p, c) (by simp) with h | ⟨f, hf, hm, hc⟩
      · rw [writeCore_created_leaves_changed m1 p c w none h]; simp
      · rw [writeCore_noop m1 p c w none f hf hm hc]; simp
    simp only [membersCore, List.map_cons]
    refine ⟨?_, ?_⟩
    · intro q hq2
      simp only [List.mem_cons, not_or] at hq2
      rw [i1 q hq2.2, hfr1 q hq2.1]
    · intro x hx
      simp only [List.mem_cons] at hx
      rcases hx with rfl | hx
      · exact hflag
      · exact i2 x hx

/-- **The finding for a group, in general.**  Whenever no member of the group makes its `Write` say "changed" —
every member CSV file is either missing (re-created: the flag stays unset) or kept — and the combined `.tex` file
is missing or kept, and the combined pdf exists and `LaTeXToPDF` is not told to overwrite: the pdf is *left exactly
as it was*, whatever the members' data and the template are.  (`group_plots` starts the group with
`output.changed = False`, so for a group even *all* sources missing does not help.)  Together with
`stale_when_csv_missing` / `stale_when_tex_missing` this is the exact class of runs the check files under the known
finding. -/
theorem grp_stale_when_nothing_rewritten (conv : Conv C) (m1 m2 : WMode) (po : Bool) (u : FUnit)
    (members : List (String × C)) (ntex : C) (w : World C) (pf : File C)
    (hu : u.csvs = members.map (·.1)) (hnd : u.csvs.Nodup) (hd : u.Distinct)
    (hmem : ∀ pc ∈ members, MemberQuiet m1 w.fs pc)
    (htex : w.fs u.tex = none ∨ ∃ ft, w.fs u.tex = some ft ∧ m2 ≠ .overwrite ∧ (m2 = .existingUnchanged ∨ ft.content = ntex))
    (hp : w.fs u.pdf = some pf) :
    ∃ w' c, grpCore conv m1 m2 false po u members ntex w = .ok (w', some c) ∧ w'.fs u.pdf = some pf := by
  obtain ⟨htc, hpc, hgc, htp, htg, hpg⟩ := hd
  obtain ⟨hfr, hflags⟩ := membersCore_quiet m1 members w (hu ▸ hnd) hmem
  rw [← hu] at hfr
  have hany : (membersCore m1 w members).2.any (· == some true) = false := by
    rw [List.any_eq_false]; intro x hx hxe; simp at hxe; exact hflags x hx hxe
  have ht1 : (membersCore m1 w members).1.fs u.tex = w.fs u.tex := hfr _ htc
  have hp1 : (membersCore m1 w members).1.fs u.pdf = some pf := by rw [hfr _ hpc]; exact hp
  unfold grpCore downCore
  simp only [hany]
  -- the second Write does not say "changed" either
  have hw2 : ∃ w2, writeCore m2 u.tex ntex (membersCore m1 w members).1 (some false) = (w2, some false) ∧ w2.fs u.pdf = some pf := by
    rcases htex with h | ⟨ft, hft, hm, hc⟩
    · refine ⟨_, by unfold writeCore; rw [ht1, h], ?_⟩
      rw [put_fs_ne _ _ _ (Ne.symm htp)]; exact hp1
    · exact ⟨_, writeCore_noop m2 u.tex ntex _ (some false) ft (by rw [ht1]; exact hft) hm hc, hp1⟩
  obtain ⟨w2, hw2e, hp2⟩ := hw2
  rw [hw2e]
  unfold convCore
  rw [latexCore_skip conv u.tex u.pdf w2 (by rw [hp2]; rfl)]
  simp only
  refine ⟨_, _, rfl, ?_⟩
  unfold pngCore
  split
  · simp only [hp2]; rw [put_fs_ne _ _ _ hpg]; exact hp2
  · exact hp2

theorem membersCore_noop (m1 : WMode) (hm1 : m1 ≠ .overwrite) :
    ∀ (members : List (String × C)) (w : World C),
      (∀ pc ∈ members, ∃ f, w.fs pc.1 = some f ∧ (m1 = .existingUnchanged ∨ f.content = pc.2)) →
      membersCore m1 w members = (w, members.map fun _ => some false) := by
  intro members
  induction members with
  | nil => intro w _; rfl
  | cons pc rest ih =>
    intro w h
    obtain ⟨p, c⟩ := pc
    obtain ⟨f, hf, hc⟩ := h (p, c) (by simp)
    simp only [membersCore, List.map_cons]
    rw [writeCore_noop m1 p c w none f hf hm1 hc]
    simp only [Option.getD_none]
    rw [ih w (fun pc' hpc' => h pc' (by simp [hpc']))]

/-- the files of a group are *settled* for the inputs of a run (cf. `Settled`) -/
def GroupSettled (conv : Conv C) (r : RunSpec) (mems : List (Plot × (OutCtx × String))) (u : FUnit) (fs : FS C) : Prop :=
  (∀ x ∈ mems, ∃ f, fs x.2.2 = some f ∧ (r.cfg.w1 = .existingUnchanged ∨ f.content = conv.csvOf x.1.data)) ∧
  (∃ f, fs u.tex = some f ∧ (r.cfg.w2 = .existingUnchanged ∨ f.content = conv.texOf r.tpl u.csvs)) ∧
  (fs u.pdf).isSome ∧ (fs u.png).isSome

/-- **nothing unchanged is redone, group layout**: a settled group is left alone — the world is *identical* after
the run (no file written, no converter launched) and the yielded value says `output.changed = False` -/
theorem group_settled_run_is_noop (conv : Conv C) (r : RunSpec) (mems : List (Plot × (OutCtx × String))) (u : FUnit)
    (w : World C) (hr : GroupOK r mems u) (hset : GroupSettled conv r mems u w.fs)
    (hm1 : r.cfg.w1 ≠ .overwrite) (hm2 : r.cfg.w2 ≠ .overwrite) (hlo : r.cfg.lo = false) (hpo : r.cfg.po = false) :
    ∃ v, runSpec conv w r = .ok (w, [v]) ∧ v.data = .path u.png ∧ v.out.changed = some false := by
  obtain ⟨hm, ⟨ft, hft, htc⟩, hp, hg⟩ := hset
  have hcore : grpCore conv r.cfg.w1 r.cfg.w2 r.cfg.lo r.cfg.po u (mems.map fun x => (x.2.2, conv.csvOf x.1.data))
      (conv.texOf r.tpl u.csvs) w = .ok (w, some false) := by
    unfold grpCore downCore
    rw [membersCore_noop r.cfg.w1 hm1 _ w (by
      intro pc hpc
      obtain ⟨x, hx, rfl⟩ := List.mem_map.mp hpc
      exact hm x hx)]
    have hany : ((mems.map fun x => (x.2.2, conv.csvOf x.1.data)).map fun _ => (some false : Option Bool)).any (· == some true) = false := by
      rw [List.any_eq_false]; intro x hx; simp at hx; obtain ⟨_, _, rfl⟩ := hx; simp
    simp only [hany]
    rw [writeCore_noop r.cfg.w2 u.tex _ w (some false) ft hft hm2 htc]
    simp only [Option.getD_some, hlo, hpo]
    unfold convCore
    rw [latexCore_skip conv u.tex u.pdf w hp]
    simp only
    rw [pngCore_skip conv u.pdf u.png w hg]
  obtain ⟨ov, hrun, _, hv⟩ := runGroup_refines conv r mems u w hr w (some false) hcore
  obtain ⟨v, hov, hdata, hch⟩ := hv false rfl
  subst hov
  exact ⟨v, hrun, hdata, hch⟩

/-- **`idle_run_is_noop` for the group layout**: after a run that started `SourceClosed`, running the same
pipeline again on the same inputs (no `overwrite` option) leaves the world identical -/
theorem group_idle_run_is_noop (conv : Conv C) (hok : ConvOK conv) (r : RunSpec) (mems : List (Plot × (OutCtx × String)))
    (u : FUnit) (w : World C) (hr : GroupOK r mems u) (hclk : ClockInv w) (hinv : UnitInv conv u w.fs)
    (hsc : SourceClosed u w.fs)
    (hm1 : r.cfg.w1 ≠ .overwrite) (hm2 : r.cfg.w2 ≠ .overwrite) (hlo : r.cfg.lo = false) (hpo : r.cfg.po = false) :
    ∃ w' v v', runSpec conv w r = .ok (w', [v]) ∧ runSpec conv w' r = .ok (w', [v']) ∧ v'.out.changed = some false := by
  obtain ⟨w', v, hrun, _, hfresh, _, _, _⟩ := group_fresh_partial conv hok r mems u w hr hclk hinv hsc
  obtain ⟨hc, ⟨tf, htf, htc⟩, ⟨pf, hpf, _⟩, ⟨gf, hgf, _⟩⟩ := hfresh
  have hcs := hr.csvs
  have hset : GroupSettled conv r mems u w'.fs := by
    refine ⟨?_, ⟨tf, htf, effective_settled _ _ _ tf hm2 htc⟩, by simp [hpf], by simp [hgf]⟩
    -- member by member from the list equation of `UnitFresh`
    rw [hcs] at hc
    simp only [depContents, List.map_map] at hc
    intro x hx
    have := List.map_inj_left.mp hc x hx
    simp only [Function.comp] at this
    cases hcf : w'.fs x.2.2 with
    | none => rw [hcf] at this; cases this
    | some cf =>
      rw [hcf] at this
      simp only [Option.map_some, Option.some.injEq] at this
      exact ⟨cf, rfl, effective_settled _ _ _ cf hm1 this⟩
  obtain ⟨v', hrun', _, hch⟩ := group_settled_run_is_noop conv r mems u w' hr hset hm1 hm2 hlo hpo
  exact ⟨w', v, v', hrun, hrun', hch⟩

/-- along the history every run is a run of the group `u` (any members' data, template, options) that starts
`SourceClosed` -/
def GroupSourceClosedHist (conv : Conv C) (u : FUnit) : World C → List HStep → Prop
  | _, [] => True
  | w, .del ps :: rest => GroupSourceClosedHist conv u (step conv w (.del ps)) rest
  | w, .run r :: rest =>
    (∃ mems, GroupOK r mems u) ∧ SourceClosed u w.fs ∧ GroupSourceClosedHist conv u (step conv w (.run r)) rest

/-- after every run of the history the files of the group are fresh -/
def GroupFreshHist (conv : Conv C) (u : FUnit) : World C → List HStep → Prop
  | _, [] => True
  | w, .del ps :: rest => GroupFreshHist conv u (step conv w (.del ps)) rest
  | w, .run r :: rest =>
    (∃ mems v, GroupOK r mems u ∧ runSpec conv w r = .ok (step conv w (.run r), [v]) ∧ v.data = .path u.png ∧
      UnitFresh conv u (step conv w (.run r)).fs
        (mems.map fun x => effective r.cfg.w1 (w.fs x.2.2) (conv.csvOf x.1.data))
        (effective r.cfg.w2 (w.fs u.tex) (conv.texOf r.tpl u.csvs))) ∧
    GroupFreshHist conv u (step conv w (.run r)) rest

/-- **`history_fresh_partial` for the group layout**: all histories of runs of a group (changing data of any
members, templates, option settings) and removals of arbitrary files in which no run starts with a source file
missing while the combined pdf exists. -/
theorem group_history_fresh_partial (conv : Conv C) (hok : ConvOK conv) (u : FUnit) :
    ∀ (h : List HStep) (w : World C), ClockInv w → UnitInv conv u w.fs → GroupSourceClosedHist conv u w h →
      GroupFreshHist conv u w h := by
  intro h
  induction h with
  | nil => intro _ _ _ _; trivial
  | cons s rest ih =>
    intro w hclk hinv hsc
    cases s with
    | del ps => exact ih _ (hclk.del ps) (hinv.del ps) hsc
    | run r =>
      obtain ⟨⟨mems, hr⟩, hscw, hrest⟩ := hsc
      obtain ⟨w', v, hrun, hdata, hfresh, _, hck, hinv'⟩ := group_fresh_partial conv hok r mems u w hr hclk hinv hscw
      have hstep : step conv w (.run r) = w' := by simp only [step, hrun]
      refine ⟨⟨mems, v, hr, by rw [hstep]; exact hrun, hdata, by rw [hstep]; exact hfresh⟩, ?_⟩
      rw [hstep] at hrest ⊢
      exact ih w' hck hinv' hrest

/-! ## one pipeline object used for several runs: runs do not depend on earlier runs

The only state an element carries from one run to the next is the template cache of `RenderLaTeX`
(`Model/C19.lean`, section "One pipeline object used for several runs").  It is harmless as long as an edit of the
template file changes the file's modification time. -/

/-- the cache is coherent with the template file: a cached template is not newer than the file, and if it carries
the file's current modification time it is the file's content -/
def CacheOK (st : PipeState) (f : TplFile) : Prop :=
  ∀ t m, st.cache = some (t, m) → m ≤ f.mtime ∧ (m = f.mtime → t = f.tpl)

theorem CacheOK.fresh (f : TplFile) : CacheOK {} f := by
  intro t m h; cases h

/-- `get_template` returns the template that is on disk now, whatever was rendered before -/
theorem getTemplate_current (st : PipeState) (f : TplFile) (h : CacheOK st f) :
    (getTemplate st f).1 = f.tpl ∧ CacheOK (getTemplate st f).2 f := by
  unfold getTemplate
  cases hc : st.cache with
  | none =>
    refine ⟨rfl, ?_⟩
    intro t m hh; simp only [Option.some.injEq, Prod.mk.injEq] at hh
    obtain ⟨rfl, rfl⟩ := hh; exact ⟨Nat.le_refl _, fun _ => rfl⟩
  | some tm =>
    obtain ⟨t, m⟩ := tm
    by_cases hm : m = f.mtime
    · simp only [hm, if_true]
      exact ⟨(h t m hc).2 hm, h⟩
    · simp only [hm, if_false]
      refine ⟨by first | rfl | trivial, ?_⟩
      intro t' m' hh; simp only [Option.some.injEq, Prod.mk.injEq] at hh
      obtain ⟨rfl, rfl⟩ := hh; exact ⟨Nat.le_refl _, fun _ => rfl⟩

/-- an edit of the template file (the modification time moves on) keeps the cache coherent: the cached
template is simply out of date -/
theorem CacheOK.edit {st : PipeState} {f : TplFile} (h : CacheOK st f) (t' : Nat) : CacheOK st ⟨t', f.mtime + 1⟩ := by
  intro t m hc
  have := (h t m hc).1
  exact ⟨by simp; omega, fun hm => by simp at hm; omega⟩

/-- **`run_independent_of_previous_runs`.**  A run of a pipeline object that was used before (any state `st`
coherent with the template file — in particular any state reached by earlier runs and template edits) does to
the file system, and yields, exactly what a run of a newly built pipeline does with the template that is on disk
now; and the state stays coherent. -/
theorem run_independent_of_previous_runs (conv : Conv C) (st : PipeState) (w : World C) (r : RunSpec) (f : TplFile)
    (h : CacheOK st f) :
    (match runObject conv st w r f with
     | .error e => Except.error e
     | .ok (w', vs, _) => Except.ok (w', vs)) = runSpec conv w { r with tpl := f.tpl } ∧
    (∀ w' vs st', runObject conv st w r f = .ok (w', vs, st') → CacheOK st' f) := by
  obtain ⟨h1, h2⟩ := getTemplate_current st f h
  unfold runObject
  simp only [h1]
  cases hr : runSpec conv w { r with tpl := f.tpl } with
  | error e => exact ⟨rfl, fun _ _ _ hh => by cases hh⟩
  | ok x =>
    obtain ⟨w', vs⟩ := x
    refine ⟨rfl, ?_⟩
    intro w'' vs' st' hh
    simp only [Except.ok.injEq, Prod.mk.injEq] at hh
    obtain ⟨_, _, rfl⟩ := hh
    split
    · exact h
    · exact h2

/-- **whole histories**: one pipeline object used for every run of a history of runs, removals of files and
edits of the template leaves the same world as building a new pipeline for every run.  Hence every theorem about
`exec` / `step` (`history_fresh_partial`, …) holds for re-used objects too. -/
theorem object_history_eq_fresh (conv : Conv C) :
    ∀ (h : List OStep) (s : OState C), CacheOK s.st s.f →
      (oexec conv s h).w = exec conv s.w (freshHistory s.f.tpl h) := by
  intro h
  induction h with
  | nil => intro s _; rfl
  | cons x rest ih =>
    intro s hs
    cases x with
    | edit t =>
      have := ih { s with f := ⟨t, s.f.mtime + 1⟩ } (hs.edit t)
      simpa [oexec, ostep, freshHistory] using this
    | del ps =>
      have := ih { s with w := step conv s.w (.del ps) } hs
      simpa [oexec, ostep, freshHistory, Lena.C19.exec] using this
    | run r =>
      obtain ⟨h1, h2⟩ := run_independent_of_previous_runs conv s.st s.w r s.f hs
      cases hr : runObject conv s.st s.w r s.f with
      | error e =>
        rw [hr] at h1
        have hstep : step conv s.w (.run { r with tpl := s.f.tpl }) = s.w := by simp only [step, ← h1]
        have := ih s hs
        simp only [oexec, List.foldl_cons, ostep, hr, freshHistory, Lena.C19.exec, hstep] at this ⊢
        exact this
      | ok x =>
        obtain ⟨w', vs, st'⟩ := x
        rw [hr] at h1
        have hstep : step conv s.w (.run { r with tpl := s.f.tpl }) = w' := by simp only [step, ← h1]
        have := ih { s with w := w', st := st' } (h2 w' vs st' hr)
        simp only [oexec, List.foldl_cons, ostep, hr, freshHistory, Lena.C19.exec, hstep] at this ⊢
        exact this

/-- what the hypothesis excludes: if the template file is replaced *without* a change of its modification time,
`RenderLaTeX` keeps rendering the cached template (jinja2 compares modification times only) -/
example : (getTemplate { cache := some (1, 5) } ⟨2, 5⟩).1 = 1 := by decide

/-! ## the pool of `LaTeXToPDF`: a value is yielded for a launched conversion iff its return code is 0 -/

theorem popReturned_perm (pool : List (PoolEntry C)) :
    ((popReturned pool).2 ++ ((popReturned pool).1.filter (·.ok)).map (·.val)).Perm ((pool.filter (·.ok)).map (·.val)) := by
  induction pool with
  | nil => exact List.Perm.refl _
  | cons e rest ih =>
    simp only [popReturned]
    by_cases hf : e.fin = 0
    · simp only [hf, if_true]
      by_cases ho : e.ok = true
      · simp only [ho, if_true, List.filter_cons_of_pos, List.map_cons, List.cons_append]
        exact List.Perm.cons _ ih
      · have ho' : e.ok = false := by cases h : e.ok <;> simp_all
        simp only [ho', List.filter_cons, Bool.false_eq_true, if_false]
        exact ih
    · simp only [hf, if_false]
      by_cases ho : e.ok = true
      · simp only [List.filter_cons, ho, if_true, List.map_cons]
        exact (List.perm_middle).trans (List.Perm.cons _ ih)
      · have ho' : e.ok = false := by cases h : e.ok <;> simp_all
        simp only [List.filter_cons, ho', Bool.false_eq_true, if_false]
        exact ih

/-- **`latexRun_yields_iff_ok`.**  For every flow of values, every pool left from before, every schedule of return
codes and termination times, every `verbose` and `overwrite`: `LaTeXToPDF.run` with its pool ends in the same
world as dealing with every value completely before the next one, and yields — up to the order — exactly the
values of the pool whose command succeeded, the values it skipped as unchanged, and the launched values whose
command returned 0.  In particular neither the verbosity nor the moment a command terminates decides whether a
value is yielded, and a failed conversion is never named by a yielded value. -/
theorem latexRun_yields_iff_ok (conv : Conv C) (overwrite : Bool) (verbose : Nat) :
    ∀ (flow : List (Val C × Sched)) (w : World C) (pool : List (PoolEntry C)),
      match latexRun conv overwrite verbose w pool flow, latexRunSeq conv overwrite w flow with
      | .ok (w1, vs), .ok (w2, vs') => w1 = w2 ∧ vs.Perm ((pool.filter (·.ok)).map (·.val) ++ vs')
      | .error e, .error e' => e = e'
      | _, _ => False := by
  intro flow
  induction flow with
  | nil => intro w pool; simp [latexRun, latexRunSeq]
  | cons x rest ih =>
    intro w pool
    obtain ⟨v, sc⟩ := x
    simp only [latexRun, latexRunSeq]
    cases hh : latexHandle conv overwrite w v sc with
    | error e => simp
    | ok r =>
      obtain ⟨w', launched, now⟩ := r
      simp only
      have := ih w' ((popReturned pool).1 ++ launched)
      cases h1 : latexRun conv overwrite verbose w' ((popReturned pool).1 ++ launched) rest with
      | error e =>
        cases h2 : latexRunSeq conv overwrite w' rest with
        | error e' => rw [h1, h2] at this; simpa using this
        | ok r2 => rw [h1, h2] at this; exact this.elim
      | ok r1 =>
        obtain ⟨w1, vs⟩ := r1
        cases h2 : latexRunSeq conv overwrite w' rest with
        | error e' => rw [h1, h2] at this; exact this.elim
        | ok r2 =>
          obtain ⟨w2, vs'⟩ := r2
          rw [h1, h2] at this
          obtain ⟨hw, hp⟩ := this
          refine ⟨hw, ?_⟩
          simp only [List.filter_append, List.map_append] at hp
          -- vs ~ stay ++ L ++ vs';  goal: pop ++ now ++ vs ~ poolOk ++ (now ++ L ++ vs')
          have hpop := popReturned_perm pool
          generalize (popReturned pool).2 = P at *
          generalize ((popReturned pool).1.filter (·.ok)).map (·.val) = S at *
          generalize ((pool.filter (·.ok)).map (·.val)) = Q at *
          generalize (launched.filter (·.ok)).map (·.val) = L at *
          have e1 : (P ++ now ++ vs).Perm (P ++ now ++ (S ++ L ++ vs')) := List.Perm.append_left _ hp
          have e2 : (P ++ now ++ (S ++ L ++ vs')).Perm ((P ++ S) ++ (now ++ L ++ vs')) := by
            simp only [List.append_assoc]
            apply List.Perm.append_left
            rw [← List.append_assoc now S, ← List.append_assoc S now]
            exact List.Perm.append_right _ List.perm_append_comm
          exact e1.trans (e2.trans (List.Perm.append_right _ hpop))

/-! ## the executable specification side (`Model/C19Spec.lean`) -/

/-- the Boolean `SourceClosed` that the driver evaluates on every run is the hypothesis of the theorems -/
theorem sourceClosedB_iff (u : FUnit) (fs : FS C) : sourceClosedB u fs = true ↔ SourceClosed u fs := by
  unfold sourceClosedB SourceClosed
  cases hp : (fs u.pdf).isSome <;> simp [List.all_eq_true]

theorem hasContentB_iff (fs : FS C) (p : String) (c : C) : hasContentB fs p c = true ↔ HasContent fs p c := by
  unfold hasContentB HasContent
  cases h : fs p with
  | none => simp
  | some f => simp

/-- the Boolean `UnitFresh` that the driver evaluates after every run is the conclusion of the theorems -/
theorem unitFreshB_iff (conv : Conv C) (u : FUnit) (fs : FS C) (ecsvs : List C) (etex : C) :
    unitFreshB conv u fs ecsvs etex = true ↔ UnitFresh conv u fs ecsvs etex := by
  unfold unitFreshB UnitFresh
  simp only [Bool.and_eq_true, decide_eq_true_eq, hasContentB_iff, and_assoc]

/-- **the specification side refines to the pipeline** (separate layout, any number of plots): whenever the names
resolve and the bookkeeping `specSeparate` ends in world `w'`, the element-by-element pipeline ends in the same
world -/
theorem specSeparate_refines (conv : Conv C) (cfg : Cfg) (ms : List (MFKey × Tpl)) (tpl : Nat) :
    ∀ (pls : List Plot) (w w' : World C), specSeparate conv cfg ms tpl w pls = .ok w' →
      ∃ vs, runPlots conv cfg ms tpl w pls = .ok (w', vs) := by
  intro pls
  induction pls with
  | nil => intro w w' h; simp only [specSeparate, Except.ok.injEq] at h; subst h; exact ⟨[], rfl⟩
  | cons pl rest ih =>
    intro w w' h
    unfold specSeparate at h
    cases hu : plotUnit cfg ms pl with
    | error e => simp [hu] at h
    | ok up =>
      obtain ⟨u, pc⟩ := up
      simp only [hu] at h
      cases hs : sepCore conv cfg.w1 cfg.w2 cfg.lo cfg.po u pc (conv.csvOf pl.data) (conv.texOf tpl [pc]) w with
      | error e => simp [hs] at h
      | ok x =>
        obtain ⟨w1, oc⟩ := x
        simp only [hs] at h
        obtain ⟨ov, hr, _, _⟩ := runPlot_eq_sepCore conv cfg ms tpl w pl u pc hu w1 oc hs
        obtain ⟨vs, hrs⟩ := ih w1 w' h
        exact ⟨ov.toList ++ vs, by unfold runPlots; rw [hr]; simp only; rw [hrs]⟩

theorem specRun_refines (conv : Conv C) (w w' : World C) (r : RunSpec) (hl : r.layout = .separate)
    (h : specRun conv w r = .ok w') : ∃ vs, runSpec conv w r = .ok (w', vs) := by
  unfold specRun at h
  unfold runSpec runSeparate
  rw [hl] at h ⊢
  cases hm : mfInit r.cfg.mf with
  | error e => simp [hm] at h
  | ok ms =>
    cases hg : mfInit r.cfg.gmf with
    | error e => simp [hm, hg] at h
    | ok gms =>
      simp only [hm, hg] at h ⊢
      exact specSeparate_refines conv r.cfg ms r.tpl r.plots w w' h

/-! ## the hypotheses are satisfiable: concrete non-trivial instances -/

section Examples

/-- the world after a first run of the standard pipeline (all four files of `p0` exist) -/
def Witness.after1 : World Content := exec stubConv World.init [.run (Witness.run 1)]

theorem Witness.after1_inv : WInv stubConv [(Witness.unit, "out/p0.csv")] Witness.after1 :=
  WInv.exec stubConv_ok _ _
    ⟨fun p f hp => by simp [World.init, FS.empty] at hp, fun up _ => UnitInv.empty _ _⟩
    ⟨⟨_, witness_runOK 1, rfl⟩, fun up _ h => by simp [World.init, FS.empty] at h, trivial⟩

theorem Witness.after1_closed : SourceClosed Witness.unit Witness.after1.fs := by
  unfold SourceClosed; decide +kernel

/-- `run_fresh_partial` on a non-trivial state: all files of the plot exist, the data changes from 1 to 2; the
theorem's hypotheses hold and it yields that the pdf is rendered from data 2 -/
example : ∃ w' vs, runSpec stubConv Witness.after1 (Witness.run 2) = .ok (w', vs) ∧
    HasContent w'.fs "out/p0.pdf" (.pdf (.tex 1 ["out/p0.csv"]) (.cons (.csv 2) .nil)) := by
  obtain ⟨w', vs, hr, _, hf, _⟩ := run_fresh_partial stubConv stubConv_ok (Witness.run 2) _ Witness.after1
    (witness_runOK 2) Witness.after1_inv
    (fun up hup => by simp only [List.map_cons, List.map_nil, List.mem_singleton] at hup; subst hup; exact Witness.after1_closed)
  obtain ⟨_, _, hpdf, _⟩ := hf _ (List.mem_singleton.mpr rfl)
  refine ⟨w', vs, hr, ?_⟩
  simpa [effective_normal, Witness.run, Witness.cfg, Witness.unit, stubConv, Content.ofList] using hpdf

/-- `history_fresh_partial` on a history with deletions that keep `SourceClosed`: run, remove the CSV file
*together with* the pdf (and the image), run with other data -/
example : FreshHist stubConv (World.init : World Content)
    [.run (Witness.run 1), .del ["out/p0.csv", "out/p0.pdf", "out/p0.png"], .run (Witness.run 2)] :=
  history_fresh_partial stubConv stubConv_ok [(Witness.unit, "out/p0.csv")] _ _
    ⟨fun p f hp => by simp [World.init, FS.empty] at hp, fun up _ => UnitInv.empty _ _⟩
    ⟨⟨_, witness_runOK 1, rfl⟩, fun up _ h => by simp [World.init, FS.empty] at h,
     ⟨_, witness_runOK 2, rfl⟩,
     fun up hup => by
       simp only [List.mem_singleton] at hup; subst hup
       unfold SourceClosed; decide +kernel,
     trivial⟩

/-- `idle_run_is_noop` on the same state: the second identical run changes nothing -/
example : ∃ w' vs vs', runSpec stubConv Witness.after1 (Witness.run 2) = .ok (w', vs) ∧
    runSpec stubConv w' (Witness.run 2) = .ok (w', vs') :=
  let ⟨w', vs, vs', h1, h2, _⟩ := idle_run_is_noop stubConv stubConv_ok (Witness.run 2) _ Witness.after1
    (witness_runOK 2) Witness.after1_inv
    (fun up hup => by simp only [List.map_cons, List.map_nil, List.mem_singleton] at hup; subst hup; exact Witness.after1_closed)
    (by decide) (by decide) rfl rfl
  ⟨w', vs, vs', h1, h2⟩

/-- a group of two plots: the names resolve (`GroupOK`), so `group_fresh_partial` applies to the empty world -/
def Witness.grun : RunSpec :=
  { cfg := Witness.cfg, layout := .group, tpl := 1, plots := [⟨some "p0", 1⟩, ⟨some "p1", 2⟩] }

def Witness.gunit : FUnit :=
  ⟨["out/p0.csv", "out/p1.csv"], "out/combined.tex", "out/combined.pdf", "out/combined.png"⟩

def Witness.gmems : List (Plot × (OutCtx × String)) :=
  [(⟨some "p0", 1⟩, ({ filename := some "p0", fileext := some "csv", filetype := some "csv",
                       filepath := some "out/p0.csv" }, "out/p0.csv")),
   (⟨some "p1", 2⟩, ({ filename := some "p1", fileext := some "csv", filetype := some "csv",
                       filepath := some "out/p1.csv" }, "out/p1.csv"))]

theorem Witness.groupOK : GroupOK Witness.grun Witness.gmems Witness.gunit where
  layout := rfl
  plots := rfl
  nonempty := by simp [Witness.gmems]
  resolves := ⟨Witness.ms, [(.filename, [.lit "combined"])], witness_mfInit, by decide +kernel, by
    intro x hx
    simp only [Witness.gmems, List.mem_cons, List.mem_singleton, List.not_mem_nil, or_false] at hx
    rcases hx with rfl | rfl <;> decide +kernel, by decide +kernel⟩
  csvs := rfl
  pdf := by decide +kernel
  png := by decide +kernel
  nodup := by decide +kernel
  distinct := by unfold FUnit.Distinct Witness.gunit; decide +kernel

example : ∃ w' v, runSpec stubConv (World.init : World Content) Witness.grun = .ok (w', [v]) ∧
    v.data = .path "out/combined.png" ∧
    HasContent w'.fs "out/combined.pdf"
      (.pdf (.tex 1 ["out/p0.csv", "out/p1.csv"]) (.cons (.csv 1) (.cons (.csv 2) .nil))) := by
  obtain ⟨w', v, hr, hd, hf, _⟩ := group_fresh_partial stubConv stubConv_ok Witness.grun Witness.gmems Witness.gunit
    World.init Witness.groupOK (fun p f hp => by simp [World.init, FS.empty] at hp) (UnitInv.empty _ _)
    (fun h => by simp [World.init, FS.empty] at h)
  obtain ⟨_, _, hpdf, _⟩ := hf
  refine ⟨w', v, hr, hd, ?_⟩
  simpa [effective_normal, Witness.grun, Witness.cfg, Witness.gmems, Witness.gunit, stubConv, Content.ofList,
    World.init, FS.empty, effective] using hpdf

/-- `group_idle_run_is_noop` on the resolved group of two plots: the second identical run changes nothing -/
example : ∃ w' v v', runSpec stubConv (World.init : World Content) Witness.grun = .ok (w', [v]) ∧
    runSpec stubConv w' Witness.grun = .ok (w', [v']) ∧ v'.out.changed = some false :=
  group_idle_run_is_noop stubConv stubConv_ok Witness.grun Witness.gmems Witness.gunit World.init Witness.groupOK
    (fun p f hp => by simp [World.init, FS.empty] at hp) (UnitInv.empty _ _)
    (fun h => by simp [World.init, FS.empty] at h) (by decide) (by decide) rfl rfl

end Examples

end Lena.C19
