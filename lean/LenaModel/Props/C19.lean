import LenaModel.Model.C19
namespace Lena.C19
set_option linter.unusedSectionVars false
set_option linter.unusedSimpArgs false
-- file names are opaque in the proofs (only equality of names matters)
attribute [local irreducible] pdfPathOf pngPathOf
variable {C : Type} [DecidableEq C]

@[simp] theorem FS.set_eq (fs : FS C) (p : String) (f : File C) : (fs.set p f) p = some f := by simp [FS.set]
theorem FS.set_ne (fs : FS C) {p q : String} (f : File C) (h : q ≠ p) : (fs.set p f) q = fs q := by simp [FS.set, h]

@[simp] theorem put_fs_eq (w : World C) (p : String) (c : C) (e : Event) : (w.put p c e).fs p = some ⟨c, w.clock⟩ := by
  simp [World.put]
theorem put_fs_ne (w : World C) {p q : String} (c : C) (e : Event) (h : q ≠ p) : (w.put p c e).fs q = w.fs q := by
  simp [World.put, FS.set, h]
@[simp] theorem put_clock (w : World C) (p : String) (c : C) (e : Event) : (w.put p c e).clock = w.clock + 1 := rfl
@[simp] theorem note_fs (w : World C) (e : Event) : (w.note e).fs = w.fs := rfl
@[simp] theorem note_clock (w : World C) (e : Event) : (w.note e).clock = w.clock := rfl

/-- every file is older than the clock -/
def ClockInv (w : World C) : Prop := ∀ p f, w.fs p = some f → f.mtime < w.clock

theorem ClockInv.put {w : World C} (h : ClockInv w) (p : String) (c : C) (e : Event) : ClockInv (w.put p c e) := by
  intro q f hq
  by_cases hqp : q = p
  · subst hqp; simp at hq; subst hq; simp
  · rw [put_fs_ne _ _ _ hqp] at hq; have := h q f hq; simp; omega

/-- what a `Write` leaves in the file: the new text, except that `existing_unchanged` keeps an existing file -/
def effective (mode : WMode) (old : Option (File C)) (new : C) : C :=
  match mode, old with
  | .existingUnchanged, some f => f.content
  | _, _ => new

theorem effective_cases (mode : WMode) (old : Option (File C)) (new : C) :
    effective mode old new = new ∨ ∃ f, old = some f ∧ effective mode old new = f.content := by
  cases mode <;> cases old <;> first | exact .inl rfl | exact .inr ⟨_, rfl, rfl⟩

/-- a file with content `c` is at path `p` -/
def HasContent (fs : FS C) (p : String) (c : C) : Prop := ∃ f, fs p = some f ∧ f.content = c

theorem writeCore_frame (mode : WMode) (p : String) (c : C) (w : World C) (chg : Option Bool) {q : String} (h : q ≠ p) :
    (writeCore mode p c w chg).1.fs q = w.fs q := by
  unfold writeCore
  split
  · split
    · rfl
    · exact put_fs_ne _ _ _ h
    · split
      · exact put_fs_ne _ _ _ h
      · rfl
  · exact put_fs_ne _ _ _ h

theorem writeCore_content (mode : WMode) (p : String) (c : C) (w : World C) (chg : Option Bool) :
    HasContent (writeCore mode p c w chg).1.fs p (effective mode (w.fs p) c) := by
  unfold writeCore HasContent
  split
  next f hf =>
    split
    · exact ⟨f, hf, by simp [effective, hf]⟩
    · exact ⟨_, put_fs_eq _ _ _ _, by simp [effective]⟩
    · split
      · exact ⟨_, put_fs_eq _ _ _ _, by simp [effective]⟩
      next hc => exact ⟨f, hf, by simp at hc; simp [effective, hc]⟩
  next hf => exact ⟨_, put_fs_eq _ _ _ _, by simp [effective, hf]⟩

theorem writeCore_clockInv (mode : WMode) (p : String) (c : C) (w : World C) (chg : Option Bool) (h : ClockInv w) :
    ClockInv (writeCore mode p c w chg).1 := by
  unfold writeCore
  split
  · split
    · exact h
    · exact h.put _ _ _
    · split
      · exact h.put _ _ _
      · exact h
  · exact h.put _ _ _

theorem writeCore_clock_le (mode : WMode) (p : String) (c : C) (w : World C) (chg : Option Bool) :
    w.clock ≤ (writeCore mode p c w chg).1.clock := by
  unfold writeCore
  split
  · split
    · exact Nat.le_refl _
    · simp
    · split
      · simp
      · exact Nat.le_refl _
  · simp

/-- the three outcomes of `Write`: `changed` is true afterwards; or the file existed and is kept as it is
(`changed` is the incoming value, `False` when unset); or the file did not exist, is created now and
`changed` is left as it came. -/
theorem writeCore_cases (mode : WMode) (p : String) (c : C) (w : World C) (chg : Option Bool) :
    (writeCore mode p c w chg).2 = some true
    ∨ ((writeCore mode p c w chg) = (w, some (chg.getD false)) ∧ ∃ f, w.fs p = some f ∧ effective mode (w.fs p) c = f.content)
    ∨ (w.fs p = none ∧ writeCore mode p c w chg = (w.put p c (.write p), chg)) := by
  unfold writeCore
  split
  next f hf =>
    split
    · exact .inr (.inl ⟨rfl, f, hf, by simp [effective, hf]⟩)
    · exact .inl rfl
    · split
      · exact .inl rfl
      next hc => exact .inr (.inl ⟨rfl, f, hf, by simp at hc; simp [effective, hc]⟩)
  next hf => exact .inr (.inr ⟨hf, rfl⟩)


/-! ## the converters -/

def depContents (fs : FS C) (ps : List String) : List (Option C) := ps.map fun p => (fs p).map (·.content)

theorem latexCore_launch (conv : Conv C) (lo : Bool) (texP pdfP : String) (w : World C) (chg : Option Bool) (tf : File C)
    (ht : w.fs texP = some tf) (h : chg = some true ∨ lo = true ∨ w.fs pdfP = none) :
    latexCore conv lo texP pdfP w chg
      = .ok (w.put pdfP (conv.pdfOf tf.content (depContents w.fs (conv.depsOf tf.content))) (.latex texP), true, true) := by
  unfold latexCore depContents
  rcases h with h | h | h
  · subst h; simp [ht]
  · subst h; cases chg <;> cases hp : w.fs pdfP <;> simp [ht]
  · cases chg <;> simp [ht, h]

theorem latexCore_skip (conv : Conv C) (texP pdfP : String) (w : World C) (h : (w.fs pdfP).isSome) :
    latexCore conv false texP pdfP w (some false) = .ok (w, false, true) := by
  unfold latexCore
  simp [h]

theorem pngCore_run (conv : Conv C) (po : Bool) (pdfP pngP : String) (w : World C) (chg : Option Bool) (pf : File C)
    (hp : w.fs pdfP = some pf) (h : w.fs pngP = none ∨ po = true ∨ chg = some true) :
    pngCore conv po pdfP pngP w chg = (w.put pngP (conv.pngOf pf.content) (.topng pdfP), true) := by
  unfold pngCore
  rcases h with h | h | h <;> simp [h, hp]

theorem pngCore_skip (conv : Conv C) (pdfP pngP : String) (w : World C) (h : (w.fs pngP).isSome) :
    pngCore conv false pdfP pngP w (some false) = (w, false) := by
  unfold pngCore
  cases hg : w.fs pngP <;> simp_all


/-! ## one unit: source files, the `.tex` file, the pdf and the image -/

/-- the files of one plot (or of one group of plots): the CSV files, the `.tex` file that names them, the pdf
rendered from them and the image converted from the pdf -/
structure FUnit where
  csvs : List String
  tex : String
  pdf : String
  png : String

def FUnit.Distinct (u : FUnit) : Prop :=
  u.tex ∉ u.csvs ∧ u.pdf ∉ u.csvs ∧ u.png ∉ u.csvs ∧ u.tex ≠ u.pdf ∧ u.tex ≠ u.png ∧ u.pdf ≠ u.png

/-- `LaTeXToPDF` then `PDFToPNG` on the value of a unit whose incoming `output.changed` is `c`: the world and
the `output.changed` of the yielded value (`none`: the LaTeX command failed, nothing is yielded) -/
def convCore (conv : Conv C) (lo po : Bool) (u : FUnit) (w : World C) (c : Option Bool) :
    Except Exc (World C × Option Bool) :=
  match latexCore conv lo u.tex u.pdf w c with
  | .error e => .error e
  | .ok (w3, _, false) => .ok (w3, none)
  | .ok (w3, c3, true) =>
    let r := pngCore conv po u.pdf u.png w3 (some c3)
    .ok (r.1, some r.2)

/-- second `Write` (the `.tex` file), `LaTeXToPDF`, `PDFToPNG` -/
def downCore (conv : Conv C) (m2 : WMode) (lo po : Bool) (u : FUnit) (ntex : C) (w : World C) (c1 : Option Bool) :
    Except Exc (World C × Option Bool) :=
  let r2 := writeCore m2 u.tex ntex w c1
  convCore conv lo po u r2.1 r2.2

theorem convCore_launch (conv : Conv C) (lo po : Bool) (u : FUnit) (w : World C) (c : Option Bool) (tf : File C)
    (hd : u.Distinct) (hclk : ClockInv w) (ht : w.fs u.tex = some tf)
    (h : c = some true ∨ lo = true ∨ w.fs u.pdf = none) :
    ∃ w', convCore conv lo po u w c = .ok (w', some true) ∧
      HasContent w'.fs u.pdf (conv.pdfOf tf.content (depContents w.fs (conv.depsOf tf.content))) ∧
      HasContent w'.fs u.png (conv.pngOf (conv.pdfOf tf.content (depContents w.fs (conv.depsOf tf.content)))) ∧
      (∀ q, q ≠ u.pdf → q ≠ u.png → w'.fs q = w.fs q) ∧ ClockInv w' ∧ w.clock ≤ w'.clock := by
  obtain ⟨_, _, _, _, _, hpg⟩ := hd
  unfold convCore
  rw [latexCore_launch conv lo u.tex u.pdf w c tf ht h]
  simp only
  rw [pngCore_run conv po u.pdf u.png _ (some true) ⟨_, w.clock⟩ (put_fs_eq _ _ _ _) (.inr (.inr rfl))]
  refine ⟨_, rfl, ?_, ?_, ?_, ?_, ?_⟩
  · exact ⟨_, by rw [put_fs_ne _ _ _ hpg, put_fs_eq], rfl⟩
  · exact ⟨_, put_fs_eq _ _ _ _, rfl⟩
  · intro q h1 h2; rw [put_fs_ne _ _ _ h2, put_fs_ne _ _ _ h1]
  · exact (hclk.put _ _ _).put _ _ _
  · simp; omega

theorem convCore_skip (conv : Conv C) (po : Bool) (u : FUnit) (w : World C) (pf : File C)
    (hpg : u.pdf ≠ u.png) (hclk : ClockInv w) (hp : w.fs u.pdf = some pf)
    (hpng : ∀ gf, w.fs u.png = some gf → gf.content = conv.pngOf pf.content) :
    ∃ w' c, convCore conv false po u w (some false) = .ok (w', some c) ∧
      w'.fs u.pdf = some pf ∧ HasContent w'.fs u.png (conv.pngOf pf.content) ∧
      (∀ q, q ≠ u.png → w'.fs q = w.fs q) ∧ ClockInv w' ∧ w.clock ≤ w'.clock := by
  unfold convCore
  rw [latexCore_skip conv u.tex u.pdf w (by simp [hp])]
  simp only
  by_cases hrun : w.fs u.png = none ∨ po = true
  · rw [pngCore_run conv po u.pdf u.png w (some false) pf hp (by rcases hrun with h | h <;> simp [h])]
    exact ⟨_, _, rfl, by rw [put_fs_ne _ _ _ hpg, hp], ⟨_, put_fs_eq _ _ _ _, rfl⟩, fun q h => put_fs_ne _ _ _ h,
        hclk.put _ _ _, by simp⟩
  · have hg : (w.fs u.png).isSome := by
      cases hgg : w.fs u.png with
      | none => exact absurd (.inl hgg) hrun
      | some _ => rfl
    have hpo : po = false := by
      cases po with
      | false => rfl
      | true => exact absurd (.inr rfl) hrun
    subst hpo
    rw [pngCore_skip conv u.pdf u.png w hg]
    obtain ⟨gf, hgf⟩ := Option.isSome_iff_exists.mp hg
    exact ⟨_, _, rfl, hp, ⟨gf, hgf, hpng gf hgf⟩, fun q _ => rfl, hclk, Nat.le_refl _⟩


/-- **The second `Write` and the two converters, for all option settings.**  `w` is the world after the source
stage, `c1` the `output.changed` that the source stage hands on.  If `c1` is true, or the pdf is missing, or
the existing pdf is what the LaTeX command produces from the files now on disk (`hsrc`), and an existing pdf
has its `.tex` file on disk (`hsc`), then afterwards the `.tex` file holds the current text, the pdf is
rendered from it and from the CSV files on disk, and the image is converted from that pdf. -/
theorem downCore_spec (conv : Conv C) (m2 : WMode) (lo po : Bool) (u : FUnit) (ntex : C) (w : World C) (c1 : Option Bool)
    (hd : u.Distinct) (hclk : ClockInv w)
    (htd : ∀ tf, w.fs u.tex = some tf → conv.depsOf tf.content = u.csvs)
    (hpng : ∀ gf pf, w.fs u.png = some gf → w.fs u.pdf = some pf → gf.content = conv.pngOf pf.content)
    (hsrc : c1 = some true ∨ w.fs u.pdf = none ∨
      ∀ pf tf, w.fs u.pdf = some pf → w.fs u.tex = some tf → pf.content = conv.pdfOf tf.content (depContents w.fs u.csvs))
    (hsc : (w.fs u.pdf).isSome → (w.fs u.tex).isSome)
    (hdeps : conv.depsOf ntex = u.csvs) :
    ∃ w' c, downCore conv m2 lo po u ntex w c1 = .ok (w', some c) ∧
      HasContent w'.fs u.tex (effective m2 (w.fs u.tex) ntex) ∧
      HasContent w'.fs u.pdf (conv.pdfOf (effective m2 (w.fs u.tex) ntex) (depContents w.fs u.csvs)) ∧
      HasContent w'.fs u.png (conv.pngOf (conv.pdfOf (effective m2 (w.fs u.tex) ntex) (depContents w.fs u.csvs))) ∧
      (∀ q, q ≠ u.tex → q ≠ u.pdf → q ≠ u.png → w'.fs q = w.fs q) ∧ ClockInv w' ∧ w.clock ≤ w'.clock := by
  have hd' := hd
  obtain ⟨htc, hpc, hgc, htp, htg, hpg⟩ := hd'
  -- facts about the world after the second Write
  have hcont := writeCore_content m2 u.tex ntex w c1
  have hfr : ∀ q, q ≠ u.tex → (writeCore m2 u.tex ntex w c1).1.fs q = w.fs q :=
    fun q h => writeCore_frame m2 u.tex ntex w c1 h
  have hclk2 := writeCore_clockInv m2 u.tex ntex w c1 hclk
  have hle2 := writeCore_clock_le m2 u.tex ntex w c1
  obtain ⟨tf2, htf2, hc2⟩ := hcont
  -- the text on disk names the CSV files of the unit
  have hdeps2 : conv.depsOf tf2.content = u.csvs := by
    rw [hc2]
    rcases effective_cases m2 (w.fs u.tex) ntex with h | ⟨f, hf, h⟩
    · rw [h]; exact hdeps
    · rw [h]; exact htd f hf
  have hdc : depContents (writeCore m2 u.tex ntex w c1).1.fs u.csvs = depContents w.fs u.csvs := by
    unfold depContents
    apply List.map_congr_left
    intro p hp
    rw [hfr p (fun h => htc (h ▸ hp))]
  -- launching gives everything
  have launch : (writeCore m2 u.tex ntex w c1).2 = some true ∨ lo = true ∨ (writeCore m2 u.tex ntex w c1).1.fs u.pdf = none →
      ∃ w' c, downCore conv m2 lo po u ntex w c1 = .ok (w', some c) ∧
      HasContent w'.fs u.tex (effective m2 (w.fs u.tex) ntex) ∧
      HasContent w'.fs u.pdf (conv.pdfOf (effective m2 (w.fs u.tex) ntex) (depContents w.fs u.csvs)) ∧
      HasContent w'.fs u.png (conv.pngOf (conv.pdfOf (effective m2 (w.fs u.tex) ntex) (depContents w.fs u.csvs))) ∧
      (∀ q, q ≠ u.tex → q ≠ u.pdf → q ≠ u.png → w'.fs q = w.fs q) ∧ ClockInv w' ∧ w.clock ≤ w'.clock := by
    intro h
    obtain ⟨w', he, hpdf, hpngc, hframe, hck, hle⟩ := convCore_launch conv lo po u _ _ tf2 hd hclk2 htf2 h
    rw [hdeps2, hdc, hc2] at hpdf hpngc
    refine ⟨w', true, he, ⟨tf2, ?_, hc2⟩, hpdf, hpngc, ?_, hck, Nat.le_trans hle2 hle⟩
    · rw [hframe u.tex htp htg]; exact htf2
    · intro q h1 h2 h3; rw [hframe q h2 h3, hfr q h1]
  by_cases hlo : lo = true
  · exact launch (.inr (.inl hlo))
  have hlo : lo = false := by
    cases lo with
    | false => rfl
    | true => exact absurd rfl hlo
  cases hpdf : w.fs u.pdf with
  | none => exact launch (.inr (.inr (by rw [hfr u.pdf (Ne.symm htp)]; exact hpdf)))
  | some pf =>
    rcases writeCore_cases m2 u.tex ntex w c1 with h | ⟨heq, f, hf, he⟩ | ⟨hnone, _⟩
    · exact launch (.inl h)
    · -- the .tex file is kept as it is
      rcases hsrc with h1 | h1 | h1
      · exact launch (.inl (by rw [heq, h1]; rfl))
      · rw [h1] at hpdf; cases hpdf
      · by_cases hct : c1 = some true
        · exact launch (.inl (by rw [heq, hct]; rfl))
        · have hgd : c1.getD false = false := by
            cases hc : c1 with
            | none => rfl
            | some b => cases b <;> simp_all
          have hw : writeCore m2 u.tex ntex w c1 = (w, some false) := by rw [heq, hgd]
          obtain ⟨w', c, hcv, hp', hg', hframe, hck, hle⟩ :=
            convCore_skip conv po u w pf hpg hclk hpdf (fun gf hgf => hpng gf pf hgf hpdf)
          have hpc' := h1 pf f hpdf hf
          refine ⟨w', c, ?_, ⟨f, ?_, he.symm⟩, ⟨pf, hp', ?_⟩, ?_, ?_, hck, hle⟩
          · unfold downCore; rw [hw, hlo]; exact hcv
          · rw [hframe u.tex htg]; exact hf
          · rw [he]; exact hpc'
          · rw [he, ← hpc']; exact hg'
          · intro q _ _ h3; exact hframe q h3
    · -- the .tex file is missing although the pdf exists: excluded by `hsc`
      have := hsc (by simp [hpdf])
      simp [hnone] at this


/-! ## invariant of a unit, `SourceClosed`, freshness -/

/-- **Invariant between runs** (it survives the removal of any files): the `.tex` file on disk names the CSV
files of the unit; a pdf whose `.tex` and CSV files are all on disk is what the LaTeX command produces from
them; an image whose pdf is on disk was converted from it. -/
structure UnitInv (conv : Conv C) (u : FUnit) (fs : FS C) : Prop where
  texDeps : ∀ tf, fs u.tex = some tf → conv.depsOf tf.content = u.csvs
  pdfCons : ∀ pf tf, fs u.pdf = some pf → fs u.tex = some tf → (∀ p ∈ u.csvs, (fs p).isSome) →
    pf.content = conv.pdfOf tf.content (depContents fs u.csvs)
  pngCons : ∀ gf pf, fs u.png = some gf → fs u.pdf = some pf → gf.content = conv.pngOf pf.content

/-- every existing pdf has its `.tex` file and its CSV files on disk -/
def SourceClosed (u : FUnit) (fs : FS C) : Prop :=
  (fs u.pdf).isSome → (fs u.tex).isSome ∧ ∀ p ∈ u.csvs, (fs p).isSome

/-- the files of the unit hold exactly what is produced from the CSV texts `ecsvs` and the LaTeX text `etex` -/
def UnitFresh (conv : Conv C) (u : FUnit) (fs : FS C) (ecsvs : List C) (etex : C) : Prop :=
  depContents fs u.csvs = ecsvs.map some ∧ HasContent fs u.tex etex ∧
  HasContent fs u.pdf (conv.pdfOf etex (ecsvs.map some)) ∧
  HasContent fs u.png (conv.pngOf (conv.pdfOf etex (ecsvs.map some)))

theorem depContents_congr {fs fs' : FS C} {ps : List String} (h : ∀ p ∈ ps, fs' p = fs p) :
    depContents fs' ps = depContents fs ps := by
  unfold depContents
  exact List.map_congr_left (fun p hp => by rw [h p hp])

theorem UnitInv.of_fresh {conv : Conv C} {u : FUnit} {fs : FS C} {ecsvs : List C} {etex : C}
    (h : UnitFresh conv u fs ecsvs etex) (hdeps : conv.depsOf etex = u.csvs) : UnitInv conv u fs := by
  obtain ⟨hc, ⟨tf, htf, htc⟩, ⟨pf, hpf, hpc⟩, ⟨gf, hgf, hgc⟩⟩ := h
  refine ⟨?_, ?_, ?_⟩
  · intro tf' h'; rw [htf] at h'; cases h'; rw [htc]; exact hdeps
  · intro pf' tf' h1 h2 _; rw [hpf] at h1; rw [htf] at h2; cases h1; cases h2; rw [hpc, htc, hc]
  · intro gf' pf' h1 h2; rw [hgf] at h1; rw [hpf] at h2; cases h1; cases h2; rw [hgc, hpc]

theorem UnitInv.del {conv : Conv C} {u : FUnit} {fs : FS C} (h : UnitInv conv u fs) (ps : List String) :
    UnitInv conv u (fs.del ps) := by
  have key : ∀ q f, (fs.del ps) q = some f → fs q = some f := by
    intro q f hq; unfold FS.del at hq; split at hq
    · cases hq
    · exact hq
  refine ⟨?_, ?_, ?_⟩
  · intro tf h1; exact h.texDeps tf (key _ _ h1)
  · intro pf tf h1 h2 h3
    have hall : ∀ p ∈ u.csvs, (fs.del ps) p = fs p := by
      intro p hp
      have := h3 p hp
      obtain ⟨f, hf⟩ := Option.isSome_iff_exists.mp this
      rw [hf, key _ _ hf]
    rw [depContents_congr hall]
    exact h.pdfCons pf tf (key _ _ h1) (key _ _ h2) (fun p hp => by rw [← hall p hp]; exact h3 p hp)
  · intro gf pf h1 h2; exact h.pngCons gf pf (key _ _ h1) (key _ _ h2)

theorem UnitInv.empty (conv : Conv C) (u : FUnit) : UnitInv conv u (FS.empty : FS C) :=
  ⟨fun _ h => by simp [FS.empty] at h, fun _ _ h => by simp [FS.empty] at h, fun _ _ h => by simp [FS.empty] at h⟩

/-- **From the source stage to the converters.**  `w1` is the world after the CSV files were written and `c1`
the `output.changed` handed on.  If only CSV files of the unit were touched and `c1` is true unless a CSV file
was missing at the start or none was touched, then — for a run that starts `SourceClosed` — the hypotheses of
`downCore_spec` hold. -/
theorem down_of_source (conv : Conv C) (m2 : WMode) (lo po : Bool) (u : FUnit) (ntex : C) (w w1 : World C) (c1 : Option Bool)
    (hd : u.Distinct) (hinv : UnitInv conv u w.fs) (hsc : SourceClosed u w.fs) (hclk1 : ClockInv w1)
    (hframe : ∀ q, q ∉ u.csvs → w1.fs q = w.fs q)
    (hall : ∀ p ∈ u.csvs, (w1.fs p).isSome)
    (hflag : c1 = some true ∨ (∃ p ∈ u.csvs, w.fs p = none) ∨ (∀ p ∈ u.csvs, w1.fs p = w.fs p))
    (hdeps : conv.depsOf ntex = u.csvs) :
    ∃ w' c, downCore conv m2 lo po u ntex w1 c1 = .ok (w', some c) ∧
      HasContent w'.fs u.tex (effective m2 (w.fs u.tex) ntex) ∧
      HasContent w'.fs u.pdf (conv.pdfOf (effective m2 (w.fs u.tex) ntex) (depContents w1.fs u.csvs)) ∧
      HasContent w'.fs u.png (conv.pngOf (conv.pdfOf (effective m2 (w.fs u.tex) ntex) (depContents w1.fs u.csvs))) ∧
      (∀ q, q ≠ u.tex → q ≠ u.pdf → q ≠ u.png → w'.fs q = w1.fs q) ∧ ClockInv w' ∧ w1.clock ≤ w'.clock := by
  have hd' := hd
  obtain ⟨htc, hpc, hgc, _, _, _⟩ := hd'
  have ht := hframe u.tex htc
  have hp := hframe u.pdf hpc
  have hg := hframe u.png hgc
  have := downCore_spec conv m2 lo po u ntex w1 c1 hd hclk1
    (fun tf h => hinv.texDeps tf (by rw [← ht]; exact h))
    (fun gf pf h1 h2 => hinv.pngCons gf pf (by rw [← hg]; exact h1) (by rw [← hp]; exact h2))
    (by
      rcases hflag with h | ⟨p, hp1, hp2⟩ | h
      · exact .inl h
      · refine .inr (.inl ?_)
        rw [hp]
        cases hpdf : w.fs u.pdf with
        | none => rfl
        | some pf =>
          have := (hsc (by simp [hpdf])).2 p hp1
          simp [hp2] at this
      · refine .inr (.inr ?_)
        intro pf tf h1 h2
        rw [depContents_congr h]
        exact hinv.pdfCons pf tf (by rw [← hp]; exact h1) (by rw [← ht]; exact h2)
          (fun p hp' => by rw [← h p hp']; exact hall p hp'))
    (by rw [hp, ht]; exact fun h => (hsc h).1)
    hdeps
  rw [ht] at this
  exact this


/-! ## one plot: `Write` (csv), `Write` (tex), `LaTeXToPDF`, `PDFToPNG` -/

/-- the bookkeeping of one plot whose CSV file is `pc` -/
def sepCore (conv : Conv C) (m1 m2 : WMode) (lo po : Bool) (u : FUnit) (pc : String) (ncsv ntex : C) (w : World C) :
    Except Exc (World C × Option Bool) :=
  let r1 := writeCore m1 pc ncsv w none
  downCore conv m2 lo po u ntex r1.1 r1.2

theorem effective_deps (conv : Conv C) (u : FUnit) (fs : FS C) (m2 : WMode) (ntex : C)
    (hinv : UnitInv conv u fs) (hdeps : conv.depsOf ntex = u.csvs) :
    conv.depsOf (effective m2 (fs u.tex) ntex) = u.csvs := by
  rcases effective_cases m2 (fs u.tex) ntex with h | ⟨f, hf, h⟩
  · rw [h]; exact hdeps
  · rw [h]; exact hinv.texDeps f hf

/-- **`run_fresh_partial`, bookkeeping level, one plot, all option settings.**  For every world that satisfies the
invariant and is `SourceClosed` for the plot, every data text `ncsv`, template text `ntex` (naming the CSV
file) and every setting of the two `Write`s and the two converters: the run succeeds, afterwards the four files
exist with exactly the content produced from the current texts (`existing_unchanged` keeps an existing
source file, that is its documented contract), only the plot's files were touched, and the invariant holds again. -/
theorem sepCore_fresh (conv : Conv C) (m1 m2 : WMode) (lo po : Bool) (u : FUnit) (pc : String) (ncsv ntex : C) (w : World C)
    (hu : u.csvs = [pc]) (hd : u.Distinct) (hclk : ClockInv w) (hinv : UnitInv conv u w.fs)
    (hsc : SourceClosed u w.fs) (hdeps : conv.depsOf ntex = u.csvs) :
    ∃ w' c, sepCore conv m1 m2 lo po u pc ncsv ntex w = .ok (w', some c) ∧
      UnitFresh conv u w'.fs [effective m1 (w.fs pc) ncsv] (effective m2 (w.fs u.tex) ntex) ∧
      (∀ q, q ∉ u.csvs → q ≠ u.tex → q ≠ u.pdf → q ≠ u.png → w'.fs q = w.fs q) ∧
      ClockInv w' ∧ w.clock ≤ w'.clock ∧ UnitInv conv u w'.fs := by
  have hd' := hd
  obtain ⟨htc, hpc, hgc, _, _, _⟩ := hd'
  have hmem : ∀ q, q ∉ u.csvs ↔ q ≠ pc := by intro q; rw [hu]; simp
  have hfr : ∀ q, q ∉ u.csvs → (writeCore m1 pc ncsv w none).1.fs q = w.fs q :=
    fun q h => writeCore_frame m1 pc ncsv w none ((hmem q).mp h)
  obtain ⟨cf, hcf, hcc⟩ := writeCore_content m1 pc ncsv w none
  have hflag : (writeCore m1 pc ncsv w none).2 = some true ∨ (∃ p ∈ u.csvs, w.fs p = none) ∨
      (∀ p ∈ u.csvs, (writeCore m1 pc ncsv w none).1.fs p = w.fs p) := by
    rcases writeCore_cases m1 pc ncsv w none with h | ⟨heq, _⟩ | ⟨hnone, _⟩
    · exact .inl h
    · exact .inr (.inr (fun p _ => by rw [heq]))
    · exact .inr (.inl ⟨pc, by rw [hu]; simp, hnone⟩)
  obtain ⟨w', c, he, htex, hpdf, hpng, hframe, hck, hle⟩ :=
    down_of_source conv m2 lo po u ntex w _ _ hd hinv hsc (writeCore_clockInv m1 pc ncsv w none hclk) hfr
      (by intro p hp; rw [hu] at hp; simp at hp; subst hp; simp [hcf]) hflag hdeps
  have hdc1 : depContents (writeCore m1 pc ncsv w none).1.fs u.csvs = [some (effective m1 (w.fs pc) ncsv)] := by
    rw [hu]; simp [depContents, hcf, hcc]
  rw [hdc1] at hpdf hpng
  have hcsv' : ∀ p ∈ u.csvs, w'.fs p = (writeCore m1 pc ncsv w none).1.fs p := by
    intro p hp
    exact hframe p (fun h => htc (h ▸ hp)) (fun h => hpc (h ▸ hp)) (fun h => hgc (h ▸ hp))
  have hfresh : UnitFresh conv u w'.fs [effective m1 (w.fs pc) ncsv] (effective m2 (w.fs u.tex) ntex) :=
    ⟨by rw [depContents_congr hcsv', hdc1]; rfl, htex, hpdf, hpng⟩
  refine ⟨w', c, he, hfresh, ?_, hck, Nat.le_trans (writeCore_clock_le m1 pc ncsv w none) hle,
    UnitInv.of_fresh hfresh (effective_deps conv u w.fs m2 ntex hinv hdeps)⟩
  intro q h0 h1 h2 h3
  rw [hframe q h1 h2 h3, hfr q h0]


/-! ## the pipeline of one plot is the bookkeeping on the resolved file names -/

theorem mfStep_filetype (ow : Bool) (name : Option String) (o : OutCtx) (m : MFKey × Tpl) :
    (mfStep ow name o m).1.filetype = o.filetype := by
  obtain ⟨k, t⟩ := m
  cases k <;> simp only [mfStep] <;> (repeat' split) <;> rfl

theorem mfCall_filetype (ow : Bool) (ms : List (MFKey × Tpl)) (name : Option String) (o : OutCtx) :
    (mfCall ow ms name o).1.filetype = o.filetype := by
  unfold mfCall
  suffices h : ∀ (acc : OutCtx × Bool),
      (ms.foldl (fun acc m => let r := mfStep ow name acc.1 m; (r.1, acc.2 || r.2)) acc).1.filetype = acc.1.filetype from h _
  induction ms with
  | nil => intro acc; rfl
  | cons m rest ih => intro acc; rw [List.foldl_cons, ih]; exact mfStep_filetype ow name acc.1 m

/-- `context.output` of a plot after `ToCSV` and `MakeFilename` -/
def plotCtx (cfg : Cfg) (ms : List (MFKey × Tpl)) (pl : Plot) : OutCtx :=
  (mfCall cfg.mf.overwrite ms pl.name { filetype := some "csv" }).1

/-- the file names that the two `Write`s and the two converters compute for a plot: its unit and its CSV path -/
def plotUnit (cfg : Cfg) (ms : List (MFKey × Tpl)) (pl : Plot) : Except Exc (FUnit × String) :=
  let o1 := plotCtx cfg ms pl
  match wmfCore cfg.outdir "output" o1.dirname o1.filename o1.fileext (some "csv") with
  | .error e => .error e
  | .ok (_, fn, _, pc) =>
    match wmfCore cfg.outdir "output" o1.dirname (some fn) (some "tex") (some "tex") with
    | .error e => .error e
    | .ok (_, _, _, pt) => .ok (⟨[pc], pt, pdfPathOf pt, pngPathOf (pdfPathOf pt) "png"⟩, pc)

theorem mfStep_changed (ow : Bool) (name : Option String) (o : OutCtx) (m : MFKey × Tpl) :
    (mfStep ow name o m).1.changed = o.changed := by
  obtain ⟨k, t⟩ := m
  cases k <;> simp only [mfStep] <;> (repeat' split) <;> rfl

theorem mfCall_changed (ow : Bool) (ms : List (MFKey × Tpl)) (name : Option String) (o : OutCtx) :
    (mfCall ow ms name o).1.changed = o.changed := by
  unfold mfCall
  suffices h : ∀ (acc : OutCtx × Bool),
      (ms.foldl (fun acc m => let r := mfStep ow name acc.1 m; (r.1, acc.2 || r.2)) acc).1.changed = acc.1.changed from h _
  induction ms with
  | nil => intro acc; rfl
  | cons m rest ih => intro acc; rw [List.foldl_cons, ih]; exact mfStep_changed ow name acc.1 m

/-- `Write.run` on a text: the file name comes from `_make_filename`, the rest is `writeCore` -/
theorem writeVal_text (conv : Conv C) (outdir : String) (mode : WMode) (w : World C) (v : Val C) (c : C)
    (d fn fe p : String) (hd : v.data = .text c)
    (hn : wmfCore outdir "output" v.out.dirname v.out.filename v.out.fileext v.out.filetype = .ok (d, fn, fe, p)) :
    writeVal conv outdir mode w v = .ok ((writeCore mode p c w v.out.changed).1,
      { v with data := .path p,
               out := { v.out with filename := some fn, fileext := some fe, filepath := some p,
                                   changed := (writeCore mode p c w v.out.changed).2 } }) := by
  unfold writeVal wMakeFilename
  rw [hd]
  simp only [hn]
  rfl

theorem latexVal_path (conv : Conv C) (lo : Bool) (w : World C) (v : Val C) (t : String)
    (hft : v.out.filetype = some "tex") (hd : v.data = .path t) :
    latexVal conv lo w v =
      match latexCore conv lo t (pdfPathOf t) w v.out.changed with
      | .error e => .error e
      | .ok (w', chg', yielded) =>
        .ok (w', if yielded then
          some { v with data := .path (pdfPathOf t), out := { v.out with filetype := some "pdf", changed := some chg' } }
          else none) := by
  unfold latexVal
  rw [if_pos hft, hd]
  rfl

theorem pngVal_path (conv : Conv C) (po : Bool) (w : World C) (v : Val C) (t : String)
    (hft : v.out.filetype = some "pdf") (hd : v.data = .path t) :
    pngVal conv po "png" w v =
      .ok ((pngCore conv po t (pngPathOf t "png") w v.out.changed).1,
        { v with data := .path (pngPathOf t "png"),
                 out := { v.out with filetype := some "png",
                                     changed := some (pngCore conv po t (pngPathOf t "png") w v.out.changed).2 } }) := by
  unfold pngVal
  rw [if_pos hft, hd]

/-- `RenderLaTeX → Write → LaTeXToPDF → PDFToPNG` on a CSV value is `downCore` on the resolved names -/
theorem tailStage_eq_downCore (conv : Conv C) (cfg : Cfg) (tpl : Nat) (w : World C) (v : Val C) (deps : List String)
    (d fn fe pt : String) (hft : v.out.filetype = some "csv")
    (hdeps : (match v.group with
              | none => v.out.filepath.toList
              | some g => g.filterMap (·.filepath)) = deps)
    (hn : wmfCore cfg.outdir "output" v.out.dirname v.out.filename (some "tex") (some "tex") = .ok (d, fn, fe, pt))
    (u : FUnit) (hut : u.tex = pt) (hup : u.pdf = pdfPathOf pt) (hug : u.png = pngPathOf (pdfPathOf pt) "png") :
    ∀ w' oc, downCore conv cfg.w2 cfg.lo cfg.po u (conv.texOf tpl deps) w v.out.changed = .ok (w', oc) →
      ∃ ov, tailStage conv cfg tpl w v = .ok (w', ov) ∧ (oc = none → ov = none) ∧
        (∀ c, oc = some c → ∃ v', ov = some v' ∧ v'.data = .path u.png ∧ v'.out.changed = some c ∧
          v'.out.filepath = some u.tex) := by
  intro w' oc hs
  unfold tailStage
  have hr : renderVal conv tpl v = ⟨Data.text (conv.texOf tpl deps), v.name,
      { v.out with filetype := some "tex", fileext := some "tex" }, v.group⟩ := by
    unfold renderVal; rw [if_pos hft]; subst hdeps; rfl
  rw [writeVal_text conv cfg.outdir cfg.w2 w (renderVal conv tpl v) (conv.texOf tpl deps) d fn fe pt
    (by rw [hr]) (by rw [hr]; exact hn)]
  simp only [hr]
  rw [latexVal_path conv cfg.lo _ _ pt rfl rfl]
  unfold downCore convCore at hs
  rw [hut, hup, hug] at hs
  simp only at hs ⊢
  generalize latexCore conv cfg.lo pt (pdfPathOf pt) (writeCore cfg.w2 pt (conv.texOf tpl deps) w v.out.changed).1
    (writeCore cfg.w2 pt (conv.texOf tpl deps) w v.out.changed).2 = L at hs ⊢
  match L, hs with
  | .error e, hs => cases hs
  | .ok (w3, c3, false), hs =>
    simp only [Except.ok.injEq, Prod.mk.injEq] at hs
    obtain ⟨h1, h2⟩ := hs
    subst h1 h2
    exact ⟨none, by simp, fun _ => rfl, fun c hc => by cases hc⟩
  | .ok (w3, c3, true), hs =>
    simp only [Except.ok.injEq, Prod.mk.injEq] at hs
    obtain ⟨h1, h2⟩ := hs
    subst h1 h2
    simp only [if_true]
    rw [pngVal_path conv cfg.po w3 _ (pdfPathOf pt) rfl rfl]
    refine ⟨_, rfl, ?_, ?_⟩
    · intro h; cases h
    · intro c hc
      simp only [Option.some.injEq] at hc
      subst hc
      exact ⟨_, rfl, by rw [hug], rfl, by rw [hut]⟩

/-- **Refinement.**  When the naming stages resolve the plot to the unit `u` with CSV file `pc`, the pipeline
`ToCSV → MakeFilename → Write → RenderLaTeX → Write → LaTeXToPDF → PDFToPNG` acts on the world exactly as the
bookkeeping `sepCore` on these names; the yielded value names the image and carries the final `output.changed`. -/
theorem runPlot_eq_sepCore (conv : Conv C) (cfg : Cfg) (ms : List (MFKey × Tpl)) (tpl : Nat) (w : World C) (pl : Plot)
    (u : FUnit) (pc : String) (h : plotUnit cfg ms pl = .ok (u, pc)) :
    ∀ w' oc, sepCore conv cfg.w1 cfg.w2 cfg.lo cfg.po u pc (conv.csvOf pl.data) (conv.texOf tpl [pc]) w = .ok (w', oc) →
      ∃ ov, runPlot conv cfg ms tpl w pl = .ok (w', ov) ∧
        (oc = none → ov = none) ∧
        (∀ c, oc = some c → ∃ v, ov = some v ∧ v.data = .path u.png ∧ v.out.changed = some c ∧ v.out.filepath = some u.tex) := by
  intro w' oc hs
  have hft : (plotCtx cfg ms pl).filetype = some "csv" := by
    unfold plotCtx; rw [mfCall_filetype]
  have hch : (plotCtx cfg ms pl).changed = none := by
    unfold plotCtx; rw [mfCall_changed]
  cases h1 : wmfCore cfg.outdir "output" (plotCtx cfg ms pl).dirname (plotCtx cfg ms pl).filename
      (plotCtx cfg ms pl).fileext (some "csv") with
  | error e => simp [plotUnit, h1] at h
  | ok r1 =>
    obtain ⟨d1, fn, fe, pc'⟩ := r1
    cases h2 : wmfCore cfg.outdir "output" (plotCtx cfg ms pl).dirname (some fn) (some "tex") (some "tex") with
    | error e => simp [plotUnit, h1, h2] at h
    | ok r2 =>
      obtain ⟨d2, fn2, fe2, pt⟩ := r2
      simp [plotUnit, h1, h2] at h
      obtain ⟨hu, hpc⟩ := h
      subst hpc hu
      unfold runPlot memberStage
      have hv : (mfVal cfg.mf.overwrite ms (toCsvVal conv pl.name pl.data {}) : Val C)
          = ⟨.text (conv.csvOf pl.data), pl.name, plotCtx cfg ms pl, none⟩ := rfl
      rw [hv, writeVal_text conv cfg.outdir cfg.w1 w _ (conv.csvOf pl.data) d1 fn fe pc' rfl (by rw [← hft] at h1; exact h1)]
      simp only [hch]
      unfold sepCore at hs
      simp only at hs
      exact tailStage_eq_downCore conv cfg tpl (writeCore cfg.w1 pc' (conv.csvOf pl.data) w none).1
        ⟨.path pc', pl.name, { plotCtx cfg ms pl with filename := some fn, fileext := some fe, filepath := some pc', changed := (writeCore cfg.w1 pc' (conv.csvOf pl.data) w none).2 }, none⟩
        [pc'] d2 fn2 fe2 pt hft rfl h2 _ rfl rfl rfl w' oc hs


/-! ## one plot, pipeline level -/

/-- all files of a unit -/
def FUnit.paths (u : FUnit) : List String := u.csvs ++ [u.tex, u.pdf, u.png]

theorem FUnit.mem_paths {u : FUnit} {q : String} : q ∈ u.paths ↔ q ∈ u.csvs ∨ q = u.tex ∨ q = u.pdf ∨ q = u.png := by
  simp [FUnit.paths]

theorem UnitInv.congr {conv : Conv C} {u : FUnit} {fs fs' : FS C} (h : UnitInv conv u fs)
    (heq : ∀ p ∈ u.paths, fs' p = fs p) : UnitInv conv u fs' := by
  have ht : fs' u.tex = fs u.tex := heq _ (FUnit.mem_paths.mpr (.inr (.inl rfl)))
  have hp : fs' u.pdf = fs u.pdf := heq _ (FUnit.mem_paths.mpr (.inr (.inr (.inl rfl))))
  have hg : fs' u.png = fs u.png := heq _ (FUnit.mem_paths.mpr (.inr (.inr (.inr rfl))))
  have hc : ∀ p ∈ u.csvs, fs' p = fs p := fun p hp => heq p (FUnit.mem_paths.mpr (.inl hp))
  refine ⟨?_, ?_, ?_⟩
  · intro tf h1; exact h.texDeps tf (by rw [← ht]; exact h1)
  · intro pf tf h1 h2 h3
    rw [depContents_congr hc]
    exact h.pdfCons pf tf (by rw [← hp]; exact h1) (by rw [← ht]; exact h2) (fun p hp' => by rw [← hc p hp']; exact h3 p hp')
  · intro gf pf h1 h2; exact h.pngCons gf pf (by rw [← hg]; exact h1) (by rw [← hp]; exact h2)

theorem SourceClosed.congr {u : FUnit} {fs fs' : FS C} (h : SourceClosed u fs)
    (heq : ∀ p ∈ u.paths, fs' p = fs p) : SourceClosed u fs' := by
  have ht : fs' u.tex = fs u.tex := heq _ (FUnit.mem_paths.mpr (.inr (.inl rfl)))
  have hp : fs' u.pdf = fs u.pdf := heq _ (FUnit.mem_paths.mpr (.inr (.inr (.inl rfl))))
  have hc : ∀ p ∈ u.csvs, fs' p = fs p := fun p hp => heq p (FUnit.mem_paths.mpr (.inl hp))
  intro h1
  rw [hp] at h1
  obtain ⟨h2, h3⟩ := h h1
  exact ⟨by rw [ht]; exact h2, fun p hp' => by rw [hc p hp']; exact h3 p hp'⟩

theorem UnitFresh.congr {conv : Conv C} {u : FUnit} {fs fs' : FS C} {ecsvs : List C} {etex : C}
    (h : UnitFresh conv u fs ecsvs etex) (heq : ∀ p ∈ u.paths, fs' p = fs p) : UnitFresh conv u fs' ecsvs etex := by
  have ht : fs' u.tex = fs u.tex := heq _ (FUnit.mem_paths.mpr (.inr (.inl rfl)))
  have hp : fs' u.pdf = fs u.pdf := heq _ (FUnit.mem_paths.mpr (.inr (.inr (.inl rfl))))
  have hg : fs' u.png = fs u.png := heq _ (FUnit.mem_paths.mpr (.inr (.inr (.inr rfl))))
  have hc : ∀ p ∈ u.csvs, fs' p = fs p := fun p hp => heq p (FUnit.mem_paths.mpr (.inl hp))
  obtain ⟨h1, h2, h3, h4⟩ := h
  refine ⟨by rw [depContents_congr hc]; exact h1, ?_, ?_, ?_⟩
  · unfold HasContent; rw [ht]; exact h2
  · unfold HasContent; rw [hp]; exact h3
  · unfold HasContent; rw [hg]; exact h4

/-- the converters' texts name what they are given (`depsOf` reads the names back from a rendered text) -/
def ConvOK (conv : Conv C) : Prop := ∀ t ps, conv.depsOf (conv.texOf t ps) = ps

/-- what "fresh" means for a plot after a run that started in world `w0`: the four files hold what is produced
from the current data and template (an `existing_unchanged` Write keeps a source file that existed in `w0`) -/
def PlotFresh (conv : Conv C) (cfg : Cfg) (tpl : Nat) (w0 : World C) (fs' : FS C) (pl : Plot) (up : FUnit × String) : Prop :=
  UnitFresh conv up.1 fs' [effective cfg.w1 (w0.fs up.2) (conv.csvOf pl.data)]
    (effective cfg.w2 (w0.fs up.1.tex) (conv.texOf tpl [up.2]))

theorem plotUnit_csvs {cfg : Cfg} {ms : List (MFKey × Tpl)} {pl : Plot} {up : FUnit × String}
    (h : plotUnit cfg ms pl = .ok up) : up.1.csvs = [up.2] := by
  unfold plotUnit at h
  simp only at h
  split at h
  · cases h
  · split at h
    · cases h
    · cases h; rfl

/-- **one plot through the whole pipeline** (all option settings), for a run that starts `SourceClosed` -/
theorem runPlot_fresh (conv : Conv C) (cfg : Cfg) (ms : List (MFKey × Tpl)) (tpl : Nat) (w : World C) (pl : Plot)
    (up : FUnit × String) (h : plotUnit cfg ms pl = .ok up) (hok : ConvOK conv)
    (hd : up.1.Distinct) (hclk : ClockInv w) (hinv : UnitInv conv up.1 w.fs) (hsc : SourceClosed up.1 w.fs) :
    ∃ w' v, runPlot conv cfg ms tpl w pl = .ok (w', some v) ∧ v.data = .path up.1.png ∧
      PlotFresh conv cfg tpl w w'.fs pl up ∧
      (∀ q, q ∉ up.1.paths → w'.fs q = w.fs q) ∧ ClockInv w' ∧ w.clock ≤ w'.clock ∧ UnitInv conv up.1 w'.fs := by
  obtain ⟨u, pc⟩ := up
  have hcs : u.csvs = [pc] := plotUnit_csvs h
  obtain ⟨w', c, hs, hfresh, hframe, hck, hle, hinv'⟩ :=
    sepCore_fresh conv cfg.w1 cfg.w2 cfg.lo cfg.po u pc (conv.csvOf pl.data) (conv.texOf tpl [pc]) w hcs hd hclk hinv hsc
      (by rw [hok, hcs])
  obtain ⟨ov, hr, _, hv⟩ := runPlot_eq_sepCore conv cfg ms tpl w pl u pc h w' (some c) hs
  obtain ⟨v, hov, hdata, _, _⟩ := hv c rfl
  subst hov
  refine ⟨w', v, hr, hdata, hfresh, ?_, hck, hle, hinv'⟩
  intro q hq
  rw [FUnit.mem_paths] at hq
  exact hframe q (fun h => hq (.inl h)) (fun h => hq (.inr (.inl h))) (fun h => hq (.inr (.inr (.inl h))))
    (fun h => hq (.inr (.inr (.inr h))))


/-! ## several plots -/

/-- two units share no file -/
def FUnit.Disjoint (a b : FUnit) : Prop := ∀ p ∈ a.paths, p ∉ b.paths

/-- the naming stages resolve every plot to the unit paired with it -/
def Resolves (cfg : Cfg) (ms : List (MFKey × Tpl)) (pus : List (Plot × (FUnit × String))) : Prop :=
  ∀ x ∈ pus, plotUnit cfg ms x.1 = .ok x.2

/-- the units are well formed: the files of one unit are different, different units share no file -/
def UnitsOK (us : List (FUnit × String)) : Prop :=
  (∀ up ∈ us, up.1.Distinct) ∧ us.Pairwise (fun a b => a.1.Disjoint b.1 ∧ b.1.Disjoint a.1)

/-- **several plots as separate values of one flow**, all option settings, for a run that starts `SourceClosed` -/
theorem runPlots_fresh (conv : Conv C) (cfg : Cfg) (ms : List (MFKey × Tpl)) (tpl : Nat) (hok : ConvOK conv) :
    ∀ (pus : List (Plot × (FUnit × String))) (w : World C),
      Resolves cfg ms pus → UnitsOK (pus.map (·.2)) → ClockInv w →
      (∀ x ∈ pus, UnitInv conv x.2.1 w.fs ∧ SourceClosed x.2.1 w.fs) →
      ∃ w' vs, runPlots conv cfg ms tpl w (pus.map (·.1)) = .ok (w', vs) ∧
        vs.map (fun v => dataPath v) = pus.map (fun x => x.2.1.png) ∧
        (∀ x ∈ pus, PlotFresh conv cfg tpl w w'.fs x.1 x.2) ∧
        (∀ q, (∀ x ∈ pus, q ∉ x.2.1.paths) → w'.fs q = w.fs q) ∧ ClockInv w' ∧ w.clock ≤ w'.clock ∧
        (∀ x ∈ pus, UnitInv conv x.2.1 w'.fs) := by
  intro pus
  induction pus with
  | nil =>
    intro w _ _ hclk _
    refine ⟨w, [], rfl, rfl, ?_, fun _ _ => rfl, hclk, Nat.le_refl _, ?_⟩
    · intro x h; cases h
    · intro x h; cases h
  | cons x pus ih =>
    intro w hres hu hclk hall
    obtain ⟨hdist, hpw⟩ := hu
    rw [List.map_cons, List.pairwise_cons] at hpw
    obtain ⟨hdisj, hpw'⟩ := hpw
    have hdisj' : ∀ y ∈ pus, x.2.1.Disjoint y.2.1 ∧ y.2.1.Disjoint x.2.1 :=
      fun y hy => hdisj y.2 (List.mem_map_of_mem hy)
    obtain ⟨hinv, hsc⟩ := hall x (by simp)
    obtain ⟨w1, v, hr, hdata, hfresh, hframe, hck1, hle1, hinv1⟩ :=
      runPlot_fresh conv cfg ms tpl w x.1 x.2 (hres x (by simp)) hok (hdist x.2 (by simp)) hclk hinv hsc
    -- the other units are untouched by the first plot
    have hother : ∀ y ∈ pus, ∀ p ∈ y.2.1.paths, w1.fs p = w.fs p := by
      intro y hy p hp
      exact hframe p (fun h => (hdisj' y hy).1 p h hp)
    obtain ⟨w', vs, hrs, hdatas, hfreshs, hframes, hck', hle', hinvs⟩ :=
      ih w1 (fun y hy => hres y (by simp [hy])) ⟨fun up' h => hdist up' (by simp at h ⊢; exact .inr h), hpw'⟩ hck1
        (fun y hy => ⟨(hall y (by simp [hy])).1.congr (hother y hy), (hall y (by simp [hy])).2.congr (hother y hy)⟩)
    -- the first unit is untouched by the other plots
    have hfirst : ∀ p ∈ x.2.1.paths, w'.fs p = w1.fs p := by
      intro p hp
      exact hframes p (fun y hy h => (hdisj' y hy).1 p hp h)
    refine ⟨w', v :: vs, ?_, ?_, ?_, ?_, hck', Nat.le_trans hle1 hle', ?_⟩
    · simp only [List.map_cons]; unfold runPlots; rw [hr]; simp only; rw [hrs]; rfl
    · rw [List.map_cons, List.map_cons, hdatas]; simp only [dataPath, hdata]
    · intro y hy
      simp only [List.mem_cons] at hy
      rcases hy with h | h
      · subst h; exact hfresh.congr hfirst
      · -- freshness of the others was stated relative to `w1`, which agrees with `w` on their files
        have hh := hfreshs y h
        unfold PlotFresh at hh ⊢
        have hcs := plotUnit_csvs (hres y (by simp [h]))
        have e1 : w1.fs y.2.2 = w.fs y.2.2 := hother y h _ (FUnit.mem_paths.mpr (.inl (by rw [hcs]; simp)))
        have e2 : w1.fs y.2.1.tex = w.fs y.2.1.tex := hother y h _ (FUnit.mem_paths.mpr (.inr (.inl rfl)))
        rw [← e1, ← e2]; exact hh
    · intro q hq
      rw [hframes q (fun y h => hq y (by simp [h])), hframe q (hq x (by simp))]
    · intro y hy
      simp only [List.mem_cons] at hy
      rcases hy with h | h
      · subst h; exact hinv1.congr hfirst
      · exact hinvs y h


/-! ## runs and histories -/

/-- a run of the separate layout whose plots resolve to the (well-formed) units paired with them -/
structure RunOK (r : RunSpec) (pus : List (Plot × (FUnit × String))) : Prop where
  layout : r.layout = .separate
  plots : r.plots = pus.map (·.1)
  resolves : ∃ ms, mfInit r.cfg.mf = .ok ms ∧ Resolves r.cfg ms pus
  units : UnitsOK (pus.map (·.2))

/-- invariant of the world between the steps of a history over the units `us` -/
def WInv (conv : Conv C) (us : List (FUnit × String)) (w : World C) : Prop :=
  ClockInv w ∧ ∀ up ∈ us, UnitInv conv up.1 w.fs

/-- every plot of the run is fresh in `fs'` (the run started in `w0`) -/
def RunFresh (conv : Conv C) (r : RunSpec) (pus : List (Plot × (FUnit × String))) (w0 : World C) (fs' : FS C) : Prop :=
  ∀ x ∈ pus, PlotFresh conv r.cfg r.tpl w0 fs' x.1 x.2

/-- **`run_fresh_partial`.**  For all converters, all option settings (modes of both `Write`s, `overwrite` of both
converters, any `MakeFilename` arguments that resolve to distinct files), all numbers of plots, all data and
templates and all pre-states that satisfy the invariant: a run that starts `SourceClosed` (every existing pdf has
its `.tex` and CSV files on disk) succeeds, yields one value per plot naming its image, leaves every file of every
plot with exactly the content produced from the current data and template, touches no other file, and
re-establishes the invariant. -/
theorem run_fresh_partial (conv : Conv C) (hok : ConvOK conv) (r : RunSpec) (pus : List (Plot × (FUnit × String)))
    (w : World C) (hr : RunOK r pus) (hinv : WInv conv (pus.map (·.2)) w)
    (hsc : ∀ up ∈ pus.map (·.2), SourceClosed up.1 w.fs) :
    ∃ w' vs, runSpec conv w r = .ok (w', vs) ∧
      vs.map (fun v => dataPath v) = pus.map (fun x => x.2.1.png) ∧
      RunFresh conv r pus w w'.fs ∧
      (∀ q, (∀ x ∈ pus, q ∉ x.2.1.paths) → w'.fs q = w.fs q) ∧
      WInv conv (pus.map (·.2)) w' := by
  obtain ⟨hl, hp, ⟨ms, hms, hres⟩, hu⟩ := hr
  obtain ⟨hclk, hinvs⟩ := hinv
  obtain ⟨w', vs, hrun, hdata, hfresh, hframe, hck, _, hinv'⟩ :=
    runPlots_fresh conv r.cfg ms r.tpl hok pus w hres hu hclk
      (fun x hx => ⟨hinvs x.2 (List.mem_map_of_mem hx), hsc x.2 (List.mem_map_of_mem hx)⟩)
  refine ⟨w', vs, ?_, hdata, hfresh, hframe, hck, ?_⟩
  · unfold runSpec runSeparate; rw [hl]; simp only [hms, hp]; exact hrun
  · intro up hup
    obtain ⟨x, hx, rfl⟩ := List.mem_map.mp hup
    exact hinv' x hx

theorem ClockInv.del {w : World C} (h : ClockInv w) (ps : List String) : ClockInv { w with fs := w.fs.del ps } := by
  intro p f hp
  simp only [FS.del] at hp
  split at hp
  · cases hp
  · exact h p f hp

theorem WInv.del {conv : Conv C} {us : List (FUnit × String)} {w : World C} (h : WInv conv us w) (ps : List String) :
    WInv conv us (step conv w (.del ps)) :=
  ⟨h.1.del ps, fun up hup => (h.2 up hup).del ps⟩

/-- along the history every run resolves to the same units `us` and starts `SourceClosed` -/
def SourceClosedHist (conv : Conv C) (us : List (FUnit × String)) : World C → List HStep → Prop
  | _, [] => True
  | w, .del ps :: rest => SourceClosedHist conv us (step conv w (.del ps)) rest
  | w, .run r :: rest =>
    (∃ pus, RunOK r pus ∧ pus.map (·.2) = us) ∧ (∀ up ∈ us, SourceClosed up.1 w.fs) ∧
    SourceClosedHist conv us (step conv w (.run r)) rest

/-- after every run of the history the files of all its plots are fresh -/
def FreshHist (conv : Conv C) : World C → List HStep → Prop
  | _, [] => True
  | w, .del ps :: rest => FreshHist conv (step conv w (.del ps)) rest
  | w, .run r :: rest =>
    (∃ pus vs, RunOK r pus ∧ runSpec conv w r = .ok (step conv w (.run r), vs) ∧
      vs.map (fun v => dataPath v) = pus.map (fun x => x.2.1.png) ∧
      RunFresh conv r pus w (step conv w (.run r)).fs) ∧
    FreshHist conv (step conv w (.run r)) rest

/-- **`history_fresh_partial`.**  For every history of runs (changing data, templates and option settings) and
removals of arbitrary sets of files in which no run starts with a source file missing while its pdf exists: after
every run all files named by the yielded values exist with exactly the content produced from the current data. -/
theorem history_fresh_partial (conv : Conv C) (hok : ConvOK conv) (us : List (FUnit × String)) :
    ∀ (h : List HStep) (w : World C), WInv conv us w → SourceClosedHist conv us w h → FreshHist conv w h := by
  intro h
  induction h with
  | nil => intro _ _ _; trivial
  | cons s rest ih =>
    intro w hinv hsc
    cases s with
    | del ps => exact ih _ (hinv.del ps) hsc
    | run r =>
      obtain ⟨⟨pus, hr, hus⟩, hscw, hrest⟩ := hsc
      subst hus
      obtain ⟨w', vs, hrun, hdata, hfresh, _, hinv'⟩ := run_fresh_partial conv hok r pus w hr hinv hscw
      have hstep : step conv w (.run r) = w' := by simp only [step, hrun]
      refine ⟨⟨pus, vs, hr, by rw [hstep]; exact hrun, hdata, by rw [hstep]; exact hfresh⟩, ?_⟩
      rw [hstep] at hrest ⊢
      exact ih w' hinv' hrest


/-! ## the unrestricted statements are false: the known finding -/

/-- every run of the history resolves to the units `us` (nothing is required about missing files) -/
def ResolvesHist (us : List (FUnit × String)) : List HStep → Prop
  | [] => True
  | .del _ :: rest => ResolvesHist us rest
  | .run r :: rest => (∃ pus, RunOK r pus ∧ pus.map (·.2) = us) ∧ ResolvesHist us rest

/-- **The full statement of the property about runs** (`run_fresh_partial` without `SourceClosed`).  It is false:
`run_fresh_full_fails`. -/
def run_fresh_full : Prop :=
  ∀ (C : Type) [DecidableEq C] (conv : Conv C), ConvOK conv →
    ∀ (r : RunSpec) (pus : List (Plot × (FUnit × String))) (w : World C),
      RunOK r pus → WInv conv (pus.map (·.2)) w →
      ∃ w' vs, runSpec conv w r = .ok (w', vs) ∧ RunFresh conv r pus w w'.fs

/-- **The full statement of the property about histories** (`history_fresh_partial` for *all* histories of runs
and removals of files).  It is false: `history_fresh_full_fails`. -/
def history_fresh_full : Prop :=
  ∀ (C : Type) [DecidableEq C] (conv : Conv C), ConvOK conv →
    ∀ (us : List (FUnit × String)) (h : List HStep) (w : World C),
      WInv conv us w → ResolvesHist us h → FreshHist conv w h

namespace Witness

def cfg : Cfg :=
  { outdir := "out", w1 := .normal, w2 := .normal, lo := false, po := false,
    mf := { filename := some [.var] }, gmf := { filename := some [.lit "combined"] } }

def ms : List (MFKey × Tpl) := [(.filename, [.var])]

/-- a run of the standard pipeline on one plot `p0` with data `d` -/
def run (d : Nat) : RunSpec := { cfg := cfg, layout := .separate, tpl := 1, plots := [⟨some "p0", d⟩] }

def unit : FUnit := ⟨["out/p0.csv"], "out/p0.tex", "out/p0.pdf", "out/p0.png"⟩

/-- run with data 1; remove the CSV file; run with data 2 -/
def history : List HStep := [.run (run 1), .del ["out/p0.csv"], .run (run 2)]

/-- the world in which the last run starts -/
def before : World Content := exec stubConv World.init [.run (run 1), .del ["out/p0.csv"]]

end Witness

deriving instance DecidableEq for FUnit
deriving instance DecidableEq for Except

theorem witness_mfInit : mfInit Witness.cfg.mf = .ok Witness.ms := by decide +kernel

theorem witness_unit (d : Nat) : plotUnit Witness.cfg Witness.ms ⟨some "p0", d⟩ = .ok (Witness.unit, "out/p0.csv") := by
  have : plotUnit Witness.cfg Witness.ms ⟨some "p0", 0⟩ = .ok (Witness.unit, "out/p0.csv") := by decide +kernel
  exact this

theorem witness_runOK (d : Nat) : RunOK (Witness.run d) [(⟨some "p0", d⟩, (Witness.unit, "out/p0.csv"))] where
  layout := rfl
  plots := rfl
  resolves := ⟨Witness.ms, witness_mfInit, fun x hx => by
    simp only [List.mem_singleton] at hx; subst hx; exact witness_unit d⟩
  units := ⟨fun up hup => by
    simp only [List.map_cons, List.map_nil, List.mem_singleton] at hup; subst hup
    unfold FUnit.Distinct Witness.unit; decide +kernel, by simp⟩

theorem stubConv_ok : ConvOK stubConv := fun _ _ => rfl

theorem effective_normal (old : Option (File C)) (new : C) : effective .normal old new = new := by
  cases old <;> rfl

/-- the witness: after `run 1; remove out/p0.csv; run 2` the pdf is the one rendered from data 1 -/
theorem witness_stale :
    ((exec stubConv World.init Witness.history).fs "out/p0.pdf").map (·.content)
      = some (.pdf (.tex 1 ["out/p0.csv"]) (.cons (.csv 1) .nil)) := by decide +kernel

theorem witness_csv_current :
    ((exec stubConv World.init Witness.history).fs "out/p0.csv").map (·.content) = some (.csv 2) := by decide +kernel

/-- a pair list whose plots are `[pl]` and whose units resolve is `[(pl, up)]` -/
theorem runOK_singleton {r : RunSpec} {pus : List (Plot × (FUnit × String))} {pl : Plot} {up : FUnit × String}
    {ms : List (MFKey × Tpl)} (h : RunOK r pus) (hp : r.plots = [pl]) (hms : mfInit r.cfg.mf = .ok ms)
    (hu : plotUnit r.cfg ms pl = .ok up) : pus = [(pl, up)] := by
  obtain ⟨_, hplots, ⟨ms', hms', hres⟩, _⟩ := h
  rw [hms] at hms'; cases hms'
  rw [hp] at hplots
  match pus, hplots, hres with
  | [x], hplots, hres =>
    simp only [List.map_cons, List.map_nil, List.cons.injEq, and_true] at hplots
    have := hres x (by simp)
    rw [← hplots, hu] at this
    cases this
    cases x; simp_all

/-- **`history_fresh_full_fails`: the full statement is false.**  Witness (the replay of the known finding): the
standard pipeline on one plot; run with data 1, remove `out/p0.csv`, run with data 2.  The second run re-creates
the CSV file, `Write` leaves `output.changed` unset, the second `Write` turns "unset" into `False`, both converters
skip: `out/p0.pdf` still shows data 1. -/
theorem history_fresh_full_fails : ¬ history_fresh_full := by
  intro hfull
  have h := hfull Content stubConv stubConv_ok [(Witness.unit, "out/p0.csv")] Witness.history World.init
    ⟨fun p f hp => by simp [World.init, FS.empty] at hp, fun up _ => UnitInv.empty _ _⟩
    ⟨⟨_, witness_runOK 1, rfl⟩, ⟨_, witness_runOK 2, rfl⟩, trivial⟩
  -- unfold to the last run
  obtain ⟨_, h2⟩ := h
  obtain ⟨⟨pus, vs, hr, _, _, hfresh⟩, _⟩ := h2
  have hpus := runOK_singleton hr rfl witness_mfInit (witness_unit 2)
  subst hpus
  have hf := hfresh _ (List.mem_singleton.mpr rfl)
  obtain ⟨_, _, ⟨pf, hpf, hpc⟩, _⟩ := hf
  have hst := witness_stale
  have hfs : (exec stubConv World.init Witness.history).fs "out/p0.pdf" = some pf := hpf
  rw [hfs] at hst
  simp only [Option.map_some, Option.some.injEq] at hst
  rw [hst] at hpc
  simp only [effective_normal] at hpc
  exact absurd hpc (by decide)


theorem WInv.exec {conv : Conv C} (hok : ConvOK conv) {us : List (FUnit × String)} :
    ∀ (h : List HStep) (w : World C), WInv conv us w → SourceClosedHist conv us w h → WInv conv us (exec conv w h) := by
  intro h
  induction h with
  | nil => intro w hinv _; exact hinv
  | cons s rest ih =>
    intro w hinv hsc
    cases s with
    | del ps => exact ih _ (hinv.del ps) hsc
    | run r =>
      obtain ⟨⟨pus, hr, hus⟩, hscw, hrest⟩ := hsc
      subst hus
      obtain ⟨w', vs, hrun, _, _, _, hinv'⟩ := run_fresh_partial conv hok r pus w hr hinv hscw
      have hstep : step conv w (.run r) = w' := by simp only [step, hrun]
      unfold Lena.C19.exec
      rw [List.foldl_cons, hstep]
      rw [hstep] at hrest
      exact ih w' hinv' hrest

/-- **`run_fresh_full_fails`**: the full statement about one run is false — the world reached by `run 1; remove
out/p0.csv` satisfies the invariant, and the run with data 2 from it leaves the pdf stale. -/
theorem run_fresh_full_fails : ¬ run_fresh_full := by
  intro hfull
  have hinit : WInv stubConv [(Witness.unit, "out/p0.csv")] (World.init : World Content) :=
    ⟨fun p f hp => by simp [World.init, FS.empty] at hp, fun up _ => UnitInv.empty _ _⟩
  have hinv : WInv stubConv [(Witness.unit, "out/p0.csv")] Witness.before :=
    WInv.exec stubConv_ok _ _ hinit
      ⟨⟨_, witness_runOK 1, rfl⟩, fun up _ h => by simp [World.init, FS.empty] at h, trivial⟩
  obtain ⟨w', vs, hrun, hfresh⟩ := hfull Content stubConv stubConv_ok (Witness.run 2) _ Witness.before (witness_runOK 2) hinv
  have hw' : exec stubConv World.init Witness.history = w' := by
    have : exec stubConv World.init Witness.history = step stubConv Witness.before (.run (Witness.run 2)) := rfl
    rw [this]; simp only [step, hrun]
  have hf := hfresh _ (List.mem_singleton.mpr rfl)
  obtain ⟨_, _, ⟨pf, hpf, hpc⟩, _⟩ := hf
  have hst := witness_stale
  rw [hw'] at hst
  have hfs : w'.fs "out/p0.pdf" = some pf := hpf
  rw [hfs] at hst
  simp only [Option.map_some, Option.some.injEq] at hst
  rw [hst] at hpc
  simp only [effective_normal] at hpc
  exact absurd hpc (by decide)


/-! ## nothing unchanged is redone -/

/-- the files of a plot are *settled* for the inputs of a run: the two source files exist and hold the current
texts (or the `Write` that owns them does not look: `existing_unchanged`), the pdf and the image exist -/
def Settled (conv : Conv C) (cfg : Cfg) (tpl : Nat) (fs : FS C) (pl : Plot) (up : FUnit × String) : Prop :=
  (∃ f, fs up.2 = some f ∧ (cfg.w1 = .existingUnchanged ∨ f.content = conv.csvOf pl.data)) ∧
  (∃ f, fs up.1.tex = some f ∧ (cfg.w2 = .existingUnchanged ∨ f.content = conv.texOf tpl [up.2])) ∧
  (fs up.1.pdf).isSome ∧ (fs up.1.png).isSome

theorem writeCore_noop (mode : WMode) (p : String) (c : C) (w : World C) (chg : Option Bool) (f : File C)
    (hf : w.fs p = some f) (hm : mode ≠ .overwrite) (hc : mode = .existingUnchanged ∨ f.content = c) :
    writeCore mode p c w chg = (w, some (chg.getD false)) := by
  unfold writeCore
  rw [hf]
  cases mode with
  | overwrite => exact absurd rfl hm
  | existingUnchanged => rfl
  | normal =>
    rcases hc with h | h
    · cases h
    · simp [h]

/-- a settled plot is left alone: no file written, no converter launched, `output.changed = False` -/
theorem sepCore_noop (conv : Conv C) (m1 m2 : WMode) (u : FUnit) (pc : String) (ncsv ntex : C) (w : World C)
    (fc ft : File C) (hm1 : m1 ≠ .overwrite) (hm2 : m2 ≠ .overwrite)
    (hc : w.fs pc = some fc) (hcc : m1 = .existingUnchanged ∨ fc.content = ncsv)
    (ht : w.fs u.tex = some ft) (htc : m2 = .existingUnchanged ∨ ft.content = ntex)
    (hp : (w.fs u.pdf).isSome) (hg : (w.fs u.png).isSome) :
    sepCore conv m1 m2 false false u pc ncsv ntex w = .ok (w, some false) := by
  unfold sepCore downCore
  rw [writeCore_noop m1 pc ncsv w none fc hc hm1 hcc]
  simp only [Option.getD_none]
  rw [writeCore_noop m2 u.tex ntex w (some false) ft ht hm2 htc]
  simp only [Option.getD_some]
  unfold convCore
  rw [latexCore_skip conv u.tex u.pdf w hp]
  simp only
  rw [pngCore_skip conv u.pdf u.png w hg]

theorem runPlots_noop (conv : Conv C) (cfg : Cfg) (ms : List (MFKey × Tpl)) (tpl : Nat)
    (hm1 : cfg.w1 ≠ .overwrite) (hm2 : cfg.w2 ≠ .overwrite) (hlo : cfg.lo = false) (hpo : cfg.po = false) :
    ∀ (pus : List (Plot × (FUnit × String))) (w : World C),
      Resolves cfg ms pus → (∀ x ∈ pus, Settled conv cfg tpl w.fs x.1 x.2) →
      ∃ vs, runPlots conv cfg ms tpl w (pus.map (·.1)) = .ok (w, vs) ∧
        vs.map (fun v => dataPath v) = pus.map (fun x => x.2.1.png) ∧ ∀ v ∈ vs, v.out.changed = some false := by
  intro pus
  induction pus with
  | nil => intro w _ _; exact ⟨[], rfl, rfl, fun _ h => by cases h⟩
  | cons x pus ih =>
    intro w hres hall
    obtain ⟨⟨fc, hc, hcc⟩, ⟨ft, ht, htc⟩, hp, hg⟩ := hall x (by simp)
    have hs : sepCore conv cfg.w1 cfg.w2 cfg.lo cfg.po x.2.1 x.2.2 (conv.csvOf x.1.data) (conv.texOf tpl [x.2.2]) w
        = .ok (w, some false) := by
      rw [hlo, hpo]
      exact sepCore_noop conv cfg.w1 cfg.w2 x.2.1 x.2.2 (conv.csvOf x.1.data) (conv.texOf tpl [x.2.2]) w fc ft
        hm1 hm2 hc hcc ht htc hp hg
    obtain ⟨ov, hr, _, hv⟩ := runPlot_eq_sepCore conv cfg ms tpl w x.1 x.2.1 x.2.2 (hres x (by simp)) w (some false) hs
    obtain ⟨v, hov, hdata, hchg, _⟩ := hv false rfl
    subst hov
    obtain ⟨vs, hrs, hdatas, hchgs⟩ := ih w (fun y hy => hres y (by simp [hy])) (fun y hy => hall y (by simp [hy]))
    refine ⟨v :: vs, ?_, ?_, ?_⟩
    · simp only [List.map_cons]; unfold runPlots; rw [hr]; simp only; rw [hrs]; rfl
    · rw [List.map_cons, List.map_cons, hdatas]; simp only [dataPath, hdata]
    · intro v' hv'
      simp only [List.mem_cons] at hv'
      rcases hv' with h | h
      · subst h; exact hchg
      · exact hchgs v' h

theorem effective_settled (mode : WMode) (old : Option (File C)) (new : C) (f : File C) (hm : mode ≠ .overwrite)
    (hf : f.content = effective mode old new) : mode = .existingUnchanged ∨ f.content = new := by
  cases mode with
  | overwrite => exact absurd rfl hm
  | existingUnchanged => exact .inl rfl
  | normal => right; rw [hf]; exact effective_normal old new

theorem PlotFresh.settled {conv : Conv C} {cfg : Cfg} {tpl : Nat} {w0 : World C} {fs' : FS C} {pl : Plot}
    {up : FUnit × String} (h : PlotFresh conv cfg tpl w0 fs' pl up) (hcs : up.1.csvs = [up.2])
    (hm1 : cfg.w1 ≠ .overwrite) (hm2 : cfg.w2 ≠ .overwrite) : Settled conv cfg tpl fs' pl up := by
  obtain ⟨hc, ⟨tf, htf, htc⟩, ⟨pf, hpf, _⟩, ⟨gf, hgf, _⟩⟩ := h
  rw [hcs] at hc
  simp only [depContents, List.map_cons, List.map_nil, List.cons.injEq, and_true] at hc
  cases hcf : fs' up.2 with
  | none => rw [hcf] at hc; cases hc
  | some cf =>
    rw [hcf] at hc
    simp only [Option.map_some, Option.some.injEq] at hc
    exact ⟨⟨cf, hcf, effective_settled _ _ _ cf hm1 hc⟩, ⟨tf, htf, effective_settled _ _ _ tf hm2 htc⟩,
      by simp [hpf], by simp [hgf]⟩

/-- **`idle_run_is_noop`.**  For every run that starts `SourceClosed` in a world satisfying the invariant, with any
number of plots, any data and template, and any option setting without `overwrite`: running the same pipeline
again on the same inputs with nothing deleted leaves the world *identical* — no file is written, no converter is
launched (the log and the clock do not move) — and every yielded value has `output.changed = False`. -/
theorem idle_run_is_noop (conv : Conv C) (hok : ConvOK conv) (r : RunSpec) (pus : List (Plot × (FUnit × String)))
    (w : World C) (hr : RunOK r pus) (hinv : WInv conv (pus.map (·.2)) w)
    (hsc : ∀ up ∈ pus.map (·.2), SourceClosed up.1 w.fs)
    (hm1 : r.cfg.w1 ≠ .overwrite) (hm2 : r.cfg.w2 ≠ .overwrite) (hlo : r.cfg.lo = false) (hpo : r.cfg.po = false) :
    ∃ w' vs vs', runSpec conv w r = .ok (w', vs) ∧ runSpec conv w' r = .ok (w', vs') ∧
      vs'.map (fun v => dataPath v) = pus.map (fun x => x.2.1.png) ∧ ∀ v ∈ vs', v.out.changed = some false := by
  obtain ⟨w', vs, hrun, _, hfresh, _, _⟩ := run_fresh_partial conv hok r pus w hr hinv hsc
  obtain ⟨hl, hp, ⟨ms, hms, hres⟩, hu⟩ := hr
  obtain ⟨vs', hrun', hdata', hchg'⟩ := runPlots_noop conv r.cfg ms r.tpl hm1 hm2 hlo hpo pus w' hres
    (fun x hx => (hfresh x hx).settled (plotUnit_csvs (hres x hx)) hm1 hm2)
  refine ⟨w', vs, vs', hrun, ?_, hdata', hchg'⟩
  unfold runSpec runSeparate; rw [hl]; simp only [hms, hp]; exact hrun'

/-- **nothing unchanged is redone**, in general: whenever all plots of a run are settled (whatever the history
that led there) and no `overwrite` option is set, the run leaves the world identical. -/
theorem settled_run_is_noop (conv : Conv C) (r : RunSpec) (pus : List (Plot × (FUnit × String))) (w : World C)
    (hr : RunOK r pus) (hset : ∀ x ∈ pus, Settled conv r.cfg r.tpl w.fs x.1 x.2)
    (hm1 : r.cfg.w1 ≠ .overwrite) (hm2 : r.cfg.w2 ≠ .overwrite) (hlo : r.cfg.lo = false) (hpo : r.cfg.po = false) :
    ∃ vs, runSpec conv w r = .ok (w, vs) ∧ ∀ v ∈ vs, v.out.changed = some false := by
  obtain ⟨hl, hp, ⟨ms, hms, hres⟩, _⟩ := hr
  obtain ⟨vs, hrun, _, hchg⟩ := runPlots_noop conv r.cfg ms r.tpl hm1 hm2 hlo hpo pus w hres hset
  refine ⟨vs, ?_, hchg⟩
  unfold runSpec runSeparate; rw [hl]; simp only [hms, hp]; exact hrun


/-! ## `output.changed` is true whenever a file's content changed and stays true downstream -/

/-- `Write` never turns `True` into anything else (all modes, all states of the file) -/
theorem writeCore_sticky (mode : WMode) (p : String) (c : C) (w : World C) :
    (writeCore mode p c w (some true)).2 = some true := by
  unfold writeCore
  cases w.fs p with
  | none => rfl
  | some f => cases mode <;> simp only [Option.getD_some] <;> (try split) <;> rfl

/-- `Write`: if the content of an existing file changed, `output.changed` is true -/
theorem writeCore_changed_content (mode : WMode) (p : String) (c : C) (w : World C) (chg : Option Bool) (f f' : File C)
    (hf : w.fs p = some f) (hf' : (writeCore mode p c w chg).1.fs p = some f') (hne : f'.content ≠ f.content) :
    (writeCore mode p c w chg).2 = some true := by
  rcases writeCore_cases mode p c w chg with h | ⟨heq, _⟩ | ⟨hnone, _⟩
  · exact h
  · rw [heq] at hf'; rw [hf] at hf'; cases hf'; exact absurd rfl hne
  · rw [hnone] at hf; cases hf

/-- `LaTeXToPDF`: an incoming `True` always launches the command and stays `True` -/
theorem latexCore_sticky (conv : Conv C) (lo : Bool) (texP pdfP : String) (w : World C) :
    ∃ w' y, latexCore conv lo texP pdfP w (some true) = .ok (w', true, y) ∧ Event.latex texP ∈ w'.log := by
  cases ht : w.fs texP with
  | none =>
    refine ⟨w.note (.latex texP), false, ?_, by simp [World.note]⟩
    unfold latexCore; simp [ht]
  | some tf =>
    exact ⟨_, true, latexCore_launch conv lo texP pdfP w (some true) tf ht (.inl rfl), by simp [World.put]⟩

/-- `PDFToPNG`: an incoming `True` always launches the command and stays `True` -/
theorem pngCore_sticky (conv : Conv C) (po : Bool) (pdfP pngP : String) (w : World C) :
    (pngCore conv po pdfP pngP w (some true)).2 = true ∧
      Event.topng pdfP ∈ (pngCore conv po pdfP pngP w (some true)).1.log ∧
      ∀ e ∈ w.log, e ∈ (pngCore conv po pdfP pngP w (some true)).1.log := by
  unfold pngCore
  cases w.fs pdfP <;> simp [World.note, World.put] <;> intro e he <;> exact .inl he

/-- **`changed_sticky`.**  For every option setting and every state of the files: if the value that reaches the
second `Write` carries `output.changed = True` (the first `Write` rewrote the CSV file), then the `.tex` stage,
the pdf stage and the image stage all hand on `True`: the LaTeX command and `pdftoppm` are launched and the
yielded value (if the command succeeds) has `output.changed = True`. -/
theorem changed_sticky (conv : Conv C) (m2 : WMode) (lo po : Bool) (u : FUnit) (ntex : C) (w : World C) :
    ∃ w' oc, downCore conv m2 lo po u ntex w (some true) = .ok (w', oc) ∧ (oc = none ∨ oc = some true) ∧
      Event.latex u.tex ∈ w'.log ∧ (oc = some true → Event.topng u.pdf ∈ w'.log) := by
  unfold downCore
  simp only
  rw [writeCore_sticky m2 u.tex ntex w]
  unfold convCore
  obtain ⟨w3, y, hl, hlog⟩ := latexCore_sticky conv lo u.tex u.pdf (writeCore m2 u.tex ntex w (some true)).1
  rw [hl]
  cases y with
  | false => exact ⟨_, _, rfl, .inl rfl, hlog, fun h => by cases h⟩
  | true =>
    have hp := pngCore_sticky conv po u.pdf u.png w3
    exact ⟨_, _, rfl, .inr (by rw [hp.1]), hp.2.2 _ hlog, fun _ => hp.2.1⟩

/-- the first `Write`: a rewritten CSV file (its content changed) makes the whole plot `changed`: the pdf and the
image are regenerated and the yielded value says `True` -/
theorem changed_sticky_plot (conv : Conv C) (m1 m2 : WMode) (lo po : Bool) (u : FUnit) (pc : String) (ncsv ntex : C)
    (w : World C) (f f' : File C) (hf : w.fs pc = some f)
    (hf' : (writeCore m1 pc ncsv w none).1.fs pc = some f') (hne : f'.content ≠ f.content) :
    ∃ w' oc, sepCore conv m1 m2 lo po u pc ncsv ntex w = .ok (w', oc) ∧ (oc = none ∨ oc = some true) ∧
      Event.latex u.tex ∈ w'.log ∧ (oc = some true → Event.topng u.pdf ∈ w'.log) := by
  unfold sepCore
  simp only
  rw [writeCore_changed_content m1 pc ncsv w none f f' hf hf' hne]
  exact changed_sticky conv m2 lo po u ntex _

/-- the mechanism of the known finding: a file that did **not** exist is created and `output.changed` is left as
it came (`tests/output/test_write.py::test_write_writes` pins this) -/
theorem writeCore_created_leaves_changed (mode : WMode) (p : String) (c : C) (w : World C) (chg : Option Bool)
    (h : w.fs p = none) : (writeCore mode p c w chg).2 = chg := by
  unfold writeCore; rw [h]


/-! ## `MakeFilename` and `Write._make_filename`: the naming rules -/

theorem mfStep_keeps (name : Option String) (o : OutCtx) (m : MFKey × Tpl) :
    (o.filename.isSome → (mfStep false name o m).1.filename = o.filename) ∧
    (o.dirname.isSome → (mfStep false name o m).1.dirname = o.dirname) ∧
    (o.fileext.isSome → (mfStep false name o m).1.fileext = o.fileext) := by
  obtain ⟨k, t⟩ := m
  refine ⟨?_, ?_, ?_⟩ <;> intro h <;> cases k <;> simp only [mfStep, h, Bool.not_false, Bool.and_self, Bool.false_and,
    Bool.true_and, if_true] <;> (repeat' split) <;> first | rfl | simp_all

theorem mfCall_foldl_keeps (name : Option String) (ms : List (MFKey × Tpl)) :
    ∀ (acc : OutCtx × Bool),
      let r := ms.foldl (fun acc m => let r := mfStep false name acc.1 m; (r.1, acc.2 || r.2)) acc
      (acc.1.filename.isSome → r.1.filename = acc.1.filename) ∧
      (acc.1.dirname.isSome → r.1.dirname = acc.1.dirname) ∧
      (acc.1.fileext.isSome → r.1.fileext = acc.1.fileext) := by
  induction ms with
  | nil => intro acc; exact ⟨fun _ => rfl, fun _ => rfl, fun _ => rfl⟩
  | cons m rest ih =>
    intro acc
    simp only [List.foldl_cons]
    obtain ⟨k1, k2, k3⟩ := mfStep_keeps name acc.1 m
    obtain ⟨i1, i2, i3⟩ := ih ((mfStep false name acc.1 m).1, acc.2 || (mfStep false name acc.1 m).2)
    simp only at i1 i2 i3
    refine ⟨fun h => ?_, fun h => ?_, fun h => ?_⟩
    · rw [i1 (by rw [k1 h]; exact h), k1 h]
    · rw [i2 (by rw [k2 h]; exact h), k2 h]
    · rw [i3 (by rw [k3 h]; exact h), k3 h]

/-- **`MakeFilename` never replaces an existing name unless `overwrite` is set**: for every list of methods, every
`name` and every incoming context, an existing `output.filename` / `dirname` / `fileext` is kept. -/
theorem makefilename_keeps_existing (ms : List (MFKey × Tpl)) (name : Option String) (o : OutCtx) :
    (o.filename.isSome → (mfCall false ms name o).1.filename = o.filename) ∧
    (o.dirname.isSome → (mfCall false ms name o).1.dirname = o.dirname) ∧
    (o.fileext.isSome → (mfCall false ms name o).1.fileext = o.fileext) :=
  mfCall_foldl_keeps name ms (o, false)

/-- **prefix and suffix are applied exactly once and consumed**: `MakeFilename(filename=tpl)` on a value without
a file name creates `prefix + name + suffix` from `output.prefix` / `output.suffix` and leaves no (non-empty)
prefix or suffix behind — so a later `MakeFilename` cannot apply them again. -/
theorem makefilename_prefix_suffix_once (ow : Bool) (tpl : Tpl) (name : Option String) (o : OutCtx) (r : String)
    (hf : fmt tpl name = some r) (hno : o.filename = none ∨ ow = true) :
    let o' := (mfCall ow [(.filename, tpl)] name o).1
    o'.filename = some (o.pfx.getD "" ++ r ++ o.sfx.getD "") ∧ truthy o'.pfx = false ∧ truthy o'.sfx = false ∧
    o'.dirname = o.dirname ∧ o'.fileext = o.fileext := by
  obtain ⟨fnm, dn, fe, ft, px, sx, fp, ch⟩ := o
  have hp : (fnm.isSome && !ow) = false := by
    rcases hno with h | h
    · simp only at h; simp [h]
    · simp [h]
  simp only [mfCall, List.foldl_cons, List.foldl_nil, mfStep, hp, hf]
  cases px with
  | none => cases sx with
    | none => simp [truthy]
    | some s => by_cases hs : s = "" <;> simp [truthy, hs]
  | some p => cases sx with
    | none => by_cases hp' : p = "" <;> simp [truthy, hp']
    | some s => by_cases hp' : p = "" <;> by_cases hs : s = "" <;> simp [truthy, hp', hs]

/-- once the name was made, a second name-making `MakeFilename` (even with `overwrite`) gets no prefix or suffix -/
theorem makefilename_second_has_no_prefix (ow ow2 : Bool) (tpl tpl2 : Tpl) (name : Option String) (o : OutCtx) (r r2 : String)
    (hf : fmt tpl name = some r) (hf2 : fmt tpl2 name = some r2) (hno : o.filename = none ∨ ow = true) :
    (mfCall ow2 [(.filename, tpl2)] name (mfCall ow [(.filename, tpl)] name o).1).1.filename
      = if ow2 then some r2 else some (o.pfx.getD "" ++ r ++ o.sfx.getD "") := by
  obtain ⟨h1, h2, h3, _, _⟩ := makefilename_prefix_suffix_once ow tpl name o r hf hno
  cases ow2 with
  | false =>
    have := (makefilename_keeps_existing [(.filename, tpl2)] name (mfCall ow [(.filename, tpl)] name o).1).1 (by rw [h1]; rfl)
    rw [this, h1]; rfl
  | true =>
    obtain ⟨g1, _⟩ := makefilename_prefix_suffix_once true tpl2 name (mfCall ow [(.filename, tpl)] name o).1 r2 hf2 (.inr rfl)
    rw [g1]
    have e1 : (mfCall ow [(.filename, tpl)] name o).1.pfx.getD "" = "" := by
      revert h2; unfold truthy; cases (mfCall ow [(.filename, tpl)] name o).1.pfx <;> simp
    have e2 : (mfCall ow [(.filename, tpl)] name o).1.sfx.getD "" = "" := by
      revert h3; unfold truthy; cases (mfCall ow [(.filename, tpl)] name o).1.sfx <;> simp
    rw [e1, e2]; simp

/-- `MakeFilename(prefix=…)`: the new prefix goes before an existing one, a new suffix after an existing one -/
theorem makefilename_prefix_accumulates (tpl : Tpl) (name : Option String) (o : OutCtx) (r : String)
    (hf : fmt tpl name = some r) :
    (mfCall false [(.pfx, tpl)] name o).1.pfx = some (r ++ o.pfx.getD "") ∧
    (mfCall false [(.sfx, tpl)] name o).1.sfx = some (o.sfx.getD "" ++ r) := by
  obtain ⟨fnm, dn, fe, ft, px, sx, fp, ch⟩ := o
  simp only [mfCall, List.foldl_cons, List.foldl_nil, mfStep, hf]
  constructor
  · cases px with
    | none => simp [truthy]
    | some p => by_cases hp : p = "" <;> simp [truthy, hp]
  · cases sx with
    | none => simp [truthy]
    | some p => by_cases hp : p = "" <;> simp [truthy, hp]

/-- `MakeFilename.__init__`: `filename` together with `prefix` or `suffix`, or no argument at all, is a
`LenaTypeError` -/
theorem makefilename_init_rules (a : MFArgs) :
    ((a.filename.isSome ∧ (a.pfx.isSome ∨ a.sfx.isSome)) → mfInit a = .error .lenaTypeError) ∧
    ((a.filename = none ∧ a.dirname = none ∧ a.fileext = none ∧ a.pfx = none ∧ a.sfx = none) →
      mfInit a = .error .lenaTypeError) := by
  constructor
  · rintro ⟨h1, h2⟩
    unfold mfInit
    rcases h2 with h2 | h2 <;> simp [h1, h2]
  · rintro ⟨h1, h2, h3, h4, h5⟩
    unfold mfInit
    simp [h1, h2, h3, h4, h5]

/-- **`Write._make_filename`: the file is `output_directory/dirname/filename.fileext`** for relative names
(absolute ones lose their leading separator with a warning) -/
theorem write_path_rule (outdir : String) (dn fn fe : String) (ft : Option String)
    (hdn : isAbs dn = false) (hfn : isAbs (fn ++ "." ++ fe) = false) (hne : fn ≠ "") (hfe : fe ≠ "") :
    wmfCore outdir "output" (some dn) (some fn) (some fe) ft
      = .ok (dn, fn, fe, pjoin (pjoin outdir dn) (fn ++ "." ++ fe)) := by
  have h2 : (fe != "") = true := by simp [hfe]
  simp [wmfCore, hne, normPath, hdn, hfn, h2]

/-- **every file named by a value yielded by `Write` exists at that path with the written content** (all modes):
the value names `filepath`, `output.filename/fileext/filepath` are set, and the file holds the text (an
`existing_unchanged` Write keeps an existing file). -/
theorem write_file_at_path (conv : Conv C) (outdir : String) (mode : WMode) (w : World C) (v : Val C) (c : C)
    (d fn fe p : String) (hd : v.data = .text c)
    (hn : wmfCore outdir "output" v.out.dirname v.out.filename v.out.fileext v.out.filetype = .ok (d, fn, fe, p)) :
    ∃ w' v', writeVal conv outdir mode w v = .ok (w', v') ∧ v'.data = .path p ∧
      v'.out.filename = some fn ∧ v'.out.fileext = some fe ∧ v'.out.filepath = some p ∧
      HasContent w'.fs p (effective mode (w.fs p) c) ∧ (∀ q, q ≠ p → w'.fs q = w.fs q) :=
  ⟨_, _, writeVal_text conv outdir mode w v c d fn fe p hd hn, rfl, rfl, rfl, rfl,
    writeCore_content mode p c w v.out.changed, fun _ h => writeCore_frame mode p c w v.out.changed h⟩

/-- an empty `output.filename` is a `LenaRuntimeError` -/
theorem write_empty_filename (outdir : String) (dn fe ft : Option String) :
    wmfCore outdir "output" dn (some "") fe ft = .error .lenaRuntimeError := by
  simp [wmfCore]


/-! ## groups: `group_plots`, `_update_with_group` -/

theorem allEq_some {α : Type} [DecidableEq α] {l : List (Option α)} {v : α} (h : allEq l = some v) :
    ∀ x ∈ l, x = some v := by
  cases l with
  | nil => simp [allEq] at h
  | cons a rest =>
    simp only [allEq] at h
    by_cases hall : (rest.all (· == a)) = true
    · rw [if_pos hall] at h
      subst h
      intro x hx
      simp only [List.mem_cons] at hx
      rcases hx with rfl | hx
      · rfl
      · have := List.all_eq_true.mp hall x hx
        simpa using this
    · rw [if_neg hall] at h; cases h

/-- `group_plots`: the group is changed iff some member is -/
theorem groupPlotsChanged_iff (ms : List (Option Bool)) : groupPlotsChanged ms = true ↔ some true ∈ ms := by
  unfold groupPlotsChanged
  rw [List.any_eq_true]
  constructor
  · rintro ⟨m, hm, h⟩
    cases m with
    | none => simp at h
    | some b => cases b <;> simp_all
  · intro h; exact ⟨some true, h, rfl⟩

/-- `_update_with_group`, the three-valued combination: true if any is true, else false if any is known to be
false, else unknown -/
theorem combineChanged_spec (c : Option Bool) (ms : List (Option Bool)) :
    (some true ∈ c :: ms → combineChanged c ms = some true) ∧
    (some true ∉ c :: ms → some false ∈ c :: ms → combineChanged c ms = some false) ∧
    ((∀ x ∈ c :: ms, x = none) → combineChanged c ms = none) := by
  unfold combineChanged
  refine ⟨fun h => ?_, fun h1 h2 => ?_, fun h => ?_⟩
  · have : (c :: ms).any (· == some true) = true := List.any_eq_true.mpr ⟨_, h, by simp⟩
    simp only [this, if_true]
  · have : (c :: ms).any (· == some true) = false := by
      rw [List.any_eq_false]; intro x hx hxe; simp at hxe; subst hxe; exact h1 hx
    simp only [this, Bool.false_eq_true, if_false]
    rw [if_pos (List.contains_iff_mem.mpr h2)]
  · have h1 : (c :: ms).any (· == some true) = false := by
      rw [List.any_eq_false]; intro x hx hxe; simp at hxe; subst hxe; cases h _ hx
    have h2 : (c :: ms).contains (some false) = false := by
      rw [← Bool.not_eq_true, List.contains_iff_mem]; intro hm; cases h _ hm
    simp only [h1, h2, Bool.false_eq_true, if_false]

/-- **`output.changed` stays true through `MapGroup`**: if a member of the group was rewritten
(`output.changed = True`), the group's `output.changed` is `True` after `_update_with_group` — whatever the
group's own flag, the other members and the previous common context are. -/
theorem group_changed_sticky (o : OutCtx) (newOuts : List OutCtx) (oldInter : OutCtx)
    (h : ∃ x ∈ newOuts, x.changed = some true) : (updateWithGroup o newOuts oldInter).changed = some true := by
  obtain ⟨x, hx, hxc⟩ := h
  have hmem : some true ∈ newOuts.map (·.changed) := List.mem_map.mpr ⟨x, hx, hxc⟩
  have hc := (combineChanged_spec o.changed (newOuts.map (·.changed))).1 (List.mem_cons_of_mem _ hmem)
  unfold updateWithGroup
  simp only [hc, updOut, diffOut, interOut, updSlot, diffSlot]
  split
  next v hv =>
    by_cases hcond : allEq (newOuts.map (·.changed)) = oldInter.changed
    · simp only [hcond, ↓reduceIte] at hv; cases hv
    · simp only [hcond, ↓reduceIte] at hv
      have := allEq_some hv (some true) hmem
      cases this; rfl
  · rfl

/-- the group's own `True` can be reset when *all* members say `False` (their common `output.changed = False`
overwrites it, lines 98-103).  Not reachable in the pipelines: no lena element turns a member's `True` into
`False`, and the group's flag comes from its members. -/
example : (updateWithGroup { changed := some true } [{ changed := some false }] {}).changed = some false := by decide

/-- in a pipeline the group value starts with `output.changed = False` (`group_plots` of fresh values): after
`MapGroup` it is `True` iff a member was rewritten — never unknown -/
theorem group_changed_after_mapgroup (newOuts : List OutCtx) (oldInter : OutCtx) (hold : oldInter.changed = none) :
    (updateWithGroup { changed := some false } newOuts oldInter).changed
      = some (newOuts.any (·.changed == some true)) := by
  by_cases hany : ∃ x ∈ newOuts, x.changed = some true
  · rw [group_changed_sticky _ _ _ hany]
    obtain ⟨x, hx, hxc⟩ := hany
    have : newOuts.any (·.changed == some true) = true := List.any_eq_true.mpr ⟨x, hx, by simp [hxc]⟩
    rw [this]
  · have hnone : some true ∉ (some false :: newOuts.map (·.changed)) := by
      intro hm
      simp only [List.mem_cons, List.mem_map] at hm
      rcases hm with hm | ⟨x, hx, hxc⟩
      · cases hm
      · exact hany ⟨x, hx, hxc⟩
    have hc := (combineChanged_spec (some false) (newOuts.map (·.changed))).2.1 hnone (by simp)
    have hf : newOuts.any (·.changed == some true) = false := by
      rw [List.any_eq_false]; intro x hx hxe; simp at hxe; exact hany ⟨x, hx, hxe⟩
    rw [hf]
    unfold updateWithGroup
    simp only [hc, updOut, diffOut, interOut, updSlot, diffSlot, hold]
    split
    next v hv =>
      by_cases hcond : allEq (newOuts.map (·.changed)) = none
      · simp only [hcond, ↓reduceIte] at hv; cases hv
      · simp only [hcond, ↓reduceIte] at hv
        -- all members carry the same known value, which is not `True`
        cases hl : newOuts with
        | nil => rw [hl] at hv; simp [allEq] at hv
        | cons a rest =>
          have := allEq_some hv (a.changed) (by rw [hl]; simp)
          cases v with
          | false => rfl
          | true => exact absurd ⟨a, by rw [hl]; simp, this⟩ hany
    · rfl

end Lena.C19
