import LenaModel.Props.C06
import LenaModel.Lemmas.C06Ext
/-! # C06 — property theorems of the extension round

1. **The float guess.**  The search is correct for *every* guess function whose values were in range
   at the states actually visited — and the model says so itself: for any guess at all it answers
   either the right bin or `unmodelled`, never a wrong bin (`bin1d_ok_or_unmodelled`).  The
   executable predicates `visitedInRange` and `guessOKAtB` (= `GuessOKAt`, `guessOKAtB_iff`) are
   evaluated by the driver on the real IEEE-754 guesses of every generated case (`floatGuess`, and
   the table the harness computes with the source expression); `bin1d_of_visitedInRange`,
   `bin1d_of_guessOKAtB`, `bin1d_float` turn a `true` into correctness.  `bin1d_rounded` is the
   interval argument: any monotone rounding that fixes 0, 1 and small integers keeps the guess
   in range.
2. **Specification-side interpreter.**  `fill_eq_specFill`, `fillAll_eq_specFillAll`: the
   transcribed `fill` (search + walk) equals the two-line specification `specFill`.
3. **`init_bins(deepcopy=True)`**, **`Histogram(bins / make_bins / initial_value)`**, **`reset()`**:
   `initBinsD_eq`, `histEl2_new_both`, `histEl2_reset_fresh`, `histEl2_run_conserved`. -/
open Lena
namespace Lena.C06
set_option linter.unusedSectionVars false

/-! ## 1. any guess: the right bin or `unmodelled` -/
section AnyGuess
variable {α : Type} [LT α] [LE α] [DecidableLT α] [DecidableLE α] [DecidableEq α]
  [Std.IsLinearOrder α] [Std.LawfulOrderLT α]

/-- **No hypothesis on the guess.**  For strictly increasing non-empty `arr` and an arbitrary
guess function the model answers (number of edges ≤ val) − 1 or `unmodelled` (a guess left
`[ind_min, ind_max]` at a visited state) — never another index, never another exception. -/
theorem bin1d_ok_or_unmodelled (guess : Nat → Nat → Int) {arr : List α} (val : α)
    (hinc : StrictInc arr) (hne : arr ≠ []) :
    bin1d guess val arr = .ok ((countLE arr val : Int) - 1) ∨ bin1d guess val arr = .error .unmodelled := by
  have hl : arr.length ≠ 0 := by simpa using hne
  have hk := countLE_le_length arr val
  simp only [bin1d, hl, if_false]
  exact bin1dLoop_ok_or_unmodelled guess val arr hinc _ 0 (arr.length - 1) rfl (by omega) (by omega)
    (by omega) (by omega)

/-- **Sentence (4), one axis, for EVERY guess function** (the code after the fix of
notes/C06_defect_3): for strictly increasing non-empty `arr`, any value and any guess whatsoever the
search returns (number of edges not greater than the value) − 1.  No hypothesis about the float
interpolation is left. -/
theorem bin1d_correct (guess : Nat → Nat → Int) {arr : List α} (val : α)
    (hinc : StrictInc arr) (hne : arr ≠ []) :
    bin1d guess val arr = .ok ((countLE arr val : Int) - 1) := by
  have hl : arr.length ≠ 0 := by simpa using hne
  have hk := countLE_le_length arr val
  simp only [bin1d, hl, if_false]
  exact bin1dLoop_correct guess val arr hinc _ 0 (arr.length - 1) rfl (by omega) (by omega) (by omega) (by omega)

/-- the executable predicate "in range at every visited state" implies correctness -/
theorem bin1d_of_visitedInRange (guess : Nat → Nat → Int) {arr : List α} (val : α)
    (hinc : StrictInc arr) (hne : arr ≠ []) (hv : visitedInRange guess val arr = true) :
    bin1d guess val arr = .ok ((countLE arr val : Int) - 1) := by
  rcases bin1d_ok_or_unmodelled guess val hinc hne with h | h
  · exact h
  · simp [visitedInRange, h] at hv

/-- and it is the weakest such predicate: it holds whenever `GuessOKAt` does -/
theorem visitedInRange_of_guessOKAt (guess : Nat → Nat → Int) {arr : List α} (val : α)
    (hinc : StrictInc arr) (hne : arr ≠ []) (hg : GuessOKAt arr val guess) :
    visitedInRange guess val arr = true := by
  simp [visitedInRange, bin1d_spec guess val hg hinc hne]

/-- the executable `GuessOKAt` implies correctness -/
theorem bin1d_of_guessOKAtB (guess : Nat → Nat → Int) {arr : List α} (val : α)
    (hinc : StrictInc arr) (hne : arr ≠ []) (hb : guessOKAtB arr val guess = true) :
    bin1d guess val arr = .ok ((countLE arr val : Int) - 1) :=
  bin1d_spec guess val ((guessOKAtB_iff arr val guess).1 hb) hinc hne

/-- (AUX — an instance of the two theorems above for one particular guess function; `arrF`, `valF`
are not related to `arr`, `val` by any hypothesis, so this says nothing about floats.)
`floatGuess arrF valF` is
`ind_min + int((ind_max-ind_min) * (float(val-arr[ind_min]) / (arr[ind_max]-arr[ind_min])))` in IEEE-754
double arithmetic (Lean's `Float`; the driver evaluates it and the harness compares it with the
guesses of the real code).  `arr`, `val` are the same numbers in any linearly ordered type (the
driver uses their ranks).  Whenever the executable check succeeds the search is correct. -/
theorem bin1d_float (arrF : Array Float) (valF : Float) {arr : List α} (val : α)
    (hinc : StrictInc arr) (hne : arr ≠ [])
    (hv : visitedInRange (floatGuess arrF valF) val arr = true ∨ guessOKAtB arr val (floatGuess arrF valF) = true) :
    bin1d (floatGuess arrF valF) val arr = .ok ((countLE arr val : Int) - 1) := by
  rcases hv with hv | hv
  · exact bin1d_of_visitedInRange _ val hinc hne hv
  · exact bin1d_of_guessOKAtB _ val hinc hne hv

end AnyGuess

/-- **Interval argument for the float guess.**  Over the rationals, with every operation of the
source expression followed by a rounding `fl` that is monotone and leaves 0, 1 and the integers
below `len(arr)` unchanged, and never rounds the difference of two distinct edges to 0: the
search is correct. -/
theorem bin1d_rounded (fl : Rat → Rat) (mono : ∀ x y, x ≤ y → fl x ≤ fl y)
    (h0 : fl 0 = 0) (h1 : fl 1 = 1) {arr : List Rat} (val : Rat)
    (hint : ∀ d : Nat, d < arr.length → fl ((d : Int) : Rat) = ((d : Int) : Rat))
    (hnz : ∀ (i j : Nat) (hi : i < arr.length) (hj : j < arr.length), arr[i] < arr[j] → 0 < fl (arr[j] - arr[i]))
    (hinc : StrictInc arr) (hne : arr ≠ []) :
    bin1d (roundedGuessArr fl arr val) val arr = .ok ((countLE arr val : Int) - 1) :=
  bin1d_spec _ val (roundedGuessArr_okAt fl mono h0 h1 arr val hint hnz) hinc hne

/-! ## 2. `fill` equals the specification-side interpreter -/
section Spec
variable {α β : Type} [LT α] [LE α] [DecidableLT α] [DecidableLE α] [DecidableEq α]
  [Std.IsLinearOrder α] [Std.LawfulOrderLT α] [Lean.Grind.AddCommMonoid β]

/-- the transcribed `histogram.fill` (interpolation search per axis + walk through the nested
lists with its under/overflow branches) computes exactly what the property says (`specFill`) -/
theorem fill_eq_specFill (g : Nat → Nat → Nat → Int) (hg : GuessesOK g) {h : Hist α β} (hwf : WF h)
    {c : Coord α} {xs : List α} (hp : Proper h.edges c xs) (w : β) :
    fill g h c w =
      .ok { h with bins := (specFill h.edges.axes (h.bins, h.nOut) xs w).1,
                   nOut := (specFill h.edges.axes (h.bins, h.nOut) xs w).2 } := by
  have hinc := validEdges_strictInc hwf.edges
  unfold specFill
  cases hq : cellOf? h.edges.axes xs with
  | some idx =>
    rw [fill_exact_cell g hg hwf hp w ((cellOf?_eq_some_iff _ _ idx hinc hp.length).1 hq)]
  | none =>
    rw [fill_out_of_range g hg hwf hp w ((cellOf?_eq_none_iff _ _ hinc hp.length).1 hq)]

/-- the components of a sequence of proper operations -/
def opsPoints : Edges α → List ((Nat → Nat → Nat → Int) × Coord α × β) → List (List α × β)
  | _, [] => []
  | e, (_, c, w) :: rest => ((properList? e c).getD [], w) :: opsPoints e rest

theorem fillAll_eq_specFillAll :
    ∀ (ops : List ((Nat → Nat → Nat → Int) × Coord α × β)) (h : Hist α β), WF h → OpsOK h.edges ops →
    fillAll h ops =
      .ok { h with bins := (specFillAll h.edges.axes (h.bins, h.nOut) (opsPoints h.edges ops)).1,
                   nOut := (specFillAll h.edges.axes (h.bins, h.nOut) (opsPoints h.edges ops)).2 }
  | [], h, _, _ => rfl
  | (g, c, w) :: rest, h, hwf, hops => by
    obtain ⟨hg, xs, hp⟩ := hops (g, c, w) (by simp)
    have h1 := fill_eq_specFill g hg hwf hp w
    have hwf1 := fill_wf g c w h1 hwf
    have ih := fillAll_eq_specFillAll rest _ hwf1 (fun op hm => hops op (List.mem_cons_of_mem _ hm))
    simp only [fillAll, h1, bind, Except.bind, ih, opsPoints, (properList?_iff _ _ _).2 hp,
      Option.getD_some, specFillAll]

end Spec

/-! ## 1b. any guesses, any dimension: the specified fill or `unmodelled` -/
section AnyGuessFill
variable {α β : Type} [LT α] [LE α] [DecidableLT α] [DecidableLE α] [DecidableEq α]
  [Std.IsLinearOrder α] [Std.LawfulOrderLT α] [Lean.Grind.AddCommMonoid β]

theorem binsLoop_ok_or_unmodelled (g : Nat → Nat → Nat → Int) :
    ∀ (axes : List (List α)) (xs : List α) (k : Nat), xs.length = axes.length →
      (∀ arr ∈ axes, ValidAxis arr) →
      binsLoop g k xs axes = .ok (indices axes xs) ∨ binsLoop g k xs axes = .error .unmodelled
  | [], [], _, _, _ => Or.inl rfl
  | [], _ :: _, _, hl, _ => by simp at hl
  | _ :: _, [], _, hl, _ => by simp at hl
  | arr :: axes, x :: xs, k, hl, hv => by
    have ha := hv arr (by simp)
    have hne : arr ≠ [] := by intro h; have := ha.1; simp [h] at this
    rcases bin1d_ok_or_unmodelled (g k) x ha.2 hne with h1 | h1
    · rcases binsLoop_ok_or_unmodelled g axes xs (k + 1) (by simpa using hl)
        (fun a hm => hv a (List.mem_cons_of_mem _ hm)) with h2 | h2
      · left; simp [binsLoop, h1, h2, indices, bind, Except.bind, pure, Except.pure]
      · right; simp [binsLoop, h1, h2, bind, Except.bind]
    · right; simp [binsLoop, h1, bind, Except.bind]

/-- `get_bin_on_value` with arbitrary guess functions: the specified indices or `unmodelled` -/
theorem getBinOnValue_ok_or_unmodelled (g : Nat → Nat → Nat → Int) {e : Edges α}
    (he : ValidEdges e) {c : Coord α} {xs : List α} (hp : Proper e c xs) :
    getBinOnValue g c e = .ok (indices e.axes xs) ∨ getBinOnValue g c e = .error .unmodelled := by
  cases hp with
  | flat arr x =>
    have ha : ValidAxis arr := he.2 arr (by simp [Edges.axes])
    have hne : arr ≠ [] := by intro h; have := ha.1; simp [h] at this
    rcases bin1d_ok_or_unmodelled (g 0) x ha.2 hne with h1 | h1
    · left; simp [getBinOnValue, h1, indices, Edges.axes, bind, Except.bind, pure, Except.pure]
    · right; simp [getBinOnValue, h1, bind, Except.bind]
  | nested axes xs hl =>
    have : ¬ xs.length ≠ axes.length := by simp [hl]
    simp only [getBinOnValue, this, if_false]
    exact binsLoop_ok_or_unmodelled g axes xs 0 hl he.2

/-- **`histogram.fill` with no hypothesis on the float guesses**: in a well-formed histogram of any
dimension a proper fill does exactly what the property says (`specFill`), or the model reports
that a guess left its range — it never fills another cell. -/
theorem fill_ok_or_unmodelled (g : Nat → Nat → Nat → Int) {h : Hist α β} (hwf : WF h)
    {c : Coord α} {xs : List α} (hp : Proper h.edges c xs) (w : β) :
    fill g h c w =
      .ok { h with bins := (specFill h.edges.axes (h.bins, h.nOut) xs w).1,
                   nOut := (specFill h.edges.axes (h.bins, h.nOut) xs w).2 } ∨
    fill g h c w = .error .unmodelled := by
  rcases getBinOnValue_ok_or_unmodelled g hwf.edges hp with h1 | h1
  · left
    -- the walk does not depend on the guesses: compare with in-range guesses
    have hmid : GuessesOK (fun _ lo _ => (lo : Int)) := fun _ lo hi hle => ⟨Int.le_refl _, Int.ofNat_le.2 hle⟩
    have h2 := getBinOnValue_spec _ hmid hwf.edges hp
    have := fill_eq_specFill _ hmid hwf hp w
    simp only [fill, h2, bind, Except.bind] at this
    simp only [fill, h1, bind, Except.bind]
    exact this
  · right; simp [fill, h1, bind, Except.bind]

end AnyGuessFill

/-! ## 3. `init_bins(deepcopy)`, the element with `bins` / `make_bins` / `initial_value`, `reset()` -/
section Elem2
variable {α β κ : Type} [LT α] [LE α] [DecidableLT α] [DecidableLE α] [DecidableEq α]

theorem replicate_eq_range_map {γ : Type} (x : γ) : ∀ n : Nat, (List.range n).map (fun _ => x) = List.replicate n x := by
  intro n
  apply List.ext_getElem <;> simp

/-- `init_bins(edges, value, deepcopy=True)` and `deepcopy=False` build equal arrays -/
theorem initBinsAxesD_eq (d : Bool) (v : β) : ∀ axes : List (List α), initBinsAxesD d v axes = initBinsAxes v axes
  | [] => rfl
  | [arr] => by cases d <;> simp [initBinsAxesD, initBinsAxes, replicate_eq_range_map]
  | arr :: b :: rest => by
    have ih := initBinsAxesD_eq d v (b :: rest)
    simp only [initBinsAxesD, initBinsAxes, ih, replicate_eq_range_map]

theorem initBinsD_eq (d : Bool) (v : β) (e : Edges α) : initBinsD d v e = initBins v e := by
  cases e with
  | flat arr => cases d <;> simp [initBinsD, initBins, replicate_eq_range_map]
  | nested axes => exact initBinsAxesD_eq d v axes

variable [Std.IsLinearOrder α] [Std.LawfulOrderLT α] [Lean.Grind.AddCommMonoid β]

/-- both `bins` and `make_bins` → `LenaTypeError`, before anything else is looked at -/
theorem histEl2_new_both (empty : κ) (e : Edges α) (b m : NArr β) (init : β) :
    HistEl2.new empty e (some b) (some m) init = .error .lenaTypeError := rfl

/-- `reset()` gives the element that `Histogram(edges, bins, make_bins, initial_value)` gives:
same stored arguments, a newly built histogram, empty context — whatever was filled before. -/
theorem histEl2_reset_fresh (empty : κ) (e : HistEl2 α β κ)
    (hcfg : ¬ (e.cfg.makeBins.isSome = true ∧ e.cfg.initialBins.isSome = true)) :
    HistEl2.reset empty e =
      HistEl2.new empty e.cfg.edges e.cfg.initialBins e.cfg.makeBins e.cfg.initialValue := by
  unfold HistEl2.reset HistEl2.new
  have : (e.cfg.makeBins.isSome && e.cfg.initialBins.isSome) = false := by
    cases h1 : e.cfg.makeBins.isSome <;> cases h2 : e.cfg.initialBins.isSome <;> simp_all
  simp only [this, Bool.false_eq_true, if_false]

/-- **Sentence (5) for a re-used element.**  Take any element whose stored arguments build a
well-formed histogram `h₀` (valid edges; no bins, or bins / `make_bins()` of the matching shape).
Along any history of proper fills and resets nothing raises, the edges never change, and the sum
of all bins plus `n_out_of_range` is what `specSum` says: the content of `h₀` plus one unit weight
per value filled since the last `reset()`. -/
theorem histEl2_run_conserved (empty : κ) (one : β) {h₀ : Hist α β} (hwf₀ : WF h₀) :
    ∀ (ops : List (ElOp α κ)) (e : HistEl2 α β κ),
      mkHist e.cfg.edges e.cfg.startBins e.cfg.initialValue = .ok h₀ →
      WF e.hist → e.hist.edges = h₀.edges → ElOpsOK h₀.edges ops →
      ∃ e', HistEl2.run empty one e ops = .ok e' ∧ e'.cfg = e.cfg ∧ WF e'.hist ∧ e'.hist.edges = h₀.edges ∧
        total e'.hist.bins + e'.hist.nOut =
          specSum (total h₀.bins + h₀.nOut) one (total e.hist.bins + e.hist.nOut) ops
  | [], e, _, hwf, hed, _ => ⟨e, rfl, rfl, hwf, hed, rfl⟩
  | .fill g c ctx :: rest, e, hm, hwf, hed, hops => by
    obtain ⟨⟨hg, xs, hp⟩, hrest⟩ := hops
    obtain ⟨h₁, h1, he, _⟩ := fill_frame g hg hwf (hed ▸ hp) one
    have hwf1 := fill_wf g c one h1 hwf
    have hc := (fill_conserves g e.hist h₁ c one h1).2.2
    obtain ⟨e', hr, hcfg, hwf', hed', hs⟩ :=
      histEl2_run_conserved empty one hwf₀ rest { e with hist := h₁, curContext := ctx.getD empty } hm hwf1
        (he.trans hed) hrest
    refine ⟨e', ?_, hcfg, hwf', hed', ?_⟩
    · simp only [HistEl2.run, HistEl2.fill, h1, bind, Except.bind, pure, Except.pure]
      exact hr
    · rw [hs]; simp only [specSum, hc]
  | .reset :: rest, e, hm, hwf, hed, hops => by
    obtain ⟨e', hr, hcfg, hwf', hed', hs⟩ :=
      histEl2_run_conserved empty one hwf₀ rest { e with hist := h₀, curContext := empty } hm hwf₀ rfl hops
    refine ⟨e', ?_, hcfg, hwf', hed', ?_⟩
    · simp only [HistEl2.run, HistEl2.reset, hm, bind, Except.bind, pure, Except.pure]
      exact hr
    · rw [hs]; simp only [specSum]

end Elem2

/-! ## non-vacuity: concrete instances (tests, not theorems) -/
section Examples

/-- a guess that is never in range: since the fix of notes/C06_defect_3 the search treats it as a
guess on the nearest bound and still finds the bin -/
example : bin1d (fun _ _ => -5) 45 exArr = .ok 2 := by
  rw [bin1d_correct (fun _ _ => -5) (45 : Int) exArr_inc (by decide)]; rfl

example : visitedInRange (fun _ _ => -5) (45 : Int) exArr = true := by
  simp [visitedInRange, bin1d_correct (fun _ _ => -5) (45 : Int) exArr_inc (by decide)]

example : guessOKAtB exArr (45 : Int) midGuess = true := by decide
example : guessOKAtB exArr (45 : Int) (fun _ _ => -5) = false := by decide

/-- rounding down to integers is a monotone rounding that fixes the integers -/
theorem floor_mono (x y : Rat) (h : x ≤ y) : ((x.floor : Int) : Rat) ≤ ((y.floor : Int) : Rat) :=
  Rat.intCast_le_intCast.2 (Rat.le_floor_iff.2 (Rat.le_trans (Rat.floor_le x) h))

/-- the hypotheses of `bin1d_rounded` are satisfiable: exact arithmetic (`fl = id`) on any array -/
example (arr : List Rat) (val : Rat) (hinc : StrictInc arr) (hne : arr ≠ []) :
    bin1d (roundedGuessArr id arr val) val arr = .ok ((countLE arr val : Int) - 1) :=
  bin1d_rounded id (fun _ _ h => h) rfl rfl val (fun _ _ => rfl)
    (fun i j hi hj h => by simp only [id]; grind) hinc hne

/-- one element object, re-used: a fill, a reset, two more fills -/
def exEl : HistEl2 Int Int (Option Int) :=
  { cfg := { edges := exEdges, initialBins := none, makeBins := none, initialValue := 0 },
    hist := exHist, curContext := none }

def exElOps : List (ElOp Int (Option Int)) :=
  [.fill (fun _ => midGuess) (.tuple [3, 1]) (some (some 7)), .reset,
   .fill (fun _ => midGuess) (.tuple [3, 6]) none, .fill (fun _ _ hi => hi) (.tuple [0, -3]) none]

theorem exElOps_ok : ElOpsOK exEdges exElOps :=
  ⟨⟨fun _ => midGuess_ok, _, Proper.nested _ _ rfl⟩, ⟨fun _ => midGuess_ok, _, Proper.nested _ _ rfl⟩,
   ⟨fun _ => hiGuess_ok, _, Proper.nested _ _ rfl⟩, trivial⟩

example : ∃ e', HistEl2.run none 1 exEl exElOps = .ok e' ∧ total e'.hist.bins + e'.hist.nOut = 2 := by
  obtain ⟨e', h, _, _, _, hs⟩ := histEl2_run_conserved none (1 : Int) exHist_wf exElOps exEl
    (mkHist_valid exEdges_valid 0) exHist_wf rfl exElOps_ok
  exact ⟨e', h, by rw [hs]; rfl⟩

example : HistEl2.new (none : Option Int) exEdges (some (.node [])) (some (.node [])) (0 : Int) =
    .error .lenaTypeError := histEl2_new_both _ _ _ _ _

end Examples

end Lena.C06
