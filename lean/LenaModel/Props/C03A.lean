import LenaModel.Model.C03G
import LenaModel.Props.C03
import LenaModel.Props.C03X
import LenaModel.Props.C03R
/-! # C03 — property theorems, part 5 (adversary round)

* §20 *"a branch that signals LenaStopFill is finalised and dropped"* — and ONLY such a branch:
  which exception classes the clause `except exceptions.LenaStopFill` around `seq.fill(val)`
  catches (`Model/C03Exc.lean`: the class hierarchy of lena/core/exceptions.py), and what
  `Split.run` does with a `fill` that raises anything else (it is not finalised: no `compute()`,
  no `request()`; the exception leaves `Split.run`).
* §21 `bufsize=None`: *"whole input flow is materialized in the buffer"* — the flow is ONE block
  however long it is: a plain Sequence is run once on the whole flow, a fill/request branch
  yields `request()` once. -/

namespace Lena.C03

variable {σ α : Type}

/-! ## 20. the stop signal is `LenaStopFill` (and its subclasses), nothing else -/

/-- `except exceptions.LenaStopFill` catches exactly `LenaStopFill` and the classes derived from
it — in the vocabulary: `LenaStopFill` itself and the user-defined `SubStopFill` -/
theorem isStopSignal_iff (c : ExcClass) :
    c.isStopSignal = true ↔ c = .lenaStopFill ∨ c = .subStopFill := by
  cases c <;> decide

/-- every error class of lena/core/exceptions.py other than `LenaStopFill` is a `LenaException`
— so a clause `except LenaException` would catch it — and is NOT the stop signal; neither are
`LenaException` itself, a user-defined subclass of it, the builtin errors the lena classes also
derive from, and `KeyboardInterrupt` -/
theorem lena_errors_are_not_stop_signals :
    (∀ c ∈ [ExcClass.lenaException, .lenaAttributeError, .lenaEnvironmentError, .lenaIndexError,
        .lenaKeyError, .lenaNotImplementedError, .lenaRuntimeError, .lenaTypeError, .lenaValueError,
        .lenaZeroDivisionError, .subLenaException],
      c.isa .lenaException = true ∧ c.isStopSignal = false) ∧
    (∀ c ∈ [ExcClass.exception, .valueError, .typeError, .runtimeError, .keyError, .indexError,
        .attributeError, .notImplementedError, .zeroDivisionError, .osError, .keyboardInterrupt,
        .baseException],
      c.isStopSignal = false) := by
  decide

/-- the stop signal is a `LenaException` (so a handler for lena errors placed around `fill` would
also swallow it — and vice versa a handler for `LenaException` instead of `LenaStopFill` treats
every lena error as a stop signal) -/
theorem stop_signal_is_lenaException (c : ExcClass) (h : c.isStopSignal = true) :
    c.isa .lenaException = true := by
  rcases (isStopSignal_iff c).mp h with rfl | rfl <;> decide

theorem isa_refl (c : ExcClass) : c.isa c = true := by
  cases c <;> decide

/-- names and classes correspond (the protocol of the driver) -/
theorem ofName_name (c : ExcClass) : ExcClass.ofName c.name = some c := by
  cases c <;> rfl

theorem catchStopFill_stop_iff (c : ExcClass) : catchStopFill c = .stop ↔ c.isStopSignal = true := by
  unfold catchStopFill
  split <;> simp_all

theorem catchStopFill_raised_iff (c e : ExcClass) :
    catchStopFill c = .raised e ↔ (c.isStopSignal = false ∧ e = c) := by
  unfold catchStopFill
  split
  · simp_all
  · rename_i h
    simp only [FillRes.raised.injEq]
    exact ⟨fun h' => ⟨by simpa using h, h'.symm⟩, fun h' => h'.2.symm⟩

/-- the harness protocol: a `fill` that raises the class named `c.name` is treated as the class -/
theorem catchStopFillName_name (c : ExcClass) :
    catchStopFillName c.name = (if c.isStopSignal then .stop else .raised c.name : FillRes String) := by
  unfold catchStopFillName isStopSignalName
  rw [ofName_name]

/-- the outcome of one `fill` as `Split.run` sees it -/
theorem toX_fill (o : OpsP σ α) (s : σ) (x : α) :
    (o.toX.fill s x).2 = match (o.fill s x).2 with
      | none => .ok
      | some c => if c.isStopSignal then .stop else .raised c := by
  simp only [OpsP.toX, catchStopFill]
  cases (o.fill s x).2 <;> rfl

/-- every event of the fill loop is a `fill` of that branch -/
theorem fillBufX_events_fill (i : Nat) {ε : Type} (ops : OpsX σ α ε) :
    ∀ (s : σ) (xs : List α), ∀ e ∈ (fillBufX i ops s xs).1, ∃ x st, e = .fill i x st := by
  intro s xs
  induction xs generalizing s with
  | nil => intro e he; simp [fillBufX] at he
  | cons x xs ih =>
    intro e he
    obtain ⟨s', r, hf⟩ : ∃ s' r, ops.fill s x = (s', r) := ⟨_, _, rfl⟩
    rw [fillBufX_cons i ops s s' x xs r hf] at he
    cases r with
    | stop => simp only [List.mem_singleton] at he; exact ⟨x, true, he⟩
    | raised e' => simp only [List.mem_singleton] at he; exact ⟨x, false, he⟩
    | ok =>
      simp only [List.mem_cons] at he
      rcases he with rfl | he
      · exact ⟨x, false, rfl⟩
      · exact ih s' e he

/-- THE FILL LOOP AT PYTHON LEVEL: it ends with `stopped = True` only on a stop signal, and an
exception that leaves it is never a stop signal -/
theorem fillBufP_raised_not_stop (i : Nat) (o : OpsP σ α) :
    ∀ (s : σ) (xs : List α) (c : ExcClass),
      (fillBufX i o.toX s xs).2.2 = .raised c → c.isStopSignal = false := by
  intro s xs
  induction xs generalizing s with
  | nil => intro c h; simp [fillBufX] at h
  | cons x xs ih =>
    intro c h
    obtain ⟨s', r, hf⟩ : ∃ s' r, o.toX.fill s x = (s', r) := ⟨_, _, rfl⟩
    rw [fillBufX_cons i o.toX s s' x xs r hf] at h
    have hr : r = (o.toX.fill s x).2 := by rw [hf]
    cases r with
    | stop => simp at h
    | ok => exact ih s' c h
    | raised e =>
      simp only [FillRes.raised.injEq] at h
      subst h
      rw [toX_fill] at hr
      cases hc : (o.fill s x).2 with
      | none => rw [hc] at hr; cases hr
      | some c' =>
        rw [hc] at hr
        simp only at hr
        by_cases hs : c'.isStopSignal = true
        · simp [hs] at hr
        · simp only [hs, Bool.false_eq_true, ↓reduceIte, FillRes.raised.injEq] at hr
          subst hr
          simpa using hs

/-- A BRANCH WHOSE `fill` RAISES SOMETHING ELSE THAN THE STOP SIGNAL IS NOT FINALISED: in the
body of the loop over active sequences, for a fill/compute or fill/request branch, an exception
`c` leaving the fill loop ends `Split.run` with `c` (`abort`), `c` is not a stop signal, and the
events of the step are `fill` calls only — neither `compute()` nor `request()` is invoked, nothing
is yielded.  (With `runX_prefix` / `runX_raised_cut`: the run is the documented schedule up to
that `fill`, and nothing else.) -/
theorem foreign_fill_error_not_finalised (buf : List α) (b : BranchX σ α ExcClass) (o : OpsP σ α)
    (ho : b.ops = o.toX) (hk : b.kind = .fillCompute ∨ b.kind = .fillRequest) (c : ExcClass)
    (h : (fillBufX b.id b.ops b.st buf).2.2 = .raised c) :
    (stepX buf b).2.2 = .abort (b.id, c) ∧ c.isStopSignal = false ∧
      ∀ e ∈ (stepX buf b).1, ∃ x st, e = .fill b.id x st := by
  have hns : c.isStopSignal = false := by
    rw [ho] at h
    exact fillBufP_raised_not_stop b.id o b.st buf c h
  have hev := fillBufX_events_fill b.id b.ops b.st buf
  rcases hk with hk | hk
  · refine ⟨?_, hns, ?_⟩
    · unfold stepX; simp only [hk, h]
    · unfold stepX; simp only [hk, h]; exact hev
  · refine ⟨?_, hns, ?_⟩
    · unfold stepX; simp only [hk, h]
    · unfold stepX; simp only [hk, h]; exact hev

/-- … while a stop signal — of `LenaStopFill` or of a subclass — finalises the branch: the step
invokes `compute()` (`request()`) right after the signalling `fill` and drops the branch -/
theorem stop_signal_finalises (buf : List α) (b : BranchX σ α ExcClass)
    (hk : b.kind = .fillCompute)
    (h : (fillBufX b.id b.ops b.st buf).2.2 = .stop)
    (hc : (b.ops.compute (fillBufX b.id b.ops b.st buf).2.1).2.2 = none) :
    (stepX buf b).2.2 = .drop ∧
      (stepX buf b).1 = (fillBufX b.id b.ops b.st buf).1 ++
        .compute b.id :: outs b.id (b.ops.compute (fillBufX b.id b.ops b.st buf).2.1).1 := by
  constructor
  · unfold stepX; simp only [hk, h, genRes, hc]
  · unfold stepX; simp only [hk, h]

/-! ### non-vacuity: the demo of the adversary round (a branch that rejects a value) -/

section demoExc

/-- `fill` raises `LenaValueError` on a non-positive value, `SubStopFill` on 100 -/
def positiveOps : OpsP (List Int) Int :=
  { call := fun s => ([], s, none)
    fill := fun s x => if x ≤ 0 then (s, some .lenaValueError)
      else if x = 100 then (s, some .subStopFill) else (s ++ [x], none)
    compute := fun s => ([s.sum], s, none)
    request := fun s => ([s.sum], [], none)
    run := fun s xs => (xs, s, none) }

def demoSplitP : SplitX (List Int) Int ExcClass :=
  { branches := [⟨0, .fillCompute, positiveOps.toX, []⟩, ⟨1, .fillRequest, positiveOps.toX, []⟩],
    bufsize := some 1, copyBuf := true }

example : demoSplitP.Valid := by simp [SplitX.Valid, demoSplitP]
-- `LenaValueError` of `fill(-3)` leaves `Split.run`: the branch is not finalised, nothing follows
example : (demoSplitP.run [1, 2, -3, 4]).term = .raised 0 .lenaValueError := by decide
example : outputs (demoSplitP.run [1, 2, -3, 4]).trace = [1, 2] := by decide
example : (demoSplitP.run [1, 2, -3, 4]).trace.getLast? = some (.fill 0 (-3) false) := by decide
-- a subclass of `LenaStopFill` is the stop signal: both branches are finalised and dropped
example : (demoSplitP.run [1, 100, 5]).term = .done := by decide
example : outputs (demoSplitP.run [1, 100, 5]).trace = [1, 1, 0] := by decide
example : (fillBufX 0 positiveOps.toX [] [1, -3]).2.2 = .raised .lenaValueError := rfl
example : (fillBufX 0 positiveOps.toX [] [1, 100]).2.2 = .stop := rfl

end demoExc

/-! ## 21. `bufsize=None`: the whole flow is one block, however long -/

theorem valid_of_none (s : Split σ α) (hn : s.bufsize = none) : s.Valid := by
  unfold Split.Valid
  rw [hn]
  simp

/-- `None` never cuts the flow -/
theorem blocks_none_length (flow : List α) : (blocks none flow).length ≤ 1 ∧ (blocks none flow).flatten = flow := by
  rw [blocks_none]
  cases flow <;> simp

/-- with `bufsize=None` a plain Sequence is run exactly once, on the whole flow (whatever its
length: there is no block size hidden behind `None`) -/
theorem none_sequence_once (s : Split σ α) (hn : s.bufsize = none)
    (hnd : (s.branches.map (·.id)).Nodup) (b : Branch σ α) (hb : b ∈ s.branches)
    (hk : b.kind = .sequence) (flow : List α) :
    proj b.id (s.runTrace flow) = .run b.id flow :: outs b.id (b.ops.run b.st flow).1 := by
  rw [projection s (valid_of_none s hn) hnd b hb, branchTrace_sequence b hk, hn, blocks_none]
  cases flow with
  | nil => simp
  | cons x xs => simp [seqTrace]

/-- with `bufsize=None` a fill/request branch is filled with the whole flow (up to its stop
signal) and yields `request()` exactly once -/
theorem none_fillRequest_once (s : Split σ α) (hn : s.bufsize = none)
    (hnd : (s.branches.map (·.id)).Nodup) (b : Branch σ α) (hb : b ∈ s.branches)
    (hk : b.kind = .fillRequest) (flow : List α) :
    proj b.id (s.runTrace flow) =
      (fillBuf b.id b.ops b.st flow).1 ++
        .request b.id :: outs b.id (b.ops.request (fillBuf b.id b.ops b.st flow).2.1).1 := by
  rw [projection s (valid_of_none s hn) hnd b hb, branchTrace_fillRequest b hk, hn, blocks_none]
  cases flow with
  | nil => simp [fillBuf]
  | cons x xs => simp [frTrace]

/-- … and so does every `bufsize` that is at least the length of the flow: 1000 and `None` differ
only on flows longer than 1000 values -/
theorem large_bufsize_as_none (s : Split σ α) (b : Nat) (hb : s.bufsize = some b) (flow : List α)
    (hl : flow.length ≤ b) (hne : flow ≠ []) :
    s.runTrace flow = ({ s with bufsize := none } : Split σ α).runTrace flow := by
  have hb0 : 0 < b := by
    cases flow with
    | nil => exact absurd rfl hne
    | cons x xs => simp at hl; omega
  have hv : s.Valid := by unfold Split.Valid; rw [hb]; simp; omega
  have hv' : ({ s with bufsize := none } : Split σ α).Valid := by unfold Split.Valid; simp
  rw [loop_refines_spec s hv, loop_refines_spec _ hv']
  unfold Split.runSpec
  simp only [hb, blocks_large b flow hl hne, blocks_none, hne, ↓reduceIte]

-- 2500 values, `bufsize=None`: one block (`decide` does not scale to that length; the theorem does)
example : blocks (none : Option Nat) (List.replicate 2500 (7 : Nat)) = [List.replicate 2500 7] := by
  rw [blocks_none, if_neg]
  intro h
  have := congrArg List.length h
  simp only [List.length_replicate, List.length_nil] at this
  omega
example : (blocks (some 1000) (List.replicate 2500 (7 : Nat))).length = 3 := by decide +kernel

end Lena.C03
