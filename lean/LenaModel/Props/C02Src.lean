import LenaModel.Props.C02
import LenaModel.Lemmas.C02Src
/-! # C02 — property theorems, part 2: where the flow comes from is lazy too

`Props/C02.lean` proves laziness for pipelines of streaming elements over ONE input.  Here the flow may
come from a chain of iterables (`Chain(it_1, …)` or a `Split` of `Source`s as the first element of a
`Source`) and a `Split` in the pipeline may have `Source`s among its sequences (`Model/C02Src.lean`).
All instrumented generators advance one clock, so a stamp says when a value was produced relative to
every pull from any of them.  For ALL such pipelines, all inputs and all consumer stop points `k`:

* building pulls nothing                                                       (`sources_build_is_silent`);
* the consumer receives the first `k` values of the composed stamped flow and has then caused exactly
  `need k` pulls — in a chain, value `i` of the `j`-th iterable costs `i + 1` pulls from it plus what the
  earlier iterables cost (one pull per value, one per exhausted iterable); a `Source` inside a `Split`
  is iterated where `Split.run` reaches it, one pull per value handed downstream, nothing of it in
  advance                                    (`sources_lazy`, `chain_produces`, `splice_produces`, `source_on_demand`);
* an infinite iterable at the end of the chain, and infinite `Source`s inside `Split`s, are never
  materialised: whatever is settled within `n` pulls is delivered exactly as if every infinite flow had been
  cut after `n` values — in particular `Slice(m)` after them terminates        (`sources_lazy_infinite`);
* the values are those of the list semantics                                   (`sources_refine_list`). -/

namespace Lena.C02

variable {α : Type}

/-! ## hypotheses -/

def XStage.WF : XStage α → Prop
  | .plain st => st.WF
  | .splice _ _ => True

/-- every `Source` inside is finite (otherwise the stamped flow is not a finite object; see
`sources_lazy_infinite`) -/
def XStage.Finite : XStage α → Prop
  | .plain _ => True
  | .splice _ srcs => SrcsFin srcs

/-- fuel that suffices: for the iteration of `Source`s two loop iterations per result of `Split.run` proper -/
def XStage.fuelOK (e : XStage α) (sf : SF α) (fu : Nat) : Prop :=
  match e with
  | .plain st => st.fuelOK sf fu
  | .splice _ _ => 2 * sf.vals.length + 3 ≤ fu

def xseqFuelOK : List (XStage α) → SF α → Nat → Prop
  | [], _, _ => True
  | e :: es, sf, fu => e.fuelOK sf fu ∧ xseqFuelOK es (e.spec sf) fu

theorem XStage.wfb_iff (e : XStage α) : e.wfb = true ↔ e.WF := by
  cases e with
  | plain st => exact Stage.wfb_iff st
  | splice mark srcs => simp [XStage.wfb, XStage.WF]

theorem xseqFuelOKb_iff (els : List (XStage α)) (sf : SF α) (fu : Nat) :
    xseqFuelOKb els sf fu = true ↔ xseqFuelOK els sf fu := by
  induction els generalizing sf with
  | nil => simp [xseqFuelOKb, xseqFuelOK]
  | cons e es ih =>
    simp only [xseqFuelOKb, xseqFuelOK, Bool.and_eq_true, ih]
    apply and_congr_left'
    cases e with
    | plain st =>
      have := seqFuelOKb_iff [st] sf fu
      simpa [seqFuelOKb, seqFuelOK, XStage.fuelOKb, XStage.fuelOK] using this
    | splice mark srcs => simp [XStage.fuelOKb, XStage.fuelOK]

/-! ## stage and composition -/

/-- the stage theorem for the elements of a pipeline with `Source`s inside -/
theorem xstage_produces (e : XStage α) (hwf : e.WF) (hfin : e.Finite) (p : Pipe α) (fu : Nat)
    {vals : List (α × Nat)} {cf : Nat} (h : Produces p.gen p.clock fu p.st vals cf)
    (hfu : e.fuelOK ⟨p.now, vals, cf⟩ fu) :
    Produces (e.run p).gen (e.run p).clock fu (e.run p).st
      (e.spec ⟨p.now, vals, cf⟩).vals (e.spec ⟨p.now, vals, cf⟩).cf ∧
    (e.run p).now = p.now ∧ (e.spec ⟨p.now, vals, cf⟩).c0 = p.now := by
  cases e with
  | plain st => exact stage_produces st hwf p fu h hfu
  | splice mark srcs => exact ⟨splice_produces mark srcs hfin p.gen p.clock fu h hfu, rfl, rfl⟩

/-- **`sources_build_is_silent`** — building a pipeline whose `Split`s contain `Source`s pulls nothing, neither
from the input nor from a `Source` (`seq()` is not even called before `Split.run` reaches it) -/
theorem sources_build_is_silent (els : List (XStage α)) (p : Pipe α) : (xseqRun els p).now = p.now := by
  induction els generalizing p with
  | nil => rfl
  | cons e es ih =>
    have he : (e.run p).now = p.now := by
      cases e with
      | plain st => exact build_is_silent [st] p
      | splice mark srcs => rfl
    show (xseqRun es (e.run p)).now = p.now
    rw [ih, he]

theorem xcompose_pulls (els : List (XStage α)) (hwf : ∀ e ∈ els, e.WF) (hfin : ∀ e ∈ els, e.Finite) (p : Pipe α)
    (fu : Nat) {vals : List (α × Nat)} {cf : Nat} (h : Produces p.gen p.clock fu p.st vals cf)
    (hfu : xseqFuelOK els ⟨p.now, vals, cf⟩ fu) :
    Produces (xseqRun els p).gen (xseqRun els p).clock fu (xseqRun els p).st
      (xseqSpec els ⟨p.now, vals, cf⟩).vals (xseqSpec els ⟨p.now, vals, cf⟩).cf ∧
    (xseqSpec els ⟨p.now, vals, cf⟩).c0 = p.now := by
  induction els generalizing p vals cf with
  | nil => exact ⟨h, rfl⟩
  | cons e es ih =>
    obtain ⟨hfu1, hfu2⟩ := hfu
    obtain ⟨h1, h2, h3⟩ := xstage_produces e (hwf e (by simp)) (hfin e (by simp)) p fu h hfu1
    have hsf : e.spec ⟨p.now, vals, cf⟩
        = ⟨(e.run p).now, (e.spec ⟨p.now, vals, cf⟩).vals, (e.spec ⟨p.now, vals, cf⟩).cf⟩ :=
      (SF.eta' _ _ (h3.trans h2.symm)).symm
    rw [hsf] at hfu2
    have := ih (fun e' he' => hwf e' (by simp [he'])) (fun e' he' => hfin e' (by simp [he'])) (e.run p) h1 hfu2
    rw [← hsf] at this
    refine ⟨this.1, ?_⟩
    show (xseqSpec es (e.spec ⟨p.now, vals, cf⟩)).c0 = p.now
    rw [this.2, h2]

/-- fuel exists -/
theorem xseqFuelOK_exists (els : List (XStage α)) (sf : SF α) : ∃ fu, ∀ fu', fu ≤ fu' → xseqFuelOK els sf fu' := by
  induction els generalizing sf with
  | nil => exact ⟨0, fun _ _ => trivial⟩
  | cons e es ih =>
    obtain ⟨f1, h1⟩ := ih (e.spec sf)
    have hstage : ∃ f0, ∀ fu', f0 ≤ fu' → e.fuelOK sf fu' := by
      cases e with
      | plain st =>
        obtain ⟨f0, h0⟩ := seqFuelOK_exists [st] sf
        exact ⟨f0, fun fu' hfu' => (h0 fu' hfu').1⟩
      | splice mark srcs => exact ⟨2 * sf.vals.length + 3, fun fu' hfu' => hfu'⟩
    obtain ⟨f0, h0⟩ := hstage
    exact ⟨max f0 f1, fun fu' hfu' => ⟨h0 fu' (by omega), h1 fu' (by omega)⟩⟩

/-- **`sources_lazy`** — the main sentence for pipelines whose flow comes from a chain of iterables and whose
`Split`s contain `Source`s.  For every such pipeline of well-formed elements (all iterables finite), and every
number `k` of results the consumer takes: it receives the first `k` values of the stamped flow
`xseqSpec els (SF.ofChain parts)`, each at the pull count the specification gives — counting the pulls from
every iterable of the chain and from every `Source` — and at the moment it stops exactly `need k` pulls
have been made in total.  No fuel is exhausted, no exception is raised. -/
theorem sources_lazy (els : List (XStage α)) (hwf : ∀ e ∈ els, e.WF) (hfin : ∀ e ∈ els, e.Finite)
    (parts : List (List α)) (fu : Nat) (hparts : parts.length < fu)
    (hfu : xseqFuelOK els (SF.ofChain parts) fu) (k : Nat) :
    (xseqRun els (Pipe.ofHead { parts := parts })).take fu k =
      ((xseqSpec els (SF.ofChain parts)).vals.take k,
       if k ≤ (xseqSpec els (SF.ofChain parts)).vals.length then Ending.stoppedByConsumer else Ending.exhausted,
       (xseqSpec els (SF.ofChain parts)).need k) := by
  have hsrc := chain_produces (α := α) fu parts 0 0 hparts
  have hsf : SF.ofChain parts = ⟨(Pipe.ofHead { parts := parts }).now, chainStamps parts 0, chainEnd parts 0⟩ := rfl
  rw [hsf] at hfu ⊢
  obtain ⟨h1, h2⟩ := xcompose_pulls els hwf hfin (Pipe.ofHead { parts := parts }) fu hsrc hfu
  have := take_produces _ _ fu h1 k
  unfold Pipe.take
  rw [this]
  have hnow : (xseqRun els (Pipe.ofHead { parts := parts })).clock (xseqRun els (Pipe.ofHead { parts := parts })).st
      = (Pipe.ofHead { parts := parts }).now := sources_build_is_silent els _
  rw [hnow, SF.eta' _ _ h2]

/-- a chain of one iterable is the plain instrumented input of `Props/C02.lean` -/
theorem ofChain_single (xs : List α) : SF.ofChain [xs] = SF.ofList xs := by
  simp [SF.ofChain, SF.ofList, chainStamps, chainEnd]

/-- the iterables after the first are not touched before the first is exhausted, and so on: the stamped flow
of a chain is that of its first iterables followed by that of the rest, started at the clock at which the first
ones are exhausted -/
theorem chainStamps_append : ∀ (ps qs : List (List α)) (c : Nat),
    chainStamps (ps ++ qs) c = chainStamps ps c ++ chainStamps qs (chainEnd ps c)
  | [], qs, c => rfl
  | xs :: ps, qs, c => by
    simp only [List.cons_append, chainStamps, chainEnd, chainStamps_append ps qs, List.append_assoc]

/-- **`source_on_demand`** — where `Split.run` reaches `Source` `j` (the marker `a`, at stamp `c` of `Split.run`
proper, after `t` pulls from earlier `Source`s), value number `i` of the `Source` is handed downstream after
exactly `i + 1` pulls from it: nothing of the `Source` is produced before it is wanted. -/
theorem source_on_demand (mark : α → Option Nat) (srcs : Nat → BSrc α) (t c : Nat) (a : α) (r : List (α × Nat))
    (j : Nat) (hm : mark a = some j) (i : Nat) (x : α) (hx : (srcs j).list[i]? = some x) :
    (spliceVals mark srcs t ((a, c) :: r))[i]? = some (x, c + t + i + 1) := by
  have hlt : i < (srcs j).list.length := by
    rcases Nat.lt_or_ge i (srcs j).list.length with h | h
    · exact h
    · rw [List.getElem?_eq_none h] at hx; cases hx
  simp only [spliceVals, hm]
  rw [List.getElem?_append_left (by simpa using hlt), stamps_getElem?]
  simp [hx]

/-- for the examples: a `Source` represented by the marker `v`, and the sequence `(id,)` -/
def exSourceOps (v : Nat) : Lena.C03.Ops Unit Nat where
  call := fun s => ([v], s)
  fill := fun s _ => (s, false)
  compute := fun s => ([], s)
  request := fun s => ([], s)
  run := fun s _ => ([], s)

def exIdOps : Lena.C03.Ops Unit Nat where
  call := fun s => ([], s)
  fill := fun s _ => (s, false)
  compute := fun s => ([], s)
  request := fun s => ([], s)
  run := fun s buf => (buf, s)

/-- hypotheses of `sources_lazy` are satisfiable, and what it says — the shape of the adversary round:
`Split([Source(7, 8, 9), f], bufsize=2)` over `[0, 1, 2]`, here with `f = id`; markers are the numbers ≥ 100.
The values of the `Source` come after 3, 4, 5 pulls (2 from the input for the first block, then one per value),
the end of the `Source` costs the 6th, the block `0, 1` comes with it, the last block after 8 pulls. -/
example : (xseqRun [XStage.plain (.split Unit
        [{ id := 0, kind := .source, ops := exSourceOps 100, st := () },
         { id := 1, kind := .sequence, ops := exIdOps, st := () }]
        (some 2) true),
      .splice (fun v => if v ≥ 100 then some (v - 100) else none) (fun _ => .fin [7, 8, 9])]
    (Pipe.ofHead { parts := [[0, 1, 2]] })).take 40 9
    = ([(7, 3), (8, 4), (9, 5), (0, 6), (1, 6), (2, 8)], Ending.exhausted, 8) := by decide

/-- a chain of three iterables, the second one empty: `Filter(even), Slice(2)` ends after 5 pulls — the third
iterable has been asked for one value, the end of the second one cost a pull -/
example : (xseqRun [XStage.plain (.filter (fun n : Nat => n % 2 == 0)), .plain (.islice 0 (some 2) 1)]
    (Pipe.ofHead { parts := [[1, 2], [], [4, 5, 6]] })).take 40 5 = ([(2, 2), (4, 5)], Ending.exhausted, 5) := by
  decide

/-! ## infinite iterables -/

theorem XStage.trunc_wf (n : Nat) (e : XStage α) (h : e.WF) : (e.trunc n).WF := by
  cases e <;> exact h

theorem XStage.trunc_finite (n : Nat) (e : XStage α) : (e.trunc n).Finite := by
  cases e with
  | plain st => trivial
  | splice mark srcs =>
    intro j
    show ∃ xs, (srcs j).trunc n = .fin xs
    cases srcs j <;> exact ⟨_, rfl⟩

theorem xstage_pipeSim (e : XStage α) (fu n : Nat) (p1 p2 : Pipe α) (h : PipeSim fu n p1 p2) :
    PipeSim fu n (e.run p1) ((e.trunc n).run p2) := by
  cases e with
  | plain st => exact stage_pipeSim st fu n p1 p2 h
  | splice mark srcs => exact splice_pipeSim mark srcs fu n p1 p2 h

theorem xseq_pipeSim (els : List (XStage α)) (fu n : Nat) (p1 p2 : Pipe α) (h : PipeSim fu n p1 p2) :
    PipeSim fu n (xseqRun els p1) (xseqRun (els.map (XStage.trunc n)) p2) := by
  induction els generalizing p1 p2 with
  | nil => exact h
  | cons e es ih => exact ih _ _ (xstage_pipeSim e fu n p1 p2 h)

/-- **`sources_lazy_infinite`** — infinite flows are never materialised, wherever they enter.  Take any pipeline
whose input is a chain of iterables, the last of which may be infinite, and whose `Split`s may contain infinite
`Source`s.  Cut every infinite flow after `n` values and let `spec` be the stamped flow of that finite
pipeline.  If what the consumer asks for — `k` results — is settled within `n` pulls (`spec.need k ≤ n`), then
the real pipeline delivers exactly the same values at the same pull counts, stops with `spec.need k` pulls in
total, and has produced nothing beyond that from any of the infinite flows.  In particular `Slice(m)` after
`Split([Source(infinite), …])` or after `Source(Chain(infinite, …))` terminates. -/
theorem sources_lazy_infinite (els : List (XStage α)) (hwf : ∀ e ∈ els, e.WF) (h : Head α) (n fu : Nat)
    (hparts : (h.trunc n).length < fu)
    (hfu : xseqFuelOK (els.map (XStage.trunc n)) (SF.ofChain (h.trunc n)) fu) (k : Nat)
    (hk : (xseqSpec (els.map (XStage.trunc n)) (SF.ofChain (h.trunc n))).need k ≤ n) :
    (xseqRun els (Pipe.ofHead h)).take fu k =
      ((xseqSpec (els.map (XStage.trunc n)) (SF.ofChain (h.trunc n))).vals.take k,
       if k ≤ (xseqSpec (els.map (XStage.trunc n)) (SF.ofChain (h.trunc n))).vals.length
         then Ending.stoppedByConsumer else Ending.exhausted,
       (xseqSpec (els.map (XStage.trunc n)) (SF.ofChain (h.trunc n))).need k) := by
  have hfin := sources_lazy (els.map (XStage.trunc n))
    (by
      intro e he
      obtain ⟨e', he', rfl⟩ := List.mem_map.mp he
      exact XStage.trunc_wf n e' (hwf e' he'))
    (by
      intro e he
      obtain ⟨e', _, rfl⟩ := List.mem_map.mp he
      exact XStage.trunc_finite n e')
    (h.trunc n) fu hparts hfu k
  obtain ⟨R, dead, hs, h0, hc, hd⟩ := xseq_pipeSim els fu n _ _ (chain_pipeSim h n fu)
  unfold Pipe.take at hfin ⊢
  rw [← hfin]
  apply take_sim hs hc hd k _ _ h0
  · rw [hfin]; exact hk
  · rw [hfin]; simp only; split <;> simp
  · intro e; rw [hfin]; simp only; split <;> simp

/-- the shape of adversary candidate 1: `Split([Source(1000, 1001, …), id], bufsize=2)` over `0..9`, then
`Slice(3)`: three results after 5 pulls (2 from the input, 3 from the infinite `Source`), and the pipeline ends -/
example : (xseqRun [XStage.plain (.split Unit
        [{ id := 0, kind := .source, ops := exSourceOps 5000, st := () },
         { id := 1, kind := .sequence, ops := exIdOps, st := () }]
        (some 2) true),
      .splice (fun v => if v = 5000 then some 0 else none) (fun _ => .inf (fun i => 1000 + i)),
      .plain (.islice 0 (some 3) 1)]
    (Pipe.ofHead { parts := [[0, 1, 2, 3, 4, 5, 6, 7, 8, 9]] })).take 40 7
    = ([(1000, 3), (1001, 4), (1002, 5)], Ending.exhausted, 5) := by decide

/-- the shape of adversary candidate 2: `Source(Chain(<0, 1, 2, …>, …), x + 1, Slice(3))` -/
example : (xseqRun [XStage.plain (.map (· + 1)), .plain (.islice 0 (some 3) 1)]
    (Pipe.ofHead { parts := [], tail := some (fun i => i) })).take 40 7
    = ([(1, 1), (2, 2), (3, 3)], Ending.exhausted, 3) := by decide

/-- the hypothesis of `sources_lazy_infinite` on that instance: with the chain cut after 3 values, what a
consumer of 7 results gets is settled after 3 pulls -/
example : (xseqSpec ([XStage.plain (.map (· + 1)), .plain (.islice 0 (some 3) 1)].map (XStage.trunc 3))
    (SF.ofChain (Head.trunc 3 { parts := [], tail := some (fun i => i) }))).need 7 ≤ 3 := by decide

/-! ## the results are those of the list semantics -/

theorem spliceVals_fst (mark : α → Option Nat) (srcs : Nat → BSrc α) : ∀ (t : Nat) (vals : List (α × Nat)),
    (spliceVals mark srcs t vals).map Prod.fst = spliceDen mark srcs (vals.map Prod.fst)
  | _, [] => rfl
  | t, (a, c) :: r => by
    cases hm : mark a with
    | none => simp [spliceVals, spliceDen, hm, spliceVals_fst mark srcs t r]
    | some j => simp [spliceVals, spliceDen, hm, stamps_map_fst, spliceVals_fst mark srcs _ r]

/-- **`sources_refine_list`** — the values such a pipeline yields are the list semantics of its elements on the
concatenated iterables, every `Source` inside a `Split` contributing its flow where `Split.run` reaches it -/
theorem sources_refine_list (els : List (XStage α)) (hwf : ∀ e ∈ els, e.WF) (sf : SF α) :
    (xseqSpec els sf).vals.map Prod.fst = xseqDen els (sf.vals.map Prod.fst) := by
  induction els generalizing sf with
  | nil => rfl
  | cons e es ih =>
    show (xseqSpec es (e.spec sf)).vals.map Prod.fst = xseqDen es (e.den (sf.vals.map Prod.fst))
    rw [ih (fun e' he' => hwf e' (by simp [he']))]
    congr 1
    cases e with
    | plain st => exact stage_refines_list st (hwf (.plain st) (by simp)) sf
    | splice mark srcs => exact spliceVals_fst mark srcs 0 sf.vals

/-- a `Source` inside a `Split` buffers nothing (`XStage.cap`): the loop holds only the generator of the
`Source`; what the liveness oracle of the harness allows for such a pipeline is `xseqCap` -/
theorem splice_cap (mark : α → Option Nat) (srcs : Nat → BSrc α) : (XStage.splice mark srcs).cap = some 0 := rfl

end Lena.C02
