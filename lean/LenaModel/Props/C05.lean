import LenaModel.Lemmas.C05
import LenaModel.Props.C17
/-! # C05 — property theorems: an analysis gives the same result whether it is driven by run or by fill

Property text: "For every chain of pre-processing elements (callables, Variable, Filter, non-negative Slice,
RunIf), an accumulator and post-processing elements, the results are identical whether the chain is a linear
Sequence run over the flow, a branch of a Split with any bufsize, or an explicit FillComputeSeq / FillSeq filled
value by value (until it signals LenaStopFill) and then computed.  The adapters Call, Run, FillInto, FillCompute
and SourceEl preserve the meaning of the wrapped method for every method name and element kind they accept and
raise LenaTypeError at construction for everything else."

Model: `LenaModel/Model/C05.lean`.  All theorems are for arbitrary value types, arbitrary accumulators (any state
machine `Acc σ α`), arbitrary post-processing stages, flows of any length, any number of elements. -/

namespace Lena.C05
open Lena.Flow

variable {α κ σ : Type}

/-! ## 1. Driver-consistency of each pre-processing element kind

"its `run` on a list equals feeding the list value by value through its `fill_into` until `LenaStopFill`":
`K` is any element with a `fill` method (state `κ`), `fs` the `fill_into` state of the element, the input flow
ends normally (`t = none`) or by an exception `t = some e`. -/

/-- callables and `Variable`s (sentence 1, kind "callable"/"Variable"): filling the values through
`FillInto.fill_into` = filling the output of `Run._call_run`; same exception, same stop signal -/
theorem call_consistent (f : α → Except Exc α) (K : Sink κ α) (fs : Lena.C17.FillState) (s : κ) (flow : Strm α) :
    (feedS (stageSink (.call f) K) (fs, s) flow).map Prod.snd = feedS K s (mapS f flow) :=
  call_stage f K fs flow.term flow.vals s

/-- `Filter` (sentence 1, kind "Filter"): `Filter.fill_into` value by value = filling `Filter.run`'s output -/
theorem filter_consistent (p : α → Except Exc Bool) (K : Sink κ α) (fs : Lena.C17.FillState) (s : κ)
    (flow : Strm α) :
    (feedS (stageSink (.filter p) K) (fs, s) flow).map Prod.snd = feedS K s (filterS p flow) :=
  filter_stage p K fs flow.term flow.vals s

/-- `RunIf.run` keeps the contract behind `_can_break_flow`: running a flow = running its values one by one -/
theorem runIf_breaksFlow (select : α → Except Exc Bool) (inner : Stage α) :
    BreaksFlow (fun s => .ok (runIfS select inner s)) := by
  intro s
  simp only [runIfS, bindS, observe, Except.ok.injEq]
  congr 1
  funext v
  simp only [Strm.ofList, bindGo]
  exact (Strm.andThen_nil _).symm

/-- `RunIf` and any Run element that can break the flow (sentence 1, kind "RunIf"):
`FillInto._run_fill_into` value by value = filling the output of its `run` on the whole flow -/
theorem runif_consistent (r : Stage α) (hr : BreaksFlow r) (K : Sink κ α) (fs : Lena.C17.FillState) (s : κ)
    (flow : Strm α) :
    (feedS (stageSink (.runEl r) K) (fs, s) flow).map Prod.snd = feedS K s (observe (r flow)) := by
  rw [hr flow]
  exact runEl_stage r K fs flow.term flow.vals s

example : BreaksFlow (fun (s : Strm Int) => .ok (runIfS (fun v => .ok (v % 2 == 0))
    (fun s => .ok (mapS (fun v => .ok (v + 100)) s)) s)) := runIf_breaksFlow _ _

/-- `Slice(start, stop, step)`, all `start, stop ≥ 0`, `step ≥ 1` (sentence 1, kind "non-negative Slice"):
feeding a flow value by value through `Slice.fill_into` until it raises `LenaStopFill` (or the flow ends)
leaves the filled element in the state that filling `islice(flow, start, stop, step)` leaves it in, with the
same exception if the filled element raises one -/
theorem slice_consistent (start : Nat) (stop : Option Nat) (step : Nat) (hs : 1 ≤ step) (K : Sink κ α) (s : κ)
    (xs : List α) :
    (feedList (stageSink (.slice start stop step) K) (Lena.C17.fillInit start, s) xs).forget.map Prod.snd
      = (feedList K s (Lena.C17.islice xs start stop step)).forget :=
  slice_stage start stop step hs K xs start 0 _ s (Lena.C17.fillGood_init stop step start)

/-- … and what `islice` yields is Python's `xs[start:stop:step]` (from C17) -/
theorem slice_consistent_pyslice (start : Nat) (stop : Option Nat) (step : Nat) (hs : 1 ≤ step) (K : Sink κ α)
    (s : κ) (xs : List α) :
    (feedList (stageSink (.slice start stop step) K) (Lena.C17.fillInit start, s) xs).forget.map Prod.snd
      = (feedList K s (Lena.C17.pySlice xs (some (start : Int)) (stop.map Int.ofNat) step)).forget := by
  rw [slice_consistent start stop step hs, Lena.C17.islice_eq_pySlice xs start stop step hs]

/-- a concrete sink for the examples: it stores what it is filled with -/
def storeSink : Sink (List Int) Int := ⟨fun s v => .ok (s ++ [v])⟩

example : (feedList (stageSink (.slice 1 (some 6) 2) storeSink) (Lena.C17.fillInit 1, [])
    [0, 1, 2, 3, 4, 5, 6, 7, 8]).forget.map Prod.snd = .ok [1, 3, 5] := by rfl

/-! ## 2. The three drivers of a chain `pre* acc post*` -/

/-- what `Sequence.run` does before the accumulator, unfolded -/
theorem seqRun_eq (c : Chain σ α) (xs : List α) :
    seqRun c xs = observe (match composeS (c.pre.map Pre.run) (.ofList xs) with
      | .error e => .error e
      | .ok s => composeS (fcRun c.acc :: c.post) s) := by
  simp only [seqRun, seqStages, composeS_append]
  rfl

/-- **Sentence 1, Sequence vs FillComputeSeq/FillSeq.**  For every chain whose pre-processing elements are
callables/Variables, Filters, non-negative Slices and flow-breaking Run elements (`RunIf`), every accumulator,
every list of post-processing stages and every flow on which no pre-processing element raises
(`PreSafe`): the linear `Sequence` run over the flow and the explicit `FillComputeSeq` (or `FillSeq`) filled value by
value until `LenaStopFill` and then computed give identical results — the same values and, if the accumulator
or a later stage raises, the same exception at the same place. -/
theorem seq_eq_fill (c : Chain σ α) (xs : List α) (hwf : PreWF c.pre) (hacc : AccNoStop c.acc)
    (hsafe : PreSafe c.pre xs) :
    seqRun c xs = fillRun c xs := by
  obtain ⟨ys, hys, hfeed⟩ := chain_safe c.acc c.pre xs hwf hsafe
  rw [seqRun_eq, hys, fillRun_eq_finish]
  simp only [composeS, fcRun, Strm.ofList]
  rw [feedList_accSink c.acc hacc ys c.acc.init] at hfeed
  unfold fillAllChain
  cases hfa : c.acc.fillAll c.acc.init ys with
  | error e =>
    rw [hfa] at hfeed
    cases hfc : feedList (chainSink c.acc c.pre) (chainInit c.acc.init c.pre) xs with
    | ok st => rw [hfc] at hfeed; simp [FillRes.forget, Except.map] at hfeed
    | stop st => rw [hfc] at hfeed; simp [FillRes.forget, Except.map] at hfeed
    | err e' =>
      rw [hfc] at hfeed
      simp only [FillRes.forget, Except.map, Except.error.injEq] at hfeed
      subst hfeed
      rfl
  | ok s' =>
    rw [hfa] at hfeed
    cases hfc : feedList (chainSink c.acc c.pre) (chainInit c.acc.init c.pre) xs with
    | ok st =>
      rw [hfc] at hfeed
      simp only [FillRes.forget, Except.map, Except.ok.injEq] at hfeed
      simp only [finish, computeAfter, hfeed]
    | stop st =>
      rw [hfc] at hfeed
      simp only [FillRes.forget, Except.map, Except.ok.injEq] at hfeed
      simp only [finish, computeAfter, hfeed]
    | err e' => rw [hfc] at hfeed; simp [FillRes.forget, Except.map] at hfeed

/-- **Sentence 1, FillComputeSeq vs a branch of a Split with any bufsize** (unconditional): a `Split` with the
chain as its only branch, any `bufsize` (`None` or `≥ 1`), yields exactly what the explicit `FillComputeSeq`
gives — values and exception — for every chain and flow. -/
theorem fill_eq_split (c : Chain σ α) (bufsize : Option Nat) (hb : bufsize ≠ some 0) (xs : List α) :
    splitRun [c] bufsize xs = fillRun c xs := by
  simp only [splitRun, splitRunTagged, initActive]
  rw [splitLoop_single, Active.rest, chunks_flatten bufsize hb xs, fillRun_eq_finish]
  simp only [tag, Strm.map, List.map_map, fillAllChain]
  generalize finish c _ = r
  obtain ⟨v, t⟩ := r
  have : (Prod.snd ∘ fun (v : α) => (0, v)) = id := rfl
  simp [this]

/-- **Sentence 1 (main theorem): the three drivers agree.**  ∀ chains `pre* acc post*`, ∀ flows, ∀ bufsizes:
`Sequence(chain).run(xs)` = `FillComputeSeq(chain)` filled with `xs` until `LenaStopFill`, then computed
= `Split([chain], bufsize).run(xs)`. -/
theorem three_drivers_agree (c : Chain σ α) (xs : List α) (bufsize : Option Nat) (hb : bufsize ≠ some 0)
    (hwf : PreWF c.pre) (hacc : AccNoStop c.acc) (hsafe : PreSafe c.pre xs) :
    seqRun c xs = fillRun c xs ∧ splitRun [c] bufsize xs = fillRun c xs :=
  ⟨seq_eq_fill c xs hwf hacc hsafe, fill_eq_split c bufsize hb xs⟩

/-- **Without a Slice before the accumulator no hypothesis on the flow is needed**: also when a
pre-processing element raises, the drivers raise the same exception (provided nobody raises `LenaStopFill`:
the explicit fill loop is not stopped). -/
theorem three_drivers_agree_no_slice (c : Chain σ α) (xs : List α) (bufsize : Option Nat) (hb : bufsize ≠ some 0)
    (hwf : PreWF c.pre) (hns : NoSlice c.pre) (hstop : ∀ st, fillAllChain c xs ≠ .stop st) :
    seqRun c xs = fillRun c xs ∧ splitRun [c] bufsize xs = fillRun c xs := by
  refine ⟨?_, fill_eq_split c bufsize hb xs⟩
  obtain ⟨out, hout, hfeed⟩ := chain_noslice c.acc c.pre (.ofList xs) hwf hns
  rw [seqRun_eq, hout, fillRun_eq_finish]
  rw [feedS_ofList] at hfeed
  have hfa : fillAllChain c xs = feedList (chainSink c.acc c.pre) (chainInit c.acc.init c.pre) xs := rfl
  rw [← hfa] at hfeed
  -- the accumulator filled with `out`: `feedS` against `fcRun`
  have key : ∀ (vals : List α) (s : σ),
      (∀ s', feedS (accSink c.acc) s ⟨vals, out.term⟩ ≠ .stop s') →
      (match c.acc.fillAll s vals with
        | .error e => (Except.error e : Except Exc (Strm α))
        | .ok st => (match out.term with
          | some e => .error e
          | none => .ok (computeS c.acc st)))
        = (match feedS (accSink c.acc) s ⟨vals, out.term⟩ with
          | .ok st => .ok (computeS c.acc st)
          | .stop st => .ok (computeS c.acc st)
          | .err e => .error e) := by
    intro vals
    induction vals with
    | nil =>
      intro s hno
      simp only [Acc.fillAll, feedS_mk_nil] at hno ⊢
      cases ht : out.term with
      | none => rfl
      | some e =>
        rw [ht] at hno
        by_cases he : e = Exc.lenaStopFill
        · exact absurd (by simp [FillRes.raise, he]) (hno s)
        · simp [FillRes.raise, he]
    | cons x vals ih =>
      intro s hno
      simp only [Acc.fillAll, feedS_mk_cons, accSink] at hno ⊢
      cases hf : c.acc.fill s x with
      | error e =>
        rw [hf] at hno
        by_cases he : e = Exc.lenaStopFill
        · exact absurd (by simp [FillRes.raise, he]) (hno s)
        · simp [FillRes.raise, he]
      | ok s' =>
        rw [hf] at hno
        exact ih s' hno
  have hno : ∀ s', feedS (accSink c.acc) c.acc.init ⟨out.vals, out.term⟩ ≠ .stop s' := by
    intro s' h
    have h' : feedS (accSink c.acc) c.acc.init out = .stop s' := h
    rw [h'] at hfeed
    cases hfc : fillAllChain c xs with
    | ok st => rw [hfc] at hfeed; simp [FillRes.map] at hfeed
    | stop st => exact hstop st hfc
    | err e => rw [hfc] at hfeed; simp [FillRes.map] at hfeed
  have hk := key out.vals c.acc.init hno
  simp only [composeS, fcRun]
  have hout' : (⟨out.vals, out.term⟩ : Strm α) = out := rfl
  rw [hout'] at hk
  cases hfc : fillAllChain c xs with
  | stop st => exact absurd hfc (hstop st)
  | ok st =>
    rw [hfc] at hfeed
    simp only [FillRes.map] at hfeed
    rw [← hfeed] at hk
    simp only at hk
    simp only [finish, computeAfter]
    cases hfa2 : c.acc.fillAll c.acc.init out.vals with
    | error e => rw [hfa2] at hk; simp at hk
    | ok st2 =>
      rw [hfa2] at hk
      simp only at hk ⊢
      cases ht : out.term with
      | some e => rw [ht] at hk; simp at hk
      | none =>
        rw [ht] at hk
        simp only [Except.ok.injEq] at hk
        simp only [hk]
  | err e =>
    rw [hfc] at hfeed
    simp only [FillRes.map] at hfeed
    rw [← hfeed] at hk
    simp only at hk
    simp only [finish]
    cases hfa2 : c.acc.fillAll c.acc.init out.vals with
    | error e2 =>
      rw [hfa2] at hk
      simp only [Except.error.injEq] at hk
      simp [hk, observe]
    | ok st2 =>
      rw [hfa2] at hk
      simp only at hk ⊢
      cases ht : out.term with
      | some e2 =>
        rw [ht] at hk
        simp only [Except.error.injEq] at hk
        simp [hk, observe]
      | none => rw [ht] at hk; simp at hk

/-! ### non-vacuity: a concrete chain satisfying every hypothesis -/

/-- `Sum()` on integers -/
def exSum : Acc Int Int := { init := 0, fill := fun s v => .ok (s + v), compute := fun s => .ok [s] }

/-- `(lambda v: v + 1, Filter(even), RunIf(v > 4, lambda v: v * 10), Slice(1, 4, 2), Sum(), lambda v: -v)` -/
def exChain : Chain Int Int :=
  { pre := [.call (fun v => .ok (v + 1)), .filter (fun v => .ok (v % 2 == 0)),
            .runEl (fun s => .ok (runIfS (fun v => .ok (decide (v > 4))) (fun s => .ok (mapS (fun v => .ok (v * 10)) s)) s)),
            .slice 1 (some 4) 2]
    acc := exSum
    post := [fun s => .ok (mapS (fun v => .ok (-v)) s)] }

theorem exChain_wf : PreWF exChain.pre := by
  intro e he
  simp only [exChain, List.mem_cons, List.not_mem_nil, or_false] at he
  rcases he with rfl | rfl | rfl | rfl
  · trivial
  · trivial
  · exact runIf_breaksFlow _ _
  · show 1 ≤ 2
    omega

theorem exSum_noStop : AccNoStop exSum := by
  intro s v h
  simp [exSum] at h

example : PreSafe exChain.pre [1, 2, 3, 4, 5, 6, 7, 8, 9] := by rfl
example : seqRun exChain [1, 2, 3, 4, 5, 6, 7, 8, 9] = ⟨[-84], none⟩ := by rfl
example : fillRun exChain [1, 2, 3, 4, 5, 6, 7, 8, 9] = ⟨[-84], none⟩ := by rfl
example : splitRun [exChain] (some 2) [1, 2, 3, 4, 5, 6, 7, 8, 9] = ⟨[-84], none⟩ := by rfl
example : seqRun exChain [1, 2, 3, 4, 5, 6, 7, 8, 9] = fillRun exChain [1, 2, 3, 4, 5, 6, 7, 8, 9] ∧
    splitRun [exChain] (some 3) [1, 2, 3, 4, 5, 6, 7, 8, 9] = fillRun exChain [1, 2, 3, 4, 5, 6, 7, 8, 9] :=
  three_drivers_agree exChain _ (some 3) (by decide) exChain_wf exSum_noStop (by rfl)

/-- the look-ahead value: `(boom, Slice(1), Sum())` on `[1, 13]`.  `islice` never pulls the second value, the
explicit fill loop must offer it to `Slice.fill_into` to get `LenaStopFill`, and `boom` raises on it.  This is
why `PreSafe` is a hypothesis of `seq_eq_fill` (and not of `fill_eq_split`). -/
def exBoom : Chain Int Int :=
  { pre := [.call (fun v => if v = 13 then .error .valueError else .ok v), .slice 0 (some 1) 1]
    acc := exSum, post := [] }

example : seqRun exBoom [1, 13] = ⟨[1], none⟩ := by rfl
example : fillRun exBoom [1, 13] = .fail .valueError := by rfl
example : ¬ PreSafe exBoom.pre [1, 13] := by
  intro h
  have : preSafeB exBoom.pre [1, 13] = false := by rfl
  rw [PreSafe, this] at h
  cases h

set_option linter.unusedSimpArgs false

/-! ## 3. The adapters (sentence 2)

"The adapters Call, Run, FillInto, FillCompute and SourceEl preserve the meaning of the wrapped method for every
method name and element kind they accept and raise LenaTypeError at construction for everything else."
`c : Caps` is any object (any capability table), `name` any method name (`none` = no keyword argument). -/

theorem call_accepts_iff (c : Caps) (name : Option String) :
    (∃ m, mkCall c name = .ok m) ↔ callAccepts c name = true := by
  cases name with
  | none => by_cases h : c.callable = true <;> simp [mkCall, callAccepts, h]
  | some n => by_cases h : c.hasMethod n = true <;> simp [mkCall, callAccepts, h]

theorem call_rejects (c : Caps) (name : Option String) (h : callAccepts c name = false) :
    mkCall c name = .error .lenaTypeError := by
  cases name with
  | none => simp only [callAccepts] at h; simp [mkCall, h]
  | some n => simp only [callAccepts] at h; simp [mkCall, h]

/-- `Call` is bound to the element itself, or to the method of the given name — never to anything else -/
theorem call_preserves (c : Caps) (name : Option String) (m : CallMode) (h : mkCall c name = .ok m) :
    m = callBinding name := by
  cases name with
  | none =>
    simp only [mkCall] at h
    split at h <;> (subst_vars; simp_all [callBinding, sourceElBinding, runBinding, fillIntoBinding, fillComputeBinding])
  | some n =>
    simp only [mkCall] at h
    split at h <;> (subst_vars; simp_all [callBinding, sourceElBinding, runBinding, fillIntoBinding, fillComputeBinding])

theorem sourceEl_accepts_iff (c : Caps) (name : Option String) :
    (∃ m, mkSourceEl c name = .ok m) ↔ sourceElAccepts c name = true := by
  cases name with
  | none =>
    by_cases h : c.callable = true <;> by_cases h2 : (c.attr "__iter__").present = true <;>
      simp [mkSourceEl, sourceElAccepts, h, h2]
  | some n => by_cases h : c.hasMethod n = true <;> simp [mkSourceEl, sourceElAccepts, h]

theorem sourceEl_rejects (c : Caps) (name : Option String) (h : sourceElAccepts c name = false) :
    mkSourceEl c name = .error .lenaTypeError := by
  cases name with
  | none =>
    simp only [sourceElAccepts, Bool.or_eq_false_iff] at h
    simp [mkSourceEl, h.1, h.2]
  | some n => simp only [sourceElAccepts] at h; simp [mkSourceEl, h]

/-- `SourceEl` is bound to the callable element, to `lambda: el` for a non-callable iterable, or to the named
method -/
theorem sourceEl_preserves (c : Caps) (name : Option String) (m : CallMode) (h : mkSourceEl c name = .ok m) :
    m = sourceElBinding c name := by
  cases name with
  | none =>
    simp only [mkSourceEl] at h
    split at h
    · (subst_vars; simp_all [callBinding, sourceElBinding, runBinding, fillIntoBinding, fillComputeBinding])
    · split at h <;> (subst_vars; simp_all [callBinding, sourceElBinding, runBinding, fillIntoBinding, fillComputeBinding])
  | some n =>
    simp only [mkSourceEl] at h
    split at h <;> (subst_vars; simp_all [callBinding, sourceElBinding, runBinding, fillIntoBinding, fillComputeBinding])

theorem run_accepts_iff (c : Caps) (name : Option String) :
    (∃ m, mkRun c name = .ok m) ↔ runAccepts c name = true := by
  cases name with
  | none =>
    by_cases h : c.hasMethod "run" = true <;> by_cases h2 : c.callable = true <;>
      by_cases h3 : c.isFillComputeEl = true <;> simp [mkRun, runAccepts, h, h2, h3]
  | some n =>
    by_cases h : c.isNone = true <;> by_cases h2 : c.hasMethod n = true <;> by_cases h3 : c.givenCallable = true <;>
      simp [mkRun, runAccepts, h, h2, h3]

theorem run_rejects (c : Caps) (name : Option String) (h : runAccepts c name = false) :
    mkRun c name = .error .lenaTypeError := by
  cases name with
  | none =>
    simp only [runAccepts, Bool.or_eq_false_iff] at h
    simp [mkRun, h.1.1, h.1.2, h.2]
  | some n =>
    simp only [runAccepts] at h
    by_cases hn : c.isNone = true
    · simp only [hn, if_true] at h
      simp [mkRun, hn, h]
    · simp only [hn, Bool.false_eq_true, if_false] at h
      simp [mkRun, hn, h]

/-- `Run.run` is the element's own `run` if it has one, else the map of the callable over the flow, else
fill-all-then-compute; with a method name it is that method (or the given function for `Run(None, run=f)`) -/
theorem run_preserves (c : Caps) (name : Option String) (m : RunMode) (h : mkRun c name = .ok m) :
    m = runBinding c name := by
  cases name with
  | none =>
    simp only [mkRun] at h
    split at h
    · (subst_vars; simp_all [callBinding, sourceElBinding, runBinding, fillIntoBinding, fillComputeBinding])
    · split at h
      · (subst_vars; simp_all [callBinding, sourceElBinding, runBinding, fillIntoBinding, fillComputeBinding])
      · split at h <;> (subst_vars; simp_all [callBinding, sourceElBinding, runBinding, fillIntoBinding, fillComputeBinding])
  | some n =>
    simp only [mkRun] at h
    split at h
    · split at h <;> (subst_vars; simp_all [callBinding, sourceElBinding, runBinding, fillIntoBinding, fillComputeBinding])
    · split at h <;> (subst_vars; simp_all [callBinding, sourceElBinding, runBinding, fillIntoBinding, fillComputeBinding])

theorem fillInto_accepts_iff (c : Caps) (name : Option String) :
    (∃ m, mkFillInto c name = .ok m) ↔ fillIntoAccepts c name = true := by
  cases name with
  | none =>
    by_cases h : c.hasMethod "fill_into" = true <;> by_cases h2 : (c.callable && !c.isSplit) = true <;>
      by_cases h3 : (c.isRunEl && (c.attr "_can_break_flow").present) = true <;>
      simp [mkFillInto, fillIntoAccepts, h, h2, h3]
  | some n => by_cases h : c.hasMethod n = true <;> simp [mkFillInto, fillIntoAccepts, h]

/-- in particular: an explicitly given method name that is missing or not callable is rejected, whatever else
the element can do (this is what the seeded change C05-B breaks) -/
theorem fillInto_rejects (c : Caps) (name : Option String) (h : fillIntoAccepts c name = false) :
    mkFillInto c name = .error .lenaTypeError := by
  cases name with
  | none =>
    simp only [fillIntoAccepts, Bool.or_eq_false_iff] at h
    simp [mkFillInto, h.1.1, h.1.2, h.2]
  | some n => simp only [fillIntoAccepts] at h; simp [mkFillInto, h]

/-- `FillInto.fill_into` is the element's own `fill_into`, else `element.fill(el(value))` for a callable that is
not a `Split`, else `_run_fill_into` for a Run element with `_can_break_flow`; with a name it is that method -/
theorem fillInto_preserves (c : Caps) (name : Option String) (m : FillIntoMode) (h : mkFillInto c name = .ok m) :
    m = fillIntoBinding c name := by
  cases name with
  | none =>
    simp only [mkFillInto] at h
    split at h
    · (subst_vars; simp_all [callBinding, sourceElBinding, runBinding, fillIntoBinding, fillComputeBinding])
    · split at h
      · (subst_vars; simp_all [callBinding, sourceElBinding, runBinding, fillIntoBinding, fillComputeBinding])
      · split at h <;> (subst_vars; simp_all [callBinding, sourceElBinding, runBinding, fillIntoBinding, fillComputeBinding])
  | some n =>
    simp only [mkFillInto] at h
    split at h <;> (subst_vars; simp_all [callBinding, sourceElBinding, runBinding, fillIntoBinding, fillComputeBinding])

theorem fillCompute_accepts_iff (c : Caps) (fill compute : String) :
    (∃ m, mkFillCompute c fill compute = .ok m) ↔ fillComputeAccepts c fill compute = true := by
  by_cases h : c.hasMethod fill = true <;> by_cases h2 : c.hasMethod compute = true <;>
    by_cases h3 : c.hasMethod "request" = true <;> simp [mkFillCompute, fillComputeAccepts, h, h2, h3]

theorem fillCompute_rejects (c : Caps) (fill compute : String) (h : fillComputeAccepts c fill compute = false) :
    mkFillCompute c fill compute = .error .lenaTypeError := by
  by_cases h1 : c.hasMethod fill = true <;> by_cases h2 : c.hasMethod compute = true <;>
    by_cases h3 : c.hasMethod "request" = true <;> simp_all [mkFillCompute, fillComputeAccepts]

/-- `FillCompute.fill` is the method named `fill`; `compute` is the method named `compute`, or `request` when
that one is missing (cast from a FillRequest element) -/
theorem fillCompute_preserves (c : Caps) (fill compute : String) (m : String × String)
    (h : mkFillCompute c fill compute = .ok m) :
    m = fillComputeBinding c fill compute := by
  simp only [mkFillCompute] at h
  split at h
  · split at h
    · (subst_vars; simp_all [callBinding, sourceElBinding, runBinding, fillIntoBinding, fillComputeBinding])
    · split at h <;> (subst_vars; simp_all [callBinding, sourceElBinding, runBinding, fillIntoBinding, fillComputeBinding])
  · (subst_vars; simp_all [callBinding, sourceElBinding, runBinding, fillIntoBinding, fillComputeBinding])

/-- **Sentence 2, acceptance**: each adapter is constructed iff the documented capability is present, and every
other combination of element and method name raises `LenaTypeError` (and nothing else) at construction -/
theorem adapter_accepts_iff (c : Caps) (name : Option String) (fill compute : String) :
    ((∃ m, mkCall c name = .ok m) ↔ callAccepts c name = true) ∧
    ((∃ m, mkSourceEl c name = .ok m) ↔ sourceElAccepts c name = true) ∧
    ((∃ m, mkRun c name = .ok m) ↔ runAccepts c name = true) ∧
    ((∃ m, mkFillInto c name = .ok m) ↔ fillIntoAccepts c name = true) ∧
    ((∃ m, mkFillCompute c fill compute = .ok m) ↔ fillComputeAccepts c fill compute = true) ∧
    (callAccepts c name = false → mkCall c name = .error .lenaTypeError) ∧
    (sourceElAccepts c name = false → mkSourceEl c name = .error .lenaTypeError) ∧
    (runAccepts c name = false → mkRun c name = .error .lenaTypeError) ∧
    (fillIntoAccepts c name = false → mkFillInto c name = .error .lenaTypeError) ∧
    (fillComputeAccepts c fill compute = false → mkFillCompute c fill compute = .error .lenaTypeError) :=
  ⟨call_accepts_iff c name, sourceEl_accepts_iff c name, run_accepts_iff c name, fillInto_accepts_iff c name,
   fillCompute_accepts_iff c fill compute, call_rejects c name, sourceEl_rejects c name, run_rejects c name,
   fillInto_rejects c name, fillCompute_rejects c fill compute⟩

/-- **Sentence 2, meaning**: an accepted adapter exposes the wrapped method (the one named, or the element's own),
or the documented conversion of the element — nothing else -/
theorem adapter_preserves (c : Caps) (name : Option String) (fill compute : String) :
    (∀ m, mkCall c name = .ok m → m = callBinding name) ∧
    (∀ m, mkSourceEl c name = .ok m → m = sourceElBinding c name) ∧
    (∀ m, mkRun c name = .ok m → m = runBinding c name) ∧
    (∀ m, mkFillInto c name = .ok m → m = fillIntoBinding c name) ∧
    (∀ m, mkFillCompute c fill compute = .ok m → m = fillComputeBinding c fill compute) :=
  ⟨call_preserves c name, sourceEl_preserves c name, run_preserves c name, fillInto_preserves c name,
   fillCompute_preserves c fill compute⟩

/-! ### the meaning of the exposed method

The theorems above say *which* method an adapter binds.  With the behaviour of an object's methods given by name
(`Meths`), `denRun` … are the behaviour of the method the adapter exposes; the theorems below say that it is the
behaviour of the wrapped method (or the documented conversion), so that a wrong binding is a wrong theorem.  The driver
evaluates `denRun` … on samples for the synthetic classes, the harness compares with the real adapter objects. -/

/-- what `Call(el, call=name)(value)` is documented to do -/
def callMeaning (o : Obj) (ms : Meths) : Option String → Option (Value → Except Exc Value)
  | none => some o.callDen
  | some n => ms.callM n

/-- what `Run(el, run=name).run(flow)` is documented to do: the method of that name (the given function for
`el is None`); without a name the element's own `run`, else the map of the callable, else fill-all-then-compute -/
def runMeaning (o : Obj) (ms : Meths) (given : Stage Value) : Option String → Option (Stage Value)
  | some n => if o.caps.isNone then some given else ms.runM n
  | none =>
    if o.caps.hasMethod "run" then ms.runM "run"
    else if o.caps.callable then some (fun s => .ok (mapS o.callDen s))
    else some (fcRun o.accDen)

/-- what `FillInto(el, fill_into=name).fill_into(element, value)` is documented to do -/
def fillIntoMeaning (o : Obj) (ms : Meths) : Option String → Option (Pre Value)
  | some n => ms.fillIntoM n
  | none =>
    if o.caps.hasMethod "fill_into" then ms.fillIntoM "fill_into"
    else if o.caps.callable && !o.caps.isSplit then some (.call o.callDen)
    else some (.runEl o.runDen)

theorem call_preserves_meaning (o : Obj) (ms : Meths) (name : Option String) (m : CallMode)
    (h : mkCall o.caps name = .ok m) : denCall o ms m = callMeaning o ms name := by
  rw [call_preserves o.caps name m h]
  cases name <;> rfl

theorem run_preserves_meaning (o : Obj) (ms : Meths) (given : Stage Value) (name : Option String) (m : RunMode)
    (h : mkRun o.caps name = .ok m) : denRun o ms given m = runMeaning o ms given name := by
  rw [run_preserves o.caps name m h]
  cases name with
  | some n =>
    simp only [runBinding, runMeaning]
    split <;> rfl
  | none =>
    simp only [runBinding, runMeaning]
    split
    · rfl
    · split <;> rfl

theorem fillInto_preserves_meaning (o : Obj) (ms : Meths) (name : Option String) (m : FillIntoMode)
    (h : mkFillInto o.caps name = .ok m) : denFillInto o ms m = fillIntoMeaning o ms name := by
  rw [fillInto_preserves o.caps name m h]
  cases name with
  | some n => rfl
  | none =>
    simp only [fillIntoBinding, fillIntoMeaning]
    split
    · rfl
    · split <;> rfl

/-- `FillCompute(el, fill=f, compute=c)`: `fill` is the method `f`; `compute` is the method `c`, or `request` -/
theorem fillCompute_preserves_meaning (o : Obj) (ms : Meths) (fill compute : String) (b : String × String)
    (h : mkFillCompute o.caps fill compute = .ok b) :
    denFillCompute ms b = ms.accM fill (if o.caps.hasMethod compute then compute else "request") := by
  rw [fillCompute_preserves o.caps fill compute b h]
  rfl

theorem attr_present_of_callable {a : Attr} (h : a.callable = true) : a.present = true := by
  cases a <;> simp_all [Attr.callable, Attr.present]

/-- **`Sequence.__init__` is the `Run` adapter**: the stage an element becomes in a `Sequence` is the behaviour of
`Run(el).run` (and `LenaTypeError` exactly when `Run(el)` raises) -/
theorem toStage_is_run_adapter (o : Obj) :
    o.toStage = (match mkRun o.caps none with
      | .error _ => .error .lenaTypeError
      | .ok m =>
        match denRun o o.meths (fun s => .ok s) m with
        | some st => .ok st
        | none => .error .lenaTypeError) := by
  simp only [Obj.toStage, mkRun, Caps.hasMethod, Obj.meths, denRun]
  by_cases h1 : (o.caps.attr "run").callable = true
  · simp [h1, attr_present_of_callable h1]
  · have h1' : (o.caps.attr "run").callable = false := by simpa using h1
    by_cases h2 : o.caps.callable = true
    · simp [h1', h2]
    · by_cases h3 : o.caps.isFillComputeEl = true
      · simp [h1', h2, h3]
      · simp [h1', h2, h3]

/-- **`FillSeq.__init__` is the `FillInto` adapter** -/
theorem toPre_is_fillInto_adapter (o : Obj) :
    o.toPre = (match mkFillInto o.caps none with
      | .error _ => .error .lenaTypeError
      | .ok m =>
        match denFillInto o o.meths m with
        | some p => .ok p
        | none => .error .lenaTypeError) := by
  simp only [Obj.toPre, mkFillInto, Caps.hasMethod, Obj.meths, denFillInto]
  by_cases h1 : (o.caps.attr "fill_into").callable = true
  · simp [h1, attr_present_of_callable h1]
  · have h1' : (o.caps.attr "fill_into").callable = false := by simpa using h1
    by_cases h2 : (o.caps.callable && !o.caps.isSplit) = true
    · simp [h1', h2]
    · by_cases h3 : (o.caps.isRunEl && (o.caps.attr "_can_break_flow").present) = true
      · simp [h1', h2, h3]
      · simp [h1', h2, h3]

/-- a callable object with a method `fill_negated` and a non-callable attribute `not_a_method` (the `Scaler` of the
seeded demonstration) -/
def exScaler : Caps := capsOf [("fill_negated", .method), ("not_a_method", .value)] true

example : mkFillInto exScaler none = .ok .callDefault := by rfl
example : mkFillInto exScaler (some "fill_negated") = .ok (.method "fill_negated") := by rfl
example : mkFillInto exScaler (some "fill_negate") = .error .lenaTypeError := by rfl
example : mkFillInto exScaler (some "not_a_method") = .error .lenaTypeError := by rfl
example : fillIntoAccepts exScaler (some "fill_negate") = false := by rfl
example : mkRun (capsOf [("fill", .method), ("compute", .method)] false) none = .ok .fcRun := by rfl
example : mkFillCompute (capsOf [("fill", .method), ("request", .method)] false) "fill" "compute"
    = .ok ("fill", "request") := by rfl
example : mkSourceEl (capsOf [("__iter__", .method)] false) none = .ok .iter := by rfl

/-! ## 4. From Python objects to the chain: what the two constructors build

The three-driver theorems are about a semantic `Chain`.  This section ties it to the constructors: given objects
of the property's kinds, `FillComputeSeq(*args)` and `Sequence(*args)` both succeed, and they are exactly
`fillRun`/`splitRun` resp. `seqRun` of one and the same chain. -/

/-- an object of one of the property's pre-processing kinds, as the constructors see it -/
inductive PreKind (o : Obj) : Prop where
  /-- `Filter`, `Slice`: own `fill_into` and own `run`, which the model transcribes as the two faces of one `Pre` -/
  | ownFillInto (hfi : o.caps.attr "fill_into" = .method) (hrun : o.caps.attr "run" = .method)
      (hcoh : o.runDen = o.fillIntoDen.run)
  /-- plain callables and `Variable`s: callable, not a `Split`, no `run`, no `fill_into` -/
  | callable (hc : o.caps.callable = true) (hs : o.caps.isSplit = false)
      (hrun : (o.caps.attr "run").callable = false) (hfi : (o.caps.attr "fill_into").callable = false)
  /-- `RunIf`: a Run element with `_can_break_flow`, not callable, no `fill_into` -/
  | canBreakFlow (hrun : o.caps.attr "run" = .method) (hcbf : (o.caps.attr "_can_break_flow").present = true)
      (hfi : (o.caps.attr "fill_into").callable = false) (hc : o.caps.callable = false)

/-- both constructors convert an element of the property's kinds, and to the two faces of the same `Pre` -/
theorem preKind_converts (o : Obj) (h : PreKind o) :
    ∃ p, o.toPre = .ok p ∧ o.toStage = .ok p.run := by
  cases h with
  | ownFillInto hfi hrun hcoh =>
    refine ⟨o.fillIntoDen, ?_, ?_⟩
    · simp [Obj.toPre, hfi, Attr.present, Attr.callable]
    · simp [Obj.toStage, hrun, Attr.present, Attr.callable, hcoh]
  | callable hc hs hrun hfi =>
    refine ⟨.call o.callDen, ?_, ?_⟩
    · simp [Obj.toPre, hfi, mkFillInto, Caps.hasMethod, hc, hs]
    · simp [Obj.toStage, hrun, mkRun, Caps.hasMethod, hc, Pre.run]
  | canBreakFlow hrun hcbf hfi hc =>
    refine ⟨.runEl o.runDen, ?_, ?_⟩
    · have h1 : ((o.caps.attr "fill_into").present && (o.caps.attr "fill_into").callable) = false := by simp [hfi]
      have h2 : o.caps.isRunEl = true := by simp [Caps.isRunEl, hrun, Attr.present, Attr.callable]
      simp only [Obj.toPre, h1, mkFillInto, Caps.hasMethod, hfi, hc, h2, hcbf]
      simp
    · simp [Obj.toStage, hrun, Attr.present, Attr.callable, Pre.run]

theorem preKinds_convert : ∀ (pre : List Obj), (∀ o ∈ pre, PreKind o) →
    ∃ ps, toPres pre = .ok ps ∧ toStages pre = .ok (ps.map Pre.run)
  | [], _ => ⟨[], rfl, rfl⟩
  | o :: pre, h => by
    obtain ⟨p, hp, hs⟩ := preKind_converts o (h o (List.mem_cons_self ..))
    obtain ⟨ps, hps, hss⟩ := preKinds_convert pre (fun o' ho' => h o' (List.mem_cons_of_mem _ ho'))
    exact ⟨p :: ps, by simp [toPres, hp, hps], by simp [toStages, hs, hss]⟩

/-- **construction of a chain `pre* acc post*`** from objects: every pre-processing object is of one of the
property's kinds (and is not itself a fill/compute element), the accumulator has callable `fill` and `compute`
and neither `run` nor `__call__` (a dual-interface element like `Count` is wrapped in `FillCompute`), the
post-processing objects (those without `_has_no_data`) are convertible by `Sequence`.  Then `FillComputeSeq(*args)` succeeds with a chain `c`
whose accumulator and post-processing stages are the given ones, and `Sequence(*args)` succeeds and is exactly
`seqStages c` — so `three_drivers_agree` speaks about the two real constructions. -/
theorem construct_chain (pre post : List Obj) (acc : Obj) (postStages : List (Stage Value))
    (hpre : ∀ o ∈ pre, o.hasNoData = false ∧ o.caps.isFillComputeEl = false ∧ PreKind o)
    (hacc : acc.hasNoData = false ∧ acc.caps.isFillComputeEl = true ∧
      (acc.caps.attr "run").callable = false ∧ acc.caps.callable = false)
    (hpost : toStages (dataSeq post) = .ok postStages) :
    ∃ c, mkFillComputeSeq (pre ++ acc :: post) = .ok c ∧ c.acc = acc.accDen ∧ c.post = postStages ∧
      toPres pre = .ok c.pre ∧ mkSequence (pre ++ acc :: post) = .ok (composeS (seqStages c)) := by
  obtain ⟨hand, hafc, harun, hacall⟩ := hacc
  obtain ⟨ps, hps, hss⟩ := preKinds_convert pre (fun o ho => (hpre o ho).2.2)
  have hpreData : dataSeq pre = pre := dataSeq_of_all_data pre (fun o ho => (hpre o ho).1)
  have hdata : dataSeq (pre ++ acc :: post) = pre ++ acc :: dataSeq post := by
    simp only [dataSeq] at hpreData ⊢
    simp [List.filter_append, hpreData, List.filter_cons, hand]
  have hsplit := splitAtFc_append pre acc (dataSeq post) (fun o ho => (hpre o ho).2.1) hafc
  have hfill : acc.caps.hasMethod "fill" = true := by
    simp only [Caps.isFillComputeEl, Bool.and_eq_true] at hafc
    exact hafc.1.2
  have haccStage : acc.toStage = .ok (fcRun acc.accDen) := by
    simp [Obj.toStage, harun, mkRun, Caps.hasMethod, hacall, hafc]
  have hdd : dataSeq (dataSeq post) = dataSeq post := by simp [dataSeq, List.filter_filter]
  refine ⟨{ pre := ps, acc := acc.accDen, post := postStages }, ?_, rfl, rfl, hps, ?_⟩
  · simp [mkFillComputeSeq, hdata, hsplit, mkFillSeq, hfill, hps, hdd, hpost]
  · have h2 : toStages (acc :: dataSeq post) = .ok (fcRun acc.accDen :: postStages) := by
      simp [toStages, haccStage, hpost]
    have h3 := toStages_append pre (acc :: dataSeq post) _ _ hss h2
    simp [mkSequence, hdata, h3, seqStages]

/-- the constructors raise nothing but `LenaTypeError` -/
theorem constructors_only_lenaTypeError (args : List Obj) (e : Exc) :
    (mkSequence args = .error e → e = .lenaTypeError) ∧
    ((∃ c, mkFillComputeSeq args = .ok c) ∨ mkFillComputeSeq args = .error .lenaTypeError) := by
  constructor
  · intro h
    simp only [mkSequence] at h
    cases hs : toStages (dataSeq args) with
    | error e' =>
      rw [hs] at h
      simp only [Except.error.injEq] at h
      subst h
      exact toStages_error _ _ hs
    | ok sts => simp [hs] at h
  · simp only [mkFillComputeSeq]
    cases splitAtFc (dataSeq args) with
    | none => simp
    | some t =>
      obtain ⟨before, fc, after⟩ := t
      simp only [mkFillSeq]
      by_cases hf : fc.caps.hasMethod "fill" = true
      · simp only [hf, Bool.not_true, Bool.false_eq_true, if_false]
        cases hp : toPres before with
        | error e' =>
          have := toPres_error _ _ hp
          subst this
          exact Or.inr rfl
        | ok ps =>
          simp only []
          cases hs : toStages (dataSeq after) with
          | error e' =>
            have := toStages_error _ _ hs
            subst this
            exact Or.inr rfl
          | ok sts => exact Or.inl ⟨_, rfl⟩
      · simp [hf]

/-- the vocabulary of the correspondence check is an instance: the objects for a callable, a `Variable`,
a `Filter`, a non-negative `Slice`, a `RunIf` are of the property's kinds -/
example : ∀ o, Spec.toObj (.call .inc) = .ok o → PreKind o := by
  intro o h
  simp only [Spec.toObj, Except.ok.injEq] at h
  subst h
  exact .callable rfl rfl rfl rfl

example : ∀ o, Spec.toObj (.filter .even) = .ok o → PreKind o := by
  intro o h
  simp only [Spec.toObj, Except.ok.injEq] at h
  subst h
  exact .ownFillInto rfl rfl rfl

example : ∀ o, Spec.toObj (.slice (some 1) (some 6) (some 2)) = .ok o → PreKind o := by
  intro o h
  have : Lena.C17.mkSlice (some 1) (some 6) (some 2) = .islice 1 (some 6) 2 := by decide
  simp only [Spec.toObj, this, Except.ok.injEq] at h
  subst h
  exact .ownFillInto rfl rfl rfl

example : ∀ o, Spec.toObj (.runIf .even [.call .inc]) = .ok o → PreKind o := by
  intro o h
  simp [Spec.toObj, Spec.toObjs, mkSequence, dataSeq, toStages, Obj.toStage, capsOf, mkRun,
    Caps.hasMethod, Attr.present, Attr.callable] at h
  subst h
  exact .canBreakFlow rfl rfl rfl rfl

/-! ### end to end on the vocabulary of the correspondence check

`driveSeq`, `driveFill`, `driveSplit` are the functions the model driver evaluates and the harness compares with
the real `Sequence`, `FillComputeSeq` and `Split` on every generated case. -/

/-- any generator of the form `for v in flow: yield from g(v)` keeps the `_can_break_flow` contract -/
theorem bindS_breaksFlow (g : α → Strm α) : BreaksFlow (fun s => .ok (bindS g s)) := by
  intro s
  simp only [bindS, observe, Except.ok.injEq]
  congr 1
  funext v
  simp only [Strm.ofList, bindGo]
  exact (Strm.andThen_nil _).symm

/-- element descriptions of the property's pre-processing kinds: callable, `Variable`, `Filter`, `Slice` with
non-negative arguments (a valid step), `RunIf` whose inner elements keep no state between calls (the model runs the
inner sequence afresh for every value: a `RunIf` around `Count`/an accumulator is NOT covered by the theorems below,
only by the oracle on the real code), `dup` (another Run element that can break the flow) -/
def Spec.InScope : Spec → Prop
  | .call _ => True
  | .var _ _ => True
  | .filter _ => True
  | .slice a b s => ∃ a' b' st, Lena.C17.mkSlice a b s = .islice a' b' st
  | .runIf _ inner => Spec.statelessL inner = true
  | .dup => True
  | .filterT _ => True
  | .const _ => True
  | _ => False

theorem inScopeB_iff (s : Spec) : s.inScopeB = true ↔ s.InScope := by
  cases s <;> simp only [Spec.inScopeB, Spec.InScope] <;> try simp
  rename_i a b st
  cases h : Lena.C17.mkSlice a b st <;> simp

theorem mkSlice_islice_step (a b s : Option Int) (a' : Nat) (b' : Option Nat) (st : Nat)
    (h : Lena.C17.mkSlice a b s = .islice a' b' st) : 1 ≤ st := by
  unfold Lena.C17.mkSlice at h
  split at h
  · rename_i hnn
    split at h
    · cases h
    · rename_i h0
      simp only [Lena.C17.SliceKind.islice.injEq] at h
      obtain ⟨_, _, rfl⟩ := h
      cases s with
      | none => simp
      | some v =>
        simp only [Bool.and_eq_true, Lena.C17.noneOrNonneg, decide_eq_true_eq] at hnn
        have hv : v ≠ 0 := fun hv => h0 (by rw [hv])
        simp only [Option.getD_some]
        omega
  · simp only [] at h
    split at h <;> cases h

/-- an in-scope element description denotes an object of the property's kinds, which is a data element, is
not a fill/compute element, and whose `fill_into` face is well-formed -/
theorem spec_preKind (s : Spec) (hs : s.InScope) (o : Obj) (ho : s.toObj = .ok o) :
    PreKind o ∧ o.hasNoData = false ∧ o.caps.isFillComputeEl = false ∧
      ∀ p, o.toPre = .ok p → p.WF := by
  cases s with
  | call f =>
    simp only [Spec.toObj, Except.ok.injEq] at ho
    subst ho
    refine ⟨.callable rfl rfl rfl rfl, rfl, rfl, ?_⟩
    intro p hp
    change Except.ok (Pre.call f.call) = Except.ok p at hp
    cases hp
    trivial
  | var name g =>
    simp only [Spec.toObj, Except.ok.injEq] at ho
    subst ho
    refine ⟨.callable rfl rfl rfl rfl, rfl, rfl, ?_⟩
    intro p hp
    change Except.ok (Pre.call (variableCall name g)) = Except.ok p at hp
    cases hp
    trivial
  | filter p =>
    simp only [Spec.toObj, Except.ok.injEq] at ho
    subst ho
    refine ⟨.ownFillInto rfl rfl rfl, rfl, rfl, ?_⟩
    intro p' hp
    change Except.ok (Pre.filter p.eval) = Except.ok p' at hp
    cases hp
    trivial
  | slice a b st =>
    obtain ⟨a', b', st', hk⟩ := hs
    simp only [Spec.toObj, hk, Except.ok.injEq] at ho
    subst ho
    refine ⟨.ownFillInto rfl rfl rfl, rfl, rfl, ?_⟩
    intro p' hp
    change Except.ok (Pre.slice a' b' st') = Except.ok p' at hp
    cases hp
    exact mkSlice_islice_step a b st a' b' st' hk
  | runIf p inner =>
    simp only [Spec.toObj] at ho
    split at ho
    · cases ho
    · split at ho
      · cases ho
      · simp only [Except.ok.injEq] at ho
        subst ho
        refine ⟨.canBreakFlow rfl rfl rfl rfl, rfl, rfl, ?_⟩
        intro p' hp
        rename_i seq _
        change Except.ok (Pre.runEl (fun s => Except.ok (runIfS p.eval seq s))) = Except.ok p' at hp
        cases hp
        exact runIf_breaksFlow _ _
  | count _ => cases hs
  | reverse => cases hs
  | end_ => cases hs
  | acc _ => cases hs
  | syn _ _ _ => cases hs
  | junk => cases hs
  | setContext => cases hs
  | runIfBad _ => cases hs
  | filterT q =>
    simp only [Spec.toObj, Except.ok.injEq] at ho
    subst ho
    refine ⟨.ownFillInto rfl rfl rfl, rfl, rfl, ?_⟩
    intro p' hp
    change Except.ok (Pre.filter q.eval) = Except.ok p' at hp
    cases hp
    trivial
  | const c =>
    simp only [Spec.toObj, Except.ok.injEq] at ho
    subst ho
    refine ⟨.callable rfl rfl rfl rfl, rfl, rfl, ?_⟩
    intro p hp
    change Except.ok (Pre.call (fun _ => Except.ok c)) = Except.ok p at hp
    cases hp
    trivial
  | dup =>
    simp only [Spec.toObj, Except.ok.injEq] at ho
    subst ho
    refine ⟨.canBreakFlow rfl rfl rfl rfl, rfl, rfl, ?_⟩
    intro p' hp
    change Except.ok (Pre.runEl (fun s => Except.ok (bindS (fun v => Strm.ofList [v, Value.list [v]]) s)))
      = Except.ok p' at hp
    cases hp
    exact bindS_breaksFlow _

theorem toObjs_append : ∀ (a b : List Spec) (os : List Obj), Spec.toObjs (a ++ b) = .ok os →
    ∃ oa ob, Spec.toObjs a = .ok oa ∧ Spec.toObjs b = .ok ob ∧ os = oa ++ ob
  | [], b, os, h => ⟨[], os, rfl, h, rfl⟩
  | s :: a, b, os, h => by
    simp only [List.cons_append, Spec.toObjs] at h
    cases ho : Spec.toObj s with
    | error e => simp [ho] at h
    | ok o =>
      cases hr : Spec.toObjs (a ++ b) with
      | error e => simp [ho, hr] at h
      | ok os' =>
        simp only [ho, hr, Except.ok.injEq] at h
        subst h
        obtain ⟨oa, ob, h1, h2, rfl⟩ := toObjs_append a b os' hr
        exact ⟨o :: oa, ob, by simp [Spec.toObjs, ho, h1], h2, rfl⟩

theorem toObjs_mem : ∀ (a : List Spec) (oa : List Obj), Spec.toObjs a = .ok oa →
    ∀ o ∈ oa, ∃ s ∈ a, s.toObj = .ok o
  | [], oa, h, o, ho => by
    simp only [Spec.toObjs, Except.ok.injEq] at h
    subst h
    cases ho
  | s :: a, oa, h, o, ho => by
    simp only [Spec.toObjs] at h
    cases hs : Spec.toObj s with
    | error e => simp [hs] at h
    | ok o' =>
      cases hr : Spec.toObjs a with
      | error e => simp [hs, hr] at h
      | ok os' =>
        simp only [hs, hr, Except.ok.injEq] at h
        subst h
        rcases List.mem_cons.mp ho with rfl | ho
        · exact ⟨s, List.mem_cons_self .., hs⟩
        · obtain ⟨s', hs', h'⟩ := toObjs_mem a os' hr o ho
          exact ⟨s', List.mem_cons_of_mem _ hs', h'⟩

theorem accOf_noStop (k : AccKind) : AccNoStop (accOf k) := by
  intro s v h
  cases k <;> simp only [accOf, accFill] at h
  · split at h <;> cases h
  · split at h <;> cases h
  · cases h
  · cases h

theorem toPres_wf : ∀ (os : List Obj) (ps : List (Pre Value)), toPres os = .ok ps →
    (∀ o ∈ os, ∀ p, o.toPre = .ok p → p.WF) → PreWF ps
  | [], ps, h, _ => by
    simp only [toPres, Except.ok.injEq] at h
    subst h
    intro e he
    cases he
  | o :: os, ps, h, hwf => by
    simp only [toPres] at h
    cases ho : o.toPre with
    | error e => simp [ho] at h
    | ok p =>
      cases hr : toPres os with
      | error e => simp [ho, hr] at h
      | ok ps' =>
        simp only [ho, hr, Except.ok.injEq] at h
        subst h
        have ih := toPres_wf os ps' hr (fun o' ho' => hwf o' (List.mem_cons_of_mem _ ho'))
        intro e he
        rcases List.mem_cons.mp he with rfl | he
        · exact hwf o (List.mem_cons_self ..) _ ho
        · exact ih e he

/-- the object denoted by `Spec.acc k` -/
def accObj (k : AccKind) : Obj :=
  { caps := capsOf [("fill", .method), ("compute", .method)] false, accDen := accOf k }

/-- **The three drivers agree, end to end on the functions the correspondence check validates**: for element
descriptions `pre` of the property's kinds, any accumulator `Sum/Mean/StoreFilled/FillCompute(Count)`, any
post-processing descriptions: if the `FillComputeSeq` can be built (chain `c`) and no pre-processing element
raises on the flow, then `Sequence(*args).run(flow)`, the `FillComputeSeq` filled value by value and
`Split([args], bufsize).run(flow)` give the same result. -/
theorem spec_drivers_agree (pre post : List Spec) (k : AccKind) (flow : List Value) (bufsize : Option Nat)
    (hb : bufsize ≠ some 0) (hscope : ∀ s ∈ pre, s.InScope)
    (os : List Obj) (hos : Spec.toObjs (pre ++ .acc k :: post) = .ok os)
    (c : Chain AccState Value) (hc : mkFillComputeSeq os = .ok c) (hsafe : PreSafe c.pre flow) :
    driveSeq (pre ++ .acc k :: post) flow = .ran (fillRun c flow) ∧
    driveFill (pre ++ .acc k :: post) flow = .ran (fillRun c flow) ∧
    (driveSplit [pre ++ .acc k :: post] bufsize flow).map (fun s => s.map Prod.snd) = .ok (fillRun c flow) := by
  obtain ⟨opre, orest, h1, h2, rfl⟩ := toObjs_append pre (.acc k :: post) os hos
  simp only [Spec.toObjs] at h2
  cases hpo : Spec.toObjs post with
  | error e => simp [Spec.toObj, hpo] at h2
  | ok opost =>
    have hao : Spec.toObj (.acc k) = .ok (accObj k) := rfl
    simp only [hao, hpo, Except.ok.injEq] at h2
    subst h2
    have hk : ∀ o ∈ opre, PreKind o ∧ o.hasNoData = false ∧ o.caps.isFillComputeEl = false ∧
        ∀ p, o.toPre = .ok p → p.WF := by
      intro o ho
      obtain ⟨s, hs, hso⟩ := toObjs_mem pre opre h1 o ho
      exact spec_preKind s (hscope s hs) o hso
    -- the post-processing stages: `mkFillComputeSeq` succeeded, so they are convertible
    have hpoststages : ∃ sts, toStages (dataSeq opost) = .ok sts := by
      cases hst : toStages (dataSeq opost) with
      | ok sts => exact ⟨sts, rfl⟩
      | error e =>
        exfalso
        have hpreData : dataSeq opre = opre := dataSeq_of_all_data opre (fun o ho => (hk o ho).2.1)
        have hdata : dataSeq (opre ++ (accObj k) :: opost) = opre ++ (accObj k) :: dataSeq opost := by
          have hand : (accObj k).hasNoData = false := rfl
          simp only [dataSeq] at hpreData ⊢
          simp [List.filter_append, hpreData, List.filter_cons, hand]
        have hsplit := splitAtFc_append opre (accObj k) (dataSeq opost) (fun o ho => (hk o ho).2.2.1) rfl
        obtain ⟨ps, hps, _⟩ := preKinds_convert opre (fun o ho => (hk o ho).1)
        have hdd : dataSeq (dataSeq opost) = dataSeq opost := by simp [dataSeq, List.filter_filter]
        have hfill : (accObj k).caps.hasMethod "fill" = true := rfl
        simp [mkFillComputeSeq, hdata, hsplit, mkFillSeq, hfill, hps, hdd, hst] at hc
    obtain ⟨sts, hsts⟩ := hpoststages
    obtain ⟨c', hc', hacc', hpost', hpre', hseq'⟩ := construct_chain opre opost
      (accObj k) sts
      (fun o ho => ⟨(hk o ho).2.1, (hk o ho).2.2.1, (hk o ho).1⟩) ⟨rfl, rfl, rfl, rfl⟩ hsts
    rw [hc] at hc'
    simp only [Except.ok.injEq] at hc'
    subst hc'
    have hwf : PreWF c.pre := toPres_wf opre c.pre hpre' (fun o ho => (hk o ho).2.2.2)
    have hnostop : AccNoStop c.acc := by rw [hacc']; exact accOf_noStop k
    have hagree := seq_eq_fill c flow hwf hnostop hsafe
    refine ⟨?_, ?_, ?_⟩
    · simp only [driveSeq, hos, hseq']
      congr 1
    · simp only [driveFill, hos, hc]
    · have hsp := fill_eq_split c bufsize hb flow
      simp only [driveSplit, Spec.toObjss, hos, mkChains, hc]
      cases bufsize with
      | none => simpa [splitRun, Except.map] using hsp
      | some n =>
        have : n ≠ 0 := fun h => hb (by rw [h])
        simpa [splitRun, Except.map, this] using hsp

/-- `(inc, Filter(even), Slice(2), Sum(), wrap)` on `[1, 2, 3, 4, 5]`: the hypotheses of `spec_drivers_agree` hold -/
def exPreSpecs : List Spec := [.call .inc, .filter .even, .slice none (some 2) none]
def exFlow : List Value := [.int 1, .int 2, .int 3, .int 4, .int 5]

example : ∀ s ∈ exPreSpecs, s.InScope := by
  intro s hs
  simp only [exPreSpecs, List.mem_cons, List.not_mem_nil, or_false] at hs
  rcases hs with rfl | rfl | rfl
  · trivial
  · trivial
  · exact ⟨0, some 2, 1, by decide⟩

example : ∃ os c, Spec.toObjs (exPreSpecs ++ .acc .sum :: [.call .wrap]) = .ok os ∧
    mkFillComputeSeq os = .ok c ∧ PreSafe c.pre exFlow :=
  ⟨_, _, rfl, rfl, rfl⟩

example : driveSeq (exPreSpecs ++ .acc .sum :: [.call .wrap]) exFlow = .ran ⟨[.list [.int 6]], none⟩ := by rfl
example : driveFill (exPreSpecs ++ .acc .sum :: [.call .wrap]) exFlow = .ran ⟨[.list [.int 6]], none⟩ := by rfl

/-! ## 5. A chain as one of several branches of a `Split` (sentence 1, "a branch of a Split")

`splitRunTagged` marks every yielded value with the index of the branch it comes from; `project i` collects the
values of branch `i`. -/

/-- **Every branch yields, inside the `Split`, exactly what it yields when filled alone** — for any number of
sibling branches (which may stop early by `LenaStopFill` at any time), any `bufsize`, any flow — provided no
branch raises an exception (an exception in one branch ends the whole `Split.run` generator).  This is the
statement the seeded change C05-A (the `stopped` flag shared between branches) breaks. -/
theorem split_branches_independent (cs : List (Chain σ α)) (bufsize : Option Nat) (hb : bufsize ≠ some 0)
    (xs : List α) (hok : ∀ c ∈ cs, (fillRun c xs).term = none) :
    (splitRunTagged cs bufsize xs).term = none ∧
    ∀ (i : Nat) (hi : i < cs.length), project i (splitRunTagged cs bufsize xs) = (fillRun cs[i] xs).vals := by
  have hact : ∀ B ∈ initActive 0 cs, (B.rest (chunks bufsize xs)).term = none := by
    intro B hB
    obtain ⟨c, hc, hrest⟩ := initActive_rest (chunks bufsize xs) cs 0 B hB
    rw [hrest, chunks_flatten bufsize hb xs]
    have := hok c hc
    rw [fillRun_eq_finish] at this
    exact this
  refine ⟨(splitLoop_filter 0 _ _ hact).1, ?_⟩
  intro i hi
  have h := (splitLoop_filter i _ _ hact).2
  have hf := initActive_filter cs 0 i hi
  simp only [Nat.zero_add] at hf
  simp only [splitRunTagged]
  rw [← h, hf, splitLoop_single, project_tag_same, Active.rest, chunks_flatten bufsize hb xs, fillRun_eq_finish]
  rfl

/-- … and therefore what the linear `Sequence` of that branch yields, under the hypotheses of `seq_eq_fill` -/
theorem split_branch_eq_seq (cs : List (Chain σ α)) (bufsize : Option Nat) (hb : bufsize ≠ some 0)
    (xs : List α) (hok : ∀ c ∈ cs, (fillRun c xs).term = none)
    (i : Nat) (hi : i < cs.length) (hwf : PreWF cs[i].pre) (hacc : AccNoStop cs[i].acc)
    (hsafe : PreSafe cs[i].pre xs) :
    project i (splitRunTagged cs bufsize xs) = (seqRun cs[i] xs).vals := by
  rw [(split_branches_independent cs bufsize hb xs hok).2 i hi, seq_eq_fill cs[i] xs hwf hacc hsafe]

/-- the seeded demonstration: `Split([(Slice(2), Sum()), (double, Sum())], bufsize=2)` on `1..7` -/
def exSibling : List (Chain Int Int) :=
  [{ pre := [.slice 0 (some 2) 1], acc := exSum, post := [] },
   { pre := [.call (fun v => .ok (2 * v))], acc := exSum, post := [] }]

example : splitRunTagged exSibling (some 2) [1, 2, 3, 4, 5, 6, 7] = ⟨[(0, 3), (1, 56)], none⟩ := by rfl
example : ∀ c ∈ exSibling, (fillRun c [1, 2, 3, 4, 5, 6, 7]).term = none := by
  intro c hc
  simp only [exSibling, List.mem_cons, List.not_mem_nil, or_false] at hc
  rcases hc with rfl | rfl <;> rfl
example : project 1 (splitRunTagged exSibling (some 2) [1, 2, 3, 4, 5, 6, 7]) = [56] := by rfl

/-! ## 6. The hypothesis `PreSafe`, characterised

`PreSafe pre xs` is *defined* by the executable check `preSafeB` (evaluated by the model driver on every generated
case and compared with an independent Python reference).  `PreSafeSpec` says the same thing declaratively, element
by element, in terms of the elements' own functions only; `preSafe_iff` proves the check sound and complete. -/

/-- no pre-processing element raises on any value that reaches it, when the flow is passed on stage by stage:
* a callable returns on every value (results `ys` go on);
* a `Filter`'s selector returns on every value (the selected values go on);
* a `Slice` never raises (`islice(xs, start, stop, step)` goes on);
* a flow-breaking Run element raises on no single value (the concatenated results go on). -/
def PreSafeSpec : List (Pre α) → List α → Prop
  | [], _ => True
  | .call f :: rest, xs => ∃ ys, MapsTo f xs ys ∧ PreSafeSpec rest ys
  | .filter p :: rest, xs =>
    (∀ x ∈ xs, ∃ b, p x = .ok b) ∧ PreSafeSpec rest (xs.filter (fun x => selTrue (p x)))
  | .slice a b st :: rest, xs => PreSafeSpec rest (Lena.C17.islice xs a b st)
  | .runEl r :: rest, xs =>
    (∀ x ∈ xs, (observe (r (.ofList [x]))).term = none) ∧
      PreSafeSpec rest (xs.flatMap (fun x => (observe (r (.ofList [x]))).vals))

theorem preSafe_cons (e : Pre α) (rest : List (Pre α)) (xs : List α) (s1 : Strm α)
    (hrun : e.run (.ofList xs) = .ok s1) :
    PreSafe (e :: rest) xs ↔ ∃ ys, s1 = .ofList ys ∧ PreSafe rest ys := by
  simp only [PreSafe, preSafeB, hrun, Bool.and_eq_true, Option.isNone_iff_eq_none]
  constructor
  · rintro ⟨h1, h2⟩
    exact ⟨s1.vals, Strm.ofList_eq s1 h1, h2⟩
  · rintro ⟨ys, rfl, h⟩
    exact ⟨rfl, h⟩

/-- **`preSafeB` is sound and complete** for the declarative notion, for every well-formed list of
pre-processing elements and every flow -/
theorem preSafe_iff : ∀ (pre : List (Pre α)) (xs : List α), PreWF pre →
    (PreSafe pre xs ↔ PreSafeSpec pre xs)
  | [], xs, _ => by simp [PreSafe, preSafeB, PreSafeSpec]
  | e :: rest, xs, hwf => by
    obtain ⟨hwe, hwr⟩ := preWF_cons hwf
    cases e with
    | call f =>
      rw [preSafe_cons (.call f) rest xs (mapGo f none xs) rfl]
      simp only [PreSafeSpec, mapGo_eq_ofList]
      constructor
      · rintro ⟨ys, h1, h2⟩; exact ⟨ys, h1, (preSafe_iff rest ys hwr).mp h2⟩
      · rintro ⟨ys, h1, h2⟩; exact ⟨ys, h1, (preSafe_iff rest ys hwr).mpr h2⟩
    | filter p =>
      rw [preSafe_cons (.filter p) rest xs (filterGo p none xs) rfl]
      simp only [PreSafeSpec, filterGo_eq_ofList]
      constructor
      · rintro ⟨ys, ⟨h1, rfl⟩, h2⟩; exact ⟨h1, (preSafe_iff rest _ hwr).mp h2⟩
      · rintro ⟨h1, h2⟩; exact ⟨_, ⟨h1, rfl⟩, (preSafe_iff rest _ hwr).mpr h2⟩
    | slice a b st =>
      have hs : isliceS a b st (.ofList xs) = .ofList (Lena.C17.islice xs a b st) := by
        simp only [isliceS, Strm.ofList]
        cases b with
        | none => rfl
        | some b' => by_cases h : max a b' ≤ xs.length <;> simp [h]
      rw [preSafe_cons (.slice a b st) rest xs _ rfl, hs]
      simp only [PreSafeSpec]
      constructor
      · rintro ⟨ys, h1, h2⟩
        simp only [Strm.ofList, Strm.mk.injEq, and_true] at h1
        subst h1
        exact (preSafe_iff rest _ hwr).mp h2
      · intro h; exact ⟨_, rfl, (preSafe_iff rest _ hwr).mpr h⟩
    | runEl r =>
      have hb : r (.ofList xs) = .ok (bindGo (fun v => observe (r (.ofList [v]))) none xs) := hwe _
      rw [preSafe_cons (.runEl r) rest xs _ hb]
      simp only [PreSafeSpec, bindGo_eq_ofList]
      constructor
      · rintro ⟨ys, ⟨h1, rfl⟩, h2⟩; exact ⟨h1, (preSafe_iff rest _ hwr).mp h2⟩
      · rintro ⟨h1, h2⟩; exact ⟨_, ⟨h1, rfl⟩, (preSafe_iff rest _ hwr).mpr h2⟩

example : PreSafeSpec exChain.pre [1, 2, 3, 4, 5, 6, 7, 8, 9] :=
  (preSafe_iff _ _ exChain_wf).mp (by rfl)

/-- `seq_eq_fill` with the declarative hypothesis -/
theorem seq_eq_fill_spec (c : Chain σ α) (xs : List α) (hwf : PreWF c.pre) (hacc : AccNoStop c.acc)
    (hsafe : PreSafeSpec c.pre xs) : seqRun c xs = fillRun c xs :=
  seq_eq_fill c xs hwf hacc ((preSafe_iff c.pre xs hwf).mpr hsafe)

/-! ## 7. Outside the property's kinds: what holds precisely

### dual-interface elements at the accumulator position

`Count` (and `Split`, and any class with both `run` and `fill`/`compute`) is used through `run` by a `Sequence`
and through `fill`/`compute` by a `FillComputeSeq`.  The two drivers then *deliver the same values* to it
(`delivered_same`); what they yield is `run` of those values on one side and `compute` after filling them on the
other — equal only if the element's two interfaces agree, which is the element's own business (for `Count` they
do not: `count_dual`). -/

/-- **both drivers deliver the same list `ys` to the element after the pre-processing part**: the `Sequence`
applies the element's run face `R` to it, the `FillComputeSeq` fills its fill/compute face `a` with it -/
theorem delivered_same (pre : List (Pre α)) (a : Acc σ α) (R : Stage α) (post : List (Stage α)) (xs : List α)
    (hwf : PreWF pre) (hacc : AccNoStop a) (hsafe : PreSafe pre xs) :
    ∃ ys, observe (composeS (pre.map Pre.run ++ R :: post) (.ofList xs))
          = observe (composeS (R :: post) (.ofList ys)) ∧
      fillRun { pre := pre, acc := a, post := post } xs = (match a.fillAll a.init ys with
        | .error e => .fail e
        | .ok s => computeAfter { pre := pre, acc := a, post := post } s) := by
  obtain ⟨ys, hys, hfeed⟩ := chain_safe a pre xs hwf hsafe
  refine ⟨ys, ?_, ?_⟩
  · rw [composeS_append, hys]
  · rw [fillRun_eq_finish]
    rw [feedList_accSink a hacc ys a.init] at hfeed
    unfold fillAllChain
    simp only
    cases hfa : a.fillAll a.init ys with
    | error e =>
      rw [hfa] at hfeed
      cases hfc : feedList (chainSink a pre) (chainInit a.init pre) xs with
      | ok st => rw [hfc] at hfeed; simp [FillRes.forget, Except.map] at hfeed
      | stop st => rw [hfc] at hfeed; simp [FillRes.forget, Except.map] at hfeed
      | err e' =>
        rw [hfc] at hfeed
        simp only [FillRes.forget, Except.map, Except.error.injEq] at hfeed
        subst hfeed
        rfl
    | ok s' =>
      rw [hfa] at hfeed
      cases hfc : feedList (chainSink a pre) (chainInit a.init pre) xs with
      | ok st =>
        rw [hfc] at hfeed
        simp only [FillRes.forget, Except.map, Except.ok.injEq] at hfeed
        simp only [finish, hfeed]
      | stop st =>
        rw [hfc] at hfeed
        simp only [FillRes.forget, Except.map, Except.ok.injEq] at hfeed
        simp only [finish, hfeed]
      | err e' => rw [hfc] at hfeed; simp [FillRes.forget, Except.map] at hfeed

theorem count_fillAll (name : String) : ∀ (ys : List Value) (s : AccState),
    (accOf (.count name)).fillAll s ys
      = .ok { total := s.total, count := s.count + ys.length, ctx := lastCtxOr s.ctx ys, group := s.group }
  | [], s => by simp [Acc.fillAll, lastCtxOr]
  | [y], s => by simp [Acc.fillAll, accOf, accFill, lastCtxOr]
  | y :: y' :: ys, s => by
    have ih := count_fillAll name (y' :: ys) { s with count := s.count + 1, ctx := getContext y }
    simp only [Acc.fillAll, accOf, accFill] at ih ⊢
    rw [ih]
    simp only [lastCtxOr, List.getLast?_cons_cons, List.length_cons, Except.ok.injEq, AccState.mk.injEq, and_true,
      true_and]
    refine ⟨by omega, ?_⟩
    cases h : (y' :: ys).getLast? with
    | none => simp at h
    | some v => rfl

theorem countLoop_spec : ∀ (rest : List Value) (prev : Value) (c : Nat),
    countLoop prev c rest = ((prev :: rest).dropLast, (prev :: rest).getLast (by simp), c + rest.length)
  | [], prev, c => by simp [countLoop]
  | v :: rest, prev, c => by
    simp only [countLoop, countLoop_spec rest v (c + 1), List.dropLast_cons_cons, List.length_cons]
    refine Prod.ext rfl (Prod.ext ?_ ?_)
    · simp [List.getLast_cons]
    · simp only; omega

/-- **`Count` at the accumulator position** (a dual-interface element used bare): after the same delivered
values `ys`, `Sequence` (through `Count.run`) yields the values themselves, the last one carrying
`{name: len(ys)}` in its context, and nothing for an empty `ys`; `FillComputeSeq` (through `fill`/`compute`)
yields the single value `(len(ys), context of the last value + {name: len(ys)})`.  Both record the same count;
the results are not equal — which is why an accumulator `Count` is wrapped as `FillCompute(Count())`. -/
theorem count_dual (pre : List (Pre Value)) (name : String) (xs : List Value)
    (hwf : PreWF pre) (hsafe : PreSafe pre xs) :
    ∃ ys, observe (composeS (pre.map Pre.run ++ [fun s => .ok (countS name 0 s)]) (.ofList xs))
          = .ofList (countRunSpec name ys) ∧
      fillRun { pre := pre, acc := accOf (.count name), post := [] } xs
          = .ofList [.tup [.int ys.length, .dict (dictSet (lastCtx ys) name (.int ys.length))]] := by
  obtain ⟨ys, h1, h2⟩ := delivered_same pre (accOf (.count name)) (fun s => .ok (countS name 0 s)) [] xs
    hwf (accOf_noStop _) hsafe
  refine ⟨ys, ?_, ?_⟩
  · rw [h1]
    simp only [composeS, observe, countS, Strm.ofList, countRunSpec]
    cases ys with
    | nil => rfl
    | cons y ys' =>
      simp only [countLoop_spec ys' y 1, getDataContext]
      have hne : (y :: ys').getLast? = some ((y :: ys').getLast (by simp)) :=
        List.getLast?_eq_some_getLast (by simp)
      rw [hne]
      simp only [getData, getContext, List.length_cons]
      congr 3
      have : (1 : Int) + (ys'.length : Int) = ((ys'.length + 1 : Nat) : Int) := by omega
      simp [Int.add_comm]
      exact ⟨rfl, rfl⟩
  · rw [h2]
    have hinit : (accOf (.count name)).init = ({} : AccState) := rfl
    rw [hinit, count_fillAll]
    simp [computeAfter, composeS, observe, computeS, accOf, accCompute, lastCtx, Strm.ofList]

/-! ### pre-processing elements outside the property's kinds -/

theorem toPres_fail : ∀ (l : List Obj), (∃ o ∈ l, ∃ e, o.toPre = .error e) → toPres l = .error .lenaTypeError
  | [], h => by obtain ⟨o, ho, _⟩ := h; cases ho
  | o :: l, h => by
    cases ho : o.toPre with
    | error e =>
      have : toPres (o :: l) = .error e := by simp [toPres, ho]
      rw [this, toPres_error _ _ this]
    | ok p =>
      have hl : ∃ o' ∈ l, ∃ e, o'.toPre = .error e := by
        obtain ⟨o', ho', e, he⟩ := h
        rcases List.mem_cons.mp ho' with rfl | ho'
        · rw [ho] at he; cases he
        · exact ⟨o', ho', e, he⟩
      simp [toPres, ho, toPres_fail l hl]

/-- **an element before the accumulator that has no fill face** (no `fill_into`, not callable, not a Run element
with `_can_break_flow`: `Reverse`, `End`, a number, …) makes `FillComputeSeq` — and hence a `Split` branch — raise
`LenaTypeError` at construction, while `Sequence` may well accept it: there is no fill driver to compare with -/
theorem fillComputeSeq_rejects (pre post : List Obj) (acc : Obj)
    (hpre : ∀ o ∈ pre, o.hasNoData = false ∧ o.caps.isFillComputeEl = false)
    (hacc : acc.hasNoData = false ∧ acc.caps.isFillComputeEl = true)
    (hbad : ∃ o ∈ pre, ∃ e, o.toPre = .error e) :
    mkFillComputeSeq (pre ++ acc :: post) = .error .lenaTypeError := by
  obtain ⟨hand, hafc⟩ := hacc
  have hpreData : dataSeq pre = pre := dataSeq_of_all_data pre (fun o ho => (hpre o ho).1)
  have hdata : dataSeq (pre ++ acc :: post) = pre ++ acc :: dataSeq post := by
    simp only [dataSeq] at hpreData ⊢
    simp [List.filter_append, hpreData, List.filter_cons, hand]
  have hsplit := splitAtFc_append pre acc (dataSeq post) (fun o ho => (hpre o ho).2) hafc
  have hfill : acc.caps.hasMethod "fill" = true := by
    simp only [Caps.isFillComputeEl, Bool.and_eq_true] at hafc
    exact hafc.1.2
  simp [mkFillComputeSeq, hdata, hsplit, mkFillSeq, hfill, toPres_fail pre hbad]

/-- `Reverse()` has no fill face -/
example : ∀ o, Spec.toObj .reverse = .ok o → ∃ e, o.toPre = .error e := by
  intro o h
  simp only [Spec.toObj, Except.ok.injEq] at h
  subst h
  exact ⟨.lenaTypeError, rfl⟩

/-! ### a `Slice` with a negative index before the accumulator

`Slice.__init__` does not create `_index`/`_next_index`/`_indices` for negative arguments ("It is not possible
to use negative indices with fill_into"), but the method `fill_into` exists, so `FillSeq` accepts the element and
the first value that reaches it raises `AttributeError`. -/

/-- the `fill_into` face of a `Slice` with a negative index (`Spec.toObj`, case `negative`) -/
def negSliceFill : Pre α := .call (fun _ => .error .attributeError)

theorem neg_slice_fill_into (K : Sink κ α) (fs : Lena.C17.FillState) (s : κ) (v : α) :
    stageFill negSliceFill K (fs, s) v = .err .attributeError := by
  simp [stageFill, negSliceFill, FillRes.raise]

theorem chainAcc_init (s0 : σ) : ∀ (pre : List (Pre α)), chainAcc pre (chainInit s0 pre) = s0
  | [] => rfl
  | _ :: rest => chainAcc_init s0 rest

theorem neg_slice_chain (a : Acc σ α) (p2 : List (Pre α)) : ∀ (p1 : List (Pre α)) (xs : List α),
    PreWF p1 → PreSafe p1 xs →
    ∃ ys, composeS (p1.map Pre.run) (.ofList xs) = .ok (.ofList ys) ∧
      (feedList (chainSink a (p1 ++ negSliceFill :: p2)) (chainInit a.init (p1 ++ negSliceFill :: p2)) xs).forget.map
          (chainAcc (p1 ++ negSliceFill :: p2))
        = (if ys.isEmpty then .ok a.init else .error .attributeError)
  | [], xs, _, _ => by
    refine ⟨xs, rfl, ?_⟩
    cases xs with
    | nil =>
      simp only [List.nil_append, feedList, FillRes.forget, Except.map, List.isEmpty_nil, if_true]
      exact congrArg Except.ok (chainAcc_init a.init (negSliceFill :: p2))
    | cons x xs =>
      simp only [List.nil_append, feedList, chainSink, chainInit, stageSink, neg_slice_fill_into,
        FillRes.forget, Except.map, List.isEmpty_cons, Bool.false_eq_true, if_false]
  | e :: rest, xs, hwf, hsafe => by
    obtain ⟨hwe, hwr⟩ := preWF_cons hwf
    cases hrun : e.run (.ofList xs) with
    | error err => simp [PreSafe, preSafeB, hrun] at hsafe
    | ok s1 =>
      obtain ⟨ys0, hs1, hrest⟩ := (preSafe_cons e rest xs s1 hrun).mp hsafe
      subst hs1
      obtain ⟨ys, hys, hfeed⟩ := neg_slice_chain a p2 rest ys0 hwr hrest
      refine ⟨ys, ?_, ?_⟩
      · simp only [List.map_cons, composeS, hrun]
        exact hys
      · have hst := stage_consistent e hwe (chainSink a (rest ++ negSliceFill :: p2))
          (chainInit a.init (rest ++ negSliceFill :: p2)) xs (.ofList ys0) hrun rfl
        rw [← hfeed]
        have : (Strm.ofList ys0).vals = ys0 := rfl
        rw [this] at hst
        rw [← hst]
        exact except_map_chainAcc_cons e (rest ++ negSliceFill :: p2) _

/-- **a negative `Slice` before the accumulator**: with pre-processing `p1`, then the negative `Slice`, then `p2`:
if no value gets through `p1` the `FillComputeSeq` computes the untouched accumulator; as soon as one value
reaches the `Slice` the fill driver raises `AttributeError` — whatever `Sequence.run` (which uses
`_run_negative_islice`) yields.  Negative indices are excluded from the property for this reason. -/
theorem neg_slice_fillRun (c : Chain σ α) (p1 p2 : List (Pre α)) (hc : c.pre = p1 ++ negSliceFill :: p2)
    (xs : List α) (hwf : PreWF p1) (hsafe : PreSafe p1 xs) :
    ∃ ys, composeS (p1.map Pre.run) (.ofList xs) = .ok (.ofList ys) ∧
      fillRun c xs = (if ys.isEmpty then computeAfter c c.acc.init else .fail .attributeError) := by
  obtain ⟨pre, acc, post⟩ := c
  simp only at hc
  subst hc
  obtain ⟨ys, hys, hfeed⟩ := neg_slice_chain acc p2 p1 xs hwf hsafe
  refine ⟨ys, hys, ?_⟩
  rw [fillRun_eq_finish]
  unfold fillAllChain
  simp only
  cases hfc : feedList (chainSink acc (p1 ++ negSliceFill :: p2)) (chainInit acc.init (p1 ++ negSliceFill :: p2)) xs with
  | ok st =>
    rw [hfc] at hfeed
    by_cases he : ys.isEmpty = true
    · simp only [he, if_true, FillRes.forget, Except.map, Except.ok.injEq] at hfeed ⊢
      simp only [finish, hfeed]
    · simp [he, FillRes.forget, Except.map] at hfeed
  | stop st =>
    rw [hfc] at hfeed
    by_cases he : ys.isEmpty = true
    · simp only [he, if_true, FillRes.forget, Except.map, Except.ok.injEq] at hfeed ⊢
      simp only [finish, hfeed]
    · simp [he, FillRes.forget, Except.map] at hfeed
  | err e =>
    rw [hfc] at hfeed
    by_cases he : ys.isEmpty = true
    · simp [he, FillRes.forget, Except.map] at hfeed
    · simp only [he, Bool.false_eq_true, if_false, FillRes.forget, Except.map, Except.error.injEq] at hfeed ⊢
      subst hfeed
      rfl

/-! ### a `Split` used as a fill/compute element (`Split.fill`, `Split.compute`)

A `Split` whose branches are all of type "fill_compute" has `run` *and* `fill`/`compute` — a dual-interface element
like `Count`.  `Split._fill` does not handle `LenaStopFill` of a single branch (as `Split.run` does): it lets it
escape, so the enclosing driver stops filling the whole `Split`. -/

/-- **if no branch stops or raises**, the `Split` filled value by value and then computed yields exactly what
`Split.run` yields with any `bufsize`: the branches' results in the order of the initializer list -/
theorem split_fill_eq_run (cs : List (Chain σ α)) (bufsize : Option Nat) (hb : bufsize ≠ some 0) (xs : List α)
    (hok : ∀ c ∈ cs, ∃ st, fillAllChain c xs = .ok st) :
    splitFillRun cs xs = splitRunTagged cs bufsize xs := by
  have h := initActive_fillsOk xs cs 0 hok
  have hc : ∀ B ∈ initActive 0 cs, B.FillsOk (chunks bufsize xs).flatten := by
    rw [chunks_flatten bufsize hb xs]; exact h
  simp only [splitFillRun, feedList_splitSink_ok xs _ h, splitRunTagged, splitLoop_ok _ _ hc,
    chunks_flatten bufsize hb xs]

/-- the inner `Split([(Slice(2), Sum()), (Sum(),)])` of `notes/C05_observation_split_fill.md` -/
def exInner : List (Chain Int Int) :=
  [{ pre := [.slice 0 (some 2) 1], acc := exSum, post := [] }, { pre := [], acc := exSum, post := [] }]

/-- run: `[3, 15]`; filled (e.g. as a branch of an outer `Split`, or inside a `FillComputeSeq`): the first branch
raises `LenaStopFill` on the third value, the second branch never sees values 3, 4, 5: `[3, 3]` -/
example : splitRunTagged exInner (some 2) [1, 2, 3, 4, 5] = ⟨[(0, 3), (1, 15)], none⟩ := by rfl
example : splitFillRun exInner [1, 2, 3, 4, 5] = ⟨[(0, 3), (1, 3)], none⟩ := by rfl
example : ∀ c ∈ exInner, ∃ st, fillAllChain c [1, 2] = .ok st := by
  intro c hc
  simp only [exInner, List.mem_cons, List.not_mem_nil, or_false] at hc
  rcases hc with rfl | rfl <;> exact ⟨_, rfl⟩

/-! ### elements without data (`_has_no_data`, e.g. `SetContext`) -/

theorem dataSeq_idem (args : List Obj) : dataSeq (dataSeq args) = dataSeq args := by
  simp [dataSeq, List.filter_filter]

/-- **elements with `_has_no_data` are invisible to both constructors**: `Sequence` and `FillComputeSeq` built from
`args` are the ones built from the data elements of `args` — such elements may stand anywhere in a chain -/
theorem nodata_dropped (args : List Obj) :
    mkSequence args = mkSequence (dataSeq args) ∧ mkFillComputeSeq args = mkFillComputeSeq (dataSeq args) := by
  simp only [mkSequence, mkFillComputeSeq, dataSeq_idem, and_self]

/-! ## 8. The statement as written, what is proved of it, and further instances

Sentence 1 says "for every chain … the results are identical".  That is false of the code and of the model
(`three_drivers_agree_full_false`: the look-ahead value of `Slice.fill_into`, notes/C05_judgement_lookahead.md).
What is proved is the statement under the hypothesis `PreSafe` (`…_partial`), the statement without a `Slice` before
the accumulator with hypotheses on the elements only (`three_drivers_agree_no_slice_inputs`), and the unconditional
equality of the two fill-side drivers (`fill_eq_split`). -/

/-- sentence 1 as written: no hypothesis on the flow -/
def three_drivers_agree_full : Prop :=
  ∀ (σ α : Type) (c : Chain σ α) (xs : List α) (bufsize : Option Nat), bufsize ≠ some 0 →
    PreWF c.pre → AccNoStop c.acc →
    seqRun c xs = fillRun c xs ∧ splitRun [c] bufsize xs = fillRun c xs

theorem exBoom_wf : PreWF exBoom.pre := by
  intro e he
  simp only [exBoom, List.mem_cons, List.not_mem_nil, or_false] at he
  rcases he with rfl | rfl
  · trivial
  · show 1 ≤ 1
    omega

/-- **the statement as written is false**: `(boom, Slice(1), Sum())` on `[1, 13]` — `Sequence.run` yields `[1]`,
the fill driver raises `ValueError` (on the real code as well: `corpus/C05/regressions.json`, first case) -/
theorem three_drivers_agree_full_false : ¬ three_drivers_agree_full := by
  intro h
  have h0 := (h Int Int exBoom [1, 13] (some 1) (by decide) exBoom_wf exSum_noStop).1
  have h1 : seqRun exBoom [1, 13] = ⟨[1], none⟩ := by rfl
  have h2 : fillRun exBoom [1, 13] = .fail .valueError := by rfl
  rw [h1, h2] at h0
  simp [Strm.fail] at h0

/-- the proved part of sentence 1 (hypothesis `PreSafe`) -/
theorem three_drivers_agree_partial (c : Chain σ α) (xs : List α) (bufsize : Option Nat) (hb : bufsize ≠ some 0)
    (hwf : PreWF c.pre) (hacc : AccNoStop c.acc) (hsafe : PreSafe c.pre xs) :
    seqRun c xs = fillRun c xs ∧ splitRun [c] bufsize xs = fillRun c xs :=
  three_drivers_agree c xs bufsize hb hwf hacc hsafe

/-! ### no `Slice`: hypotheses on the elements only -/

/-- the element never raises `LenaStopFill` by itself (only `Slice.fill_into` does) -/
def Pre.NoStopExc : Pre α → Prop
  | .call f => ∀ v, f v ≠ .error .lenaStopFill
  | .filter p => ∀ v, p v ≠ .error .lenaStopFill
  | .slice _ _ _ => True
  | .runEl r => ∀ v, (observe (r (.ofList [v]))).term ≠ some .lenaStopFill

/-- the sink never answers a `fill` with `LenaStopFill` -/
def NeverStops (K : Sink κ α) : Prop := ∀ s v s', K.fill s v ≠ .stop s'

theorem feedList_neverStops (K : Sink κ α) (hK : NeverStops K) : ∀ (xs : List α) (s s' : κ),
    feedList K s xs ≠ .stop s'
  | [], s, s' => by simp [feedList]
  | x :: xs, s, s' => by
    simp only [feedList]
    cases hk : K.fill s x with
    | ok s1 => exact feedList_neverStops K hK xs s1 s'
    | stop s1 => exact absurd hk (hK s x s1)
    | err e => simp

theorem raise_ne_stop (e : Exc) (he : e ≠ .lenaStopFill) (s s' : κ) : FillRes.raise e s ≠ .stop s' := by
  simp [FillRes.raise, he]

theorem map_ne_stop {β : Type} (f : κ → β) (r : FillRes κ) (h : ∀ s', r ≠ .stop s') (t : β) : r.map f ≠ .stop t := by
  cases r with
  | ok s => simp [FillRes.map]
  | stop s => exact absurd rfl (h s)
  | err e => simp [FillRes.map]

theorem stageSink_neverStops (e : Pre α) (hns : e.isSlice = false) (he : e.NoStopExc) (K : Sink κ α)
    (hK : NeverStops K) : NeverStops (stageSink e K) := by
  intro ⟨fs, s⟩ v ⟨fs', s'⟩
  cases e with
  | call f =>
    simp only [stageSink, stageFill]
    cases hf : f v with
    | error err => exact raise_ne_stop err (fun h => he v (h ▸ hf)) _ _
    | ok w => exact map_ne_stop _ _ (fun t => hK s w t) _
  | filter p =>
    simp only [stageSink, stageFill]
    cases hp : p v with
    | error err => exact raise_ne_stop err (fun h => he v (h ▸ hp)) _ _
    | ok b =>
      cases b with
      | true => exact map_ne_stop _ _ (fun t => hK s v t) _
      | false => simp
  | slice a b st => simp [Pre.isSlice] at hns
  | runEl r =>
    simp only [stageSink, stageFill]
    apply map_ne_stop
    intro t
    simp only [feedS]
    cases hfl : feedList K s (observe (r (.ofList [v]))).vals with
    | ok s1 =>
      simp only
      cases ht : (observe (r (.ofList [v]))).term with
      | none => simp
      | some err => exact raise_ne_stop err (fun h => he v (by rw [ht, h])) _ _
    | stop s1 => exact absurd hfl (feedList_neverStops K hK _ _ _)
    | err err => simp

theorem accSink_neverStops (a : Acc σ α) (ha : AccNoStop a) : NeverStops (accSink a) := by
  intro s v s'
  simp only [accSink]
  cases hf : a.fill s v with
  | ok s1 => simp
  | error e => exact raise_ne_stop e (fun h => ha s v (h ▸ hf)) _ _

theorem chainSink_neverStops (a : Acc σ α) (ha : AccNoStop a) : ∀ (pre : List (Pre α)), NoSlice pre →
    (∀ e ∈ pre, e.NoStopExc) → NeverStops (chainSink a pre)
  | [], _, _ => accSink_neverStops a ha
  | e :: rest, hns, hne => by
    obtain ⟨h1, h2⟩ := noSlice_cons hns
    exact stageSink_neverStops e h1 (hne e (List.mem_cons_self ..)) _
      (chainSink_neverStops a ha rest h2 (fun e' he' => hne e' (List.mem_cons_of_mem _ he')))

/-- **without a `Slice` before the accumulator, with hypotheses on the elements only** (nobody raises `LenaStopFill`
by himself): the three drivers agree on every flow, also when an element raises — same exception, same place -/
theorem three_drivers_agree_no_slice_inputs (c : Chain σ α) (xs : List α) (bufsize : Option Nat)
    (hb : bufsize ≠ some 0) (hwf : PreWF c.pre) (hns : NoSlice c.pre) (hne : ∀ e ∈ c.pre, e.NoStopExc)
    (hacc : AccNoStop c.acc) :
    seqRun c xs = fillRun c xs ∧ splitRun [c] bufsize xs = fillRun c xs :=
  three_drivers_agree_no_slice c xs bufsize hb hwf hns
    (fun st => feedList_neverStops _ (chainSink_neverStops c.acc hacc c.pre hns hne) xs _ st)

/-- `(boom, Filter(even), Sum())`: no `Slice`, `boom` raises on 13 -/
def exNoSlice : Chain Int Int :=
  { pre := [.call (fun v => if v = 13 then .error .valueError else .ok v), .filter (fun v => .ok (v % 2 == 0))]
    acc := exSum, post := [] }

example : seqRun exNoSlice [2, 13, 4] = .fail .valueError ∧ fillRun exNoSlice [2, 13, 4] = .fail .valueError ∧
    splitRun [exNoSlice] (some 2) [2, 13, 4] = .fail .valueError := ⟨by rfl, by rfl, by rfl⟩

example : seqRun exNoSlice [2, 13, 4] = fillRun exNoSlice [2, 13, 4] ∧
    splitRun [exNoSlice] none [2, 13, 4] = fillRun exNoSlice [2, 13, 4] := by
  apply three_drivers_agree_no_slice_inputs exNoSlice _ none (by decide)
  · intro e he
    simp only [exNoSlice, List.mem_cons, List.not_mem_nil, or_false] at he
    rcases he with rfl | rfl <;> trivial
  · intro e he
    simp only [exNoSlice, List.mem_cons, List.not_mem_nil, or_false] at he
    rcases he with rfl | rfl <;> rfl
  · intro e he
    simp only [exNoSlice, List.mem_cons, List.not_mem_nil, or_false] at he
    rcases he with rfl | rfl
    · intro v h
      simp only at h
      split at h <;> cases h
    · intro v h
      cases h
  · exact exSum_noStop

/-! ### instances of the theorems of sections 1, 7 (non-vacuity) -/

example := stage_consistent (.filter (fun (v : Int) => .ok (v % 2 == 0))) trivial storeSink [] [1, 2, 3, 4]
  ⟨[2, 4], none⟩ rfl rfl

example : (feedS (stageSink (.call (fun v => if v = 13 then .error .valueError else .ok v)) storeSink)
    (Lena.C17.fillInit 0, []) ⟨[1, 13, 2], none⟩).map Prod.snd = feedS storeSink [] ⟨[1], some .valueError⟩ :=
  stage_consistent_strong (.call (fun v => if v = 13 then .error .valueError else .ok v)) rfl trivial storeSink _ []
    ⟨[1, 13, 2], none⟩ ⟨[1], some .valueError⟩ rfl

example := delivered_same exChain.pre exSum (fun s => .ok s) [] [1, 2, 3, 4, 5, 6, 7, 8, 9] exChain_wf exSum_noStop
  (by rfl)

example := count_dual [] "n" [.int 5, .int 7] (by intro e he; cases he) (by rfl)

/-- `(inc, Slice(-2), Sum())` -/
def exNeg : Chain Int Int :=
  { pre := [.call (fun v => .ok (v + 1))] ++ negSliceFill :: [], acc := exSum, post := [] }

example := neg_slice_fillRun exNeg [.call (fun v => .ok (v + 1))] [] rfl [1, 2]
  (by intro e he; simp at he; subst he; trivial) (by rfl)
example : fillRun exNeg [1, 2] = .fail .attributeError := by rfl
example : fillRun exNeg [] = ⟨[0], none⟩ := by rfl

example : splitFillRun exInner [1, 2] = splitRunTagged exInner (some 1) [1, 2] :=
  split_fill_eq_run exInner (some 1) (by decide) [1, 2] (by
    intro c hc
    simp only [exInner, List.mem_cons, List.not_mem_nil, or_false] at hc
    rcases hc with rfl | rfl <;> exact ⟨_, rfl⟩)

/-- `Reverse()` (only `run`) and `Sum()` as objects -/
def exRevObj : Obj := { caps := capsOf [("run", .method)] false }
def exSumObj : Obj := { caps := capsOf [("fill", .method), ("compute", .method)] false, accDen := accOf .sum }

example : mkFillComputeSeq ([exRevObj] ++ exSumObj :: []) = .error .lenaTypeError :=
  fillComputeSeq_rejects [exRevObj] [] exSumObj
    (by intro o ho; simp only [List.mem_cons, List.not_mem_nil, or_false] at ho; subst ho; exact ⟨rfl, rfl⟩)
    ⟨rfl, rfl⟩ ⟨exRevObj, by simp, .lenaTypeError, rfl⟩
example : ∃ st, mkSequence ([exRevObj] ++ exSumObj :: []) = .ok st := ⟨_, rfl⟩

/-- the proved parts of sentence 1 under their `_partial` names (the full statement is `three_drivers_agree_full`,
refuted by `three_drivers_agree_full_false`) -/
theorem seq_eq_fill_partial (c : Chain σ α) (xs : List α) (hwf : PreWF c.pre) (hacc : AccNoStop c.acc)
    (hsafe : PreSafe c.pre xs) : seqRun c xs = fillRun c xs := seq_eq_fill c xs hwf hacc hsafe

theorem spec_drivers_agree_partial (pre post : List Spec) (k : AccKind) (flow : List Value) (bufsize : Option Nat)
    (hb : bufsize ≠ some 0) (hscope : ∀ s ∈ pre, s.InScope)
    (os : List Obj) (hos : Spec.toObjs (pre ++ .acc k :: post) = .ok os)
    (c : Chain AccState Value) (hc : mkFillComputeSeq os = .ok c) (hsafe : PreSafe c.pre flow) :
    driveSeq (pre ++ .acc k :: post) flow = .ran (fillRun c flow) ∧
    driveFill (pre ++ .acc k :: post) flow = .ran (fillRun c flow) ∧
    (driveSplit [pre ++ .acc k :: post] bufsize flow).map (fun s => s.map Prod.snd) = .ok (fillRun c flow) :=
  spec_drivers_agree pre post k flow bufsize hb hscope os hos c hc hsafe

/-! ## 9. A chain as a branch of a `Split` whose other branches are of any type

Sentence 1 says "a branch of a Split": nothing restricts the *other* branches.  `Split.run` knows four branch types
("fill_compute", "fill_request", "sequence", "source", `splitRunM`); sections 2 and 5 are the case in which all
branches are chains (`splitRunM_fc_only`).  Here the siblings are arbitrary: a `Sequence` run per buffer, a `Source`
that yields its own flow, a `FillRequestSeq` that yields after every buffer — before or after the chain, any number. -/

/-- the mixed model with fill_compute branches only is the model of sections 2 and 5 -/
theorem splitRunM_fc_only (cs : List (Chain σ α)) (bufsize : Option Nat) (xs : List α) :
    splitRunM (cs.map Branch.fillCompute) bufsize xs = splitRunTagged cs bufsize xs := by
  simp only [splitRunM, splitRunTagged, initActiveM_fc, splitLoopM_fc]

/-- **Sentence 1, "a branch of a Split", for siblings of any type.**  For every list of branches (any types, any
order, any number), every `bufsize`, every flow: if `Split.run` completes (an exception in any branch ends the whole
generator), then the values that come from a fill_compute branch are exactly what its `FillComputeSeq` yields when
filled alone with the whole flow and computed.  (A changed tree in which a sibling's type decides whether the chain
gets its own copy of the buffer — adversary candidate C05/3 — breaks the correspondence with this model.) -/
theorem split_mixed_branch_independent (bs : List (Branch σ α)) (bufsize : Option Nat) (hb : bufsize ≠ some 0)
    (xs : List α) (hok : (splitRunM bs bufsize xs).term = none)
    (i : Nat) (hi : i < bs.length) (c : Chain σ α) (hc : bs[i] = .fillCompute c) :
    project i (splitRunM bs bufsize xs) = (fillRun c xs).vals := by
  have h := splitLoopM_filter i (chunks bufsize xs) true (initActiveM 0 bs) hok
  have hf := initActiveM_filter bs 0 i hi
  simp only [Nat.zero_add] at hf
  simp only [splitRunM]
  rw [← h, hf, hc]
  simp only [Branch.activate]
  rw [splitLoopM_single_fc, project_tag_same, Active.rest, chunks_flatten bufsize hb xs, fillRun_eq_finish]
  rfl

/-- … and therefore what the linear `Sequence` of that chain yields, under the hypotheses of `seq_eq_fill` -/
theorem split_mixed_branch_eq_seq (bs : List (Branch σ α)) (bufsize : Option Nat) (hb : bufsize ≠ some 0)
    (xs : List α) (hok : (splitRunM bs bufsize xs).term = none)
    (i : Nat) (hi : i < bs.length) (c : Chain σ α) (hc : bs[i] = .fillCompute c)
    (hwf : PreWF c.pre) (hacc : AccNoStop c.acc) (hsafe : PreSafe c.pre xs) :
    project i (splitRunM bs bufsize xs) = (seqRun c xs).vals := by
  rw [split_mixed_branch_independent bs bufsize hb xs hok i hi c hc, seq_eq_fill c xs hwf hacc hsafe]

/-- a `Source` among the branches yields exactly its own flow, whatever the other branches do -/
theorem split_mixed_source (bs : List (Branch σ α)) (bufsize : Option Nat) (xs : List α)
    (hok : (splitRunM bs bufsize xs).term = none)
    (i : Nat) (hi : i < bs.length) (out : Strm α) (hc : bs[i] = .source out) :
    project i (splitRunM bs bufsize xs) = out.vals := by
  have h := splitLoopM_filter i (chunks bufsize xs) true (initActiveM 0 bs) hok
  have hf := initActiveM_filter bs 0 i hi
  simp only [Nat.zero_add] at hf
  simp only [splitRunM]
  rw [← h, hf, hc]
  simp only [Branch.activate]
  rw [splitLoopM_single_src, project_tag_same]

/-- the demonstration of adversary candidate C05/3: `Split([(Variable-like map, End()), (identity, StoreFilled())])`:
a sequence branch that yields nothing, before a chain that stores what it is filled with -/
def exStore : Acc (List Int) Int := { init := [], fill := fun s v => .ok (s ++ [v]), compute := fun s => .ok s }

def exMixed : List (Branch (List Int) Int) :=
  [.sequence (fun s => .ok (endS (mapS (fun v => .ok (v * v)) s))),
   .fillCompute { pre := [.call (fun v => .ok v)], acc := exStore, post := [] },
   .source (.ofList [100, 101]),
   .sequence (fun s => .ok (mapS (fun v => .ok (-v)) s)),
   .fillRequest { pre := [], acc := exStore, post := [] }]

example : splitRunM exMixed (some 2) [1, 2, 3] =
    ⟨[(2, 100), (2, 101), (3, -1), (3, -2), (4, 1), (4, 2), (3, -3), (4, 1), (4, 2), (4, 3), (1, 1), (1, 2), (1, 3)],
      none⟩ := by rfl
example : project 1 (splitRunM exMixed (some 2) [1, 2, 3]) = [1, 2, 3] := by rfl
example : project 1 (splitRunM exMixed (some 2) [1, 2, 3])
    = (fillRun { pre := [.call (fun v => .ok v)], acc := exStore, post := [] } [1, 2, 3]).vals :=
  split_mixed_branch_independent exMixed (some 2) (by decide) [1, 2, 3] (by rfl) 1 (by decide) _ rfl
example : project 2 (splitRunM exMixed none []) = [100, 101] :=
  split_mixed_source exMixed none [] (by rfl) 2 (by decide) _ rfl
/-- an empty flow: the sequences are run on `[]`, the FillRequestSeq is requested, the source is called at the end -/
example : splitRunM exMixed (some 2) [] = ⟨[(2, 100), (2, 101)], none⟩ := by rfl

/-! ## 10. "callables": every callable is accepted, whatever else can be said about it

The property's first pre-processing kind is "callables" — what Python's `callable(el)` accepts: functions, lambdas,
`functools.partial` objects, bound methods, instances with `__call__`, classes, callables implemented in C that have
no introspectable signature (`int`, `max`, `operator.itemgetter(0)`).  In the model an object is a capability table
`Caps`; the three theorems say that the conversions look at `callable(el)` (and at the attributes named in the
docstrings) and at nothing else: for ANY capability table with `callable = true` … (adversary candidate C05/1 makes
the conversion depend on `inspect.signature`: the real adapters then disagree with `mkFillInto` on the harness's
callable forms.) -/

/-- `FillInto(el)` accepts every callable that is not a `Split`, and binds its own `fill_into` if it has one, else
`element.fill(el(value))` -/
theorem fillInto_accepts_every_callable (c : Caps) (hc : c.callable = true) (hs : c.isSplit = false) :
    mkFillInto c none = .ok (if c.hasMethod "fill_into" then .method "fill_into" else .callDefault) := by
  by_cases h : c.hasMethod "fill_into" = true <;> simp [mkFillInto, h, hc, hs]

/-- `Run(el)` / `Sequence(el)` accepts every callable: its own `run` if it has one, else the map over the flow -/
theorem run_accepts_every_callable (c : Caps) (hc : c.callable = true) :
    mkRun c none = .ok (if c.hasMethod "run" then .method "run" else .callRun) := by
  by_cases h : c.hasMethod "run" = true <;> simp [mkRun, h, hc]

/-- `Call(el)` and `SourceEl(el)` accept every callable and call it itself -/
theorem call_accepts_every_callable (c : Caps) (hc : c.callable = true) :
    mkCall c none = .ok .self ∧ mkSourceEl c none = .ok .self := by
  simp [mkCall, mkSourceEl, hc]

/-- a callable object becomes the two faces of the same `Pre.call` in `FillSeq` and in `Sequence`, whatever other
attributes it has besides `run`, `fill_into` (e.g. a class with `__call__` and any number of other methods) -/
theorem callable_converts (o : Obj) (hc : o.caps.callable = true) (hs : o.caps.isSplit = false)
    (hrun : (o.caps.attr "run").callable = false) (hfi : (o.caps.attr "fill_into").callable = false) :
    o.toPre = .ok (.call o.callDen) ∧ o.toStage = .ok (Pre.call o.callDen).run := by
  obtain ⟨p, hp, hst⟩ := preKind_converts o (.callable hc hs hrun hfi)
  have : o.toPre = .ok (.call o.callDen) := by
    simp [Obj.toPre, hfi, mkFillInto, Caps.hasMethod, hc, hs]
  rw [this] at hp
  cases hp
  exact ⟨this, hst⟩

example : mkFillInto (capsOf [("my", .method), ("__iter__", .method), ("nc", .value)] true) none = .ok .callDefault :=
  fillInto_accepts_every_callable _ rfl rfl

end Lena.C05
