import LenaModel.Lemmas.C05
import LenaModel.Props.C17
/-! # C05 — property theorems: an analysis gives the same result whether it is driven by run or by fill

Property text: "For every chain of pre-processing elements (callables, Variable, Filter, non-negative Slice,
RunIf), an accumulator and post-processing elements, the results are identical whether the chain is a linear
Sequence run over the flow, a branch of a Split with any bufsize, or an explicit FillComputeSeq / FillSeq filled
value by value (until it signals LenaStopFill) and then computed.  The adapters Call, Run, FillInto, FillCompute
and SourceEl preserve the meaning of the wrapped method for every method name and element kind they accept and
raise LenaTypeError at construction for everything else."

Model: `LenaModel/Model/C05.lean`.  All theorems are for arbitrary value types, arbitrary accumulators (any state
machine `Acc σ α`), arbitrary post-processing stages, flows of any length, any number of elements. -/

namespace Lena.C05
open Lena.Flow

variable {α κ σ : Type}

/-! ## 1. Driver-consistency of each pre-processing element kind

"its `run` on a list equals feeding the list value by value through its `fill_into` until `LenaStopFill`":
`K` is any element with a `fill` method (state `κ`), `fs` the `fill_into` state of the element, the input flow
ends normally (`t = none`) or by an exception `t = some e`. -/

/-- callables and `Variable`s (sentence 1, kind "callable"/"Variable"): filling the values through
`FillInto.fill_into` = filling the output of `Run._call_run`; same exception, same stop signal -/
theorem call_consistent (f : α → Except Exc α) (K : Sink κ α) (fs : Lena.C17.FillState) (s : κ) (flow : Strm α) :
    (feedS (stageSink (.call f) K) (fs, s) flow).map Prod.snd = feedS K s (mapS f flow) :=
  call_stage f K fs flow.term flow.vals s

/-- `Filter` (sentence 1, kind "Filter"): `Filter.fill_into` value by value = filling `Filter.run`'s output -/
theorem filter_consistent (p : α → Except Exc Bool) (K : Sink κ α) (fs : Lena.C17.FillState) (s : κ)
    (flow : Strm α) :
    (feedS (stageSink (.filter p) K) (fs, s) flow).map Prod.snd = feedS K s (filterS p flow) :=
  filter_stage p K fs flow.term flow.vals s

/-- `RunIf.run` keeps the contract behind `_can_break_flow`: running a flow = running its values one by one -/
theorem runIf_breaksFlow (select : α → Except Exc Bool) (inner : Stage α) :
    BreaksFlow (fun s => .ok (runIfS select inner s)) := by
  intro s
  simp only [runIfS, bindS, observe, Except.ok.injEq]
  congr 1
  funext v
  simp only [Strm.ofList, bindGo]
  exact (Strm.andThen_nil _).symm

/-- `RunIf` and any Run element that can break the flow (sentence 1, kind "RunIf"):
`FillInto._run_fill_into` value by value = filling the output of its `run` on the whole flow -/
theorem runif_consistent (r : Stage α) (hr : BreaksFlow r) (K : Sink κ α) (fs : Lena.C17.FillState) (s : κ)
    (flow : Strm α) :
    (feedS (stageSink (.runEl r) K) (fs, s) flow).map Prod.snd = feedS K s (observe (r flow)) := by
  rw [hr flow]
  exact runEl_stage r K fs flow.term flow.vals s

example : BreaksFlow (fun (s : Strm Int) => .ok (runIfS (fun v => .ok (v % 2 == 0))
    (fun s => .ok (mapS (fun v => .ok (v + 100)) s)) s)) := runIf_breaksFlow _ _

/-- `Slice(start, stop, step)`, all `start, stop ≥ 0`, `step ≥ 1` (sentence 1, kind "non-negative Slice"):
feeding a flow value by value through `Slice.fill_into` until it raises `LenaStopFill` (or the flow ends)
leaves the filled element in the state that filling `islice(flow, start, stop, step)` leaves it in, with the
same exception if the filled element raises one -/
theorem slice_consistent (start : Nat) (stop : Option Nat) (step : Nat) (hs : 1 ≤ step) (K : Sink κ α) (s : κ)
    (xs : List α) :
    (feedList (stageSink (.slice start stop step) K) (Lena.C17.fillInit start, s) xs).forget.map Prod.snd
      = (feedList K s (Lena.C17.islice xs start stop step)).forget :=
  slice_stage start stop step hs K xs start 0 _ s (Lena.C17.fillGood_init stop step start)

/-- … and what `islice` yields is Python's `xs[start:stop:step]` (from C17) -/
theorem slice_consistent_pyslice (start : Nat) (stop : Option Nat) (step : Nat) (hs : 1 ≤ step) (K : Sink κ α)
    (s : κ) (xs : List α) :
    (feedList (stageSink (.slice start stop step) K) (Lena.C17.fillInit start, s) xs).forget.map Prod.snd
      = (feedList K s (Lena.C17.pySlice xs (some (start : Int)) (stop.map Int.ofNat) step)).forget := by
  rw [slice_consistent start stop step hs, Lena.C17.islice_eq_pySlice xs start stop step hs]

/-- a concrete sink for the examples: it stores what it is filled with -/
def storeSink : Sink (List Int) Int := ⟨fun s v => .ok (s ++ [v])⟩

example : (feedList (stageSink (.slice 1 (some 6) 2) storeSink) (Lena.C17.fillInit 1, [])
    [0, 1, 2, 3, 4, 5, 6, 7, 8]).forget.map Prod.snd = .ok [1, 3, 5] := by rfl

/-! ## 2. The three drivers of a chain `pre* acc post*` -/

/-- what `Sequence.run` does before the accumulator, unfolded -/
theorem seqRun_eq (c : Chain σ α) (xs : List α) :
    seqRun c xs = observe (match composeS (c.pre.map Pre.run) (.ofList xs) with
      | .error e => .error e
      | .ok s => composeS (fcRun c.acc :: c.post) s) := by
  simp only [seqRun, seqStages, composeS_append]
  rfl

/-- **Sentence 1, Sequence vs FillComputeSeq/FillSeq.**  For every chain whose pre-processing elements are
callables/Variables, Filters, non-negative Slices and flow-breaking Run elements (`RunIf`), every accumulator,
every list of post-processing stages and every flow on which no pre-processing element raises
(`PreSafe`): the linear `Sequence` run over the flow and the explicit `FillComputeSeq` (or `FillSeq`) filled value by
value until `LenaStopFill` and then computed give identical results — the same values and, if the accumulator
or a later stage raises, the same exception at the same place. -/
theorem seq_eq_fill (c : Chain σ α) (xs : List α) (hwf : PreWF c.pre) (hacc : AccNoStop c.acc)
    (hsafe : PreSafe c.pre xs) :
    seqRun c xs = fillRun c xs := by
  obtain ⟨ys, hys, hfeed⟩ := chain_safe c.acc c.pre xs hwf hsafe
  rw [seqRun_eq, hys, fillRun_eq_finish]
  simp only [composeS, fcRun, Strm.ofList]
  rw [feedList_accSink c.acc hacc ys c.acc.init] at hfeed
  unfold fillAllChain
  cases hfa : c.acc.fillAll c.acc.init ys with
  | error e =>
    rw [hfa] at hfeed
    cases hfc : feedList (chainSink c.acc c.pre) (chainInit c.acc.init c.pre) xs with
    | ok st => rw [hfc] at hfeed; simp [FillRes.forget, Except.map] at hfeed
    | stop st => rw [hfc] at hfeed; simp [FillRes.forget, Except.map] at hfeed
    | err e' =>
      rw [hfc] at hfeed
      simp only [FillRes.forget, Except.map, Except.error.injEq] at hfeed
      subst hfeed
      rfl
  | ok s' =>
    rw [hfa] at hfeed
    cases hfc : feedList (chainSink c.acc c.pre) (chainInit c.acc.init c.pre) xs with
    | ok st =>
      rw [hfc] at hfeed
      simp only [FillRes.forget, Except.map, Except.ok.injEq] at hfeed
      simp only [finish, computeAfter, hfeed]
    | stop st =>
      rw [hfc] at hfeed
      simp only [FillRes.forget, Except.map, Except.ok.injEq] at hfeed
      simp only [finish, computeAfter, hfeed]
    | err e' => rw [hfc] at hfeed; simp [FillRes.forget, Except.map] at hfeed

/-- **Sentence 1, FillComputeSeq vs a branch of a Split with any bufsize** (unconditional): a `Split` with the
chain as its only branch, any `bufsize` (`None` or `≥ 1`), yields exactly what the explicit `FillComputeSeq`
gives — values and exception — for every chain and flow. -/
theorem fill_eq_split (c : Chain σ α) (bufsize : Option Nat) (hb : bufsize ≠ some 0) (xs : List α) :
    splitRun [c] bufsize xs = fillRun c xs := by
  simp only [splitRun, splitRunTagged, initActive]
  rw [splitLoop_single, Active.rest, chunks_flatten bufsize hb xs, fillRun_eq_finish]
  simp only [tag, Strm.map, List.map_map, fillAllChain]
  generalize finish c _ = r
  obtain ⟨v, t⟩ := r
  have : (Prod.snd ∘ fun (v : α) => (0, v)) = id := rfl
  simp [this]

/-- **Sentence 1 (main theorem): the three drivers agree.**  ∀ chains `pre* acc post*`, ∀ flows, ∀ bufsizes:
`Sequence(chain).run(xs)` = `FillComputeSeq(chain)` filled with `xs` until `LenaStopFill`, then computed
= `Split([chain], bufsize).run(xs)`. -/
theorem three_drivers_agree (c : Chain σ α) (xs : List α) (bufsize : Option Nat) (hb : bufsize ≠ some 0)
    (hwf : PreWF c.pre) (hacc : AccNoStop c.acc) (hsafe : PreSafe c.pre xs) :
    seqRun c xs = fillRun c xs ∧ splitRun [c] bufsize xs = fillRun c xs :=
  ⟨seq_eq_fill c xs hwf hacc hsafe, fill_eq_split c bufsize hb xs⟩

/-- **Without a Slice before the accumulator no hypothesis on the flow is needed**: also when a
pre-processing element raises, the drivers raise the same exception (provided nobody raises `LenaStopFill`:
the explicit fill loop is not stopped). -/
theorem three_drivers_agree_no_slice (c : Chain σ α) (xs : List α) (bufsize : Option Nat) (hb : bufsize ≠ some 0)
    (hwf : PreWF c.pre) (hns : NoSlice c.pre) (hstop : ∀ st, fillAllChain c xs ≠ .stop st) :
    seqRun c xs = fillRun c xs ∧ splitRun [c] bufsize xs = fillRun c xs := by
  refine ⟨?_, fill_eq_split c bufsize hb xs⟩
  obtain ⟨out, hout, hfeed⟩ := chain_noslice c.acc c.pre (.ofList xs) hwf hns
  rw [seqRun_eq, hout, fillRun_eq_finish]
  rw [feedS_ofList] at hfeed
  have hfa : fillAllChain c xs = feedList (chainSink c.acc c.pre) (chainInit c.acc.init c.pre) xs := rfl
  rw [← hfa] at hfeed
  -- the accumulator filled with `out`: `feedS` against `fcRun`
  have key : ∀ (vals : List α) (s : σ),
      (∀ s', feedS (accSink c.acc) s ⟨vals, out.term⟩ ≠ .stop s') →
      (match c.acc.fillAll s vals with
        | .error e => (Except.error e : Except Exc (Strm α))
        | .ok st => (match out.term with
          | some e => .error e
          | none => .ok (computeS c.acc st)))
        = (match feedS (accSink c.acc) s ⟨vals, out.term⟩ with
          | .ok st => .ok (computeS c.acc st)
          | .stop st => .ok (computeS c.acc st)
          | .err e => .error e) := by
    intro vals
    induction vals with
    | nil =>
      intro s hno
      simp only [Acc.fillAll, feedS_mk_nil] at hno ⊢
      cases ht : out.term with
      | none => rfl
      | some e =>
        rw [ht] at hno
        by_cases he : e = Exc.lenaStopFill
        · exact absurd (by simp [FillRes.raise, he]) (hno s)
        · simp [FillRes.raise, he]
    | cons x vals ih =>
      intro s hno
      simp only [Acc.fillAll, feedS_mk_cons, accSink] at hno ⊢
      cases hf : c.acc.fill s x with
      | error e =>
        rw [hf] at hno
        by_cases he : e = Exc.lenaStopFill
        · exact absurd (by simp [FillRes.raise, he]) (hno s)
        · simp [FillRes.raise, he]
      | ok s' =>
        rw [hf] at hno
        exact ih s' hno
  have hno : ∀ s', feedS (accSink c.acc) c.acc.init ⟨out.vals, out.term⟩ ≠ .stop s' := by
    intro s' h
    have h' : feedS (accSink c.acc) c.acc.init out = .stop s' := h
    rw [h'] at hfeed
    cases hfc : fillAllChain c xs with
    | ok st => rw [hfc] at hfeed; simp [FillRes.map] at hfeed
    | stop st => exact hstop st hfc
    | err e => rw [hfc] at hfeed; simp [FillRes.map] at hfeed
  have hk := key out.vals c.acc.init hno
  simp only [composeS, fcRun]
  have hout' : (⟨out.vals, out.term⟩ : Strm α) = out := rfl
  rw [hout'] at hk
  cases hfc : fillAllChain c xs with
  | stop st => exact absurd hfc (hstop st)
  | ok st =>
    rw [hfc] at hfeed
    simp only [FillRes.map] at hfeed
    rw [← hfeed] at hk
    simp only at hk
    simp only [finish, computeAfter]
    cases hfa2 : c.acc.fillAll c.acc.init out.vals with
    | error e => rw [hfa2] at hk; simp at hk
    | ok st2 =>
      rw [hfa2] at hk
      simp only at hk ⊢
      cases ht : out.term with
      | some e => rw [ht] at hk; simp at hk
      | none =>
        rw [ht] at hk
        simp only [Except.ok.injEq] at hk
        simp only [hk]
  | err e =>
    rw [hfc] at hfeed
    simp only [FillRes.map] at hfeed
    rw [← hfeed] at hk
    simp only at hk
    simp only [finish]
    cases hfa2 : c.acc.fillAll c.acc.init out.vals with
    | error e2 =>
      rw [hfa2] at hk
      simp only [Except.error.injEq] at hk
      simp [hk, observe]
    | ok st2 =>
      rw [hfa2] at hk
      simp only at hk ⊢
      cases ht : out.term with
      | some e2 =>
        rw [ht] at hk
        simp only [Except.error.injEq] at hk
        simp [hk, observe]
      | none => rw [ht] at hk; simp at hk

end Lena.C05
