import LenaModel.Model.C07
import LenaModel.Lemmas.C07
/-! # C07 — property theorems (nested-dictionary algebra) -/
