import LenaModel.Model.C07
import LenaModel.Lemmas.C07
import LenaModel.Lemmas.C07Update
import LenaModel.Lemmas.C07Nested
import LenaModel.Lemmas.C07Level
import LenaModel.Lemmas.C07Tok
import LenaModel.Lemmas.C07Ext
import LenaModel.Lemmas.C07Mut
import LenaModel.Lemmas.C07Share
/-! # C07 — property theorems (nested-dictionary algebra)

Dictionaries are slot vectors over the key alphabet of a case (`Model/Val.lean`); all theorems are
for every alphabet size, every nesting depth, every leaf type `α` with decidable equality and every
`level : Int`.  `contained lv a b` is "`a` is contained in `b`" with the recursion depth `lv` that
`intersection`/`difference` document (`-1`: unlimited, `1`: items compared by `==`, `0`: whole
dictionaries compared).

For a finite level the order `contained level` is *read off the code and its docstring* (level 1: items compared by
`==`; level 0: `a == b`, or `a` empty); "the greatest dictionary contained in every argument" is false for a finite
level under the ordinary (unlimited) containment.  So `inter_lower` / `inter_greatest` / `diff_exact` at finite levels
are statements relative to that order; `inter_level0`, `inter_level1_key`, `inter_level_step`, `cont_level_unlimited`,
`inter_level_le_unlimited`, `level_covers_*` and the level-independent `reconstruct` do not depend on it.

Leaves: `α` with decidable equality, i.e. the leaves of the real values are assumed to have a reflexive `==` that
`copy.deepcopy` preserves (no NaN, no objects compared by identity); arguments are tree-shaped and pairwise disjoint
object graphs wherever identities are involved (the token and write-log models allocate per occurrence) — except in the
last section, "arguments with shared objects", where an identity may occur at several places of the arguments and
`copy.deepcopy` memoises (`Model/C07Share.lean`). -/

namespace Lena.C07
open Lena Lena.Val

variable {α : Type} [DecidableEq α]

/-! concrete values for the non-vacuity examples: leaves are numbers (0 is falsy), `L n` a scalar item,
`D l` a dictionary item, `none` an absent key; two-key alphabet unless said otherwise -/
private abbrev L (n : Nat) : Option (Val Nat) := some (.leaf n)
private abbrev D (l : Slots Nat) : Option (Val Nat) := some (.dict l)
private def tr : Nat → Bool := fun i => i != 0
private theorem wfd2 (a : Slots Nat) (h : wfB 2 (.dict a) = true) : WFD 2 a := wfd_of_wfB 2 a h

private theorem forall_pair {β : Type} {P : β → Prop} {a b : β} (ha : P a) (hb : P b) :
    ∀ d ∈ [a, b], P d := by
  intro d hd; simp at hd; rcases hd with h | h <;> rw [h] <;> assumption

private theorem forall_triple {β : Type} {P : β → Prop} {a b c : β} (ha : P a) (hb : P b) (hc : P c) :
    ∀ d ∈ [a, b, c], P d := by
  intro d hd; simp at hd; rcases hd with h | h | h <;> rw [h] <;> assumption

/-! ## containment is a partial order (at every level) -/

/-- containment is reflexive -/
theorem cont_refl (lv : Int) (a : Slots α) : contained lv a a = true := contained_refl lv a

/-- containment is transitive -/
theorem cont_trans (lv : Int) (a b c : Slots α)
    (h1 : contained lv a b = true) (h2 : contained lv b c = true) : contained lv a c = true :=
  contained_trans lv a b c h1 h2

example : contained (-1) [D [L 0, none], none] [D [L 0, L 1], none] = true ∧
    contained (-1) [D [L 0, L 1], none] [D [L 0, L 1], L 2] = true ∧
    contained (-1) [D [L 0, none], none] [D [L 0, L 1], L 2] = true := by decide +kernel

/-- containment is antisymmetric on dictionaries over the same key alphabet: mutual containment is `==` -/
theorem cont_antisymm (lv : Int) (n : Nat) (a b : Slots α) (wa : WFD n a) (wb : WFD n b)
    (h1 : contained lv a b = true) (h2 : contained lv b a = true) : a = b :=
  contained_antisymm lv n a b wa wb h1 h2

example : WFD 2 [D [L 0, none], L 3] := wfd2 _ (by decide +kernel)
-- without the common alphabet antisymmetry fails: `{}` written with one and with two slots
example : contained (-1) [none] [none, (none : Option (Val Nat))] = true ∧
    contained (-1) [none, none] [(none : Option (Val Nat))] = true := by decide +kernel

/-! ## intersection -/

/-- `intersection(d0, d1, …)` is the left fold of the binary step (the early returns are an optimisation) -/
theorem interN_cons (n : Nat) (lv : Int) (d : Slots α) (ds : List (Slots α)) :
    interN n lv (d :: ds) = ds.foldl (inter2 lv) d := by
  rw [interN, interFold_eq_foldl]

theorem interN_pair (n : Nat) (lv : Int) (a b : Slots α) : interN n lv [a, b] = inter2 lv a b := by
  rw [interN_cons]; rfl

/-- "intersection(d1,...,dn) returns a dictionary contained in every argument" -/
theorem inter_lower (n : Nat) (lv : Int) (ds : List (Slots α)) (d : Slots α) (hd : d ∈ ds) :
    contained lv (interN n lv ds) d = true := by
  cases ds with
  | nil => simp at hd
  | cons d0 ds =>
    rw [interN_cons]
    rcases List.mem_cons.1 hd with h | h
    · subst h; exact foldl_inter2_lower_init lv ds d
    · exact foldl_inter2_lower_mem lv ds d0 d h

example : interN 2 (-1) [[L 0, D [L 1, L 2]], [L 0, D [L 1, L 3]], [L 4, D [L 1, none]]] = [none, D [L 1, none]] := by
  decide +kernel

/-- "… the greatest such dictionary": whatever is contained in every argument is contained in the result -/
theorem inter_greatest (n : Nat) (lv : Int) (ds : List (Slots α)) (c : Slots α) (hne : ds ≠ [])
    (hc : ∀ d ∈ ds, contained lv c d = true) : contained lv c (interN n lv ds) = true := by
  cases ds with
  | nil => exact absurd rfl hne
  | cons d0 ds =>
    rw [interN_cons]
    exact foldl_inter2_greatest lv c ds d0 (hc d0 (by simp)) (fun d hd => hc d (by simp [hd]))

example : (∀ d ∈ [[L 0, D [L 1, L 2]], [L 0, D [L 1, L 3]]], contained (-1) [L 0, D [none, none]] d = true) ∧
    contained (-1) [L 0, D [none, none]] (interN 2 (-1) [[L 0, D [L 1, L 2]], [L 0, D [L 1, L 3]]]) = true := by
  decide +kernel

/-- the result is a dictionary over the same key alphabet (at every depth) -/
theorem inter_wf (n : Nat) (lv : Int) (ds : List (Slots α)) (hw : ∀ d ∈ ds, WFD n d) :
    WFD n (interN n lv ds) := by
  cases ds with
  | nil =>
    refine ⟨by simp [interN, Val.empty], ?_⟩
    have := WFL_emptyLike n (List.replicate n (none : Option (Val α)))
    simpa [interN, Val.empty, emptyLike] using this
  | cons d0 ds =>
    rw [interN_cons]
    exact foldl_inter2_wf lv n ds d0 (hw d0 (by simp))

/-- the two laws determine the result: a greatest lower bound of the arguments is the intersection -/
theorem inter_unique (n : Nat) (lv : Int) (ds : List (Slots α)) (g : Slots α) (hne : ds ≠ [])
    (hw : ∀ d ∈ ds, WFD n d) (hg : WFD n g)
    (hlower : ∀ d ∈ ds, contained lv g d = true)
    (hgreatest : ∀ c, WFD n c → (∀ d ∈ ds, contained lv c d = true) → contained lv c g = true) :
    interN n lv ds = g :=
  cont_antisymm lv n _ _ (inter_wf n lv ds hw) hg
    (hgreatest _ (inter_wf n lv ds hw) (fun d hd => inter_lower n lv ds d hd))
    (inter_greatest n lv ds g hne hlower)

example : interN 2 (-1) [[L 0, D [L 1, L 2]], [L 0, D [L 1, L 3]]] = [L 0, D [L 1, none]] :=
  inter_unique 2 (-1) _ _ (by simp) (forall_pair (wfd2 _ (by decide +kernel)) (wfd2 _ (by decide +kernel)))
    (wfd2 _ (by decide +kernel)) (by decide +kernel)
    (fun c _ hc => by
      have e : interN 2 (-1) [[L 0, D [L 1, L 2]], [L 0, D [L 1, L 3]]] = [L 0, D [L 1, none]] := by decide +kernel
      rw [← e]
      exact inter_greatest 2 (-1) [[L 0, D [L 1, L 2]], [L 0, D [L 1, L 3]]] c (by simp) hc)

/-- the order of the arguments is irrelevant (commutativity and associativity in one statement) -/
theorem inter_perm (n : Nat) (lv : Int) (ds ds' : List (Slots α)) (hp : ds.Perm ds')
    (hw : ∀ d ∈ ds, WFD n d) : interN n lv ds = interN n lv ds' := by
  by_cases hne : ds = []
  · subst hne; rw [List.nil_perm.1 hp]
  · have hne' : ds' ≠ [] := fun h => hne (by subst h; exact List.perm_nil.1 hp)
    have hw' : ∀ d ∈ ds', WFD n d := fun d hd => hw d (hp.mem_iff.2 hd)
    exact cont_antisymm lv n _ _ (inter_wf n lv ds hw) (inter_wf n lv ds' hw')
      (inter_greatest n lv ds' _ hne' (fun d hd => inter_lower n lv ds d (hp.mem_iff.2 hd)))
      (inter_greatest n lv ds _ hne (fun d hd => inter_lower n lv ds' d (hp.mem_iff.1 hd)))

example : interN 2 2 [[L 0, D [L 1, L 2]], [L 0, D [L 1, L 3]], [L 4, D [L 1, none]]] =
    interN 2 2 [[L 4, D [L 1, none]], [L 0, D [L 1, L 2]], [L 0, D [L 1, L 3]]] :=
  inter_perm 2 2 _ _ (by decide) (forall_triple (wfd2 _ (by decide +kernel)) (wfd2 _ (by decide +kernel))
    (wfd2 _ (by decide +kernel)))

/-- commutativity -/
theorem inter_comm (n : Nat) (lv : Int) (a b : Slots α) (wa : WFD n a) (wb : WFD n b) :
    interN n lv [a, b] = interN n lv [b, a] :=
  inter_perm n lv [a, b] [b, a] (List.Perm.swap b a []) (forall_pair wa wb)

/-- associativity: both nestings of the binary intersection are the ternary one -/
theorem inter_assoc (n : Nat) (lv : Int) (a b c : Slots α) (wa : WFD n a) (wb : WFD n b) (wc : WFD n c) :
    interN n lv [interN n lv [a, b], c] = interN n lv [a, b, c] ∧
    interN n lv [a, interN n lv [b, c]] = interN n lv [a, b, c] := by
  have wbc : WFD n (interN n lv [b, c]) := inter_wf n lv _ (forall_pair wb wc)
  constructor
  · -- the left nesting is literally the fold
    simp only [interN_cons, List.foldl_cons, List.foldl_nil]
  · refine (inter_unique n lv [a, b, c] _ (by simp) (forall_triple wa wb wc)
      (inter_wf n lv _ (forall_pair wa wbc)) ?_ ?_).symm
    · have hbc := inter_lower n lv [a, interN n lv [b, c]] (interN n lv [b, c]) (by simp)
      exact forall_triple (inter_lower n lv _ _ (by simp))
        (cont_trans lv _ _ _ hbc (inter_lower n lv [b, c] _ (by simp)))
        (cont_trans lv _ _ _ hbc (inter_lower n lv [b, c] _ (by simp)))
    · intro x _ hx
      exact inter_greatest n lv _ x (by simp) (forall_pair (hx _ (by simp))
        (inter_greatest n lv [b, c] x (by simp) (forall_pair (hx _ (by simp)) (hx _ (by simp)))))

/-- idempotence -/
theorem inter_idem (n : Nat) (lv : Int) (a : Slots α) (wa : WFD n a) : interN n lv [a, a] = a :=
  inter_unique n lv [a, a] a (by simp) (forall_pair wa wa) wa
    (forall_pair (cont_refl lv _) (cont_refl lv _))
    (by intro c _ hc; exact hc a (by simp))

/-- `a` is contained in `b` iff intersecting with `b` gives `a` back -/
theorem inter_eq_left_iff (n : Nat) (lv : Int) (a b : Slots α) (wa : WFD n a) (wb : WFD n b) :
    interN n lv [a, b] = a ↔ contained lv a b = true := by
  constructor
  · intro h
    have := inter_lower n lv [a, b] b (by simp)
    rwa [h] at this
  · intro h
    exact inter_unique n lv [a, b] a (by simp) (forall_pair wa wb) wa
      (forall_pair (cont_refl lv _) h) (by intro c _ hc; exact hc a (by simp))

/-- `intersection()` is the empty dictionary; `intersection(d)` is (a copy of) `d`, at every level -/
theorem inter_nil_single (n : Nat) (lv : Int) (d : Slots α) :
    interN n lv ([] : List (Slots α)) = Val.empty n ∧ interN n lv [d] = d := by
  simp [interN, interFold]

/-- level 0 ("all dicts must be equal, otherwise an empty dict is returned") -/
theorem inter_level0 (n : Nat) (a b : Slots α) :
    interN n 0 [a, b] = if a = b then a else emptyLike a := by
  rw [interN_pair]
  unfold inter2 interLevel0
  simp only [if_true]
  by_cases e : a = b
  · subst e
    by_cases hn : nonEmpty a = true
    · simp [hn]
    · simp [hn]
      exact (eq_emptyLike_of_empty a (by simpa using hn)).symm
  · have e' : ¬ b = a := fun h => e h.symm
    simp [e, e']

example : interN 2 0 [[L 0, D [L 1, L 2]], [L 0, D [L 1, L 2]]] = [L 0, D [L 1, L 2]] ∧
    interN 2 0 [[L 0, D [L 1, L 2]], [L 0, D [L 1, L 3]]] = [none, none] := by decide +kernel

/-- level 1 ("the result contains those subdictionaries which are equal"): key by key -/
theorem inter_level1_key (n : Nat) (a b : Slots α) (k : Nat) :
    getSlot (interN n 1 [a, b]) k = if getSlot a k = getSlot b k then getSlot a k else none := by
  rw [interN_pair]
  unfold inter2
  simp only [show ¬ ((1 : Int) = 0) by decide, if_false, getSlot_interL]
  cases ha : getSlot a k with
  | none => cases getSlot b k <;> simp [interO]
  | some v =>
    cases hb : getSlot b k with
    | none => simp [interO]
    | some w =>
      cases v <;> cases w <;> simp [interO, eq_comm]

example : interN 2 1 [[L 0, D [L 1, L 2]], [L 0, D [L 1, L 3]]] = [L 0, none] ∧
    interN 2 2 [[L 0, D [L 1, L 2]], [L 0, D [L 1, L 3]]] = [L 0, D [L 1, none]] := by decide +kernel

/-- key by key at the other levels: an item is kept when both have it with equal values, replaced by
the intersection one level down when both values are dictionaries, dropped otherwise -/
theorem inter_key (n : Nat) (lv : Int) (h0 : lv ≠ 0) (a b : Slots α) (k : Nat) :
    getSlot (interN n lv [a, b]) k = interO lv (getSlot a k) (getSlot b k) := by
  rw [interN_pair]
  unfold inter2
  simp only [h0, if_false, getSlot_interL]

omit [DecidableEq α] in
theorem mapM_asDict_none_iff : ∀ (args : List (Val α)),
    args.mapM asDict = none ↔ ∃ v ∈ args, isDict v = false
  | [] => by simp
  | .leaf a :: vs => by
      constructor
      · intro _; exact ⟨.leaf a, by simp, rfl⟩
      · intro _; simp [List.mapM_cons, asDict]
  | .dict l :: vs => by
      have ih := mapM_asDict_none_iff vs
      constructor
      · intro h
        cases hm : vs.mapM asDict with
        | none =>
          obtain ⟨v, hv, hd⟩ := ih.1 hm
          exact ⟨v, by simp [hv], hd⟩
        | some ds => simp [List.mapM_cons, asDict, hm] at h
      · rintro ⟨v, hv, hd⟩
        rcases List.mem_cons.1 hv with h | h
        · rw [h] at hd; simp [isDict] at hd
        · have := ih.2 ⟨v, h, hd⟩
          simp [List.mapM_cons, asDict, this]

omit [DecidableEq α] in
theorem mapM_asDict_map_dict : ∀ (ds : List (Slots α)), (ds.map Val.dict).mapM asDict = some ds
  | [] => rfl
  | d :: ds => by simp [List.mapM_cons, asDict, mapM_asDict_map_dict ds]

/-- `LenaTypeError` exactly when some argument is not a dictionary; otherwise the value computed above -/
theorem intersection_error_iff (n : Nat) (lv : Int) (args : List (Val α)) :
    (intersection n lv args = .lenaTypeError ↔ ∃ v ∈ args, isDict v = false) ∧
    (∀ ds, args = ds.map Val.dict → intersection n lv args = .ok (interN n lv ds)) := by
  constructor
  · rw [← mapM_asDict_none_iff]
    unfold intersection
    cases args.mapM asDict <;> simp
  · intro ds h
    subst h
    unfold intersection
    rw [mapM_asDict_map_dict]


example : intersection 1 (-1) [.dict [L 0], .leaf 5] = .lenaTypeError ∧
    intersection 1 (-1) [.dict [L 0], .dict [L 0]] = .ok [L 0] := by decide +kernel

/-! ## difference -/
section diff
variable (truthy : α → Bool)

/-- "difference(d1, d2) returns exactly the items of d1 not contained in d2": the model of the code
computes the specification `diffSpec`, which is written with containment only -/
theorem diff_exact (lv : Int) (a b : Slots α) : difference truthy lv a b = diffSpec lv a b := by
  unfold difference diffSpec
  by_cases h0 : lv = 0
  · simp [h0]
  · simp only [h0, if_false]
    split
    · rename_i e
      subst e
      -- every item of `a` is contained in `a`
      have h := diffSpecL_nonEmpty lv a a
      rw [contL_refl] at h
      have hlen : (diffSpecL lv a a).length = a.length := by
        rw [← diffL_eq_spec (fun _ => true)]; exact diffL_length _ lv a a
      have hE := eq_emptyLike_of_empty (diffSpecL lv a a) (by simpa using h)
      exact (hE.trans (by simp [emptyLike, hlen])).symm
    · exact diffL_eq_spec truthy lv a b

-- the defect repaired by `fix: keep falsy and empty values in context.difference`: `{"k": 0}` against `{"k": 1}`
example : difference tr (-1) [L 0, L 5] [L 1, L 5] = [L 0, none] := by decide +kernel
example : difference tr 2 [D [none, none], D [L 0, L 2]] [L 1, D [L 1, L 2]] = [D [none, none], D [L 0, none]] := by
  decide +kernel

/-- the truth value of leaves plays no role (`if res:` only ever sees dictionaries) -/
theorem diff_truthiness_irrelevant (truthy' : α → Bool) (lv : Int) (a b : Slots α) :
    difference truthy lv a b = difference truthy' lv a b := by
  rw [diff_exact, diff_exact]

/-- key by key: `k` is a key of the difference iff item `k` of `d1` is not contained in `d2` -/
theorem diff_key_iff (lv : Int) (h0 : lv ≠ 0) (a b : Slots α) (k : Nat) :
    (getSlot (difference truthy lv a b) k).isSome = !contO lv (getSlot a k) (getSlot b k) := by
  unfold difference
  simp only [h0, if_false]
  split
  · rename_i e
    subst e
    rw [contO_refl]
    have : getSlot (emptyLike a) k = none := by
      cases a with
      | nil => simp [emptyLike]
      | cons x r => simpa [getPath_single] using getPath_emptyLike (x :: r) k []
    simp [this]
  · rw [getSlot_diffL, diffO_eq_spec, diffSpecO_isSome]

/-- … and its value there is the item itself, or — for two dictionaries, when the level allows — the
difference one level down -/
theorem diff_key_value (lv : Int) (h0 : lv ≠ 0) (a b : Slots α) (hab : a ≠ b) (k : Nat) :
    getSlot (difference truthy lv a b) k = diffSpecO lv (getSlot a k) (getSlot b k) := by
  unfold difference
  simp only [h0, hab, if_false]
  rw [getSlot_diffL, diffO_eq_spec]

/-- "including items whose value is 0, False, None, an empty string": a scalar item of `d1` that `d2`
does not have with an equal value is in the difference, whatever its truth value and whatever the level -/
theorem diff_keeps_scalar (lv : Int) (a b : Slots α) (k : Nat) (c : α)
    (ha : getSlot a k = some (.leaf c)) (hb : getSlot b k ≠ some (.leaf c)) :
    getSlot (difference truthy lv a b) k = some (.leaf c) := by
  have hab : a ≠ b := by
    intro h; subst h; exact hb ha
  unfold difference
  simp only [hab, if_false]
  split
  · exact ha
  · rw [getSlot_diffL, ha]
    cases hk : getSlot b k with
    | none => simp [diffO]
    | some w =>
      cases w with
      | leaf e =>
        have : ¬ c = e := by
          intro h; subst h; exact hb hk
        simp [diffO, this, isDict]
      | dict y => simp [diffO, isDict]

example : getSlot [L 0, L 5] 0 = some (.leaf 0) ∧ getSlot [L 1, L 5] 0 ≠ some (.leaf 0) ∧ tr 0 = false := by
  decide +kernel

/-- "… or an empty dictionary": an empty dictionary item of `d1` against a missing or non-dictionary
item of `d2` is in the difference -/
theorem diff_keeps_empty_dict (lv : Int) (a b : Slots α) (k : Nat) (x : Slots α)
    (ha : getSlot a k = some (.dict x)) (hb : ∀ y, getSlot b k ≠ some (.dict y)) :
    getSlot (difference truthy lv a b) k = some (.dict x) := by
  have hab : a ≠ b := by
    intro h; subst h; exact hb x ha
  unfold difference
  simp only [hab, if_false]
  split
  · exact ha
  · rw [getSlot_diffL, ha]
    cases hk : getSlot b k with
    | none => simp [diffO]
    | some w =>
      cases w with
      | leaf e => simp [diffO, isDict]
      | dict y => exact absurd hk (hb y)

example : difference tr 3 [D [none, none], none] [L 7, none] = [D [none, none], none] := by decide +kernel

/-- the difference is empty iff `d1` is contained in `d2` -/
theorem diff_empty_iff (lv : Int) (a b : Slots α) :
    nonEmpty (difference truthy lv a b) = false ↔ contained lv a b = true := by
  rw [diff_exact]
  unfold diffSpec contained
  by_cases h0 : lv = 0
  · simp only [h0, if_true]
    by_cases e : a = b
    · simp [e]
    · simp [e]
  · simp only [h0, if_false, diffSpecL_nonEmpty]
    simp

example : difference tr (-1) [D [L 0, none], none] [D [L 0, L 1], L 2] = [none, none] ∧
    contained (-1) [D [L 0, none], none] [D [L 0, L 1], L 2] = true := by decide +kernel

end diff

mutual
theorem diffSpecO_contained (lv : Int) : ∀ x y : Option (Val α), contO lv (diffSpecO lv x y) x = true
  | none, _ => by simp [diffSpecO, contO]
  | some v, none => by simp [diffSpecO, contO_refl]
  | some (.leaf a), some (.leaf b) => by
      by_cases e : a = b <;> simp [diffSpecO, contO, e]
  | some (.leaf a), some (.dict y) => by simp [diffSpecO, contO]
  | some (.dict x), some (.leaf b) => by simp [diffSpecO, contO]
  | some (.dict x), some (.dict y) => by
      simp only [diffSpecO]
      split
      · rw [contO]
      · split
        · exact contO_refl lv _
        · rename_i h1
          simp [contO, h1, diffSpecL_contained (lv - 1) x y]
theorem diffSpecL_contained (lv : Int) : ∀ a b : Slots α, contL lv (diffSpecL lv a b) a = true
  | [], _ => by simp [diffSpecL, contL]
  | x :: r, [] => by simp [diffSpecL, contL, diffSpecO_contained lv x none, diffSpecL_contained lv r []]
  | x :: r, y :: r' => by simp [diffSpecL, contL, diffSpecO_contained lv x y, diffSpecL_contained lv r r']
end

/-- the difference is a part of `d1` -/
theorem diff_contained (truthy : α → Bool) (lv : Int) (a b : Slots α) :
    contained lv (difference truthy lv a b) a = true := by
  rw [diff_exact]
  unfold diffSpec contained
  by_cases h0 : lv = 0
  · simp only [h0, if_true]
    split <;> simp
  · simp only [h0, if_false]
    exact diffSpecL_contained lv a b

/-- `difference` of values that are not both dictionaries returns the first one -/
theorem diffV_nondict (truthy : α → Bool) (lv : Int) (v w : Val α) (h : isDict v = false ∨ isDict w = false) :
    diffV truthy lv v w = v := by
  cases v <;> cases w <;> simp_all [diffV, isDict]

/-- for two dictionaries `diffV` is `difference` -/
theorem diffV_dict (truthy : α → Bool) (lv : Int) (a b : Slots α) :
    diffV truthy lv (.dict a) (.dict b) = .dict (difference truthy lv a b) := by
  unfold difference
  rw [diffV]
  split
  · rfl
  · split <;> rfl

/-! ## reconstruction -/

/-- "recursively updating the intersection with the difference reconstructs d1" — at every level,
for every truth-value assignment of leaves -/
theorem reconstruct (truthy : α → Bool) (n : Nat) (lv : Int) (a b : Slots α) :
    updL (interN n lv [a, b]) (difference truthy lv a b) = a := by
  rw [interN_pair]
  unfold inter2 difference interLevel0
  by_cases h0 : lv = 0
  · simp only [h0, if_true]
    by_cases e : a = b
    · subst e
      simp only [if_true, true_and]
      split
      · exact updL_of_empty_right a (emptyLike a) (by simp) (by simp)
      · rename_i hn
        rw [updL_of_empty_right (emptyLike a) (emptyLike a) rfl (by simp)]
        exact (eq_emptyLike_of_empty a (by simpa using hn)).symm
    · have e' : ¬ b = a := fun h => e h.symm
      simp only [e, e', false_and, if_false]
      exact updL_empty_left _ _ (by simp) (by simp)
  · simp only [h0, if_false]
    split
    · rename_i e
      subst e
      rw [interL_self]
      exact updL_of_empty_right a (emptyLike a) (by simp) (by simp)
    · exact recL truthy lv a b

example : interN 2 (-1) [[L 0, D [L 1, L 2]], [L 1, D [L 1, L 3]]] = [none, D [L 1, none]] ∧
    difference tr (-1) [L 0, D [L 1, L 2]] [L 1, D [L 1, L 3]] = [L 0, D [none, L 2]] ∧
    updL [none, D [L 1, none]] [L 0, D [none, L 2]] = [L 0, D [L 1, L 2]] := by decide +kernel

/-- the same through the entry point of `update_recursively` (no `LenaTypeError`) -/
theorem reconstruct_call (truthy : α → Bool) (n : Nat) (lv : Int) (a b : Slots α) :
    updateRecursively (.dict (interN n lv [a, b])) (.dict (difference truthy lv a b)) = .ok a := by
  simp [updateRecursively, reconstruct]

/-! ## update_recursively -/

/-- "update_recursively(d, other) makes other contained in d" (unlimited depth) -/
theorem update_contains (d o : Slots α) : contained (-1) o (updL d o) = true := by
  unfold contained
  simp only [show ¬ ((-1 : Int) = 0) by decide, if_false]
  exact updL_contains (-1) (by decide) d o

omit [DecidableEq α] in
/-- "… while keeping every item of d that other does not overwrite": an item of `d` at a path that
`other` leaves alone has the same value afterwards (and such a path absent from `d` stays absent) -/
theorem update_keeps (d o : Slots α) (p : List Nat) (h : untouchedL o p = true) :
    getPath (.dict (updL d o)) p = getPath (.dict d) p := updL_keeps p d o h

example : untouchedL [none, D [none, L 7]] [1, 0] = true ∧ untouchedL [none, D [none, L 7]] [0] = true ∧
    untouchedL [none, D [none, L 7]] [1, 1] = false ∧
    updL [L 0, D [L 1, L 2]] [none, D [none, L 7]] = [L 0, D [L 1, L 7]] := by decide +kernel

omit [DecidableEq α] in
/-- the keys afterwards are those of `d` and of `other` -/
theorem update_keys (d o : Slots α) (k : Nat) :
    (getSlot (updL d o) k).isSome = ((getSlot d k).isSome || (getSlot o k).isSome) := by
  rw [getSlot_updL]
  cases hd : getSlot d k with
  | none =>
    cases ho : getSlot o k with
    | none => simp [updO]
    | some w => cases w <;> simp [updO]
  | some v =>
    cases ho : getSlot o k with
    | none => simp [updO]
    | some w => cases v <;> cases w <;> simp [updO]

omit [DecidableEq α] in
/-- a scalar item of `other` overwrites whatever `d` had -/
theorem update_scalar_overwrites (d o : Slots α) (k : Nat) (c : α) (h : getSlot o k = some (.leaf c)) :
    getSlot (updL d o) k = some (.leaf c) := by
  rw [getSlot_updL, h]
  cases getSlot d k <;> simp [updO]

omit [DecidableEq α] in
mutual
theorem updO_self : ∀ (x : Option (Val α)), updO x x = x
  | none => by simp [updO]
  | some (.leaf a) => by simp [updO]
  | some (.dict y) => by simp [updO, updL_self y]
theorem updL_self : ∀ (a : Slots α), updL a a = a
  | [] => by simp [updL]
  | x :: r => by simp [updL, updO_self x, updL_self r]
end

omit [DecidableEq α] in
mutual
theorem updO_idem : ∀ (x y : Option (Val α)), updO (updO x y) y = updO x y
  | x, none => by simp [updO_none_right]
  | x, some (.leaf a) => by cases x <;> simp [updO]
  | none, some (.dict y) => by simp [updO, updL_self y]
  | some (.leaf _), some (.dict y) => by simp [updO, updL_idem (emptyLike y) y]
  | some (.dict x), some (.dict y) => by simp [updO, updL_idem x y]
theorem updL_idem : ∀ (d o : Slots α), updL (updL d o) o = updL d o
  | d, [] => by simp [updL]
  | [], y :: r' => by simp [updL, updO_idem none y, updL_idem [] r']
  | x :: r, y :: r' => by simp [updL, updO_idem x y, updL_idem r r']
end

omit [DecidableEq α] in
/-- updating twice with the same `other` changes nothing more -/
theorem update_idem (d o : Slots α) : updL (updL d o) o = updL d o := updL_idem d o

omit [DecidableEq α] in
/-- `LenaTypeError` exactly when an argument is not a dictionary -/
theorem update_error_iff (d o : Val α) :
    (updateRecursively d o = .lenaTypeError ↔ (isDict d = false ∨ isDict o = false)) ∧
    (∀ x y, d = .dict x → o = .dict y → updateRecursively d o = .ok (updL x y)) := by
  constructor
  · cases d <;> cases o <;> simp [updateRecursively, isDict]
  · intro x y hd ho; subst hd; subst ho; rfl

example : updateRecursively (.dict [L 0]) (.leaf 3) = (.lenaTypeError : Out (Slots Nat)) := by decide +kernel

/-! ## update_nested -/

omit [DecidableEq α] in
theorem nestL_eq_nestV (k : Nat) (dk : Val α) (o : Slots α) :
    nestV k dk (.dict o) = Out.map Val.dict (nestL k dk k o) := by
  rw [nestV]
  generalize nestL k dk k o = r
  cases r <;> simp [Out.map]

omit [DecidableEq α] in
/-- `update_nested` either succeeds or raises `TypeError`; afterwards `d[key]` is (the modified) `other`
— `other` itself when `d` had no `key` — and the other keys of `d` are untouched -/
theorem update_nested_ok (k : Nat) (d o : Slots α) :
    updateNested k d o ≠ .lenaTypeError ∧
    (getSlot d k = none → updateNested k d o = .ok (setSlot d k (some (.dict o)))) ∧
    (∀ d', updateNested k d o = .ok d' →
      (∃ o', getSlot d' k = some (.dict o')) ∧ ∀ j, j ≠ k → getSlot d' j = getSlot d j) := by
  unfold updateNested
  cases hk : getSlot d k with
  | none =>
    refine ⟨by simp, by simp, ?_⟩
    intro d' h
    simp only [Out.ok.injEq] at h
    subst h
    exact ⟨⟨o, getSlot_setSlot_eq d k _⟩, fun j hj => getSlot_setSlot_ne d k j _ hj⟩
  | some dk =>
    have hno := nestV_no_lenaTypeError k dk _ (.dict o) rfl
    rw [nestL_eq_nestV] at hno
    simp only []
    cases hn : nestL k dk k o with
    | ok o' =>
      refine ⟨by simp, by simp, ?_⟩
      intro d' h
      simp only [Out.ok.injEq] at h
      subst h
      exact ⟨⟨o', getSlot_setSlot_eq d k _⟩, fun j hj => getSlot_setSlot_ne d k j _ hj⟩
    | lenaTypeError => rw [hn] at hno; simp [Out.map] at hno
    | typeError => simp

omit [DecidableEq α] in
/-- "update_nested keeps the previous d[key] reachable under the new one": it sits below the new
`d[key]` after as many further `key`s as `other` had nested (`nestDepth`), plus one -/
theorem update_nested_keeps (k : Nat) (d o d' : Slots α) (dk : Val α)
    (hk : getSlot d k = some dk) (h : updateNested k d o = .ok d') :
    getPath (.dict d') (List.replicate (nestDepth k (.dict o) + 2) k) = some dk := by
  unfold updateNested at h
  rw [hk] at h
  simp only [] at h
  cases hn : nestL k dk k o with
  | ok o' =>
    rw [hn] at h
    simp only [Out.ok.injEq] at h
    subst h
    have hv : nestV k dk (.dict o) = .ok (.dict o') := by rw [nestL_eq_nestV, hn]; rfl
    rw [List.replicate_succ, getPath_cons_some _ _ _ _ (getSlot_setSlot_eq d k _)]
    exact nestV_reaches k dk _ (.dict o) (.dict o') rfl hv
  | lenaTypeError => rw [hn] at h; simp at h
  | typeError => rw [hn] at h; simp at h

-- `update_nested("k0", {"k0": 5}, {"k0": {"k1": 3}, "k1": 3})`: the previous 5 ends up at `k0.k0.k0`
example : updateNested 0 [L 5, none] [D [none, L 3], L 3] = .ok [D [D [L 5, L 3], L 3], none] ∧
    nestDepth 0 (.dict [D [none, L 3], L 3]) = 1 ∧
    getPath (.dict [D [D [L 5, L 3], L 3], none]) [0, 0, 0] = some (.leaf 5) := by decide +kernel

omit [DecidableEq α] in
/-- nothing of `other` is lost: every dictionary along the chain `other[key]…[key]` keeps its other keys -/
theorem update_nested_other_kept (k : Nat) (d o d' o' : Slots α)
    (h : updateNested k d o = .ok d') (ho : getSlot d' k = some (.dict o'))
    (i j : Nat) (hi : i ≤ nestDepth k (.dict o)) (hj : j ≠ k) :
    getPath (.dict o') (List.replicate i k ++ [j]) = getPath (.dict o) (List.replicate i k ++ [j]) := by
  unfold updateNested at h
  cases hk : getSlot d k with
  | none =>
    rw [hk] at h
    simp only [Out.ok.injEq] at h
    subst h
    rw [getSlot_setSlot_eq] at ho
    simp only [Option.some.injEq, Val.dict.injEq] at ho
    rw [ho]
  | some dk =>
    rw [hk] at h
    simp only [] at h
    cases hn : nestL k dk k o with
    | ok o'' =>
      rw [hn] at h
      simp only [Out.ok.injEq] at h
      subst h
      rw [getSlot_setSlot_eq] at ho
      simp only [Option.some.injEq, Val.dict.injEq] at ho
      subst ho
      have hv : nestV k dk (.dict o) = .ok (.dict o'') := by rw [nestL_eq_nestV, hn]; rfl
      exact nestV_keeps k dk _ (.dict o) (.dict o'') rfl hv i j hi hj
    | lenaTypeError => rw [hn] at h; simp at h
    | typeError => rw [hn] at h; simp at h

-- `update_nested("k0", {"k0": 5}, {"k0": {"k1": 3}, "k1": 3})`: the items "k1" of `other` and of `other["k0"]` are kept
example : getPath (.dict [D [L 5, L 3], L 3]) [1] = getPath (.dict [D [none, L 3], L 3]) [1] ∧
    getPath (.dict [D [L 5, L 3], L 3]) [0, 1] = getPath (.dict [D [none, L 3], L 3]) [0, 1] := by decide +kernel

omit [DecidableEq α] in
/-- `TypeError` exactly when `d` has the key and the chain `other[key]…[key]` ends in a value that is
not a dictionary (there is nowhere to put the previous value) -/
theorem update_nested_typeError_iff (k : Nat) (d o : Slots α) :
    updateNested k d o = .typeError ↔
      (getSlot d k).isSome = true ∧
        ∃ c, getPath (.dict o) (List.replicate (nestDepth k (.dict o)) k) = some (.leaf c) := by
  unfold updateNested
  cases hk : getSlot d k with
  | none => simp
  | some dk =>
    have := nestV_typeError_iff k dk _ (.dict o) rfl
    rw [nestL_eq_nestV] at this
    simp only [Option.isSome_some, true_and]
    rw [← this]
    generalize nestL k dk k o = r
    cases r <;> simp [Out.map]

example : updateNested 0 [L 5, none] [D [L 7, L 3], L 3] = .typeError ∧
    getPath (.dict [D [L 7, L 3], L 3]) (List.replicate (nestDepth 0 (.dict [D [L 7, L 3], L 3])) 0) = some (.leaf 7) := by
  decide +kernel

/-! ## levels -/

/-- containment with a limited recursion depth implies unlimited containment -/
theorem cont_level_unlimited (lv : Int) (a b : Slots α) (h : contained lv a b = true) :
    contained (-1) a b = true := by
  unfold contained at *
  simp only [show ¬ ((-1 : Int) = 0) by decide, if_false]
  by_cases h0 : lv = 0
  · simp [h0] at h
    rcases h with h | h
    · subst h; exact contL_refl _ _
    · exact contL_of_empty _ a b h
  · simp [h0] at h
    exact contL_unlimited lv (-1) (by decide) a b h

/-- the intersection with a limited level is a part of the unlimited one -/
theorem inter_level_le_unlimited (n : Nat) (lv : Int) (ds : List (Slots α)) (hne : ds ≠ []) :
    contained (-1) (interN n lv ds) (interN n (-1) ds) = true :=
  inter_greatest n (-1) ds _ hne (fun d hd => cont_level_unlimited lv _ _ (inter_lower n lv ds d hd))

/-! ## reconstruction from any common part (what `Zip._create_context` and `group_plots` rely on) -/

/-- if `c` is contained in `a`, updating `c` with `difference(a, c)` gives `a` back -/
theorem reconstruct_from_part (truthy : α → Bool) (n : Nat) (lv : Int) (a c : Slots α)
    (wa : WFD n a) (wc : WFD n c) (h : contained lv c a = true) :
    updL c (difference truthy lv a c) = a := by
  have h1 : interN n lv [a, c] = c := by
    rw [inter_comm n lv a c wa wc]
    exact (inter_eq_left_iff n lv c a wc wa).2 h
  have := reconstruct truthy n lv a c
  rwa [h1] at this

example : contained 2 [none, D [L 1, none]] [L 0, D [L 1, L 2]] = true ∧
    updL [none, D [L 1, none]] (difference tr 2 [L 0, D [L 1, L 2]] [none, D [L 1, none]]) = [L 0, D [L 1, L 2]] := by
  decide +kernel

/-- every argument of an n-ary intersection is the intersection updated with its own difference -/
theorem reconstruct_nary (truthy : α → Bool) (n : Nat) (lv : Int) (ds : List (Slots α))
    (hw : ∀ d ∈ ds, WFD n d) (d : Slots α) (hd : d ∈ ds) :
    updL (interN n lv ds) (difference truthy lv d (interN n lv ds)) = d :=
  reconstruct_from_part truthy n lv d _ (hw d hd) (inter_wf n lv ds hw) (inter_lower n lv ds d hd)


example : ∀ d ∈ [[L 0, D [L 1, L 2]], [L 0, D [L 1, L 3]], [L 4, D [L 1, none]]],
    updL (interN 2 1 [[L 0, D [L 1, L 2]], [L 0, D [L 1, L 3]], [L 4, D [L 1, none]]])
      (difference tr 1 d (interN 2 1 [[L 0, D [L 1, L 2]], [L 0, D [L 1, L 3]], [L 4, D [L 1, none]]])) = d :=
  reconstruct_nary tr 2 1 _ (forall_triple (wfd2 _ (by decide +kernel)) (wfd2 _ (by decide +kernel))
    (wfd2 _ (by decide +kernel)))

/-! ## a level above the nesting depth limits nothing -/

theorem LevelCovers.ne_zero {lv : Int} {k : Nat} (h : LevelCovers lv k) : lv ≠ 0 := by
  rcases h with h | h <;> omega

theorem foldl_inter2_level (lv lv' : Int) : ∀ (ds : List (Slots α)) (res : Slots α),
    LevelCovers lv (depthL res) → LevelCovers lv' (depthL res) →
    ds.foldl (inter2 lv) res = ds.foldl (inter2 lv') res
  | [], _, _, _ => rfl
  | d :: ds, res, h1, h2 => by
      simp only [List.foldl_cons]
      have e : inter2 lv res d = inter2 lv' res d := by
        unfold inter2
        simp only [h1.ne_zero, h2.ne_zero, if_false]
        exact interL_level lv lv' res d h1 h2
      rw [e]
      have hd : depthL (inter2 lv' res d) ≤ depthL res := by
        unfold inter2
        simp only [h2.ne_zero, if_false]
        exact depth_interL lv' res d
      exact foldl_inter2_level lv lv' ds _ (h1.mono hd) (h2.mono hd)

/-- "every recursion level": a level above the nesting depth of the first argument's items — like
every negative level — limits nothing: all such levels give the same intersection … -/
theorem level_covers_inter (n : Nat) (lv lv' : Int) (a : Slots α) (ds : List (Slots α))
    (h1 : LevelCovers lv (depthL a)) (h2 : LevelCovers lv' (depthL a)) :
    interN n lv (a :: ds) = interN n lv' (a :: ds) := by
  rw [interN_cons, interN_cons]
  exact foldl_inter2_level lv lv' ds a h1 h2

/-- … the same difference … -/
theorem level_covers_diff (truthy : α → Bool) (lv lv' : Int) (a b : Slots α)
    (h1 : LevelCovers lv (depthL a)) (h2 : LevelCovers lv' (depthL a)) :
    difference truthy lv a b = difference truthy lv' a b := by
  rw [diff_exact, diff_exact]
  unfold diffSpec
  simp only [h1.ne_zero, h2.ne_zero, if_false]
  exact diffSpecL_level lv lv' a b h1 h2

/-- … and the same containment -/
theorem level_covers_cont (lv lv' : Int) (a b : Slots α)
    (h1 : LevelCovers lv (depthL a)) (h2 : LevelCovers lv' (depthL a)) :
    contained lv a b = contained lv' a b := by
  unfold contained
  simp only [h1.ne_zero, h2.ne_zero, if_false]
  exact contL_level lv lv' a b h1 h2

example : depthL [L 0, D [L 1, D [none, none]]] = 2 ∧ LevelCovers 3 2 ∧ LevelCovers (-1) 2 ∧ ¬ LevelCovers 2 2 := by
  refine ⟨by decide +kernel, Or.inr (by decide), Or.inl (by decide), ?_⟩
  rintro (h | h) <;> omega
-- a level that does not exceed the depth does limit: level 2 against level 3 on items of depth 2
example : interN 2 2 [[L 0, D [L 1, D [L 5, L 6]]], [L 0, D [L 1, D [L 5, L 7]]]] = [L 0, D [L 1, none]] ∧
    interN 2 3 [[L 0, D [L 1, D [L 5, L 6]]], [L 0, D [L 1, D [L 5, L 7]]]] = [L 0, D [L 1, D [L 5, none]]] := by
  decide +kernel


/-! ## "as a deep copy", "d1 or some of its subdictionaries may be returned directly" (token model)

`Model/C07Tok.lean`: every mutable object has an identity; `c` is the first identity not in use when
the function is called, so the objects that exist before the call — the arguments among them — have
identities `< c`. -/

/-- the token model computes the same values as the value model -/
theorem interT_value (n : Nat) (lv : Int) (c t : Nat) (l0 : TSlots α) (ds : List (Slots α)) :
    eraseV (interT n lv c (some (t, l0)) ds).1 = .dict (interN n lv (eraseL l0 :: ds)) ∧
    eraseV (interT n lv c none ds).1 = .dict (Val.empty n : Slots α) := by
  constructor
  · simp only [interT, interN]
    rw [erase_interTFold, erase_copyL]
  · simp [interT, erase_emptyT, Val.empty]

/-- "intersection … as a deep copy": every mutable object reachable from the result was created
during the call … -/
theorem inter_is_copy (n : Nat) (lv : Int) (c : Nat) (d0 : Option (Nat × TSlots α)) (ds : List (Slots α)) :
    ∀ t ∈ toksV (interT n lv c d0 ds).1, c ≤ t := by
  cases d0 with
  | none =>
    intro t ht
    simp only [interT, emptyT, toksV, List.mem_cons] at ht
    rcases ht with ht | ht
    · omega
    · exact FreshL_replicate_none c n t ht
  | some p =>
    obtain ⟨t0, l0⟩ := p
    have hcp := copyL_fresh l0 (c + 1)
    simp only [interT]
    exact interTFold_fresh lv c c (Nat.le_refl _) ds _ _ (hcp.2.mono (by omega)) (by omega)

/-- … hence it shares nothing with any object that existed before (its arguments in particular) -/
theorem inter_shares_nothing (n : Nat) (lv : Int) (c : Nat) (d0 : Option (Nat × TSlots α)) (ds : List (Slots α))
    (old : List Nat) (hold : ∀ t ∈ old, t < c) :
    ∀ t ∈ toksV (interT n lv c d0 ds).1, t ∉ old := by
  intro t ht h
  have := inter_is_copy n lv c d0 ds t ht
  have := hold t h
  omega

-- `intersection({"a": 7, "b": {"a": [8]}}, {"a": 7, "b": {"a": [8], "b": 9}})`, objects 0, 1, 2 exist, 3 is the next identity:
-- the result is the new dictionary 3 (the deep copy; its parts 4, 5 are dropped again) holding the new objects 6, 7
-- that the recursive call made for key "b" (a copy of the copy)
example : toksV (interT 2 (-1) 3 (some (0, [some (.leaf [] 7), some (.dict 1 [some (.leaf [2] 8), none])]))
      [[some (.leaf 7), some (.dict [some (.leaf 8), some (.leaf 9)])]]).1 = [3, 6, 7] := by
  simp [interT, interTFold, interTL, interTO, copyL, copyV, eraseV, eraseL, toksV, toksL, nonEmpty]
example : ∀ t ∈ [0, 1, 2], t < 3 := by decide

/-- the token model of `difference` computes the same values as the value model -/
theorem diffT_value (truthy : α → Bool) (lv : Int) (v : TVal α) (w : Val α) (c : Nat) :
    eraseV (diffTV truthy lv v w c).1 = diffV truthy lv (eraseV v) w :=
  erase_diffTV truthy lv v w c

/-- "d1 or some of its subdictionaries may be returned directly": every mutable object reachable from the
difference is an object of `d1` or new — never one of `d2` or of anything else -/
theorem diff_objects (truthy : α → Bool) (lv : Int) (v : TVal α) (w : Val α) (c : Nat) :
    ∀ t ∈ toksV (diffTV truthy lv v w c).1, t ∈ toksV v ∨ c ≤ t :=
  (diffTV_from truthy lv v w c).2

-- `difference({"a": 7, "b": {"a": [8], "b": {}}}, {"a": 7, "b": {"a": [8], "b": 9}})`: two new dictionaries (4, 5)
-- and the empty dictionary object 3 of `d1` itself
example : toksV (diffTV (fun i => i != 0) (-1)
      (.dict 0 [some (.leaf [] 7), some (.dict 1 [some (.leaf [2] 8), some (.dict 3 [none, none])])])
      (.dict [some (.leaf 7), some (.dict [some (.leaf 8), some (.leaf 9)])]) 4).1 = [4, 5, 3] ∧
    eraseV (diffTV (fun i => i != 0) (-1)
      (.dict 0 [some (.leaf [] 7), some (.dict 1 [some (.leaf [2] 8), some (.dict 3 [none, none])])])
      (.dict [some (.leaf 7), some (.dict [some (.leaf 8), some (.leaf 9)])]) 4).1 =
      (.dict [none, some (.dict [none, some (.dict [none, none])])] : Val Nat) := by decide +kernel


/-! ## update_recursively with a string `other` and with `value` -/

omit [DecidableEq α] in
/-- `str_to_dict("k.k1.….km", value)` is the chain of singletons with `value` at the end of the path -/
theorem str_to_dict_value (n k : Nat) (ks : List Nat) (last : α) (v : Val α) :
    strToDict n false (k :: ks) last (some v) = .ok (single n k (chain n ks v)) ∧
    getPath (.dict (single n k (chain n ks v))) (k :: ks) = some v := by
  refine ⟨by simp [strToDict], ?_⟩
  rw [getPath_cons_some _ _ _ _ (getSlot_single_eq n k _)]
  exact getPath_chain n ks v

omit [DecidableEq α] in
/-- the malformed calls of `str_to_dict` raise `LenaValueError`; `str_to_dict("")` is `{}` -/
theorem str_to_dict_errors (n : Nat) (ks : List Nat) (k : Nat) (last : α) (v : Val α) :
    strToDict n true ks last (some v) = .lenaValueError ∧
    strToDict n true ks last none = .ok (Val.empty n) ∧
    strToDict n false [k] last none = .lenaValueError ∧
    strToDict n false (k :: ks ++ [k]) last none = .ok (single n k (chain n ks (.leaf last))) := by
  refine ⟨by simp [strToDict], by simp [strToDict], by simp [strToDict], ?_⟩
  cases ks with
  | nil => simp [strToDict]
  | cons h t =>
    simp only [strToDict, List.cons_append]
    rw [show h :: (t ++ [k]) = (h :: t) ++ [k] from rfl, List.dropLast_concat]
    simp

/-- `update_recursively(d, "k.k1.….km", value)` on a dictionary `d`: no error; `other` (the chain) is contained
in the result; a scalar `value` sits at the path; every item that the path leaves alone is kept -/
theorem update_str_value (n k : Nat) (ks : List Nat) (last : α) (v : Val α) (x : Slots α) :
    updateRecursivelyX n (.dict x) (.str false (k :: ks) last) (some v) =
      .ok (updL x (single n k (chain n ks v))) ∧
    contained (-1) (single n k (chain n ks v)) (updL x (single n k (chain n ks v))) = true ∧
    (∀ a, v = .leaf a → getPath (.dict (updL x (single n k (chain n ks v)))) (k :: ks) = some (.leaf a)) ∧
    (∀ p, untouchedL (single n k (chain n ks v)) p = true →
      getPath (.dict (updL x (single n k (chain n ks v)))) p = getPath (.dict x) p) := by
  refine ⟨by simp [updateRecursivelyX, strToDict], update_contains _ _, ?_, fun p h => update_keeps _ _ p h⟩
  intro a ha
  subst ha
  have hc := update_contains x (single n k (chain n ks (.leaf a)))
  unfold contained at hc
  simp only [show ¬ ((-1 : Int) = 0) by decide, if_false] at hc
  exact getPath_leaf_of_contL (-1) _ _ _ a hc (str_to_dict_value n k ks last (.leaf a)).2

omit [DecidableEq α] in
/-- which paths the string form leaves alone: those that leave the key path at some position -/
theorem update_str_leaves_alone (n k : Nat) (ks : List Nat) (v : Val α) (i j k0 : Nat) (q : List Nat)
    (hi : i < (k :: ks).length) (hk : (k :: ks)[i]? = some k0) (hj : j ≠ k0) :
    untouchedL (single n k (chain n ks v)) ((k :: ks).take i ++ j :: q) = true :=
  untouched_chain n (k :: ks) v i j q k0 _ rfl hi hk hj

example : updateRecursivelyX 3 (.dict [some (.leaf 5), some (.dict [none, some (.leaf 6), none]), none])
    (.str false [1, 2] 9) (some (.leaf (7 : Nat))) =
    .ok [some (.leaf 5), some (.dict [none, some (.leaf 6), some (.leaf 7)]), none] := by decide +kernel

omit [DecidableEq α] in
/-- the remaining argument forms: a `value` without a string `other` is a `LenaValueError` (whatever `d` is);
two dictionaries give the value of `update_recursively` above; anything else a `LenaTypeError` -/
theorem update_forms (n : Nat) (d o v : Val α) (x y : Slots α) :
    updateRecursivelyX n d (.val o) (some v) = .lenaValueError ∧
    updateRecursivelyX n (.dict x) (.val (.dict y)) none = .ok (updL x y) ∧
    (isDict d = false ∨ isDict o = false → updateRecursivelyX n d (.val o) none = .lenaTypeError) := by
  refine ⟨by simp [updateRecursivelyX], by simp [updateRecursivelyX], ?_⟩
  intro h
  cases d <;> cases o <;> simp_all [updateRecursivelyX, isDict]

/-- an unknown keyword argument of `intersection` is a `LenaTypeError`; without one the call is the one above -/
theorem intersection_kw (n : Nat) (lv : Int) (args : List (Val α)) :
    intersectionKw n true lv args = .lenaTypeError ∧ intersectionKw n false lv args = intersection n lv args := by
  unfold intersectionKw
  cases intersection n lv args <;> simp

/-! ## the `nested_dicts` test of update_nested -/

/-- "recursive *other* is forbidden": on a (finite) nested dictionary the test `d in nested_dicts` never fires -/
theorem nested_dicts_test_never_fires (k : Nat) (v : Val α) : mnV k [] v ≠ .lenaValueError :=
  mnV_no_valueError k v [] (by simp)

/-- `get_most_nested_subdict_with(key, other)` returns the dictionary `nestDepth` keys down, which has no `key`;
`TypeError` exactly when a non-dictionary is met there -/
theorem most_nested_spec (k : Nat) (v : Val α) :
    (mnV k [] v = .typeError ↔ ∃ a, getPath v (List.replicate (nestDepth k v) k) = some (.leaf a)) ∧
    (∀ r, mnV k [] v = .ok r →
      getPath v (List.replicate (nestDepth k v) k) = some (.dict r) ∧ getSlot r k = none) :=
  mnV_spec k _ v [] rfl (nested_dicts_test_never_fires k v)

example : mnV 0 [] (.dict [some (.dict [none, some (.leaf (3 : Nat))]), some (.leaf 3)]) = .ok [none, some (.leaf 3)] := by
  decide +kernel

/-! ## the callers: LenaSplit._get_context, group_plots, Zip._create_context, _update_with_group -/

/-- `LenaSplit._get_context` / the common context of `group_plots`: contained in every member, the greatest
such dictionary, and every member is the common context updated with its own difference -/
theorem split_context (truthy : α → Bool) (n : Nat) (ctxs : List (Slots α)) :
    (∀ c ∈ ctxs, contained (-1) (splitGetContext n ctxs) c = true) ∧
    (∀ g, ctxs ≠ [] → (∀ c ∈ ctxs, contained (-1) g c = true) → contained (-1) g (splitGetContext n ctxs) = true) ∧
    ((∀ c ∈ ctxs, WFD n c) → ∀ c ∈ ctxs,
      updL (splitGetContext n ctxs) (difference truthy (-1) c (splitGetContext n ctxs)) = c) :=
  ⟨fun c hc => inter_lower n (-1) ctxs c hc, fun g hne hg => inter_greatest n (-1) ctxs g hne hg,
   fun hw c hc => reconstruct_nary truthy n (-1) ctxs hw c hc⟩

/-- `group_plots`: the group context is the common context except at `output.changed`, which holds `True`/`False` -/
theorem group_context (truthy : α → Bool) (n o ch : Nat) (tt ff : α) (ctxs : List (Slots α)) :
    (∃ b : Bool, getPath (.dict (groupPlotsContext truthy n o ch tt ff ctxs)) [o, ch] =
        some (.leaf (if b then tt else ff))) ∧
    (∀ (p : List Nat) (b : Bool), untouchedL (single n o (chain n [ch] (.leaf (if b then tt else ff)))) p = true →
      getPath (.dict (groupPlotsContext truthy n o ch tt ff ctxs)) p =
        getPath (.dict (splitGetContext n ctxs)) p) := by
  constructor
  · unfold groupPlotsContext
    exact ⟨_, (update_str_value n o [ch] tt _ (interN n (-1) ctxs)).2.2.1 _ rfl⟩
  · intro p b hp
    unfold groupPlotsContext splitGetContext
    refine update_keeps _ _ p ?_
    -- the set of untouched paths does not depend on the leaf stored
    revert hp
    cases p with
    | nil => simp [untouchedL]
    | cons j q =>
      by_cases hj : j = o
      · subst hj
        simp only [untouchedL, getSlot_single_eq, chain]
        cases q with
        | nil => simp [untouchedL]
        | cons j' q' =>
          by_cases hj' : j' = ch
          · subst hj'; simp [untouchedL, getSlot_single_eq]
          · simp [untouchedL, getSlot_single_ne _ _ _ _ hj']
      · simp [untouchedL, getSlot_single_ne _ _ _ _ hj]

/-- `Zip._create_context`: when it sets `context.zip`, the parts are the differences from the common context and
every value is the common context updated with its part; `TypeError` exactly when some part is non-empty and the
common context already has the key `zip` (the tuple of parts cannot take the previous value in) -/
theorem zip_context (truthy : α → Bool) (n zipKey : Nat) (values : List (Slots α)) (hw : ∀ v ∈ values, WFD n v) :
    (zipCreateContext truthy n zipKey values = .typeError ↔
      (values.map (fun v => difference truthy 1 v (interN n 1 values))).any nonEmpty = true ∧
      (getSlot (interN n 1 values) zipKey).isSome = true) ∧
    (∀ z, zipCreateContext truthy n zipKey values = .ok z →
      z.common = interN n 1 values ∧
      (∀ ds, z.zip = some ds → ds = values.map (fun v => difference truthy 1 v z.common)) ∧
      (∀ v ∈ values, updL z.common (difference truthy 1 v z.common) = v) ∧
      (z.zip = none → ∀ v ∈ values, v = z.common)) := by
  constructor
  · unfold zipCreateContext
    simp only []
    split
    · split <;> simp_all
    · simp_all
  · intro z hz
    have hc : z.common = interN n 1 values := by
      unfold zipCreateContext at hz
      simp only [] at hz
      split at hz
      · split at hz
        · cases hz
        · cases hz; rfl
      · cases hz; rfl
    refine ⟨hc, ?_, ?_, ?_⟩
    · intro ds hds
      unfold zipCreateContext at hz
      simp only [] at hz
      split at hz
      · split at hz
        · cases hz
        · cases hz; simp at hds; rw [← hds]
      · cases hz; simp at hds
    · intro v hv
      rw [hc]
      exact reconstruct_nary truthy n 1 values hw v hv
    · intro hnone v hv
      have hall : (values.map (fun v => difference truthy 1 v (interN n 1 values))).any nonEmpty = false := by
        unfold zipCreateContext at hz
        simp only [] at hz
        split at hz
        · split at hz
          · cases hz
          · cases hz; simp at hnone
        · rename_i h; simpa using h
      have hv' : nonEmpty (difference truthy 1 v (interN n 1 values)) = false := by
        rw [List.any_eq_false] at hall
        have := hall (difference truthy 1 v (interN n 1 values)) (List.mem_map.2 ⟨v, hv, rfl⟩)
        simpa using this
      have h1 := (diff_empty_iff truthy 1 v (interN n 1 values)).1 hv'
      rw [hc]
      exact cont_antisymm 1 n _ _ (hw v hv) (inter_wf n 1 values hw) h1 (inter_lower n 1 values v hv)

/-- `_update_with_group`, the algebra step: if the common part of the new and the old intersection is in the
context, then after the update with `difference(new, old)` the whole new intersection is -/
theorem update_with_group_contains (truthy : α → Bool) (n : Nat) (ctx1 new old : Slots α)
    (h : contained (-1) (interN n (-1) [new, old]) ctx1 = true) :
    contained (-1) new (updL ctx1 (difference truthy (-1) new old)) = true := by
  have hrec := reconstruct truthy n (-1) new old
  unfold contained at *
  simp only [show ¬ ((-1 : Int) = 0) by decide, if_false] at *
  have := updL_mono (-1) (by decide) _ _ (difference truthy (-1) new old) h
  rwa [hrec] at this

/-- … in particular when the old intersection is contained in the context -/
theorem update_with_group_contains_old (truthy : α → Bool) (n : Nat) (ctx1 new old : Slots α)
    (h : contained (-1) old ctx1 = true) :
    contained (-1) new (updL ctx1 (difference truthy (-1) new old)) = true :=
  update_with_group_contains truthy n ctx1 new old
    (cont_trans (-1) _ _ _ (inter_lower n (-1) [new, old] old (by simp)) h)

/-- `_update_with_group` as a whole — the full statement: with the old intersection contained in the context,
afterwards the new intersection is.  It is FALSE in general: the function first overwrites `output.changed` with a
boolean, which may be an item of both intersections (witness below) -/
def update_with_group_result_full (α : Type) [DecidableEq α] : Prop :=
  ∀ (truthy : α → Bool) (n o ch : Nat) (tt ff : α) (ctx : Slots α) (newGrp : List (Slots α)) (oldInter : Slots α),
    contained (-1) oldInter ctx = true →
    contained (-1) (interN n (-1) newGrp) (updateWithGroup truthy n o ch tt ff ctx newGrp oldInter) = true

/-- the part that holds: when `output.changed` is not touched (neither the context nor a member has it) -/
theorem update_with_group_result_partial (truthy : α → Bool) (n o ch : Nat) (tt ff : α)
    (ctx : Slots α) (newGrp : List (Slots α)) (oldInter : Slots α)
    (hch : changed3 truthy ff (getRec2 ctx o ch :: newGrp.map (fun c => getRec2 c o ch)) = none)
    (hold : contained (-1) oldInter ctx = true) :
    contained (-1) (interN n (-1) newGrp) (updateWithGroup truthy n o ch tt ff ctx newGrp oldInter) = true := by
  unfold updateWithGroup
  simp only [hch]
  exact update_with_group_contains_old truthy n ctx _ oldInter hold

/-- the full statement fails: context, old and new intersection all `{"output": {"changed": "x"}}` (the leaf 5 below,
truthy): `output.changed` becomes `True` (the leaf 1) and the new intersection is no longer contained -/
theorem update_with_group_result_full_false : ¬ update_with_group_result_full Nat := by
  intro h
  have := h (fun i => i != 0) 2 0 1 1 0
    [some (.dict [none, some (.leaf 5)]), none] [[some (.dict [none, some (.leaf 5)]), none]]
    [some (.dict [none, some (.leaf 5)]), none] (by decide +kernel)
  revert this
  decide +kernel

example : changed3 (fun i => i != 0) 0 [none, (none : Option (Val Nat))] = none ∧
    changed3 (fun i => i != 0) 0 [some (.leaf 0), (none : Option (Val Nat))] = some false ∧
    changed3 (fun i => i != 0) 0 [some (.leaf 0), some (.leaf (1 : Nat))] = some true := by decide +kernel

private abbrev L' (n : Nat) : Option (Val Nat) := some (.leaf n)
example : contained (-1) [L' 1, none] [L' 1, L' 5] = true ∧
    updL [L' 1, L' 5] (difference (fun i => i != 0) (-1) [L' 1, L' 7] [L' 1, none]) = [L' 1, L' 7] := by
  decide +kernel


/-! ## what is mutated (write-log model, `Model/C07Mut.lean`)

`intersection` and `difference` store only into dictionaries they created (`inter_is_copy`, `diff_objects`:
their results consist of new objects and — for `difference` — untouched objects of `d1`).
`update_recursively(d, other)` changes `d` in place by design; `update_nested(key, d, other)` changes `d` and
one dictionary of `other` by design ("*other* is modified in general"). -/

omit [DecidableEq α] in
/-- the write-log model of `update_recursively` computes the value model's result (and raises when it does) -/
theorem update_mut_value (d other : TVal α) (c : Nat) :
    (updT d other c).map (fun st => eraseV st.val) =
      match updateRecursively (eraseV d) (eraseV other) with
      | .ok r => some (.dict r)
      | _ => none := by
  cases d with
  | leaf ts a => cases other <;> simp [updT, updateRecursively, eraseV]
  | dict t x =>
    cases other with
    | leaf ts a => simp [updT, updateRecursively, eraseV]
    | dict u y => simp [updT, updateRecursively, eraseV, erase_updTL]

omit [DecidableEq α] in
/-- `update_recursively(d, other)` stores only into `d` itself, into dictionaries reachable from `d`, and into
dictionaries it created (`{}` put in place of a scalar) … -/
theorem update_writes (t : Nat) (x y : TSlots α) (c : Nat) :
    ∀ w ∈ (updTL t x y c).log, w = t ∨ w ∈ dictToksL x ∨ c ≤ w :=
  (updTL_log t x y c).2

omit [DecidableEq α] in
/-- … hence never into an object of `other` (when `other` is separate from `d` and existed before the call) -/
theorem update_never_writes_other (t : Nat) (x y : TSlots α) (u c : Nat)
    (hsep : ∀ w ∈ toksV (.dict u y), w < c ∧ w ≠ t ∧ w ∉ dictToksL x) :
    ∀ w ∈ (updTL t x y c).log, w ∉ toksV (.dict u y) := by
  intro w hw hmem
  obtain ⟨h1, h2, h3⟩ := hsep w hmem
  rcases update_writes t x y c w hw with h | h | h
  · exact h2 h
  · exact h3 h
  · omega

-- the hypothesis holds for separate arguments: d = object 0 with a sub-dictionary 1, other = objects 2, 3, next identity 4
example : ∀ w ∈ toksV (.dict 2 [some (.dict 3 [some (.leaf [] (1 : Nat)), none]), none]),
    w < 4 ∧ w ≠ 0 ∧ w ∉ dictToksL [none, some (.dict 1 [none, none] : TVal Nat)] := by decide
-- … and it fails for the next call: after `update_recursively(d, other)` with `d = {}` the dictionary 3 of `other` is a
-- dictionary of `d` (it was stored, not copied), so a second update of `d` at that key writes into `other`'s object 3
example : dictToksL (updTL 0 [none, none] [some (.dict 3 [some (.leaf [] (1 : Nat)), none]), none] 4).val = [3] ∧
    (updTL 0 (updTL 0 [none, none] [some (.dict 3 [some (.leaf [] (1 : Nat)), none]), none] 4).val
      [some (.dict 5 [none, some (.leaf [] 2)]), none] 6).log = [3] := by decide +kernel

omit [DecidableEq α] in
/-- afterwards `d` consists of its own objects, of objects of `other` (stored as they are, not copied: later
changes of `other` show through) and of new dictionaries -/
theorem update_objects (t : Nat) (x y : TSlots α) (c : Nat) :
    ∀ w ∈ toksL (updTL t x y c).val, w ∈ toksL x ∨ w ∈ toksL y ∨ c ≤ w :=
  updTL_from t x y c

-- `update_recursively({"a": 1, "b": {}}, {"a": {"a": 2}, "b": {"a": [..]}})`, objects 0..5 exist: written are d (0),
-- the new dictionary 6 that replaces the scalar, and d's own sub-dictionary 1; the list 5 of `other` is shared
example : (updTL 0 [some (.leaf [] 1), some (.dict 1 [none, none])]
      [some (.dict 3 [some (.leaf [] 2), none]), some (.dict 4 [some (.leaf [5] 3), none])] 6).log = [0, 6, 1] ∧
    toksL (updTL 0 [some (.leaf [] (1 : Nat)), some (.dict 1 [none, none])]
      [some (.dict 3 [some (.leaf [] 2), none]), some (.dict 4 [some (.leaf [5] 3), none])] 6).val = [6, 1, 5] := by
  decide +kernel

/-- `difference` changes nothing: every dictionary object in its result is new, or is an object of `d1` with
everything below it exactly as in `d1` ("d1 and d2 remain unchanged; d1 or some of its subdictionaries may be
returned directly") -/
theorem diff_old_objects_intact (truthy : α → Bool) (lv : Int) (v : TVal α) (w : Val α) (c : Nat) :
    ∀ s ∈ subsV (diffTV truthy lv v w c).1, s ∈ subsV v ∨ IsNew c s :=
  diffTV_intact truthy lv v w c

omit [DecidableEq α] in
/-- `update_recursively` passes the objects of `other` on as they are: a dictionary object of `d` afterwards is
an object of `other` with everything below it unchanged, or one of `d`'s own dictionaries, or new -/
theorem update_other_objects_intact (t : Nat) (x y : TSlots α) (c : Nat) :
    ∀ s ∈ subsL (updTL t x y c).val,
      s ∈ subsL y ∨ (∃ u, rootTok s = some u ∧ (u ∈ dictToksL x ∨ c ≤ u)) :=
  updTL_intact t x y c

omit [DecidableEq α] in
/-- the write-log model of `update_nested` computes the value model's result (`none` = `TypeError`) -/
theorem update_nested_mut_value (k td : Nat) (x : TSlots α) (to : Nat) (y : TSlots α) :
    toOut ((updateNestedT k td x to y).map (fun p => match p.1 with
      | .dict _ l => eraseL l
      | .leaf _ _ => [])) = updateNested k (eraseL x) (eraseL y) :=
  erase_updateNestedT k td x to y

omit [DecidableEq α] in
/-- `update_nested(key, d, other)` stores into `d` (one item), and — when `d` had the key — into exactly one
dictionary of `other`: the most nested one along `key` (one item); nothing is written when it raises -/
theorem update_nested_writes (k td : Nat) (x : TSlots α) (to : Nat) (y : TSlots α) (d' : TVal α) (log : List Nat)
    (h : updateNestedT k td x to y = some (d', log)) :
    (getSlotT x k = none ∧ log = [td]) ∨
    (∃ w, (getSlotT x k).isSome = true ∧ log = [w, td] ∧ (w = to ∨ w ∈ dictToksL y)) := by
  unfold updateNestedT at h
  cases hk : getSlotT x k with
  | none =>
    rw [hk] at h
    simp only [Option.some.injEq, Prod.mk.injEq] at h
    exact Or.inl ⟨rfl, h.2.symm⟩
  | some dk =>
    rw [hk] at h
    simp only [] at h
    cases hn : nestTL k dk to k y with
    | none => rw [hn] at h; simp at h
    | some p =>
      rw [hn] at h
      simp only [Option.some.injEq, Prod.mk.injEq] at h
      exact Or.inr ⟨p.2, rfl, h.2.symm, nestTL_written k dk to k y p.1 p.2 (by rw [hn])⟩

-- `update_nested("k0", {"k0": 1}, {"k0": {"k1": 3}})`, d = object 0, other = 1, other["k0"] = 2: written are 2 and 0
example : (updateNestedT 0 0 [some (.leaf [] (1 : Nat)), none] 1 [some (.dict 2 [none, some (.leaf [] 3)]), none]).map
    (fun p => p.2) = some [2, 0] := by decide +kernel

/-! ## "none of these functions changes an argument it documents as unchanged": intersection and difference

Every argument carries identities (`interArgs`, `diffArgs`); `interArgsLog` / `diffArgsLog` list the identity of the
dictionary changed by each `del res[key]`, `res[key] = …`, `result[key] = …` that the call executes. -/

/-- `interArgs` computes the value model's intersection of the arguments -/
theorem interArgs_value (n : Nat) (lv : Int) (c t : Nat) (l0 : TSlots α) (rest : List (TVal α)) :
    eraseV (interArgs n lv c (.dict t l0 :: rest)).1 = .dict (interN n lv (eraseL l0 :: rest.map argSlots)) :=
  (interT_value n lv c t l0 (rest.map argSlots)).1

/-- `intersection`: "No dictionary or subdictionary is changed" — every store and every deletion goes into a
dictionary created during the call … -/
theorem inter_writes_only_new (lv : Int) (c : Nat) (args : List (TVal α)) :
    ∀ w ∈ interArgsLog lv c args, c ≤ w := by
  cases args with
  | nil => simp [interArgsLog]
  | cons a rest =>
    cases a with
    | leaf ts x => simp [interArgsLog]
    | dict t l0 =>
      simp only [interArgsLog]
      exact interWFold_new lv c c (Nat.le_refl _) _ _ _ (by have := (copyL_fresh l0 (c + 1)).1; omega)

/-- … hence no object of any argument (first or further) is written to -/
theorem inter_changes_no_argument (lv : Int) (c : Nat) (args : List (TVal α))
    (hold : ∀ a ∈ args, ∀ w ∈ toksV a, w < c) :
    ∀ w ∈ interArgsLog lv c args, ∀ a ∈ args, w ∉ toksV a := by
  intro w hw a ha hmem
  have := inter_writes_only_new lv c args w hw
  have := hold a ha w hmem
  omega

-- intersection({"a": 7, "b": {"a": [8]}}, {"a": 7, "b": {"a": [8], "b": 9}}, {"b": {}}), objects 0..9 exist: written are the
-- result (the new object 10: `res["b"] = …`, `del res["a"]`, `res["b"] = …`) and the copy made by the second recursive
-- call (the new object 15: `del res["a"]`)
example : (∀ a ∈ [TVal.dict 0 [some (.leaf [] 7), some (.dict 1 [some (.leaf [2] (8 : Nat)), none])],
      .dict 3 [some (.leaf [] 7), some (.dict 4 [some (.leaf [5] 8), some (.leaf [] 9)])],
      .dict 6 [none, some (.dict 9 [none, none])]], ∀ w ∈ toksV a, w < 10) ∧
    interArgsLog (-1) 10 [TVal.dict 0 [some (.leaf [] 7), some (.dict 1 [some (.leaf [2] (8 : Nat)), none])],
      .dict 3 [some (.leaf [] 7), some (.dict 4 [some (.leaf [5] 8), some (.leaf [] 9)])],
      .dict 6 [none, some (.dict 9 [none, none])]] = [10, 10, 15, 10] := by
  refine ⟨by decide, ?_⟩
  simp [interArgsLog, interWFold, interWL, interWO, interTL, interTO, copyL, copyV, eraseV, eraseL, argSlots, nonEmpty]

/-- `diffArgs` computes the value model's difference -/
theorem diffArgs_value (truthy : α → Bool) (lv : Int) (d1 d2 : TVal α) (c : Nat) :
    eraseV (diffArgs truthy lv d1 d2 c).1 = diffV truthy lv (eraseV d1) (eraseV d2) :=
  erase_diffTV truthy lv d1 (eraseV d2) c

/-- `difference`: "d1 and d2 remain unchanged" — every store goes into a dictionary created during the call … -/
theorem diff_writes_only_new (truthy : α → Bool) (lv : Int) (d1 d2 : TVal α) (c : Nat) :
    ∀ w ∈ diffArgsLog truthy lv d1 d2 c, c ≤ w :=
  diffWV_new truthy lv d1 (eraseV d2) c

/-- … hence no object of `d1` or `d2` is written to -/
theorem diff_changes_no_argument (truthy : α → Bool) (lv : Int) (d1 d2 : TVal α) (c : Nat)
    (hold : ∀ w, w ∈ toksV d1 ∨ w ∈ toksV d2 → w < c) :
    ∀ w ∈ diffArgsLog truthy lv d1 d2 c, w ∉ toksV d1 ∧ w ∉ toksV d2 := by
  intro w hw
  have := diff_writes_only_new truthy lv d1 d2 c w hw
  exact ⟨fun h => by have := hold w (Or.inl h); omega, fun h => by have := hold w (Or.inr h); omega⟩

example : diffArgsLog (fun i => i != 0) (-1)
      (.dict 0 [some (.leaf [] (7 : Nat)), some (.dict 1 [some (.leaf [2] 8), some (.dict 3 [none, none])])])
      (.dict 4 [some (.leaf [] 7), some (.dict 5 [some (.leaf [6] 8), some (.leaf [] 9)])]) 7 = [8, 7] := by
  decide +kernel

/-! ## finite levels without the level-indexed order

For `level ∈ {0, 1, 2, …}` the theorems `inter_lower` / `inter_greatest` / `diff_exact` are relative to
`contained level`, an order that was *read off the code and its docstring* ("if level is 1, the result contains those
subdictionaries which are equal"); with the ordinary, unlimited containment "the greatest dictionary contained in every
argument" is false for a finite level (`intersection({'a':{'b':1,'c':2}}, {'a':{'b':1}}, level=1) == {}`).  The
following characterisation does not use that order: level 0 and level 1 are given outright (`inter_level0`,
`inter_level1_key`), and every other level is the next lower level one dictionary down. -/

/-- the result at `level ∉ {0, 1}`, key by key: equal items are kept, two differing dictionaries are replaced by their
intersection at `level - 1`, everything else is dropped -/
theorem inter_level_step (n : Nat) (lv : Int) (h0 : lv ≠ 0) (h1 : lv ≠ 1) (a b : Slots α) (k : Nat) :
    getSlot (interN n lv [a, b]) k =
      match getSlot a k, getSlot b k with
      | some v, some w =>
        if w = v then some v
        else match v, w with
          | .dict x, .dict y => some (.dict (interN n (lv - 1) [x, y]))
          | _, _ => none
      | _, _ => none := by
  rw [inter_key n lv h0]
  cases ha : getSlot a k with
  | none => simp [interO]
  | some v =>
    cases hb : getSlot b k with
    | none => simp [interO]
    | some w =>
      cases v with
      | leaf x => cases w <;> simp [interO]
      | dict x =>
        cases w with
        | leaf y => simp [interO]
        | dict y =>
          simp only [interO, h1, if_false, interN_pair, inter2]

-- with the unlimited order the level-1 result is not the greatest common part: {'a': {'b': 1}} is contained in both
example : interN 2 1 [[some (.dict [some (.leaf (1 : Nat)), some (.leaf 2)]), none], [some (.dict [some (.leaf 1), none]), none]]
      = [none, none] ∧
    contained (-1) [some (.dict [some (.leaf (1 : Nat)), none]), none]
      [some (.dict [some (.leaf 1), some (.leaf 2)]), none] = true := by decide +kernel

/-! ## arguments with shared objects (one object reachable twice, within an argument or from two arguments)

The lattice theorems above are about values, and by value a dictionary `{"variable": s, "previous": s}` whose two items
are one object is the tree it unfolds to.  That the *code* computes the value of the unfolded tree is not automatic: it
prunes a copy in place, and `copy.deepcopy` keeps the sharing.  `Model/C07Share.lean` transcribes `intersection` with the
memoising copy on values whose identities may repeat. -/

omit [DecidableEq α] in
/-- `copy.deepcopy` (memoising) is the identity on values, whatever is shared -/
theorem deepcopy_memo_value (v : TVal α) (c : Nat) : eraseV (memoCopyV v c).1 = eraseV v :=
  erase_memoCopyV v c

omit [DecidableEq α] in
/-- `copy.deepcopy` preserves exactly the sharing of its argument: two objects of the copy are the same object iff
they are copies of the same object -/
theorem deepcopy_memo_sharing (v : TVal α) (c s t : Nat) (hs : s ∈ toksV v) :
    memoNew (firsts (toksV v)) c s = memoNew (firsts (toksV v)) c t ↔ s = t := by
  constructor
  · intro e
    exact memoIdx_inj s t _ ((mem_firsts s _).2 hs) (by simp only [memoNew] at e; omega)
  · rintro rfl; rfl

omit [DecidableEq α] in
/-- every object of the copy is new (`c ≤ · < next`): "as a deep copy" for arguments with shared objects -/
theorem deepcopy_memo_fresh (v : TVal α) (c : Nat) :
    ∀ u ∈ toksV (memoCopyV v c).1, c ≤ u ∧ u < (memoCopyV v c).2 := by
  intro u hu
  simp only [memoCopyV, toksV_renV, List.mem_map] at hu ⊢
  obtain ⟨s, hs, rfl⟩ := hu
  have := memoIdx_lt s _ ((mem_firsts s _).2 hs)
  simp only [memoNew]
  omega

omit [DecidableEq α] in
/-- the root of the copy of a dictionary that does not contain itself occurs exactly once in the copy, however much
is shared below it: it is the object `c`, and `c` is not among the objects of its items -/
theorem deepcopy_root_once (t : Nat) (l : TSlots α) (c : Nat) (h : AcyclicV (.dict t l)) :
    memoNew (firsts (t :: toksL l)) c t = c ∧ c ∉ toksL (memoCopyD t l c).1 := by
  constructor
  · simp [memoNew, firsts, memoIdx]
  · exact memoCopyD_root_not_inside t l c h.1

omit [DecidableEq α] in
/-- a store `res[key] = x` / `del res[key]` into an object that occurs only at the root changes that one slot and
nothing else — all stores of `intersection` are of this kind (`res` is the root of a copy made by the running call,
`deepcopy_root_once`), which is why `interSL` may compute slot by slot although the copy keeps the sharing -/
theorem store_root_once (t k : Nat) (x : Option (TVal α)) (l : TSlots α) (h : t ∉ toksL l) :
    storeV t k x (.dict t l) = .dict t (storeTop k x l) := by
  simp [storeV, storeL_not_mem t k x l h]

omit [DecidableEq α] in
/-- a store into an object that is not reachable changes nothing (the frame of `store_root_once`) -/
theorem store_elsewhere (t k : Nat) (x : Option (TVal α)) (v : TVal α) (h : t ∉ toksV v) : storeV t k x v = v :=
  storeV_not_mem t k x v h

/-- the loop `for key in res:` of `intersection`, executed as what it is — stores `res[key] = …` / `del res[key]` into the
ONE object `res`, each changing every place at which that object occurs (`storeV`) — computes slot by slot what `interSL`
computes, for every `res` that occurs only at its own root and is older than the objects created in the loop: no store
of `intersection` hits a second place, however much the items of `res` share -/
theorem inter_stores_hit_one_place (lv : Int) (t : Nat) (l : TSlots α) (d : Slots α) (c : Nat)
    (hc : t < c) (h : t ∉ toksL l) :
    interObjLoop lv t 0 l d (.dict t l) c = (.dict t (interSL lv l d c).1, (interSL lv l d c).2) := by
  simpa using interObjLoop_eq lv t l d [] c hc (by simp [toksL]) h

/-- `intersection(d1, d2, level)` with the loop executed as stores into the deep copy of `d1` — which keeps all the
sharing of `d1` (`deepcopy_memo_sharing`) — is `interS`, for every `d1` that does not contain itself -/
theorem inter_object_level (n : Nat) (lv : Int) (c t : Nat) (l0 : TSlots α) (b : TVal α)
    (h0 : lv ≠ 0) (hac : AcyclicV (.dict t l0)) :
    interObj2 lv c t l0 (argSlotsS b) = interS n lv c [.dict t l0, b] := by
  have hr := memoCopyD_range t l0 c
  have hroot := memoCopyD_root_not_inside t l0 c hac.1
  simp only [interObj2, interS, List.map, interSFold, h0, if_false]
  rw [inter_stores_hit_one_place lv c _ _ _ hr.1 hroot]
  split <;> rfl

/-- `intersection` of arguments with shared objects has the value of `intersection` of the unfolded trees: sharing —
within the first argument, within the others, between them — does not influence the result -/
theorem inter_shared_value (n : Nat) (lv : Int) (c t : Nat) (l0 : TSlots α) (rest : List (TVal α)) :
    eraseV (interS n lv c (.dict t l0 :: rest)).1 = .dict (interN n lv (eraseL l0 :: rest.map argSlotsS)) := by
  simp only [interS, interN]
  rw [erase_interSFold, erase_memoCopyD]

/-- … and consists of new objects only: it shares nothing with any argument ("as a deep copy") -/
theorem inter_shared_is_copy (n : Nat) (lv : Int) (c : Nat) (args : List (TVal α)) :
    ∀ u ∈ toksV (interS n lv c args).1, c ≤ u := by
  cases args with
  | nil =>
    intro u hu
    simp only [interS, emptyT, toksV, List.mem_cons] at hu
    rcases hu with hu | hu
    · omega
    · exact FreshL_replicate_none c n u hu
  | cons a rest =>
    cases a with
    | leaf ts x =>
      intro u hu
      simp only [interS, emptyT, toksV, List.mem_cons] at hu
      rcases hu with hu | hu
      · omega
      · exact FreshL_replicate_none c n u hu
    | dict t l0 =>
      have hr := memoCopyD_range t l0 c
      simp only [interS]
      exact interSFold_fresh lv c c (Nat.le_refl _) _ _ _ (memoCopyD_fresh t l0 c) (by omega)

-- the adversary's example: d1 = {"previous": s, "variable": s} with ONE object s = {"name": 0, "unit": 1} (identity 1),
-- d2 = {"previous": {"name": 0, "unit": 1}, "variable": {"name": 0}}; alphabet name, previous, unit, variable; next identity 5.
-- The value is the greatest common part {"previous": s, "variable": {"name": 0}}; "previous" is still the copy (object 6)
-- of s made with d1, "variable" the new object 7 that the recursive call made
private def sShared : TVal Nat := .dict 1 [some (.leaf [] 0), none, some (.leaf [] 1), none]
private def d1Shared : TVal Nat := .dict 0 [none, some sShared, none, some sShared]
private def d2Tree : TVal Nat :=
  .dict 2 [none, some (.dict 3 [some (.leaf [] 0), none, some (.leaf [] 1), none]), none,
           some (.dict 4 [some (.leaf [] 0), none, none, none])]
example : (interS 4 (-1) 5 [d1Shared, d2Tree]).1 =
    .dict 5 [none, some (.dict 6 [some (.leaf [] 0), none, some (.leaf [] 1), none]), none,
             some (.dict 7 [some (.leaf [] 0), none, none, none])] := by
  simp [interS, interSFold, interSL, interSO, memoCopyD, memoNew, memoIdx, firsts, renL, renV, sShared, d1Shared, d2Tree,
    argSlotsS, eraseV, eraseL, toksV, toksL, nonEmpty]
-- the same by executing the loop as stores into the copy (object 5)
example : (interObj2 (-1) 5 0 [none, some sShared, none, some sShared] (argSlotsS d2Tree)).1 =
    .dict 5 [none, some (.dict 6 [some (.leaf [] 0), none, some (.leaf [] 1), none]), none,
             some (.dict 7 [some (.leaf [] 0), none, none, none])] := by
  rw [inter_object_level 4 (-1) 5 0 _ d2Tree (by decide) (by simp [AcyclicV, AcyclicL, sShared, toksL, toksV])]
  simp [interS, interSFold, interSL, interSO, memoCopyD, memoNew, memoIdx, firsts, renL, renV, sShared, d2Tree,
    argSlotsS, eraseV, eraseL, toksV, toksL, nonEmpty]
example : AcyclicV d1Shared := by simp [AcyclicV, AcyclicL, d1Shared, sShared, toksL, toksV]
-- the copy of d1 keeps the sharing: both items are the new object 6
example : (memoCopyV d1Shared 5).1 =
    .dict 5 [none, some (.dict 6 [some (.leaf [] 0), none, some (.leaf [] 1), none]), none,
             some (.dict 6 [some (.leaf [] 0), none, some (.leaf [] 1), none])] := by
  simp [memoCopyV, memoNew, memoIdx, firsts, renL, renV, sShared, d1Shared, toksV, toksL]
-- … so pruning the copy's item "variable" in place (`del res["variable"]["unit"]` on object 6, what `store_root_once`
-- excludes) would also prune "previous": a store into an object that occurs twice changes both places
example : storeV 6 2 none (memoCopyV d1Shared 5).1 =
    .dict 5 [none, some (.dict 6 [some (.leaf [] 0), none, none, none]), none,
             some (.dict 6 [some (.leaf [] 0), none, none, none])] := by
  simp [memoCopyV, memoNew, memoIdx, firsts, renL, renV, sShared, d1Shared, toksV, toksL, storeV, storeL, storeTop]

end Lena.C07
