import LenaModel.Model.C08
/-! # C08 — property theorems -/
namespace Lena.C08
end Lena.C08
